/-
Line-protocol driver (LNodes cluster): one s-expression request per line on stdin,
one reply per line on stdout.  Imports only core-Lean models, so it is a native executable.
-/
import FfcxModel.Driver.Loop
import FfcxModel.Driver.Exec
import FfcxModel.Driver.Simp
import FfcxModel.Driver.Static
import FfcxModel.Driver.Scope
import FfcxModel.Driver.Dtype

open Ffcx

def dispatch (req : Sexp) : Except String Sexp :=
  match req with
  | .list (.atom cmd :: args) =>
    match cmd with
    | "ping" => .ok (.atom "pong")
    | "exec" => Driver.handleExec args
    | "reads" => Driver.handleReads args
    | "simp" => Driver.handleSimp args
    | "pure" => Driver.handlePure args
    | "threads" => Driver.handleThreads args
    | "hop" => Driver.handleHop args
    | "hopmod" => Driver.handleHopMod args
    | "scoped" => Driver.handleScoped args
    | "scopecert" => Driver.handleScopeCert args
    | "dtypecert" => Driver.handleDtypeCert args
    | "mentions" => Driver.handleMentions args
    | "floatprod" => Driver.handleFloatProd args
    | "miglobal" => Driver.handleMiGlobal args
    | _ => .error s!"unknown command {cmd}"
  | _ => .error "request must be a list"

def main : IO Unit := Driver.run dispatch
