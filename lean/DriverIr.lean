/- Line-protocol driver of the IR cluster (see lakefile.toml): element tables, scalar graphs,
argument factorisation (C01, C10).

Requests (one s-expression per line):
  (ping)
  (clamp rtol atol v…)                               → (ok v'…)
  (classify rtol atol (dims P E Q D) v…)             → (ok ttype is_permuted (dims P' E' Q' D') (values …)
                                                          (reads …) (allperms b) (nred k))
       `reads`: `tableAccess (compress t) p e q d` for every (p,e,q,d) of the UNcompressed shape,
       row-major (`none` = read outside the compressed array)
  (access ttype is_permuted p e q d)                 → (ok p' e' q' d')
  (factorize <graph> rank)                           → (ok (F node…) (factors (comp (key…) fi)…)
                                                          (nodefacs (((key…) fi)…)…) (argidx …)) | (err name …)
  (evalgraph <graph> (args (pos v)…) (terms (id v)…)) → (ok v0 v1 …)
  (wf <graph> rank)                                  → (ok wf wfStrict closed arity)
Graphs: (graph (nodes (n <kind> dep…)…) (targets (i comp…)…)); kinds:
  (arg pos number) (term id) zero (int v) (float v) (complex re im) sum prod div conj real imag abs cond
  (condition NAME) (op NAME)
-/
import FfcxModel.Driver.Loop
import FfcxModel.IR.Tables
import FfcxModel.IR.Graph
import FfcxModel.IR.Factorize

open Ffcx Ffcx.IR

namespace IrDriver

def ofRatList (xs : List Rat) : List Sexp := xs.map Sexp.ofRat

def parseDims (s : Sexp) : Except String (Nat × Nat × Nat × Nat) := do
  match s with
  | .list [.atom "dims", p, e, q, d] => pure (← p.asNat, ← e.asNat, ← q.asNat, ← d.asNat)
  | _ => throw "expected (dims P E Q D)"

def parseTType (s : String) : Except String TType :=
  match s with
  | "zeros" => pure .zeros | "ones" => pure .ones | "quadrature" => pure .quadrature
  | "fixed" => pure .fixed | "piecewise" => pure .piecewise | "uniform" => pure .uniform
  | "varying" => pure .varying
  | _ => throw s!"unknown ttype {s}"

def cmdClamp (args : List Sexp) : Except String Sexp := do
  match args with
  | rt :: at_ :: vs =>
    let rtol ← rt.asRat
    let atol ← at_.asRat
    let xs ← vs.mapM Sexp.asRat
    pure (.list (.atom "ok" :: ofRatList (xs.map (clamp rtol atol))))
  | _ => throw "clamp: rtol atol v…"

def cmdClassify (args : List Sexp) : Except String Sexp := do
  match args with
  | rt :: at_ :: dims :: vs =>
    let rtol ← rt.asRat
    let atol ← at_.asRat
    let (P, E, Q, D) ← parseDims dims
    let xs ← vs.mapM Sexp.asRat
    if xs.length ≠ P * E * Q * D then throw "classify: wrong number of values"
    let t := Table.ofFlat P E Q D xs.toArray
    let c := compress rtol atol t
    let reads := Id.run do
      let mut out : Array Sexp := Array.mkEmpty (P * E * Q * D)
      for p in [0:P] do
        for e in [0:E] do
          for q in [0:Q] do
            for d in [0:D] do
              out := out.push (match tableAccess c p e q d with
                | some v => Sexp.ofRat v
                | none => .atom "none")
      return out
    let allp := classifiedOnAllPerms rtol atol c.ttype t
    let nred := (if c.ttype.isPiecewise then 1 else 0) + (if c.ttype.isUniform then 1 else 0) +
      (if c.isPermuted then 0 else 1)
    pure (.list [.atom "ok", .atom c.ttype.name, Sexp.ofBool c.isPermuted,
      .list [.atom "dims", Sexp.ofNat c.table.P, Sexp.ofNat c.table.E, Sexp.ofNat c.table.Q,
        Sexp.ofNat c.table.D],
      .list (.atom "values" :: ofRatList c.table.toFlat.toList),
      .list (.atom "reads" :: reads.toList),
      .list [.atom "allperms", Sexp.ofBool allp],
      .list [.atom "nred", Sexp.ofNat nred]])
  | _ => throw "classify: rtol atol (dims P E Q D) v…"

def cmdAccess (args : List Sexp) : Except String Sexp := do
  match args with
  | [tt, perm, p, e, q, d] =>
    let ttype ← parseTType (← tt.asAtom)
    let c : Compressed := { ttype, isPermuted := ← perm.asBool, table := Table.ofFlat 0 0 0 0 #[] }
    let (p', e', q', d') := accessIndex c (← p.asNat) (← e.asNat) (← q.asNat) (← d.asNat)
    pure (.list [.atom "ok", Sexp.ofNat p', Sexp.ofNat e', Sexp.ofNat q', Sexp.ofNat d'])
  | _ => throw "access: ttype is_permuted p e q d"

/-! graphs -/

def parseKind (s : Sexp) : Except String Kind := do
  match s with
  | .atom "zero" => pure .zero
  | .atom "sum" => pure .sum
  | .atom "prod" => pure .prod
  | .atom "div" => pure .div
  | .atom "conj" => pure .conj
  | .atom "real" => pure .real
  | .atom "imag" => pure .imag
  | .atom "abs" => pure .abs
  | .atom "cond" => pure .cond
  | .list [.atom "arg", p, n] => pure (.arg (← p.asNat) (← n.asNat))
  | .list [.atom "term", i] => pure (.term (← i.asNat))
  | .list [.atom "int", v] => pure (.lit true (← v.asRat))
  | .list [.atom "float", v] => pure (.lit false (← v.asRat))
  | .list [.atom "complex", a, b] => pure (.clit (← a.asRat) (← b.asRat))
  | .list [.atom "condition", n] => pure (.condition (← n.asAtom))
  | .list [.atom "op", n] => pure (.op (← n.asAtom))
  | _ => throw s!"bad kind {s}"

def kindSexp : Kind → Sexp
  | .zero => .atom "zero" | .sum => .atom "sum" | .prod => .atom "prod" | .div => .atom "div"
  | .conj => .atom "conj" | .real => .atom "real" | .imag => .atom "imag" | .abs => .atom "abs"
  | .cond => .atom "cond"
  | .arg p n => .list [.atom "arg", Sexp.ofNat p, Sexp.ofNat n]
  | .term i => .list [.atom "term", Sexp.ofNat i]
  | .lit true v => .list [.atom "int", Sexp.ofRat v]
  | .lit false v => .list [.atom "float", Sexp.ofRat v]
  | .clit a b => .list [.atom "complex", Sexp.ofRat a, Sexp.ofRat b]
  | .condition n => .list [.atom "condition", .atom n]
  | .op n => .list [.atom "op", .atom n]

def parseNode (s : Sexp) : Except String Node := do
  match s with
  | .list (.atom "n" :: k :: ds) => pure { kind := ← parseKind k, deps := ← ds.mapM Sexp.asNat }
  | _ => throw "bad node"

def nodeSexp (n : Node) : Sexp := .list (.atom "n" :: kindSexp n.kind :: n.deps.map Sexp.ofNat)

def parseGraph (s : Sexp) : Except String Graph := do
  match s with
  | .list [.atom "graph", .list (.atom "nodes" :: ns), .list (.atom "targets" :: ts)] =>
    let nodes ← ns.mapM parseNode
    let targets ← ts.mapM fun t => do
      match t with
      | .list (i :: cs) => pure (← i.asNat, ← cs.mapM Sexp.asNat)
      | _ => throw "bad target"
    pure { nodes := nodes.toArray, targets }
  | _ => throw "expected (graph (nodes …) (targets …))"

def keySexp (k : Key) : Sexp := .list (k.map Sexp.ofNat)
def dictSexp (d : Dict) : Sexp := .list (d.map fun kv => .list [keySexp kv.1, Sexp.ofNat kv.2])

def errSexp : FErr → Sexp
  | .nonlinear c => .list [.atom "err", .atom "nonlinear", .atom c]
  | .sumRank => .list [.atom "err", .atom "sumRank"]
  | .divByArg => .list [.atom "err", .atom "divByArg"]
  | .condInCondition => .list [.atom "err", .atom "condInCondition"]
  | .condNonzeroBranch => .list [.atom "err", .atom "condNonzeroBranch"]
  | .condEmptyKey => .list [.atom "err", .atom "condEmptyKey"]
  | .sumArgFree => .list [.atom "err", .atom "sumArgFree"]
  | .targetArgFree => .list [.atom "err", .atom "targetArgFree"]
  | .divisionByZero => .list [.atom "err", .atom "divisionByZero"]
  | .malformed w => .list [.atom "err", .atom "malformed", .atom w]

def cmdFactorize (args : List Sexp) : Except String Sexp := do
  match args with
  | [g, r] =>
    let S ← parseGraph g
    let rank ← r.asNat
    match factorize S rank with
    | .error e => pure (errSexp e)
    | .ok res =>
      pure (.list [.atom "ok",
        .list (.atom "F" :: res.F.toList.map nodeSexp),
        .list (.atom "factors" :: (FResult.factors res).flatMap fun (c, d) =>
          d.map fun kv => .list [Sexp.ofNat c, keySexp kv.1, Sexp.ofNat kv.2]),
        .list (.atom "nodefacs" :: res.nodeFacs.toList.map dictSexp),
        .list (.atom "argidx" :: res.argIndices.map Sexp.ofNat)])
  | _ => throw "factorize: graph rank"

def parseAssoc (tag : String) (s : Sexp) : Except String (List (Nat × Rat)) := do
  match s with
  | .list (.atom t :: ps) =>
    if t ≠ tag then throw s!"expected ({tag} …)"
    ps.mapM fun p => do
      match p with
      | .list [i, v] => pure (← i.asNat, ← v.asRat)
      | _ => throw "bad pair"
  | _ => throw s!"expected ({tag} …)"

def assocFn (l : List (Nat × Rat)) : Nat → Rat :=
  let n := l.foldl (fun m p => max m (p.1 + 1)) 0
  let arr := l.foldl (fun (a : Array Rat) p => a.setIfInBounds p.1 p.2) (Array.replicate n 0)
  fun i => arr[i]?.getD 0

def cmdEvalGraph (args : List Sexp) : Except String Sexp := do
  match args with
  | [g, a, t] =>
    let S ← parseGraph g
    let ρ := ratEnv (assocFn (← parseAssoc "args" a)) (assocFn (← parseAssoc "terms" t))
    pure (.list (.atom "ok" :: ofRatList (evalNodes ρ S.nodes).toList))
  | _ => throw "evalgraph: graph (args …) (terms …)"

def cmdWf (args : List Sexp) : Except String Sexp := do
  match args with
  | [g, r] =>
    let S ← parseGraph g
    let rank ← r.asNat
    let wf := match factorize S rank with
      | .ok res => wfCheck S rank res
      | .error _ => false
    pure (.list [.atom "ok", Sexp.ofBool wf, Sexp.ofBool (wfStrict S.nodes),
      Sexp.ofBool (closedB S.nodes), Sexp.ofBool (arityB S.nodes)])
  | _ => throw "wf: graph rank"

end IrDriver

def dispatch (req : Sexp) : Except String Sexp :=
  match req with
  | .list (.atom cmd :: args) =>
    match cmd with
    | "ping" => .ok (.atom "pong")
    | "clamp" => IrDriver.cmdClamp args
    | "classify" => IrDriver.cmdClassify args
    | "access" => IrDriver.cmdAccess args
    | "factorize" => IrDriver.cmdFactorize args
    | "evalgraph" => IrDriver.cmdEvalGraph args
    | "wf" => IrDriver.cmdWf args
    | _ => .error s!"unknown command {cmd}"
  | _ => .error "request must be a list"

def main : IO Unit := Driver.run dispatch
