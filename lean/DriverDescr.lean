/- Line-protocol driver of the backend-descriptor cluster (C18 descriptor half; see lakefile.toml and
FfcxModel/Driver/Descr.lean for the request grammar). -/
import FfcxModel.Driver.Loop
import FfcxModel.Driver.Descr

open Ffcx

def dispatch (req : Sexp) : Except String Sexp :=
  match req with
  | .list (.atom "ping" :: _) => .ok (.atom "pong")
  | .list (.atom cmd :: args) => Driver.handleDescr cmd args
  | _ => .error "request must be a list"

def main : IO Unit := Driver.run dispatch
