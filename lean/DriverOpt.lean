/- Line-protocol driver of the optimiser cluster (see lakefile.toml). -/
import FfcxModel.Driver.Loop
import FfcxModel.Driver.Opt
import FfcxModel.Driver.Exec

open Ffcx

def dispatch (req : Sexp) : Except String Sexp :=
  match req with
  | .list (.atom cmd :: args) =>
    match cmd with
    | "ping" => .ok (.atom "pong")
    | "opt_ping" => .ok (.atom "pong-opt")
    | "exec" => Driver.handleExec args
    | "optimize" => Driver.handleOptimize args
    | "fuse_sections" => Driver.handleFuseSections args
    | "fuse_loops" => Driver.handleFuseLoops args
    | "licm" => Driver.handleLicm args
    | "check_dependency" => Driver.handleCheckDependency args
    | "pyeq" => Driver.handlePyEq args
    | "opt_cert" => Driver.handleOptCert args
    | "licm_candidates" => Driver.handleLicmCandidates args
    | "hashable" => Driver.handleHashable args
    | _ => .error s!"unknown command {cmd}"
  | _ => .error "request must be a list"

def main : IO Unit := Driver.run dispatch
