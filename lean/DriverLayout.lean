/- Line-protocol driver of the Layout cluster (C04 descriptor, C05 layout, C06).

Requests (one s-expression per line)                      reply
  (ping)                                                  pong
  (types)                                                 ((integralDataTypes…) (formIrTypes…) ((name value)…))
  (width <integral type>)                                 1 | 2
  (coeffoff <width> (<dim>…))                             ((<offset>…) <total>)
  (tensorsizes <integral type> (<arg dim>…) <diagonalise> (<coeff dim>…) ((<const extent>…)…) <nodes> <needs perm>)
                                                          ((<tensor_shape>…) <A> <w> <c> <coords> <local_index> <permutation>)
  (tensorsizesexpr <num points> (<value shape>…) (<arg dim>…) (<coeff dim>…) ((<const extent>…)…) <nodes> <needs perm>)
                                                          (<A> <w> <c> <coords> <local_index> <permutation>)
  (constoff ((<extent>…)…))                               ((<offset>…) <total>)
  (flatcomp (<extent>…) (<index>…))                       (<in range: true|false> <flat index>)
  (constaccess ((<extent>…)…) <k> (<index>…))             <index into c>
  (origpos (<orig id>…) (<reduced id>…))                  ((<position>…) (<surviving index>…))
  (argsortok (<id>…) (<perm>…))                           true | false          — `IsArgsort`
  (intdata (<group>…))      group = (<entry>…), entry = (<id> <name> (<domain tag>…))
        → ((<name>…) (<id>…) (<offset>…) ((<domain tag>…)…) (<kernel count per group>…) <delimits: true|false>)
          (stable argsort; comparable only up to reordering inside runs of equal ids)
  (intdatap ((<perm>…)…) (<group>…))   the same with the given argsort results (NumPy's actual output), plus a
        trailing <all perms satisfy IsArgsort: true|false>
  (emit ((<perm>…)…) (<group>…))      the tables `C/form.py` emits for a FormIR with the given argsort results:
        → ((<kernel>…) (<id>…) (<offset>…) ((<id> <name> <tag>)…))   kernel = (<integral name> <domain tag>) for `&name_tag`
          (`emitKernels`, `emitIds`, `offsets`, `emit` of the argsorted, concatenated groups)
  (formir (<itg>…))         itg = (<integral type> (<id>|otherwise …) <name> (<domain tag>…))
        → (ok (<group>…)) | (error <message>)
  (coeffaccess <width> (<dim>…) <k> <dof>)                <index into w> <in block k: true|false>   — `coeffAccess`
  (readonly …) (coefreads …) (exprstores …) (evali …)     see FfcxModel/Driver/ReadOnly.lean
  (exprdesc <tdim>|none <num points> <pdim> (<value shape>…) (<arg dim>…) (<orig coeff id>…) (<coeff id>…)
            ((<const extent>…)…) <num constants after preprocessing>)
        → (ok (<num_points> <entity_dimension> (<value_shape>…) <num_components> <rank> <num_coefficients>
               <num_constants> (<original_coefficient_positions>…) <entity_type> <size of A>)) | (error <message>)
-/
import FfcxModel.Driver.Loop
import FfcxModel.Driver.ReadOnly
import FfcxModel.IR.Layout
import FfcxModel.Generated.IntegralTypes

open Ffcx Ffcx.Layout

namespace LayoutDriver

def nats (s : Sexp) : Except String (List Nat) := do (← s.asList).mapM Sexp.asNat
def ints (s : Sexp) : Except String (List Int) := do (← s.asList).mapM Sexp.asInt
def natss (s : Sexp) : Except String (List (List Nat)) := do (← s.asList).mapM nats

def ofNats (xs : List Nat) : Sexp := .list (xs.map Sexp.ofNat)
def ofInts (xs : List Int) : Sexp := .list (xs.map Sexp.ofInt)

def entry (s : Sexp) : Except String Entry := do
  match ← s.asList with
  | [i, n, d] => pure ⟨← i.asInt, ← n.asAtom, ← nats d⟩
  | _ => .error "entry = (id name (domains))"

def group (s : Sexp) : Except String Group := do (← s.asList).mapM entry

def ofEntry (e : Entry) : Sexp := .list [.ofInt e.id, .atom e.name, ofNats e.domains]

def subId (s : Sexp) : Except String SubId := do
  let a ← s.asAtom
  if a == "otherwise" then pure .otherwise else pure (.num (← s.asInt))

def itg (s : Sexp) : Except String ItgData := do
  match ← s.asList with
  | [t, sids, n, d] =>
    let tn ← t.asAtom
    pure ⟨Generated.formIrTypes.idxOf tn, ← (← sids.asList).mapM subId, ← n.asAtom, ← nats d⟩
  | _ => .error "itg = (type (ids) name (domains))"

/-- executable `Delimits` -/
def delimitsB (offs counts : List Nat) : Bool :=
  offs.length == counts.length + 1 &&
    (List.range (counts.length + 1)).all (fun t => offs[t]? == some (counts.take t).sum)

def optNat (s : Sexp) : Except String (Option Nat) := do
  match s with
  | .atom "none" => pure none
  | _ => pure (some (← s.asNat))

end LayoutDriver

open LayoutDriver in
def dispatch (req : Sexp) : Except String Sexp :=
  match Driver.ReadOnly.handle req with
  | some r => r
  | none =>
  match req with
  | .list (.atom cmd :: args) =>
    match cmd, args with
    | "ping", _ => .ok (.atom "pong")
    | "types", _ => .ok (.list [
        .list (Generated.integralDataTypes.map .atom), .list (Generated.formIrTypes.map .atom),
        .list (Generated.ufcxIntegralTypeEnum.map (fun p => .list [.atom p.1, .ofNat p.2]))])
    | "width", [t] => do pure (.ofNat (widthOf (← t.asAtom)))
    | "coeffoff", [w, ds] => do
      let w ← w.asNat
      let ds ← nats ds
      pure (.list [ofNats (coeffOffsets w ds), .ofNat (coeffTotal w ds)])
    | "tensorsizes", [t, ad, dg, ds, cs, nd, np] => do
      let t ← t.asAtom
      let sh := integralTensorShape t (← nats ad) (← dg.asBool)
      let s := tensorSizesIntegral t sh (← nats ds) (← natss cs) (← nd.asNat) (← np.asBool)
      pure (.list [ofNats sh, .ofNat s.A, .ofNat s.w, .ofNat s.c, .ofNat s.coords, .ofNat s.localIndex, .ofNat s.permutation])
    | "tensorsizesexpr", [p, sh, ad, ds, cs, nd, np] => do
      let s := tensorSizesExpr (← p.asNat) (← nats sh) (← nats ad) (← nats ds) (← natss cs) (← nd.asNat) (← np.asBool)
      pure (.list [.ofNat s.A, .ofNat s.w, .ofNat s.c, .ofNat s.coords, .ofNat s.localIndex, .ofNat s.permutation])
    | "constoff", [ss] => do
      let ss ← natss ss
      pure (.list [ofNats (constOffsets ss), .ofNat (constTotal ss)])
    | "flatcomp", [sh, ix] => do
      let sh ← nats sh
      let ix ← nats ix
      pure (.list [.ofBool (decide (sh.length = ix.length) && (sh.zip ix).all (fun p => p.2 < p.1)),
                   .ofNat (flatComponent sh ix)])
    | "constaccess", [ss, k, ix] => do
      pure (.ofNat (constAccess (← natss ss) (← k.asNat) (← nats ix)))
    | "origpos", [o, r] => do
      let o ← ints o
      let r ← ints r
      pure (.list [ofNats (origPositions o r), ofNats (survivingIdx (fun a => decide (a ∈ r)) o)])
    | "argsortok", [ids, p] => do pure (.ofBool (isArgsortB (← ints ids) (← nats p)))
    | "intdata", [gs] => do
      let gs ← (← gs.asList).mapM group
      let d := intDataStable gs
      let counts := gs.map kernelCount
      pure (.list [.list (d.names.map .atom), ofInts d.ids, ofNats d.offsets,
                   .list (d.domains.map ofNats), ofNats counts, .ofBool (delimitsB d.offsets counts)])
    | "intdatap", [ps, gs] => do
      let gs ← (← gs.asList).mapM group
      let ps ← (← ps.asList).mapM nats
      let d := intData ps gs
      let counts := gs.map kernelCount
      let okp := ps.length == gs.length &&
        (ps.zip gs).all (fun p => isArgsortB (p.2.map (·.id)) p.1)
      pure (.list [.list (d.names.map .atom), ofInts d.ids, ofNats d.offsets,
                   .list (d.domains.map ofNats), ofNats counts, .ofBool (delimitsB d.offsets counts), .ofBool okp])
    | "emit", [ps, gs] => do
      let gs ← (← gs.asList).mapM group
      let ps ← (← ps.asList).mapM nats
      let sorted := List.zipWith sortGroup ps gs
      let es := sorted.flatten
      pure (.list [.list ((emitKernels es).map (fun p => .list [.atom p.1, .ofNat p.2])), ofInts (emitIds es),
                   ofNats (offsets sorted),
                   .list ((emit es).map (fun r => .list [.ofInt r.1, .atom r.2.1, .ofNat r.2.2]))])
    | "coeffaccess", [w, ds, k, dof] => do
      let w ← w.asNat
      let ds ← nats ds
      let k ← k.asNat
      let a := coeffAccess w ds k (← dof.asNat)
      let off := (coeffOffsets w ds).getD k 0
      pure (.list [.ofNat a, .ofBool (decide (off ≤ a) && decide (a < off + w * ds.getD k 0))])
    | "formir", [is] => do
      let is ← (← is.asList).mapM itg
      match formIR Generated.formIrTypes.length is with
      | .ok gs => pure (.list [.atom "ok", .list (gs.map (fun g => .list (g.map ofEntry)))])
      | .error m => pure (.list [.atom "error", .atom m])
    | "exprdesc", [td, np, pd, sh, ad, oc, c, cs, nc] => do
      let e : ExprIn := { tdim := ← optNat td, numPoints := ← np.asNat, pdim := ← pd.asNat, shape := ← nats sh,
                          argDims := ← nats ad, origCoeffs := ← nats oc, coeffs := ← nats c,
                          origConstShapes := ← natss cs, numConstsReduced := ← nc.asNat }
      match exprDesc e with
      | .ok d => pure (.list [.atom "ok", .list [.ofNat d.numPoints, .ofNat d.entityDimension, ofNats d.valueShape,
                   .ofNat d.numComponents, .ofNat d.rank, .ofNat d.numCoefficients, .ofNat d.numConstants,
                   ofNats d.origPositions, .atom d.entityType, .ofNat d.sizeA]])
      | .error m => pure (.list [.atom "error", .atom m])
    | _, _ => .error s!"unknown command or bad arity: {cmd}"
  | _ => .error "request must be a list"

def main : IO Unit := Driver.run dispatch
