/- Driver command for the scope certificates (C19 soundness: FfcxProofs/C19Sound.lean). -/
import FfcxModel.LNodes.Wire
import FfcxModel.LNodes.ScopedSem

namespace Ffcx.Driver
open Ffcx Ffcx.LNodes

/-- `(scopecert stmt)` →
    `(ok <flatCert> (scoped <bool>) (kinds <bool>) (clob ok n…) | (clob err n))`:
    `flatCert` = the certificate of `kernel_flat_faithful`; `clob ok n…` lists the visible names whose
    flat value is stale at the end of the kernel (sorted, distinct), `clob err n` names the
    identifier that is used while the flat store holds the value of an inner variable. -/
def handleScopeCert (args : List Sexp) : Except String Sexp := do
  match args with
  | [stmt] =>
    let s ← readStmt stmt
    let isScoped := match scopedKernel s with | .ok _ => true | .error _ => false
    let clob : Sexp := match clobS kernelScope [] s with
      | .ok D =>
        let sorted := D.toArray.qsort (· < ·)
        let dedup := sorted.foldl (fun (acc : Array String) n =>
          if acc.isEmpty || acc.back! != n then acc.push n else acc) #[]
        .list (.atom "clob" :: .atom "ok" :: dedup.toList.map .atom)
      | .error n => .list [.atom "clob", .atom "err", .atom n]
    return .list [.atom "ok", Sexp.ofBool (flatCert s),
      .list [.atom "scoped", Sexp.ofBool isScoped],
      .list [.atom "kinds", Sexp.ofBool (kindsS (kindOf s) s)], clob]
  | _ => throw "scopecert: expected (scopecert stmt)"

/-- dispatch hook: `none` if the command is not one of this file's -/
def Scope.handle : Sexp → Option (Except String Sexp)
  | .list (.atom "scopecert" :: args) => some (handleScopeCert args)
  | _ => none

end Ffcx.Driver
