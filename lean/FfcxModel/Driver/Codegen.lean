/- Driver commands of the codegen cluster (model of `generate_block_parts`, C01). -/
import FfcxModel.LNodes.Wire
import FfcxModel.Codegen.Block
import FfcxModel.Codegen.Spec
import FfcxModel.Codegen.Partition
import FfcxModel.Codegen.Definitions

namespace Ffcx.Driver
open Ffcx Ffcx.LNodes Ffcx.Codegen

namespace CG

def readRestr (s : Sexp) : Except String Restr := do
  match ← s.asAtom with
  | "none" => return .none
  | "plus" => return .plus
  | "minus" => return .minus
  | a => throw s!"bad restriction {a}"

/-- `(tref name ttype ndofs offset blockSize isPermuted none|((fname n)…))` -/
def readTRef (s : Sexp) : Except String TableRef := do
  match s with
  | .list [.atom "tref", name, tt, nd, off, bs, perm, fac] =>
    let factors ← match fac with
      | .atom "none" => pure none
      | .list fs => do
        let l ← fs.mapM (fun f => do
          match f with
          | .list [n, k] => pure ((← n.asAtom), (← k.asNat))
          | _ => throw "bad tensor factor")
        pure (some l)
      | _ => throw "bad factors"
    return { name := ← name.asAtom, ttype := ← tt.asAtom, ndofs := ← nd.asNat, offset := ← off.asInt,
             blockSize := ← bs.asInt, isPermuted := ← perm.asBool, factors := factors }
  | _ => throw s!"bad tref {s.toStr.take 80}"

/-- `(rule id nweights none|(n…))` -/
def readRule (s : Sexp) : Except String QRule := do
  match s with
  | .list [.atom "rule", id, nw, fac] =>
    let factors ← match fac with
      | .atom "none" => pure none
      | .list fs => pure (some (← fs.mapM Sexp.asNat))
      | _ => throw "bad rule factors"
    return { id := ← id.asAtom, nweights := ← nw.asNat, factors := factors }
  | _ => throw s!"bad rule {s.toStr.take 80}"

/-- `(arg tref restriction)` -/
def readArg (s : Sexp) : Except String ArgDesc := do
  match s with
  | .list [.atom "arg", t, r] => return { table := ← readTRef t, restriction := ← readRestr r }
  | _ => throw s!"bad arg {s.toStr.take 80}"

/-- `(block (ttype…) (arg…) nFactorComps factorIndex afp transposed f)` -/
def readBlock (s : Sexp) : Except String BlockData := do
  match s with
  | .list [.atom "block", tts, args, nfc, fi, afp, tr, f] =>
    return { ttypes := ← (← tts.asList).mapM Sexp.asAtom, args := ← (← args.asList).mapM readArg,
             nFactorComps := ← nfc.asNat, factorIndex := ← fi.asNat, allFactorsPiecewise := ← afp.asBool,
             transposed := ← tr.asBool, f := ← readExpr f }
  | _ => throw s!"bad block {s.toStr.take 80}"

/-- `(group rule custom entityType diagonal (aShape…) (bmLen…) (block…))` -/
def readGroup (s : Sexp) : Except String GroupDesc := do
  match s with
  | .list [.atom "group", r, cu, et, dg, ash, bml, bs] =>
    return { rule := ← readRule r, custom := ← cu.asBool, entityType := ← et.asAtom,
             diagonal := ← dg.asBool, aShape := ← (← ash.asList).mapM Sexp.asNat,
             bmLens := ← (← bml.asList).mapM Sexp.asNat, blocks := ← (← bs.asList).mapM readBlock }
  | _ => throw s!"bad group {s.toStr.take 80}"

/-- `(state ((ruleid factorIndex afp name)…) counter)` -/
def readState (s : Sexp) : Except String GenState := do
  match s with
  | .list [.atom "state", cache, cnt] =>
    let c ← (← cache.asList).mapM (fun e => do
      match e with
      | .list [id, fi, afp, nm] => pure (((← id.asAtom), (← fi.asNat), (← afp.asBool)), (← nm.asAtom))
      | _ => throw "bad cache entry")
    return { cache := c, counter := ← cnt.asNat }
  | _ => throw s!"bad state {s.toStr.take 80}"

def writeState (st : GenState) : Sexp :=
  .list [.atom "state",
    .list (st.cache.map (fun (k, n) =>
      .list [.atom k.1, Sexp.ofNat k.2.1, Sexp.ofBool k.2.2, .atom n])),
    Sexp.ofNat st.counter]

/-- `(eblock ((int…)…) (ttype…) (arg…) entityType transposed ((f comp)…) numPoints components (tensorShape…))` -/
def readExprBlock (s : Sexp) : Except String ExprBlockDesc := do
  match s with
  | .list [.atom "eblock", bm, tts, args, et, tr, fcs, np, comps, ts] =>
    let blockmap ← (← bm.asList).mapM (fun b => do (← b.asList).mapM Sexp.asInt)
    let args ← (← args.asList).mapM (fun a => do
      let a ← readArg a
      pure ({ table := a.table, restriction := a.restriction } : ExprArg))
    let fcs ← (← fcs.asList).mapM (fun p => do
      match p with
      | .list [f, c] => pure ((← readExpr f), (← c.asInt))
      | _ => throw "bad fcs entry")
    return { blockmap := blockmap, ttypes := ← (← tts.asList).mapM Sexp.asAtom, args := args,
             entityType := ← et.asAtom, transposed := ← tr.asBool, fcs := fcs, numPoints := ← np.asNat,
             components := ← comps.asNat, tensorShape := ← (← ts.asList).mapM Sexp.asNat }
  | _ => throw s!"bad eblock {s.toStr.take 80}"

def result {α} (w : α → List Sexp) : Codegen.M α → Sexp
  | .ok a => .list (.atom "ok" :: w a)
  | .error e => .list [.atom "raise", .atom e]

end CG

open CG

/-- `(gen_block_parts group state)` → `(ok (quadpart…) (intermediate…) state')` | `(raise E)` -/
def handleGenBlockParts (args : List Sexp) : Except String Sexp := do
  match args with
  | [g, st] =>
    let g ← readGroup g
    let st ← readState st
    return result (fun (q, i, st') =>
      [.list (q.map writeStmt), .list (i.map writeStmt), writeState st']) (genBlockParts g st)
  | _ => throw "gen_block_parts: expected (gen_block_parts group state)"

/-- `(gen_groups (group…) state)` → like `gen_block_parts`, for all groups of one rule -/
def handleGenGroups (args : List Sexp) : Except String Sexp := do
  match args with
  | [gs, st] =>
    let gs ← (← gs.asList).mapM readGroup
    let st ← readState st
    return result (fun (q, i, st') =>
      [.list (q.map writeStmt), .list (i.map writeStmt), writeState st']) (genGroups st gs)
  | _ => throw "gen_groups: expected (gen_groups (group…) state)"

/-- `(quad_loop rule (definition…) (intermediate0…) (tensorcomp…) (fw…))` → `(ok (code…) loop)` -/
def handleQuadLoop (args : List Sexp) : Except String Sexp := do
  match args with
  | [r, defs, i0, tc, fw] =>
    let rule ← readRule r
    let code := quadLoopCode (← (← defs.asList).mapM readStmt) (← (← i0.asList).mapM readStmt)
      (← (← tc.asList).mapM readStmt) (← (← fw.asList).mapM readStmt)
    return .list [.atom "ok", .list (code.map writeStmt), writeStmt (genQuadLoop rule code)]
  | _ => throw "quad_loop: expected (quad_loop rule defs inter0 tensorcomp fw)"

/-- `(wrap_loop rule (code…))` → `(ok loop)`: `create_nested_for_loops([iq], code)` -/
def handleWrapLoop (args : List Sexp) : Except String Sexp := do
  match args with
  | [r, code] =>
    return .list [.atom "ok", writeStmt (genQuadLoop (← readRule r) (← (← code.asList).mapM readStmt))]
  | _ => throw "wrap_loop: expected (wrap_loop rule (code…))"

/-- `(gen_expr_block eblock)` → `(ok stmt…)` | `(raise E)` -/
def handleGenExprBlock (args : List Sexp) : Except String Sexp := do
  match args with
  | [d] => return result (·.map writeStmt) (genExprBlock (← readExprBlock d))
  | _ => throw "gen_expr_block: expected (gen_expr_block eblock)"

/-- `(block_wf group state)` → the decidable side conditions of `genBlock_spec` on this description -/
def handleBlockWf (args : List Sexp) : Except String Sexp := do
  match args with
  | [g, st] =>
    let g ← readGroup g
    let st ← readState st
    return .list [.atom "ok",
      .list [.atom "regular", Sexp.ofBool (regularGroup g)],
      .list [.atom "names", Sexp.ofBool (namesOk g st)],
      .list [.atom "covers", Sexp.ofBool (coversA g)],
      .list [.atom "injective", Sexp.ofBool (injectiveBlocks g)],
      .list [.atom "diagonal", Sexp.ofBool (diagonalGroup g)],
      .list [.atom "coincident", Sexp.ofBool (coincidentMaps g)],
      .list [.atom "tensor", Sexp.ofBool (tensorGroupB g st)]]
  | _ => throw "block_wf: expected (block_wf group state)"

/-- `(loop_wf (group…) state (fw…))` → the decidable side conditions of `quadLoop_spec` /
    `kernel_meets_spec_partial` on all groups of one rule and on the `fw` declarations -/
def handleLoopWf (args : List Sexp) : Except String Sexp := do
  match args with
  | [gs, st, fw] =>
    let gs ← (← gs.asList).mapM readGroup
    let st ← readState st
    let fw ← (← fw.asList).mapM readStmt
    match gs with
    | [] => return .list [.atom "ok", .list [.atom "empty", Sexp.ofBool true]]
    | g :: _ =>
      return .list [.atom "ok",
        .list [.atom "groups", Sexp.ofBool (groupsOkB g.rule g.aShape st gs)],
        .list [.atom "fwdecls", Sexp.ofBool (fwDeclsOk fw)],
        .list [.atom "fwlinked", Sexp.ofBool (fwLinkedB fw st gs)]]
  | _ => throw "loop_wf: expected (loop_wf (group…) state (fw…))"

def readMSym (s : Sexp) : Except String MSym := do
  match s with
  | .list [.atom "py", n] => return .py (← n.asInt)
  | e => return .ex (← readExpr e)

def writeMSym : MSym → Sexp
  | .py n => .list [.atom "py", Sexp.ofInt n]
  | .ex e => writeExpr e

/-- `(pnode idx active (literal e)|(terminal access)|(operator cls handler (op…)))` -/
def readPNode (s : Sexp) : Except String PNode := do
  match s with
  | .list [.atom "pnode", i, a, k] =>
    let kind ← match k with
      | .list [.atom "literal", e] => pure (PKind.literal (← readExpr e))
      | .list [.atom "terminal", e] => pure (PKind.terminal (← readMSym e))
      | .list [.atom "operator", c, h, ops] =>
        pure (PKind.operator (← c.asAtom) (← h.asAtom) (← (← ops.asList).mapM Sexp.asNat))
      | _ => throw "bad pnode kind"
    return { idx := ← i.asNat, active := ← a.asBool, kind := kind }
  | _ => throw s!"bad pnode {s.toStr.take 80}"

/-- `(gen_partition integral symbol (pnode…) ((idx expr)…))` → `(ok (intermediate…) ((idx expr)…))` -/
def handleGenPartition (args : List Sexp) : Except String Sexp := do
  match args with
  | [integral, sym, nodes, scope] =>
    let nodes ← (← nodes.asList).mapM readPNode
    let scope ← (← scope.asList).mapM (fun p => do
      match p with
      | .list [i, e] => pure ((← i.asNat), (← readMSym e))
      | _ => throw "bad scope entry")
    match genPartition (← integral.asBool) (← sym.asAtom) nodes nodes scope [] with
    | .error e => return .list [.atom "raise", .atom e]
    | .ok (inter, sc) =>
      return .list [.atom "ok", .list (inter.map writeStmt),
        .list (sc.map (fun (i, e) => .list [Sexp.ofNat i, writeMSym e]))]
  | _ => throw "gen_partition: expected (gen_partition integral symbol (pnode…) (scope…))"

/-- `(ssa_ok (stmt…))` → `(ok bool)`: the side condition of `partition_ssa` -/
def handleSsaOk (args : List Sexp) : Except String Sexp := do
  match args with
  | [ss] => return .list [.atom "ok", Sexp.ofBool (ssaOk (← (← ss.asList).mapM readStmt))]
  | _ => throw "ssa_ok: expected (ssa_ok (stmt…))"

def optOf {α} (f : Sexp → Except String α) (s : Sexp) : Except String (Option α) :=
  match s with
  | .atom "none" => pure none
  | x => do return some (← f x)

/-- `(mt (mro…) (bases…) averaged|none restr (gd…) (ld…) gdim (comp…) flat cellname (auxdof…))` -/
def readMt (s : Sexp) : Except String MtDesc := do
  match s with
  | .list [.atom "mt", mro, bases, av, r, gd, ld, gdim, comp, flat, cell, aux] =>
    return { mro := ← (← mro.asList).mapM Sexp.asAtom, bases := ← (← bases.asList).mapM Sexp.asAtom,
             averaged := ← optOf Sexp.asAtom av, restriction := ← readRestr r,
             globalDerivs := ← (← gd.asList).mapM Sexp.asNat, localDerivs := ← (← ld.asList).mapM Sexp.asNat,
             gdim := ← gdim.asNat, component := ← (← comp.asList).mapM Sexp.asNat,
             flatComponent := ← flat.asNat, cellname := ← cell.asAtom,
             auxDofs := ← (← aux.asList).mapM Sexp.asNat }
  | _ => throw s!"bad mt {s.toStr.take 80}"

/-- `(ctx entityType custom rule|none coeffNumber|none coeffOffset|none constOffset|none jnum numScalarDofs)` -/
def readCtx (s : Sexp) : Except String DefCtx := do
  match s with
  | .list [.atom "ctx", et, cu, rule, cn, co, ko, jn, nsd] =>
    return { entityType := ← et.asAtom, custom := ← cu.asBool, rule := ← optOf readRule rule,
             coeffNumber := ← optOf Sexp.asNat cn, coeffOffset := ← optOf Sexp.asInt co,
             constOffset := ← optOf Sexp.asInt ko, jnum := ← jn.asNat, numScalarDofs := ← nsd.asNat }
  | _ => throw s!"bad ctx {s.toStr.take 80}"

/-- `(gen_access ctx mt tref|none)` → `(ok access)` | `(raise E)` -/
def handleGenAccess (args : List Sexp) : Except String Sexp := do
  match args with
  | [c, m, t] =>
    return result (fun a => [writeMSym a]) (genAccess (← readCtx c) (← readMt m) (← optOf readTRef t))
  | _ => throw "gen_access: expected (gen_access ctx mt tref)"

/-- `(gen_definition ctx mt tref|none access)` → `(ok)` for `[]`, `(ok section)` | `(raise E)` -/
def handleGenDefinition (args : List Sexp) : Except String Sexp := do
  match args with
  | [c, m, t, a] =>
    return result (fun o => match o with | some s => [writeStmt s] | none => [])
      (genDefinition (← readCtx c) (← readMt m) (← optOf readTRef t) (← readMSym a))
  | _ => throw "gen_definition: expected (gen_definition ctx mt tref access)"

/-- `(prefix_wf (dname…) (fw…) (i0…) (group…) state)` → the decidable side conditions of
    `kernel_meets_spec_defs_partial` on one real quadrature loop -/
def handlePrefixWf (args : List Sexp) : Except String Sexp := do
  match args with
  | [dn, fw, i0, gs, st] =>
    let dn ← (← dn.asList).mapM Sexp.asAtom
    let fw ← (← fw.asList).mapM readStmt
    let i0 ← (← i0.asList).mapM readStmt
    let gs ← (← gs.asList).mapM readGroup
    let st ← readState st
    return .list [.atom "ok",
      .list [.atom "prefix", Sexp.ofBool (prefixOkB dn fw i0 (allFw st gs))],
      .list [.atom "ssa", Sexp.ofBool (ssaOk i0)],
      .list [.atom "fwdecls", Sexp.ofBool (fwDeclsOk fw)],
      .list [.atom "fwlinked", Sexp.ofBool (fwLinkedB fw st gs)]]
  | _ => throw "prefix_wf: expected (prefix_wf (dname…) (fw…) (i0…) (group…) state)"

end Ffcx.Driver
