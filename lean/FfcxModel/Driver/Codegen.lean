/- Driver commands of the codegen cluster (model of `generate_block_parts`, C01). -/
import FfcxModel.LNodes.Wire
import FfcxModel.Codegen.Block
import FfcxModel.Codegen.Spec
import FfcxModel.Codegen.Partition
import FfcxModel.Codegen.Definitions
import FfcxModel.Codegen.SpecLink
import FfcxModel.Geometry.Quad

namespace Ffcx.Driver
open Ffcx Ffcx.LNodes Ffcx.Codegen

def cgB (k : String) (b : Bool) : Sexp := .list [.atom k, Sexp.ofBool b]

namespace CG

def readRestr (s : Sexp) : Except String Restr := do
  match ← s.asAtom with
  | "none" => return .none
  | "plus" => return .plus
  | "minus" => return .minus
  | a => throw s!"bad restriction {a}"

/-- `(tref name ttype ndofs offset blockSize isPermuted none|((fname n)…))` -/
def readTRef (s : Sexp) : Except String TableRef := do
  match s with
  | .list [.atom "tref", name, tt, nd, off, bs, perm, fac] =>
    let factors ← match fac with
      | .atom "none" => pure none
      | .list fs => do
        let l ← fs.mapM (fun f => do
          match f with
          | .list [n, k] => pure ((← n.asAtom), (← k.asNat))
          | _ => throw "bad tensor factor")
        pure (some l)
      | _ => throw "bad factors"
    return { name := ← name.asAtom, ttype := ← tt.asAtom, ndofs := ← nd.asNat, offset := ← off.asInt,
             blockSize := ← bs.asInt, isPermuted := ← perm.asBool, factors := factors }
  | _ => throw s!"bad tref {s.toStr.take 80}"

/-- `(rule id nweights none|(n…))` -/
def readRule (s : Sexp) : Except String QRule := do
  match s with
  | .list [.atom "rule", id, nw, fac] =>
    let factors ← match fac with
      | .atom "none" => pure none
      | .list fs => pure (some (← fs.mapM Sexp.asNat))
      | _ => throw "bad rule factors"
    return { id := ← id.asAtom, nweights := ← nw.asNat, factors := factors }
  | _ => throw s!"bad rule {s.toStr.take 80}"

/-- `(arg tref restriction)` -/
def readArg (s : Sexp) : Except String ArgDesc := do
  match s with
  | .list [.atom "arg", t, r] => return { table := ← readTRef t, restriction := ← readRestr r }
  | _ => throw s!"bad arg {s.toStr.take 80}"

/-- `(block (ttype…) (arg…) nFactorComps factorIndex afp transposed f [(maIndex…)])` -/
def readBlock (s : Sexp) : Except String BlockData := do
  match s with
  | .list [.atom "block", tts, args, nfc, fi, afp, tr, f] =>
    return { ttypes := ← (← tts.asList).mapM Sexp.asAtom, args := ← (← args.asList).mapM readArg,
             nFactorComps := ← nfc.asNat, factorIndex := ← fi.asNat, allFactorsPiecewise := ← afp.asBool,
             transposed := ← tr.asBool, f := ← readExpr f }
  | .list [.atom "block", tts, args, nfc, fi, afp, tr, f, ma] =>
    return { ttypes := ← (← tts.asList).mapM Sexp.asAtom, args := ← (← args.asList).mapM readArg,
             nFactorComps := ← nfc.asNat, factorIndex := ← fi.asNat, allFactorsPiecewise := ← afp.asBool,
             transposed := ← tr.asBool, f := ← readExpr f, maIndices := ← (← ma.asList).mapM Sexp.asNat }
  | _ => throw s!"bad block {s.toStr.take 80}"

/-- `(group rule custom entityType diagonal (aShape…) (bmLen…) (block…))` -/
def readGroup (s : Sexp) : Except String GroupDesc := do
  match s with
  | .list [.atom "group", r, cu, et, dg, ash, bml, bs] =>
    return { rule := ← readRule r, custom := ← cu.asBool, entityType := ← et.asAtom,
             diagonal := ← dg.asBool, aShape := ← (← ash.asList).mapM Sexp.asNat,
             bmLens := ← (← bml.asList).mapM Sexp.asNat, blocks := ← (← bs.asList).mapM readBlock }
  | _ => throw s!"bad group {s.toStr.take 80}"

/-- `(state ((ruleid factorIndex afp name)…) counter)` -/
def readState (s : Sexp) : Except String GenState := do
  match s with
  | .list [.atom "state", cache, cnt] =>
    let c ← (← cache.asList).mapM (fun e => do
      match e with
      | .list [id, fi, afp, nm] => pure (((← id.asAtom), (← fi.asNat), (← afp.asBool)), (← nm.asAtom))
      | _ => throw "bad cache entry")
    return { cache := c, counter := ← cnt.asNat }
  | _ => throw s!"bad state {s.toStr.take 80}"

def writeState (st : GenState) : Sexp :=
  .list [.atom "state",
    .list (st.cache.map (fun (k, n) =>
      .list [.atom k.1, Sexp.ofNat k.2.1, Sexp.ofBool k.2.2, .atom n])),
    Sexp.ofNat st.counter]

/-- `(eblock ((int…)…) (ttype…) (arg…) entityType transposed ((f comp)…) numPoints components (tensorShape…))` -/
def readExprBlock (s : Sexp) : Except String ExprBlockDesc := do
  match s with
  | .list [.atom "eblock", bm, tts, args, et, tr, fcs, np, comps, ts] =>
    let blockmap ← (← bm.asList).mapM (fun b => do (← b.asList).mapM Sexp.asInt)
    let args ← (← args.asList).mapM (fun a => do
      let a ← readArg a
      pure ({ table := a.table, restriction := a.restriction } : ExprArg))
    let fcs ← (← fcs.asList).mapM (fun p => do
      match p with
      | .list [f, c] => pure ((← readExpr f), (← c.asInt))
      | _ => throw "bad fcs entry")
    return { blockmap := blockmap, ttypes := ← (← tts.asList).mapM Sexp.asAtom, args := args,
             entityType := ← et.asAtom, transposed := ← tr.asBool, fcs := fcs, numPoints := ← np.asNat,
             components := ← comps.asNat, tensorShape := ← (← ts.asList).mapM Sexp.asNat }
  | _ => throw s!"bad eblock {s.toStr.take 80}"

def result {α} (w : α → List Sexp) : Codegen.M α → Sexp
  | .ok a => .list (.atom "ok" :: w a)
  | .error e => .list [.atom "raise", .atom e]

end CG

open CG

/-- `(gen_block_parts group state)` → `(ok (quadpart…) (intermediate…) state')` | `(raise E)` -/
def handleGenBlockParts (args : List Sexp) : Except String Sexp := do
  match args with
  | [g, st] =>
    let g ← readGroup g
    let st ← readState st
    return result (fun (q, i, st') =>
      [.list (q.map writeStmt), .list (i.map writeStmt), writeState st']) (genBlockParts g st)
  | _ => throw "gen_block_parts: expected (gen_block_parts group state)"

/-- `(gen_groups (group…) state)` → like `gen_block_parts`, for all groups of one rule -/
def handleGenGroups (args : List Sexp) : Except String Sexp := do
  match args with
  | [gs, st] =>
    let gs ← (← gs.asList).mapM readGroup
    let st ← readState st
    return result (fun (q, i, st') =>
      [.list (q.map writeStmt), .list (i.map writeStmt), writeState st']) (genGroups st gs)
  | _ => throw "gen_groups: expected (gen_groups (group…) state)"

/-- `(quad_loop rule (definition…) (intermediate0…) (tensorcomp…) (fw…))` → `(ok (code…) loop)` -/
def handleQuadLoop (args : List Sexp) : Except String Sexp := do
  match args with
  | [r, defs, i0, tc, fw] =>
    let rule ← readRule r
    let code := quadLoopCode (← (← defs.asList).mapM readStmt) (← (← i0.asList).mapM readStmt)
      (← (← tc.asList).mapM readStmt) (← (← fw.asList).mapM readStmt)
    return .list [.atom "ok", .list (code.map writeStmt), writeStmt (genQuadLoop rule code)]
  | _ => throw "quad_loop: expected (quad_loop rule defs inter0 tensorcomp fw)"

/-- `(wrap_loop rule (code…))` → `(ok loop)`: `create_nested_for_loops([iq], code)` -/
def handleWrapLoop (args : List Sexp) : Except String Sexp := do
  match args with
  | [r, code] =>
    return .list [.atom "ok", writeStmt (genQuadLoop (← readRule r) (← (← code.asList).mapM readStmt))]
  | _ => throw "wrap_loop: expected (wrap_loop rule (code…))"

/-- `(gen_expr_block eblock)` → `(ok stmt…)` | `(raise E)` -/
def handleGenExprBlock (args : List Sexp) : Except String Sexp := do
  match args with
  | [d] => return result (·.map writeStmt) (genExprBlock (← readExprBlock d))
  | _ => throw "gen_expr_block: expected (gen_expr_block eblock)"

/-- `(block_wf group state)` → the decidable side conditions of `genBlock_spec` on this description -/
def handleBlockWf (args : List Sexp) : Except String Sexp := do
  match args with
  | [g, st] =>
    let g ← readGroup g
    let st ← readState st
    return .list [.atom "ok",
      .list [.atom "regular", Sexp.ofBool (regularGroup g)],
      .list [.atom "names", Sexp.ofBool (namesOk g st)],
      .list [.atom "covers", Sexp.ofBool (coversA g)],
      .list [.atom "injective", Sexp.ofBool (injectiveBlocks g)],
      .list [.atom "diagonal", Sexp.ofBool (diagonalGroup g)],
      .list [.atom "coincident", Sexp.ofBool (coincidentMaps g)],
      .list [.atom "tensor", Sexp.ofBool (tensorGroupB g st)]]
  | _ => throw "block_wf: expected (block_wf group state)"

/-- `(loop_wf (group…) state (fw…))` → the decidable side conditions of `quadLoop_spec` /
    `kernel_meets_spec_partial` on all groups of one rule and on the `fw` declarations -/
def handleLoopWf (args : List Sexp) : Except String Sexp := do
  match args with
  | [gs, st, fw] =>
    let gs ← (← gs.asList).mapM readGroup
    let st ← readState st
    let fw ← (← fw.asList).mapM readStmt
    match gs with
    | [] => return .list [.atom "ok", .list [.atom "empty", Sexp.ofBool true]]
    | g :: _ =>
      return .list [.atom "ok",
        .list [.atom "groups", Sexp.ofBool (groupsOkB g.rule g.aShape st gs)],
        .list [.atom "fwdecls", Sexp.ofBool (fwDeclsOk fw)],
        .list [.atom "fwlinked", Sexp.ofBool (fwLinkedB fw st gs)]]
  | _ => throw "loop_wf: expected (loop_wf (group…) state (fw…))"

def readMSym (s : Sexp) : Except String MSym := do
  match s with
  | .list [.atom "py", n] => return .py (← n.asInt)
  | e => return .ex (← readExpr e)

def writeMSym : MSym → Sexp
  | .py n => .list [.atom "py", Sexp.ofInt n]
  | .ex e => writeExpr e

/-- `(pnode idx active (literal e)|(terminal access)|(operator cls handler (op…)))` -/
def readPNode (s : Sexp) : Except String PNode := do
  match s with
  | .list [.atom "pnode", i, a, k] =>
    let kind ← match k with
      | .list [.atom "literal", e] => pure (PKind.literal (← readExpr e))
      | .list [.atom "terminal", e] => pure (PKind.terminal (← readMSym e))
      | .list [.atom "operator", c, h, ops] =>
        pure (PKind.operator (← c.asAtom) (← h.asAtom) (← (← ops.asList).mapM Sexp.asNat))
      | _ => throw "bad pnode kind"
    return { idx := ← i.asNat, active := ← a.asBool, kind := kind }
  | _ => throw s!"bad pnode {s.toStr.take 80}"

/-- `(gen_partition integral symbol (pnode…) ((idx expr)…))` → `(ok (intermediate…) ((idx expr)…))` -/
def handleGenPartition (args : List Sexp) : Except String Sexp := do
  match args with
  | [integral, sym, nodes, scope] =>
    let nodes ← (← nodes.asList).mapM readPNode
    let scope ← (← scope.asList).mapM (fun p => do
      match p with
      | .list [i, e] => pure ((← i.asNat), (← readMSym e))
      | _ => throw "bad scope entry")
    match genPartition (← integral.asBool) (← sym.asAtom) nodes nodes scope [] with
    | .error e => return .list [.atom "raise", .atom e]
    | .ok (inter, sc) =>
      return .list [.atom "ok", .list (inter.map writeStmt),
        .list (sc.map (fun (i, e) => .list [Sexp.ofNat i, writeMSym e]))]
  | _ => throw "gen_partition: expected (gen_partition integral symbol (pnode…) (scope…))"

/-- `(ssa_ok (stmt…))` → `(ok bool)`: the side condition of `partition_ssa` -/
def handleSsaOk (args : List Sexp) : Except String Sexp := do
  match args with
  | [ss] => return .list [.atom "ok", Sexp.ofBool (ssaOk (← (← ss.asList).mapM readStmt))]
  | _ => throw "ssa_ok: expected (ssa_ok (stmt…))"

def optOf {α} (f : Sexp → Except String α) (s : Sexp) : Except String (Option α) :=
  match s with
  | .atom "none" => pure none
  | x => do return some (← f x)

/-- `(mt (mro…) (bases…) averaged|none restr (gd…) (ld…) gdim (comp…) flat cellname (auxdof…))` -/
def readMt (s : Sexp) : Except String MtDesc := do
  match s with
  | .list [.atom "mt", mro, bases, av, r, gd, ld, gdim, comp, flat, cell, aux] =>
    return { mro := ← (← mro.asList).mapM Sexp.asAtom, bases := ← (← bases.asList).mapM Sexp.asAtom,
             averaged := ← optOf Sexp.asAtom av, restriction := ← readRestr r,
             globalDerivs := ← (← gd.asList).mapM Sexp.asNat, localDerivs := ← (← ld.asList).mapM Sexp.asNat,
             gdim := ← gdim.asNat, component := ← (← comp.asList).mapM Sexp.asNat,
             flatComponent := ← flat.asNat, cellname := ← cell.asAtom,
             auxDofs := ← (← aux.asList).mapM Sexp.asNat }
  | _ => throw s!"bad mt {s.toStr.take 80}"

/-- `(ctx entityType custom rule|none coeffNumber|none coeffOffset|none constOffset|none jnum numScalarDofs)` -/
def readCtx (s : Sexp) : Except String DefCtx := do
  match s with
  | .list [.atom "ctx", et, cu, rule, cn, co, ko, jn, nsd] =>
    return { entityType := ← et.asAtom, custom := ← cu.asBool, rule := ← optOf readRule rule,
             coeffNumber := ← optOf Sexp.asNat cn, coeffOffset := ← optOf Sexp.asInt co,
             constOffset := ← optOf Sexp.asInt ko, jnum := ← jn.asNat, numScalarDofs := ← nsd.asNat }
  | _ => throw s!"bad ctx {s.toStr.take 80}"

/-- `(gen_access ctx mt tref|none)` → `(ok access)` | `(raise E)` -/
def handleGenAccess (args : List Sexp) : Except String Sexp := do
  match args with
  | [c, m, t] =>
    return result (fun a => [writeMSym a]) (genAccess (← readCtx c) (← readMt m) (← optOf readTRef t))
  | _ => throw "gen_access: expected (gen_access ctx mt tref)"

/-- `(gen_definition ctx mt tref|none access)` → `(ok)` for `[]`, `(ok section)` | `(raise E)` -/
def handleGenDefinition (args : List Sexp) : Except String Sexp := do
  match args with
  | [c, m, t, a] =>
    return result (fun o => match o with | some s => [writeStmt s] | none => [])
      (genDefinition (← readCtx c) (← readMt m) (← optOf readTRef t) (← readMSym a))
  | _ => throw "gen_definition: expected (gen_definition ctx mt tref access)"

/-- `(prefix_wf (dname…) (fw…) (i0…) (group…) state)` → the decidable side conditions of
    `kernel_meets_spec_defs_partial` on one real quadrature loop -/
def handlePrefixWf (args : List Sexp) : Except String Sexp := do
  match args with
  | [dn, fw, i0, gs, st] =>
    let dn ← (← dn.asList).mapM Sexp.asAtom
    let fw ← (← fw.asList).mapM readStmt
    let i0 ← (← i0.asList).mapM readStmt
    let gs ← (← gs.asList).mapM readGroup
    let st ← readState st
    return .list [.atom "ok",
      .list [.atom "prefix", Sexp.ofBool (prefixOkB dn fw i0 (allFw st gs))],
      .list [.atom "ssa", Sexp.ofBool (ssaOk i0)],
      .list [.atom "fwdecls", Sexp.ofBool (fwDeclsOk fw)],
      .list [.atom "fwlinked", Sexp.ofBool (fwLinkedB fw st gs)]]
  | _ => throw "prefix_wf: expected (prefix_wf (dname…) (fw…) (i0…) (group…) state)"

/-! graphs (same wire format as `driver_ir`) -/

def cgParseKind (s : Sexp) : Except String IR.Kind := do
  match s with
  | .atom "zero" => pure .zero
  | .atom "sum" => pure .sum
  | .atom "prod" => pure .prod
  | .atom "div" => pure .div
  | .atom "conj" => pure .conj
  | .atom "real" => pure .real
  | .atom "imag" => pure .imag
  | .atom "abs" => pure .abs
  | .atom "cond" => pure .cond
  | .list [.atom "arg", p, n] => pure (.arg (← p.asNat) (← n.asNat))
  | .list [.atom "term", i] => pure (.term (← i.asNat))
  | .list [.atom "int", v] => pure (.lit true (← v.asRat))
  | .list [.atom "float", v] => pure (.lit false (← v.asRat))
  | .list [.atom "complex", a, b] => pure (.clit (← a.asRat) (← b.asRat))
  | .list [.atom "condition", n] => pure (.condition (← n.asAtom))
  | .list [.atom "op", n] => pure (.op (← n.asAtom))
  | _ => throw s!"bad kind {s}"

def cgParseNode (s : Sexp) : Except String IR.Node := do
  match s with
  | .list (.atom "n" :: k :: ds) => pure { kind := ← cgParseKind k, deps := ← ds.mapM Sexp.asNat }
  | _ => throw "bad node"

def cgParseGraph (s : Sexp) : Except String IR.Graph := do
  match s with
  | .list [.atom "graph", .list (.atom "nodes" :: ns), .list (.atom "targets" :: ts)] =>
    let nodes ← ns.mapM cgParseNode
    let targets ← ts.mapM fun t => do
      match t with
      | .list (i :: cs) => pure (← i.asNat, ← cs.mapM Sexp.asNat)
      | _ => throw "bad target"
    pure { nodes := nodes.toArray, targets }
  | _ => throw "expected (graph (nodes …) (targets …))"

/-- `(spec_link S rank F (group…) state ((pos arg len number)…) entityType ((pnode…)…))` →
    the decidable links of `kernel_meets_spec_linked` / `partition_values_partial` -/
def handleSpecLink (args : List Sexp) : Except String Sexp := do
  match args with
  | [sg, rk, fg, gs, st, tab, et, parts] =>
    let S ← cgParseGraph sg
    let F ← cgParseGraph fg
    let gs ← (← gs.asList).mapM readGroup
    let st ← readState st
    let tab ← (← tab.asList).mapM (fun e => do
      match e with
      | .list [p, a, l, n] => pure ({ pos := ← p.asNat, arg := ← readArg a, len := ← l.asNat, number := ← n.asNat } : ArgInfoD)
      | _ => throw "bad argtable entry")
    let parts ← (← parts.asList).mapM (fun p => do (← p.asList).mapM readPNode)
    let r := specLink S (← rk.asNat) F.nodes st gs tab (← et.asAtom) parts
    return .list [.atom "ok", cgB "accepted" r.accepted, cgB "wf" r.wf, cgB "closedF" r.closedF,
      cgB "fEqual" r.fEqual, cgB "oneTarget" r.oneTarget, cgB "perm" r.perm, cgB "argLinks" r.argLinks,
      cgB "pnodes" r.pnodes]
  | _ => throw "spec_link: expected (spec_link S rank F groups state argtable entityType partitions)"

/-- `(blockmap_check group (((int…)…)…))`: per block, per argument the real `blockmap[i]` tuple must be
    `[aCoord a len d | d < len]` — the arithmetic progression `offset + block_size·d` the specification uses -/
def handleBlockmapCheck (args : List Sexp) : Except String Sexp := do
  match args with
  | [g, bms] =>
    let g ← readGroup g
    let bms ← (← bms.asList).mapM (fun b => do (← b.asList).mapM (fun r => do (← r.asList).mapM Sexp.asInt))
    let ok := g.blocks.length == bms.length &&
      (g.blocks.zip bms).all (fun (b, bm) =>
        b.args.length == bm.length && bm.length == g.bmLens.length &&
        ((b.args.zip g.bmLens).zip bm).all (fun ((a, n), real) =>
          real == (List.range n).map (fun (d : Nat) => a.table.blockSize * (d : Int) + a.table.offset) &&
          a.table.ndofs == n))
    return .list [.atom "ok", Sexp.ofBool ok]
  | _ => throw "blockmap_check: expected (blockmap_check group blockmaps)"

/-- `(values_link F (group…) state ((i expr)…) (pw…) (i0…) (fw…) ((name (dim…))…) nEnt nPerm)` →
    the decidable value / extent links of `kernel_meets_spec_checked` on one real quadrature loop -/
def handleValuesLink (args : List Sexp) : Except String Sexp := do
  match args with
  | [fg, gs, st, acc, pw, i0, fw, shapes, nEnt, nPerm] =>
    let F := (← cgParseGraph fg).nodes
    let gs ← (← gs.asList).mapM readGroup
    let st ← readState st
    let sc ← (← acc.asList).mapM (fun e => do
      match e with
      | .list [i, ex] => pure ((← i.asNat), (← readExpr ex))
      | _ => throw "bad access entry")
    let pw ← (← pw.asList).mapM readStmt
    let i0 ← (← i0.asList).mapM readStmt
    let fw ← (← fw.asList).mapM readStmt
    let shapes ← (← shapes.asList).mapM (fun e => do
      match e with
      | .list [n, ds] => pure ((← n.asAtom), (← (← ds.asList).mapM Sexp.asNat))
      | _ => throw "bad shape entry")
    let nEnt ← nEnt.asNat
    let nPerm ← nPerm.asNat
    let decls := declsOf pw ++ declsOf i0
    let blocks := allBlocks st gs
    let cone := coneOf F (blocks.map (fun t => t.2.1.factorIndex))
    let bad := (cone.eraseDups.filter (fun i => !nodeEqB F sc decls i)).map (fun i =>
      match F[i]? with
      | some nd => (match nd.kind with
        | .arg .. => "arg" | .term _ => "term" | .zero => "zero" | .lit .. => "lit" | .clit .. => "clit"
        | .sum => "sum" | .prod => "prod" | .div => "div" | .conj => "conj" | .real => "real"
        | .imag => "imag" | .abs => "abs" | .cond => "cond" | .condition c => c | .op c => c)
      | none => "out-of-range")
    let nw := match gs with | g :: _ => g.rule.nweights | [] => 0
    let (e0, e1) := match gs with
      | g :: _ => (match g.aShape with | [a, b] => (a, b) | _ => (0, 0))
      | [] => (0, 0)
    return .list [.atom "ok",
      cgB "values" (valuesLinkB F sc decls fw st gs),
      cgB "cone" (coneOkB F sc decls cone),
      cgB "fws" (blocks.all (fwFactorB fw sc)),
      cgB "extents" (gs.all (fun g => g.blocks.all (fun b => b.args.all
        (extentsOkB shapes g.entityType nw nEnt nPerm)))),
      cgB "rank2" (rank2GroupsB e0 e1 gs),
      cgB "closedR" (IR.closedB F),
      .list [.atom "conesize", .atom (toString cone.eraseDups.length)],
      .list (.atom "bad" :: bad.eraseDups.map Sexp.atom)]
  | _ => throw "values_link: expected (values_link F groups state access pw i0 fw shapes nEnt nPerm)"

/-- `(diag_pair groupFull groupDiag|none)`: the diagonal kernel's group is the full kernel's group
    restricted to the blocks with coincident block maps, and the dropped blocks have disjoint maps
    (hypotheses of `diagonal_of_full_filtered`) -/
def handleDiagPair (args : List Sexp) : Except String Sexp := do
  match args with
  | [gf, gd] =>
    let gF ← readGroup gf
    let gD ← match gd with
      | .atom "none" => pure { gF with diagonal := true, blocks := [] }
      | g => readGroup g
    let dropped := gF.blocks.filter (fun b => !coincidentBlock b)
    let (n0, n1) := match gF.bmLens with | [a, b] => (a, b) | _ => (0, 0)
    return .list [.atom "ok",
      cgB "pair" (diagonalPairB gF gD),
      cgB "sublist" (decide (gD.blocks.map (fun b => (b.args, b.factorIndex)) =
        (gF.blocks.filter coincidentBlock).map (fun b => (b.args, b.factorIndex)))),
      cgB "disjoint" (dropped.all (disjointMapsB n0 n1)),
      cgB "injective" (injectiveBlocks gF),
      .list [.atom "kept", .atom (toString (gF.blocks.length - dropped.length))],
      .list [.atom "dropped", .atom (toString dropped.length)]]
  | _ => throw "diag_pair: expected (diag_pair groupFull groupDiag|none)"

/-- `(tensor_rule (((p…) w)…) …)`: the tensor product (`Ffcx.Quad.tensor2`, folded from the right as
    `itertools.product` enumerates) of the factor rules, exactly over `Rat` → `(ok ((p…) w)…)` -/
def handleTensorRule (args : List Sexp) : Except String Sexp := do
  let rules ← args.mapM (fun r => do
    (← r.asList).mapM (fun pw => do
      match pw with
      | .list [ps, w] => pure ((← (← ps.asList).mapM Sexp.asRat), (← w.asRat))
      | _ => throw "bad rule entry"))
  let unit : Quad.Rule Rat := [([], 1)]
  let prod := rules.foldr (fun r acc => Quad.tensor2 r acc) unit
  return .list (.atom "ok" :: prod.map (fun pw => .list [.list (pw.1.map Sexp.ofRat), Sexp.ofRat pw.2]))

end Ffcx.Driver
