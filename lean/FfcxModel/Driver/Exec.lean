/- Driver command `exec`: run a kernel AST on given inputs over Rat or Float. -/
import FfcxModel.LNodes.Wire
import FfcxModel.LNodes.Scalars
import FfcxModel.LNodes.ShapeDomain
import FfcxModel.LNodes.Reads

namespace Ffcx.Driver
open Ffcx Ffcx.LNodes

def errToSexp : Err → Sexp
  | .oob a => .list [.atom "err", .atom "oob", .atom a]
  | .undeclared a => .list [.atom "err", .atom "undeclared", .atom a]
  | .constWrite a => .list [.atom "err", .atom "constwrite", .atom a]
  | .badIndex a => .list [.atom "err", .atom "badindex", .atom a]
  | .unsupported a => .list [.atom "err", .atom "unsupported", .atom a]

/-- inputs: `(sarr name (dims…) v…)`, `(iarr name v…)`, `(svar name v)`, `(ivar name v)` -/
def readInputs {R} (conv : Rat → R) (items : List Sexp) : Except String (St R) := do
  let mut σ : St R := {}
  for it in items do
    match it with
    | .list (.atom "sarr" :: n :: dims :: vs) =>
      let ds ← (← dims.asList).mapM Sexp.asNat
      let data ← vs.mapM (fun v => do pure (conv (← v.asRat)))
      σ := { σ with sa := σ.sa.set (← n.asAtom) { dims := ds, data := data.toArray } }
    | .list (.atom "iarr" :: n :: vs) =>
      let data ← vs.mapM Sexp.asInt
      σ := { σ with ia := σ.ia.set (← n.asAtom) data.toArray }
    | .list [.atom "svar", n, v] => σ := { σ with sv := σ.sv.set (← n.asAtom) (conv (← v.asRat)) }
    | .list [.atom "ivar", n, v] => σ := { σ with iv := σ.iv.set (← n.asAtom) (← v.asInt) }
    | _ => throw "bad input item"
  return σ

def floatToSexp (f : Float) : Sexp := .atom (toString f.toBits.toNat)

def handleExec (args : List Sexp) : Except String Sexp := do
  match args with
  | [mode, stmt, inputs, outs] =>
    let s ← readStmt stmt
    let outNames ← (← outs.asList).mapM Sexp.asAtom
    match (← mode.asAtom) with
    | "rat" =>
      let σ ← readInputs (R := Rat) id (← inputs.asList)
      match exec ratExtra s σ with
      | .error e => return errToSexp e
      | .ok σ' =>
        return .list (.atom "ok" :: outNames.map fun n =>
          match σ'.sa.get n with
          | some a => .list (.atom n :: a.data.toList.map Sexp.ofRat)
          | none => .list [.atom n, .atom "missing"])
    | "float" =>
      let σ ← readInputs (R := Float) ratToFloat (← inputs.asList)
      match exec floatExtra s σ with
      | .error e => return errToSexp e
      | .ok σ' =>
        return .list (.atom "ok" :: outNames.map fun n =>
          match σ'.sa.get n with
          | some a => .list (.atom n :: a.data.toList.map floatToSexp)
          | none => .list [.atom n, .atom "missing"])
    | "shape" =>
      let σ ← readInputs (R := U) (fun _ => ⟨⟩) (← inputs.asList)
      match exec uExtra s σ with
      | .error e => return errToSexp e
      | .ok _ => return .list [.atom "ok"]
    | m => throw s!"bad mode {m}"
  | _ => throw "exec: expected (exec mode stmt inputs outs)"

/-- `(reads W stmt inputs)` → `(ok i…)`: sorted distinct indices of `W` read by the run over the
    shape domain; `(ok unknown i…)` if some subscript could not be evaluated. -/
def handleReads (args : List Sexp) : Except String Sexp := do
  match args with
  | [w, stmt, inputs] =>
    let s ← readStmt stmt
    let σ ← readInputs (R := U) (fun _ => ⟨⟩) (← inputs.asList)
    match execReads uExtra (← w.asAtom) s σ with
    | .error e => return errToSexp e
    | .ok (_, rs) =>
      let known := (rs.filterMap id).toArray.qsort (· < ·)
      let mut out : Array Int := #[]
      for v in known do
        if out.isEmpty || out.back! != v then out := out.push v
      let unk := rs.any Option.isNone
      return .list ((.atom "ok") :: (if unk then [.atom "unknown"] else []) ++ out.toList.map Sexp.ofInt)
  | _ => throw "reads: expected (reads W stmt inputs)"

end Ffcx.Driver
