/- Driver commands for the static certificates. -/
import FfcxModel.LNodes.Wire
import FfcxModel.LNodes.Static

namespace Ffcx.Driver
open Ffcx Ffcx.LNodes

/-- `(pure stmt)` → `(ok <pureKernel> (onlyAccum b) (unwritten name b)…)` -/
def handlePure (args : List Sexp) : Except String Sexp := do
  match args with
  | [stmt] =>
    let s ← readStmt stmt
    return .list ([.atom "ok", Sexp.ofBool (pureKernel s),
      .list [.atom "onlyAccum", Sexp.ofBool (onlyAccum "A" s)]] ++
      kernelInputs.map (fun n => .list [.atom "unwritten", .atom n, Sexp.ofBool (neverWritten n s)]))
  | _ => throw "pure: expected (pure stmt)"

/-- `(mentions stmt name…)` → `(ok bool…)` -/
def handleMentions (args : List Sexp) : Except String Sexp := do
  match args with
  | stmt :: names =>
    let s ← readStmt stmt
    let ns ← names.mapM Sexp.asAtom
    return .list (.atom "ok" :: ns.map (fun n => Sexp.ofBool (mentionsS n s)))
  | _ => throw "mentions: expected (mentions stmt name…)"

end Ffcx.Driver
