/- Driver commands for the static certificates. -/
import FfcxModel.LNodes.Wire
import FfcxModel.LNodes.Static
import FfcxModel.LNodes.Scoped
import FfcxModel.LNodes.Threads
import FfcxModel.LNodes.Free

namespace Ffcx.Driver
open Ffcx Ffcx.LNodes

/-- `(pure stmt)` → `(ok <pureKernel> (onlyAccum b) (unwritten name b)…)` -/
def handlePure (args : List Sexp) : Except String Sexp := do
  match args with
  | [stmt] =>
    let s ← readStmt stmt
    return .list ([.atom "ok", Sexp.ofBool (pureKernel s),
      .list [.atom "onlyAccum", Sexp.ofBool (onlyAccum "A" s)]] ++
      kernelInputs.map (fun n => .list [.atom "unwritten", .atom n, Sexp.ofBool (neverWritten n s)]))
  | _ => throw "pure: expected (pure stmt)"

/-- `(mentions stmt name…)` → `(ok bool…)` -/
def handleMentions (args : List Sexp) : Except String Sexp := do
  match args with
  | stmt :: names =>
    let s ← readStmt stmt
    let ns ← names.mapM Sexp.asAtom
    return .list (.atom "ok" :: ns.map (fun n => Sexp.ofBool (mentionsS n s)))
  | _ => throw "mentions: expected (mentions stmt name…)"

/-- `(threads stmt)` → `(ok bool)`: footprint disjointness of two calls with private locals/tensor -/
def handleThreads (args : List Sexp) : Except String Sexp := do
  match args with
  | [stmt] => return .list [.atom "ok", Sexp.ofBool (threadsDisjoint (← readStmt stmt))]
  | _ => throw "threads: expected (threads stmt)"

/-- `(hop t p…)` → `(ok bool)`: may statement `t` hop over the statements `p…`? -/
def handleHop (args : List Sexp) : Except String Sexp := do
  match args with
  | t :: ps =>
    let t ← readStmt t
    let ps ← ps.mapM readStmt
    return .list [.atom "ok", Sexp.ofBool (disjointB [t] ps)]
  | _ => throw "hop: expected (hop t p…)"

/-- `(hopmod t p…)` → `(ok bool)`: as `hop`, with `t`'s own loop indices renamed apart -/
def handleHopMod (args : List Sexp) : Except String Sexp := do
  match args with
  | t :: ps =>
    let t ← readStmt t
    let ps ← ps.mapM readStmt
    return .list [.atom "ok", Sexp.ofBool (hopModB t ps)]
  | _ => throw "hopmod: expected (hopmod t p…)"

/-- `(scoped stmt)` → `(ok)` | `(err undeclared n)` | `(err redeclared n)` -/
def handleScoped (args : List Sexp) : Except String Sexp := do
  match args with
  | [stmt] =>
    let s ← readStmt stmt
    match scopedKernel s with
    | .ok _ => return .list [.atom "ok"]
    | .error (.undeclared n) => return .list [.atom "err", .atom "undeclared", .atom n]
    | .error (.redeclared n) => return .list [.atom "err", .atom "redeclared", .atom n]
  | _ => throw "scoped: expected (scoped stmt)"

end Ffcx.Driver
