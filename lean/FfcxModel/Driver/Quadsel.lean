/-
Requests of the quadrature-selection cluster (C11), served by `driver_quadsel`:

  (celltable)                       the Basix / UFL reference-cell tables of the model
  (accepttable N)                   `basixAccepts` for every (cell, type, polyset) and degree 0..N
  (strtype "s")                     `stringToType` -> type name | none
  (superset a b)                    `Polyset.superset`
  (ruledata <rule>)                 points/weights of the rules FFCx defines itself (vertex scheme, point)
  (run (opts <sf>) (keys ((<rule> <k>) ...)) (groups <group> ...))
      group    := (group <itype> <cell> (argps <polyset> ...) [(facets <cell> ...) (ridges <cell> ...)] (integrals <integral> ...))
                  (facets/ridges: `ufl_cell.facet_types` / `ridge_types` in the order UFL returns them; default: the table)
      integral := (itg <tag> <deg>|none (s "scheme")|none (est <int> ...) <coordTP>
                       (elems (<hasCustom> <pts> <wts> <n> <polyset> <discontinuous> <tp>) ...))
      rule     := (basix cell type degree polyset) | (tensor n type degree polyset) | (vertex cell)
                | (custom pts wts) | (point)
   -> ((analysis <a> ...) (groups <g> ...) (form ok | (err name pyclass)))
      a := (ok (std d "s") | (custom p w) ...) | (err name pyclass)          per group (`analyzeAll`)
      g := (ok (sels (tag (cell rule) ...) ...) (summed (cell rule|none (tags ...)) ...)) | (err name pyclass)
           per group (`selectGroup`, `summed` with the key table of the request; unlisted rules get key 0)
-/
import FfcxModel.Base.Sexp
import FfcxModel.Quadrature.Select

namespace Ffcx.Driver
open Ffcx Ffcx.QuadSel

namespace QS

def cellS (c : Cell) : Sexp := .atom c.name

def asCell (s : Sexp) : Except String Cell := do
  let a ← s.asAtom
  match Cell.ofName? a with
  | some c => .ok c
  | none => .error s!"bad cell {a}"

def asIType (s : Sexp) : Except String IType := do
  let a ← s.asAtom
  match IType.ofName? a with
  | some c => .ok c
  | none => .error s!"bad integral type {a}"

def asPolyset (s : Sexp) : Except String Polyset := do
  let a ← s.asAtom
  match Polyset.ofName? a with
  | some c => .ok c
  | none => .error s!"bad polyset {a}"

def asQType (s : Sexp) : Except String QType := do
  let a ← s.asAtom
  match QType.all.find? (fun t => t.name == a) with
  | some c => .ok c
  | none => .error s!"bad quadrature type {a}"

def ruleS : Rule → Sexp
  | .basix c qt d ps => .list [.atom "basix", cellS c, .atom qt.name, .ofNat d, .atom ps.name]
  | .tensor n qt d ps => .list [.atom "tensor", .ofNat n, .atom qt.name, .ofNat d, .atom ps.name]
  | .vertexScheme c => .list [.atom "vertex", cellS c]
  | .custom p w => .list [.atom "custom", .ofNat p, .ofNat w]
  | .point => .list [.atom "point"]

def asRule (s : Sexp) : Except String Rule := do
  match s with
  | .list [.atom "basix", c, qt, d, ps] => .ok (.basix (← asCell c) (← asQType qt) (← d.asNat) (← asPolyset ps))
  | .list [.atom "tensor", n, qt, d, ps] => .ok (.tensor (← n.asNat) (← asQType qt) (← d.asNat) (← asPolyset ps))
  | .list [.atom "vertex", c] => .ok (.vertexScheme (← asCell c))
  | .list [.atom "custom", p, w] => .ok (.custom (← p.asNat) (← w.asNat))
  | .list [.atom "point"] => .ok .point
  | _ => .error "bad rule"

def asElem (s : Sexp) : Except String ElemIn := do
  match s with
  | .list [hc, p, w, n, ps, d, tp] =>
    .ok { hasCustom := ← hc.asBool, customPts := ← p.asNat, customWts := ← w.asNat, customN := ← n.asNat,
          polyset := ← asPolyset ps, discontinuous := ← d.asBool, tpFactor := ← tp.asBool }
  | _ => .error "bad element"

def asIntegral (s : Sexp) : Except String IntegralIn := do
  match s with
  | .list [.atom "itg", tag, deg, sch, .list (.atom "est" :: est), ctp, .list (.atom "elems" :: els)] =>
    let deg ← match deg with
      | .atom "none" => pure none
      | d => do pure (some (← d.asInt))
    let sch ← match sch with
      | .atom "none" => pure none
      | .list [.atom "s", .atom t] => pure (some t)
      | _ => throw "bad scheme"
    .ok { tag := ← tag.asNat, mdDegree := deg, mdScheme := sch, estDegrees := ← est.mapM Sexp.asInt,
          elements := ← els.mapM asElem, coordTP := ← ctp.asBool }
  | _ => .error "bad integral"

def asGroup (s : Sexp) : Except String GroupIn := do
  match s with
  | .list [.atom "group", it, c, .list (.atom "argps" :: ps), .list (.atom "facets" :: fs),
      .list (.atom "ridges" :: rs), .list (.atom "integrals" :: is)] =>
    .ok { itype := ← asIType it, cell := ← asCell c, argPolysets := ← ps.mapM asPolyset,
          facetTypes := ← fs.mapM asCell, ridgeTypes := ← rs.mapM asCell, integrals := ← is.mapM asIntegral }
  | .list [.atom "group", it, c, .list (.atom "argps" :: ps), .list (.atom "integrals" :: is)] =>
    .ok { itype := ← asIType it, cell := ← asCell c, argPolysets := ← ps.mapM asPolyset,
          integrals := ← is.mapM asIntegral }
  | _ => .error "bad group"

def errS (e : SelError) : Sexp := .list [.atom "err", .atom e.name, .atom e.pyClass]

def analysedS : Analysed → Sexp
  | .std d s => .list [.atom "std", .ofInt d, .list [.atom "s", .atom s]]
  | .custom p w => .list [.atom "custom", .ofNat p, .ofNat w]

def selS (s : Sel) : Sexp := .list [cellS s.cell, ruleS s.rule]

def outS (o : IntegralOut) : Sexp := .list (.ofNat o.tag :: o.sels.map selS)

def summedS (s : Summed) : Sexp :=
  .list [cellS s.cell, (match s.rule with | some r => ruleS r | none => .atom "none"), .list (s.tags.map .ofNat)]

def keyOf (tbl : List (Rule × Nat)) (r : Rule) : Nat :=
  match tbl.find? (fun p => p.1 == r) with
  | some p => p.2
  | none => 0

def run (o : Options) (tbl : List (Rule × Nat)) (gs : List GroupIn) : Sexp :=
  let an := gs.map (fun g => match analyzeAll g.itype g.integrals with
    | .ok as => Sexp.list (.atom "ok" :: as.map analysedS)
    | .error e => errS e)
  let gr := gs.map (fun g => match selectGroup o g with
    | .ok outs => Sexp.list [.atom "ok", .list (.atom "sels" :: outs.map outS),
        .list (.atom "summed" :: (summed (keyOf tbl) outs).map summedS)]
    | .error e => errS e)
  let fm := match runForm o gs with
    | .ok _ => Sexp.atom "ok"
    | .error e => errS e
  .list [.list (.atom "analysis" :: an), .list (.atom "groups" :: gr), .list [.atom "form", fm]]

def ratRow (r : List Rat) : Sexp := .list (r.map .ofRat)

def cellTable : Sexp :=
  .list (Cell.all.map (fun c => .list [cellS c,
    .list (.atom "sub" :: (subentityTypes c).map (fun l => .list (l.map cellS))),
    .list (.atom "geom" :: (geometry c).map ratRow),
    .list [.atom "vol", .ofRat (volume c)],
    .list (.atom "facets" :: (uflFacetTypes c).map cellS),
    .list (.atom "ridges" :: (uflRidgeTypes c).map cellS),
    .list [.atom "tdim", .ofNat c.tdim]]))

def acceptTable (n : Nat) : Sexp :=
  .list (Cell.all.flatMap (fun c => QType.all.flatMap (fun qt => [Polyset.standard, Polyset.macroedge].map (fun ps =>
    .list [cellS c, .atom qt.name, .atom ps.name,
      .list ((List.range (n + 1)).map (fun d => .ofBool (basixAccepts c qt ps d)))]))))

end QS

def handleQuadsel (cmd : String) (args : List Sexp) : Except String Sexp := do
  match cmd, args with
  | "celltable", _ => .ok QS.cellTable
  | "accepttable", [n] => .ok (QS.acceptTable (← n.asNat))
  | "strtype", [.atom s] =>
    .ok (match stringToType s with | some t => .atom t.name | none => .atom "none")
  | "superset", [a, b] => .ok (.atom (Polyset.superset (← QS.asPolyset a) (← QS.asPolyset b)).name)
  | "ruledata", [r] =>
    let r ← QS.asRule r
    .ok (match ruleData r with
      | none => .atom "none"
      | some d => .list (.atom "some" :: d.map (fun pw => .list [QS.ratRow pw.1, .ofRat pw.2])))
  | "run", [.list [.atom "opts", sf], .list (.atom "keys" :: keys), .list (.atom "groups" :: gs)] =>
    let tbl ← keys.mapM (fun k => match k with
      | .list [r, n] => do pure ((← QS.asRule r), (← n.asNat))
      | _ => throw "bad key entry")
    let gs ← gs.mapM QS.asGroup
    .ok (QS.run { sumFactorization := ← sf.asBool } tbl gs)
  | _, _ => .error s!"unknown request {cmd}"

end Ffcx.Driver
