/- Driver commands of the layout cluster that need the LNodes semantics (C05 kernel side, C04 store shapes).

  (readonly <name>… <stmt>)                    → (ok <bool>…)        `readOnly name stmt` for every name, in order
                                                                      (hypothesis of `unread_irrelevant` / `disabled_irrelevant`)
  (coefreads <stmt> <width> (<dim>…) (<enabled: true|false>…) <base inputs> ((<entity…>) (<perm…>) [<read c too: true|false>])…)
      for every (entity_local_index, quadrature_permutation) tuple, over the shape domain `U`:
        → (ok (<readsAvoidB> <readsInBlocksB> (<block index>…) (<w index>…) (<c index>…) <unknown: true|false>)…)
      a tuple whose run fails replies (err …) in its place.  `<block index>…` = sorted distinct `blockOf` of the
      reads of `w` (per-read block attribution); the index lists are sorted and distinct; `unknown` = some
      subscript of `w`/`c` could not be evaluated.
  (exprstores <stmt> <num points> (<value shape>…) (<arg dim>…))
        → (ok <exprStoresB (exprAShape …) stmt> <number of stores into A> (<shape>…))
  (evali <expr> ((<name> <value>)…))            → (ok <n>) | (none)    `evalI` with the given integer symbols
-/
import FfcxModel.Driver.Exec
import FfcxModel.LNodes.ReadBlocks
import FfcxModel.LNodes.ExprStores

namespace Ffcx.Driver
open Ffcx Ffcx.LNodes Ffcx.Layout

private def sortedDistinct (xs : List Int) : List Int := Id.run do
  let sorted := xs.toArray.qsort (· < ·)
  let mut out : Array Int := #[]
  for v in sorted do
    if out.isEmpty || out.back! != v then out := out.push v
  return out.toList

/-- `(readonly <name>… <stmt>)` -/
def handleReadOnly (args : List Sexp) : Except String Sexp := do
  match args.reverse with
  | stmt :: names =>
    let s ← readStmt stmt
    let ns ← names.reverse.mapM Sexp.asAtom
    return .list (.atom "ok" :: ns.map (fun n => Sexp.ofBool (readOnly n s)))
  | [] => throw "readonly: expected (readonly name… stmt)"

/-- `(coefreads …)`: see the file header -/
def handleCoefReads (args : List Sexp) : Except String Sexp := do
  match args with
  | stmt :: width :: dims :: enabled :: base :: tuples =>
    let s ← readStmt stmt
    let width ← width.asNat
    let dims ← (← dims.asList).mapM Sexp.asNat
    let enabled ← (← enabled.asList).mapM Sexp.asBool
    let σ0 ← readInputs (R := U) (fun _ => ⟨⟩) (← base.asList)
    let mut out : Array Sexp := #[]
    for t in tuples do
      let (ent, prm, withC) ← match ← t.asList with
        | [ent, prm] => pure (ent, prm, true)
        | [ent, prm, f] => pure (ent, prm, ← f.asBool)
        | _ => throw "coefreads: tuple = ((entity…) (perm…) [also read c: true|false])"
      let ent ← (← ent.asList).mapM Sexp.asInt
      let prm ← (← prm.asList).mapM Sexp.asInt
      let σ : St U := { σ0 with ia := (σ0.ia.set "entity_local_index" ent.toArray).set "quadrature_permutation" prm.toArray }
      match execReads uExtra "w" s σ with
      | .error e => out := out.push (errToSexp e)
      | .ok (_, rs) =>
        -- `readsAvoidB` / `readsInBlocksB` with their `match execReads …` unfolded on this result
        -- (lemma `readsAvoidB_eq` in FfcxProofs/C05.lean)
        let avoid := decide (enabled.length = dims.length) && avoidsB (disabledBlocks width dims enabled) rs
        let inb := inRangeB (coeffTotal width dims) rs
        let blocks := coeffBlocks width dims
        let used := sortedDistinct ((rs.filterMap id).filterMap (fun i => (blockOf blocks i).map Int.ofNat))
        let wr := sortedDistinct (rs.filterMap id)
        let (cr, cunk) := if !withC then ([], false) else match execReads uExtra "c" s σ with
          | .ok (_, rc) => (sortedDistinct (rc.filterMap id), rc.any Option.isNone)
          | .error _ => ([], true)
        out := out.push (.list [Sexp.ofBool avoid, Sexp.ofBool inb, .list (used.map Sexp.ofInt),
          .list (wr.map Sexp.ofInt), .list (cr.map Sexp.ofInt), Sexp.ofBool (rs.any Option.isNone || cunk)])
    return .list (.atom "ok" :: out.toList)
  | _ => throw "coefreads: expected (coefreads stmt width (dims) (enabled) inputs tuple…)"

/-- `(exprstores <stmt> <num points> (<value shape>…) (<arg dim>…))` -/
def handleExprStores (args : List Sexp) : Except String Sexp := do
  match args with
  | [stmt, np, sh, ad] =>
    let s ← readStmt stmt
    let e : ExprIn := { tdim := none, numPoints := ← np.asNat, pdim := 0, shape := ← (← sh.asList).mapM Sexp.asNat,
                        argDims := ← (← ad.asList).mapM Sexp.asNat, origCoeffs := [], coeffs := [],
                        origConstShapes := [], numConstsReduced := 0 }
    let shape := exprAShape e
    return .list [.atom "ok", Sexp.ofBool (exprStoresB shape s), .ofNat (storesA s).length,
                  .list (shape.map Sexp.ofNat)]
  | _ => throw "exprstores: expected (exprstores stmt P (shape) (argdims))"

/-- `(evali <expr> ((<name> <value>)…))` -/
def handleEvalI (args : List Sexp) : Except String Sexp := do
  match args with
  | [e, binds] =>
    let e ← readExpr e
    let mut iv : AList Int := []
    for b in ← binds.asList do
      match ← b.asList with
      | [n, v] => iv := iv.set (← n.asAtom) (← v.asInt)
      | _ => throw "evali: binding = (name value)"
    match evalI iv [] e with
    | some v => return .list [.atom "ok", .ofInt v]
    | none => return .list [.atom "none"]
  | _ => throw "evali: expected (evali expr ((name value)…))"

/-- dispatch hook: `none` if the command is not one of this file's -/
def ReadOnly.handle : Sexp → Option (Except String Sexp)
  | .list (.atom "readonly" :: args) => some (handleReadOnly args)
  | .list (.atom "coefreads" :: args) => some (handleCoefReads args)
  | .list (.atom "exprstores" :: args) => some (handleExprStores args)
  | .list (.atom "evali" :: args) => some (handleEvalI args)
  | _ => none

end Ffcx.Driver
