/- Shared read-eval-print loop of the line-protocol drivers. -/
import FfcxModel.Base.Sexp
namespace Ffcx.Driver
open Ffcx

partial def loop (dispatch : Sexp → Except String Sexp) (hin hout : IO.FS.Stream) : IO Unit := do
  let line ← hin.getLine
  if line.isEmpty then return ()
  let t := line.trimAscii.toString
  if t.isEmpty then
    hout.putStrLn "(error empty)"
  else
    let reply := match Sexp.parse t with
      | .error e => Sexp.list [.atom "error", .atom e]
      | .ok req => match dispatch req with
        | .ok r => r
        | .error e => Sexp.list [.atom "error", .atom e]
    hout.putStrLn reply.toStr
  hout.flush
  loop dispatch hin hout

def run (dispatch : Sexp → Except String Sexp) : IO Unit := do
  loop dispatch (← IO.getStdin) (← IO.getStdout)

end Ffcx.Driver
