/- Driver commands of the backend-descriptor cluster (C18 descriptor half).

Requests (one s-expression per line)                                   reply
  (descr_ping)                                                         pong-descr
  (cform <argsort table> <formir>)                                     (ok <formdescr>) | (error <message>)
  (numbaform <argsort table> <formir>)                                 the same for `Numba.form`
  (numbaform_m2 <argsort table> <formir>)                              the seeded variant `Numba.formSeededM2`
  (cformstored <argsort table> <formir>)                               `C.storeForm` of the C descriptor (level 2)
  (cformdecls <argsort table> <formir>)                                (ok ((<array name> <declared size> <initialisers>)…))
  (formagree <argsort table> <formir>)                                 (<written: true|false> <stored: true|false>)
  (fits <argsort table> <formir>)                                      (<idsFit> <fieldsFit> <table rows < 2^31>)   hypotheses of
                                                                       form_descriptors_agree_compiled
  (formirints <ntypes> (<itg>…))                                       (ok (<type>…)) | (error <message>)   the id/name/domain loop of
                                                                       `_compute_form_ir` with its guards
          itg = (<type index> (<id>|otherwise …) <integral name> (<domain>…))
  (cintegral <integralir> <domain> <scalar type> <win32>)              (ok <integraldescr>) | (error …)
  (numbaintegral <integralir> <domain> <scalar type> <win32>)
  (cexpr <exprir> <scalar type>)                                       (ok <exprdescr>) | (error …)
  (numbaexpr <exprir> <scalar type>)
  (prelude)                                                            ((<name> <value>)…)   numba module prelude
  (enums)                                                              (((<type> <value>)…) ((<cell> <tag>)…))

  argsort table = (((<id>…) (<perm>…))…)    NumPy's `np.argsort` result for each id list that occurs
                                            (stable insertion argsort for lists not in the table)
  formir   = (<name> <name_from_uflfile> <signature> <rank> <num_coefficients> (<position>…) (<coefficient name>…)
              <num_constants> (<rank>…) ((<extent>…)…) (<constant name>…) (<hash>|none …) (<type>…))
  type     = ((<id>…) (<integral name>…) (((<cell name> <tag>)…)…))
  domain   = (<cell name> <tag>)
  integralir = (<name> (<enabled: true|false>…) <needs permutations> <hash>|none)
  exprir   = (<name> <name_from_uflfile> ((<shape0> <shape1> (<literal>…))…) (<position>…) (<shape>…)
              <len coefficient_numbering> (<coefficient name>…) (<constant name>…) (<tensor extent>…) <hash>|none)
  enc      = none | (arr <entry>…)
  formdescr = (<factory> <alias> <signature> <rank> <num_coefficients> <enc positions> <enc names> <num_constants>
               <enc ranks> <enc of enc shapes> <enc names> <enc hashes> <enc integral names> <enc ids> (<offset>…))
  integraldescr = (<factory> <enc flags> <needs permutations> <hash> <domain tag> ((<slot> omitted|null|fn [<function>])…))
  exprdescr = (<factory> <alias> (<slot>…) <num_coefficients> <num_constants> <enc positions> <enc names> <enc names>
               <num_points> <entity_dimension> <enc literals> <enc shape> <num_components> <rank> <hash>|none)
-/
import FfcxModel.Base.Sexp
import FfcxModel.Backend.Descriptors

namespace Ffcx.Driver
open Ffcx Ffcx.Backend

namespace Descr

def ints (s : Sexp) : Except String (List Int) := do (← s.asList).mapM Sexp.asInt
def nats (s : Sexp) : Except String (List Nat) := do (← s.asList).mapM Sexp.asNat
def strs (s : Sexp) : Except String (List String) := do (← s.asList).mapM Sexp.asAtom
def bools (s : Sexp) : Except String (List Bool) := do (← s.asList).mapM Sexp.asBool

def optNat (s : Sexp) : Except String (Option Nat) :=
  match s with
  | .atom "none" => pure none
  | _ => do pure (some (← s.asNat))

def readDomain (s : Sexp) : Except String Domain := do
  match s with
  | .list [n, t] => pure ⟨← n.asAtom, ← t.asNat⟩
  | _ => throw "domain = (name tag)"

def readType (s : Sexp) : Except String TypeIntegrals := do
  match s with
  | .list [ids, names, doms] =>
    pure { ids := ← ints ids, names := ← strs names,
           domains := ← (← doms.asList).mapM (fun d => do (← d.asList).mapM readDomain) }
  | _ => throw "type = ((ids) (names) ((domains)…))"

def readFormIR (s : Sexp) : Except String FormIR := do
  match s with
  | .list [name, alias, sig, rank, ncoef, pos, cnames, nconst, ranks, shapes, knames, hashes, types] =>
    pure { name := ← name.asAtom, nameFromUflfile := ← alias.asAtom, signature := ← sig.asAtom,
           rank := ← rank.asInt, numCoefficients := ← ncoef.asInt,
           originalCoefficientPositions := ← ints pos, coefficientNames := ← strs cnames,
           numConstants := ← nconst.asInt, constantRanks := ← ints ranks,
           constantShapes := ← (← shapes.asList).mapM ints, constantNames := ← strs knames,
           finiteElementHashes := ← (← hashes.asList).mapM optNat,
           integrals := ← (← types.asList).mapM readType }
  | _ => throw "formir: 13 fields expected"

/-- the argsort oracle: NumPy's results for the id lists of this request, a stable sort otherwise -/
def readSubId (s : Sexp) : Except String SubId := do
  let a ← s.asAtom
  if a == "otherwise" then pure .otherwise else pure (.num (← s.asInt))

def readItg (s : Sexp) : Except String ItgData := do
  match s with
  | .list [t, sids, n, doms] =>
    pure { itype := ← t.asNat, subdomainId := ← (← sids.asList).mapM readSubId, name := ← n.asAtom,
           domains := ← (← doms.asList).mapM readDomain }
  | _ => throw "itg = (type (ids) name (domains))"

def ofType (t : TypeIntegrals) : Sexp :=
  .list [.list (t.ids.map Sexp.ofInt), .list (t.names.map Sexp.atom),
         .list (t.domains.map (fun ds => .list (ds.map (fun d => .list [.atom d.name, .ofNat d.tag]))))]

def readArgsort (s : Sexp) : Except String (List Int → List Nat) := do
  let rows ← (← s.asList).mapM (fun r => do
    match r with
    | .list [ids, perm] => pure ((← ints ids), (← nats perm))
    | _ => throw "argsort row = ((ids) (perm))")
  pure (fun ids => match rows.lookup ids with
    | some π => π
    | none => argsortIns ids)

def readScalar (s : Sexp) : Except String ScalarType := do
  match ← s.asAtom with
  | "float32" => pure .float32
  | "float64" => pure .float64
  | "complex64" => pure .complex64
  | "complex128" => pure .complex128
  | a => throw s!"scalar type {a} is not one of the four of ffcx.options"

def readIntegralIR (s : Sexp) : Except String IntegralIR := do
  match s with
  | .list [name, en, np, h] =>
    pure { name := ← name.asAtom, enabledCoefficients := ← bools en, needsFacetPermutations := ← np.asBool,
           coordinateElementHash := ← optNat h }
  | _ => throw "integralir: 4 fields expected"

def readPoints (s : Sexp) : Except String Points := do
  match s with
  | .list [a, b, flat] => pure ⟨← a.asNat, ← b.asNat, ← strs flat⟩
  | _ => throw "points = (shape0 shape1 (literals))"

def readExprIR (s : Sexp) : Except String ExpressionIR := do
  match s with
  | .list [name, alias, pts, pos, shape, ncn, cnames, knames, tshape, h] =>
    pure { name := ← name.asAtom, nameFromUflfile := ← alias.asAtom,
           integrandPoints := ← (← pts.asList).mapM readPoints,
           originalCoefficientPositions := ← ints pos, shape := ← ints shape,
           numCoefficientNumbering := ← ncn.asNat, coefficientNames := ← strs cnames,
           constantNames := ← strs knames, tensorShape := ← ints tshape, coordinateElementHash := ← optNat h }
  | _ => throw "exprir: 10 fields expected"

/-! printing -/

def ofEnc {α} (f : α → Sexp) : Enc α → Sexp
  | .absent => .atom "none"
  | .arr xs => .list (.atom "arr" :: xs.map f)

def ofStr (s : String) : Sexp := .atom s

def ofSlot (p : String × Slot) : Sexp :=
  match p.2 with
  | .omitted => .list [.atom p.1, .atom "omitted"]
  | .null => .list [.atom p.1, .atom "null"]
  | .fn f => .list [.atom p.1, .atom "fn", .atom f]

def ofFormDescr (d : FormDescr) : Sexp :=
  .list [ofStr d.factoryName, ofStr d.nameFromUflfile, ofStr d.signature, .ofInt d.rank, .ofInt d.numCoefficients,
         ofEnc Sexp.ofInt d.originalCoefficientPositions, ofEnc ofStr d.coefficientNameMap, .ofInt d.numConstants,
         ofEnc Sexp.ofInt d.constantRanks, ofEnc (ofEnc Sexp.ofInt) d.constantShapes, ofEnc ofStr d.constantNameMap,
         ofEnc Sexp.ofNat d.finiteElementHashes, ofEnc ofStr d.formIntegrals, ofEnc Sexp.ofInt d.formIntegralIds,
         .list (d.formIntegralOffsets.map Sexp.ofInt)]

def ofIntegralDescr (d : IntegralDescr) : Sexp :=
  .list [ofStr d.factoryName, ofEnc Sexp.ofBool d.enabledCoefficients, .ofBool d.needsFacetPermutations,
         .ofNat d.coordinateElementHash, .ofNat d.domain, .list (d.kernels.map ofSlot)]

def ofExprDescr (d : ExprDescr) : Sexp :=
  .list [ofStr d.factoryName, ofStr d.nameFromUflfile, .list (d.kernels.map ofSlot), .ofNat d.numCoefficients,
         .ofNat d.numConstants, ofEnc Sexp.ofInt d.originalCoefficientPositions, ofEnc ofStr d.coefficientNames,
         ofEnc ofStr d.constantNames, .ofNat d.numPoints, .ofNat d.entityDimension, ofEnc ofStr d.points,
         ofEnc Sexp.ofInt d.valueShape, .ofNat d.numComponents, .ofNat d.rank,
         match d.coordinateElementHash with | none => .atom "none" | some h => .ofNat h]

def ofResult {δ} (f : δ → Sexp) : Except String δ → Sexp
  | .ok d => .list [.atom "ok", f d]
  | .error e => .list [.atom "error", .atom e]

def decideRes {δ} (eq : δ → δ → Prop) [∀ a b, Decidable (eq a b)] : Except String δ → Except String δ → Bool
  | .ok a, .ok b => decide (eq a b)
  | .error _, .error _ => true
  | _, _ => false

end Descr

open Descr in
def handleDescr (cmd : String) (args : List Sexp) : Except String Sexp := do
  match cmd, args with
  | "descr_ping", [] => pure (.atom "pong-descr")
  | "cform", [t, ir] => pure (ofResult ofFormDescr (C.form (← readArgsort t) (← readFormIR ir)))
  | "numbaform", [t, ir] => pure (ofResult ofFormDescr (Numba.form (← readArgsort t) (← readFormIR ir)))
  | "numbaform_m2", [t, ir] => pure (ofResult ofFormDescr (Numba.formSeededM2 (← readArgsort t) (← readFormIR ir)))
  | "cformstored", [t, ir] =>
    pure (ofResult ofFormDescr ((C.form (← readArgsort t) (← readFormIR ir)).map C.storeForm))
  | "cformdecls", [t, ir] =>
    pure (ofResult (fun ds => .list (ds.map (fun (d : ArrayDecl) => .list [.atom d.name, .ofInt d.size, .ofNat d.count])))
      (C.formDecls (← readArgsort t) (← readFormIR ir)))
  | "formagree", [t, ir] =>
    let a ← readArgsort t
    let f ← readFormIR ir
    pure (.list [.ofBool (decideRes FormDescr.descrEq (C.form a f) (Numba.form a f)),
                 .ofBool (decideRes FormDescr.descrEq ((C.form a f).map C.storeForm) (Numba.form a f))])
  | "fits", [t, ir] =>
    let a ← readArgsort t
    let f ← readFormIR ir
    let rows := match integralData a f with
      | .ok d => decide ((d.domains.map List.length).sum < 2147483648)
      | .error _ => true
    pure (.list [.ofBool (decide (idsFit f)), .ofBool f.fieldsFitB, .ofBool rows])
  | "formirints", [n, itgs] =>
    pure (ofResult (fun gs => .list (gs.map ofType)) (formIRIntegrals (← n.asNat) (← (← itgs.asList).mapM readItg)))
  | "cintegral", [ir, d, st, w] =>
    pure (ofResult ofIntegralDescr (C.integral (← readIntegralIR ir) (← readDomain d) ⟨← readScalar st, ← w.asBool⟩))
  | "numbaintegral", [ir, d, st, w] =>
    pure (ofResult ofIntegralDescr (Numba.integral (← readIntegralIR ir) (← readDomain d) ⟨← readScalar st, ← w.asBool⟩))
  | "cexpr", [ir, st] => pure (ofResult ofExprDescr (C.expression (← readExprIR ir) ⟨← readScalar st, false⟩))
  | "numbaexpr", [ir, st] => pure (ofResult ofExprDescr (Numba.expression (← readExprIR ir) ⟨← readScalar st, false⟩))
  | "prelude", [] =>
    pure (.list (Numba.preludeConstants.map (fun p => .list [.atom p.1, .ofNat p.2])))
  | "enums", [] =>
    pure (.list [.list (C.integralTypeEnum.map (fun p => .list [.atom p.1, .ofNat p.2])),
                 .list (C.cellTypeTags.map (fun p => .list [.atom p.1, .ofNat p.2]))])
  | _, _ => throw s!"unknown command or wrong arity: {cmd}"

end Ffcx.Driver
