/- Driver commands for the operator-folding model. -/
import FfcxModel.LNodes.Wire
import FfcxModel.LNodes.Simplify

namespace Ffcx.Driver
open Ffcx Ffcx.LNodes

def handleSimp (args : List Sexp) : Except String Sexp := do
  match args with
  | [.atom op, a, b] =>
    let a ← readExpr a
    let b ← readExpr b
    let r : Option Expr := match op with
      | "add" => some (lAdd a b) | "radd" => some (lRAdd a b)
      | "sub" => some (lSub a b) | "rsub" => some (lRSub a b)
      | "mul" => some (lMul a b) | "rmul" => some (lRMul a b)
      | "div" => lDiv a b | "rdiv" => lRDiv a b
      | _ => none
    match op, r with
    | "div", none | "rdiv", none => return .list [.atom "raise", .atom "ValueError"]
    | _, none => throw s!"bad op {op}"
    | _, some e => return .list [.atom "ok", writeExpr e]
  | [.atom "neg", a] => return .list [.atom "ok", writeExpr (lNeg (← readExpr a))]
  | _ => throw "simp: expected (simp op a b)"

def handleFloatProd (args : List Sexp) : Except String Sexp := do
  let es ← args.mapM readExpr
  return .list [.atom "ok", writeExpr (floatProduct es)]

def handleMiGlobal (args : List Sexp) : Except String Sexp := do
  match args with
  | [syms, sizes] =>
    let ss ← (← syms.asList).mapM fun s => match s with
      | .list [.atom "py", n] => do pure (MSym.py (← n.asInt))
      | e => do pure (MSym.ex (← readExpr e))
    let zs ← (← sizes.asList).mapM Sexp.asNat
    return .list [.atom "ok", writeExpr (miGlobal ss zs)]
  | _ => throw "miglobal: expected (miglobal (syms) (sizes))"

end Ffcx.Driver
