/- Driver command for the dtype certificate (C09 soundness: FfcxProofs/C09Sound.lean). -/
import FfcxModel.LNodes.Wire
import FfcxModel.LNodes.DtypeCert

namespace Ffcx.Driver
open Ffcx Ffcx.LNodes

/-! Diagnostics only (not used by any theorem): locate the first leaf statement / sub-expression on
which `certS` / `certE` fails and say which clause failed.  The verdict itself is `dtypeCert`. -/

private def showTy (e : Expr) : String :=
  match tyOf e with
  | some d => d.toString
  | none => "invalid"

mutual
def whyE (strict : Bool) (Γ : DEnv) : Expr → Option String
  | .litF _ im c => if c || im == 0 then none else some "real-literal-with-imaginary-part"
  | .litI _ => none
  | .sym n dt =>
    if Γ.get n == some dt then none
    else some s!"symbol-dtype-disagrees {n} used:{dt.toString} declared:{match Γ.get n with | some d => d.toString | none => "undeclared"}"
  | .mi _ _ gi => whyE strict Γ gi
  | .neg a => whyE strict Γ a
  | .not a => whyE strict Γ a
  | .bin _ a b => (whyE strict Γ a).orElse (fun _ => whyE strict Γ b)
  | .sum args => whyEL strict Γ args
  | .prod args => whyEL strict Γ args
  | .call f dt args =>
    (whyEL strict Γ args).orElse fun _ =>
      if headDtype args != some dt then some s!"call-node-dtype-disagrees {f} node:{dt.toString}"
      else if strict && formatRejects f args then
        some s!"formatter-rejects-function-without-complex-version {f} args:{" ".intercalate (args.map showTy)}"
      else if strict && truncatesArgs f args && !(allRealTy args) then
        some s!"real-parameter-function-gets-complex-argument {f} table:real args:{" ".intercalate (args.map showTy)}"
      else none
  | .idx arr dt ix =>
    if Γ.get arr != some dt then
      some s!"array-dtype-disagrees {arr} used:{dt.toString} declared:{match Γ.get arr with | some d => d.toString | none => "undeclared"}"
    else (whyEL strict Γ ix).orElse fun _ =>
      if allIntTy ix then none else some s!"subscript-not-int {arr}"
  | .cond c t f =>
    (whyE strict Γ c).orElse fun _ => (whyE strict Γ t).orElse fun _ => whyE strict Γ f
def whyEL (strict : Bool) (Γ : DEnv) : List Expr → Option String
  | [] => none
  | e :: es => (whyE strict Γ e).orElse (fun _ => whyEL strict Γ es)
end

private def whyStore (strict : Bool) (what : String) (rhs : Expr) (target : String) (dt : DType) :
    Option String :=
  if !strict || tyLe rhs dt then none
  else some s!"{what}-narrows {target} declared:{dt.toString} value:{showTy rhs}"

private def lhsName : Expr → String
  | .sym n _ => n
  | .idx a _ _ => a
  | _ => "?"

mutual
/-- first failing leaf statement and the reason -/
def whyS (strict : Bool) (Γ : DEnv) : Stmt → Option (Stmt × String)
  | .assign lhs rhs =>
    if certS strict Γ (.assign lhs rhs) then none else
    some (.assign lhs rhs,
      if !(dtIsLvalue lhs) then "not-an-lvalue" else
      ((whyE strict Γ lhs).orElse fun _ => (whyE strict Γ rhs).orElse fun _ =>
        whyStore strict "assign" rhs (lhsName lhs) (lhsDt lhs)).getD "?")
  | .addAssign lhs rhs =>
    if certS strict Γ (.addAssign lhs rhs) then none else
    some (.addAssign lhs rhs,
      if !(dtIsLvalue lhs) then "not-an-lvalue" else
      ((whyE strict Γ lhs).orElse fun _ => (whyE strict Γ rhs).orElse fun _ =>
        whyStore strict "addassign" rhs (lhsName lhs) (lhsDt lhs)).getD "?")
  | .vdecl n dt v =>
    if certS strict Γ (.vdecl n dt v) then none else
    some (.vdecl n dt v,
      if Γ.get n != some dt then s!"declaration-dtype-disagrees {n} declared:{dt.toString} first:{match Γ.get n with | some d => d.toString | none => "undeclared"}"
      else ((whyE strict Γ v).orElse fun _ => whyStore strict "vdecl" v n dt).getD "?")
  | .adecl n dt sizes c vals =>
    if certS strict Γ (.adecl n dt sizes c vals) then none else
    some (.adecl n dt sizes c none,
      if Γ.get n != some dt then s!"declaration-dtype-disagrees {n} declared:{dt.toString} first:{match Γ.get n with | some d => d.toString | none => "undeclared"}"
      else ((whyEL strict Γ (vals.getD [])).getD s!"initialiser-narrows {n} declared:{dt.toString}"))
  | .forRange i lo hi body =>
    if Γ.get i != some .int then some (.forRange i lo hi [], s!"loop-index-not-int {i}")
    else match (whyE strict Γ lo).orElse (fun _ => whyE strict Γ hi) with
      | some w => some (.forRange i lo hi [], w)
      | none => whySL strict Γ body
  | .comment _ => none
  | .block ss => whySL strict Γ ss
  | .sect _ decls stmts _ _ _ => (whySL strict Γ decls).orElse (fun _ => whySL strict Γ stmts)
def whySL (strict : Bool) (Γ : DEnv) : List Stmt → Option (Stmt × String)
  | [] => none
  | s :: ss => (whyS strict Γ s).orElse (fun _ => whySL strict Γ ss)
end

mutual
/-- number of `call` nodes whose C function has `double` parameters while the kernel is complex
    (the places where the certificate has something to check), and of stores into REAL targets -/
def countE : Expr → Nat × Nat
  | .neg a | .not a => countE a
  | .mi _ _ gi => countE gi
  | .bin _ a b => let (p, q) := countE a; let (r, s) := countE b; (p + r, q + s)
  | .sum args | .prod args => countEL args
  | .call f _ args =>
    let (p, q) := countEL args
    (p + (if truncatesArgs f args then 1 else 0), q + 1)
  | .idx _ _ ix => countEL ix
  | .cond c t f =>
    let (p, q) := countE c; let (r, s) := countE t; let (u, v) := countE f
    (p + r + u, q + s + v)
  | _ => (0, 0)
def countEL : List Expr → Nat × Nat
  | [] => (0, 0)
  | e :: es => let (p, q) := countE e; let (r, s) := countEL es; (p + r, q + s)
end

mutual
/-- (stores into REAL-declared targets, calls with `double` parameters, all calls) -/
def countS : Stmt → Nat × Nat × Nat
  | .assign l r | .addAssign l r =>
    let (p, q) := countE r
    ((if lhsDt l == .real then 1 else 0), p, q)
  | .vdecl _ dt v => let (p, q) := countE v; ((if dt == .real then 1 else 0), p, q)
  | .adecl _ dt _ _ vals => ((if dt == .real && vals.isSome then 1 else 0), 0, 0)
  | .forRange _ _ _ body => countSL body
  | .block ss => countSL ss
  | .sect _ d s _ _ _ =>
    let (a, b, c) := countSL d; let (e, f, g) := countSL s; (a + e, b + f, c + g)
  | .comment _ => (0, 0, 0)
def countSL : List Stmt → Nat × Nat × Nat
  | [] => (0, 0, 0)
  | s :: ss => let (a, b, c) := countS s; let (e, f, g) := countSL ss; (a + e, b + f, c + g)
end

/-- `(dtypecert <strict:bool> stmt)` →
    `(ok <dtypeCert> (bad none | <offending leaf statement>) (why <reason>) (counts <real stores>
    <double-parameter calls> <calls>))`.  `strict = true` for complex scalar types.
    `(dtypecert sig <handler name> <dtype of each argument>…)` →
    `(ok <truncatesArgs> <callTy> <complexCapable> <formatRejects>)`: the model's view of the C function
    emitted in a complex kernel (used by the math-table scan). -/
def handleDtypeCert (args : List Sexp) : Except String Sexp := do
  match args with
  | .atom "sig" :: f :: dts =>
    -- `(dtypecert sig <handler name> <dtype of each argument>…)` →
    -- `(ok <truncatesArgs> <callTy> <complexCapable> <formatRejects>)`: the model's view of the C function
    -- emitted in a complex kernel for a call whose arguments have these LNodes dtypes (math-table scan)
    let f ← f.asAtom
    let ds ← dts.mapM (fun d => do DType.ofString (← d.asAtom))
    let args := ds.map (fun d => Expr.sym "a" d)
    return .list [.atom "ok", Sexp.ofBool (truncatesArgs f args), .atom (callTy f args).toString,
      Sexp.ofBool (complexCapable f), Sexp.ofBool (formatRejects f args)]
  | [strict, stmt] =>
    let strict ← strict.asBool
    let s ← readStmt stmt
    let ok := dtypeCert strict s
    let (bad, why) : Sexp × String :=
      if ok then (.atom "none", "") else
      match whyS strict (kernelEnv s) s with
      | some (b, w) => (writeStmt b, w)
      | none => (.atom "none", "?")
    let (a, b, c) := countS s
    return .list [.atom "ok", Sexp.ofBool ok, .list [.atom "bad", bad], .list [.atom "why", .atom why],
      .list [.atom "counts", Sexp.ofNat a, Sexp.ofNat b, Sexp.ofNat c]]
  | _ => throw "dtypecert: expected (dtypecert strict stmt)"

/-- dispatch hook: `none` if the command is not one of this file's -/
def Dtype.handle : Sexp → Option (Except String Sexp)
  | .list (.atom "dtypecert" :: args) => some (handleDtypeCert args)
  | _ => none

end Ffcx.Driver
