/- Driver commands of the optimiser cluster (model of `optimizer.py`). -/
import FfcxModel.LNodes.Wire
import FfcxModel.LNodes.Optimizer
import FfcxModel.LNodes.OptCert

namespace Ffcx.Driver
open Ffcx Ffcx.LNodes Ffcx.LNodes.Opt

def optResult {α} (w : α → List Sexp) : M α → Sexp
  | .ok a => .list (.atom "ok" :: w a)
  | .error e => .list [.atom "raise", .atom e.name]

/-- `(optimize s…)` → `(ok s'…)` | `(raise ExceptionName)` -/
def handleOptimize (args : List Sexp) : Except String Sexp := do
  let code ← args.mapM readStmt
  return optResult (·.map writeStmt) (optimize code)

/-- `(fuse_sections name s…)` -/
def handleFuseSections (args : List Sexp) : Except String Sexp := do
  match args with
  | name :: ss =>
    let code ← ss.mapM readStmt
    return optResult (·.map writeStmt) (fuseSections code (← name.asAtom))
  | _ => throw "fuse_sections: expected (fuse_sections name s…)"

/-- `(fuse_loops section)` -/
def handleFuseLoops (args : List Sexp) : Except String Sexp := do
  match args with
  | [s] => return optResult (fun r => [writeStmt r]) (fuseLoops (← readStmt s))
  | _ => throw "fuse_loops: expected (fuse_loops section)"

/-- `(licm section)` -/
def handleLicm (args : List Sexp) : Except String Sexp := do
  match args with
  | [s] => return optResult (fun r => [writeStmt r]) (licm (← readStmt s))
  | _ => throw "licm: expected (licm section)"

/-- `(check_dependency expr index)` → `(ok bool)` | `(raise NotImplementedError)` -/
def handleCheckDependency (args : List Sexp) : Except String Sexp := do
  match args with
  | [e, i] => return optResult (fun b => [Sexp.ofBool b]) (checkDependency (← readExpr e) (← i.asAtom))
  | _ => throw "check_dependency: expected (check_dependency expr index)"

/-- `(pyeq a b)` → `(ok bool)`; `(hashable a)` → `(ok bool)` -/
def handlePyEq (args : List Sexp) : Except String Sexp := do
  match args with
  | [a, b] => return .list [.atom "ok", Sexp.ofBool (pyEq (← readExpr a) (← readExpr b))]
  | _ => throw "pyeq: expected (pyeq a b)"

def handleHashable (args : List Sexp) : Except String Sexp := do
  match args with
  | [a] => return .list [.atom "ok", Sexp.ofBool (hashable (← readExpr a))]
  | _ => throw "hashable: expected (hashable a)"

end Ffcx.Driver

namespace Ffcx.Driver
open Ffcx Ffcx.LNodes Ffcx.LNodes.Opt

def bS (k : String) (b : Bool) : Sexp := .list [.atom k, Sexp.ofBool b]

/-- `(opt_cert s…)` → `(ok <optimizeCert> (dead n…) (fs_coefficient b) (fs_jacobian b) (context b)
    (sections (name fuse_loops licm)…))`: the certificate of `optimize_sound` and its parts -/
def handleOptCert (args : List Sexp) : Except String Sexp := do
  let code ← args.mapM readStmt
  let D := optDead code
  let c1 := match fuseSections code "Coefficient" with | .ok c => c | .error _ => code
  let c2 := match fuseSections c1 "Jacobian" with | .ok c => c | .error _ => c1
  let secs := c2.filterMap fun s =>
    match s with
    | .sect nm _ _ _ _ ann =>
      let fuse := ann.contains "fuse"
      let lic := !fuse && ann.contains "licm"
      let fl := if fuse then flCert D s else true
      let lc := if lic then licmCert s && licmTripCert s && (licmDead s).all (fun n => D.contains n) else true
      some (Sexp.list [.atom nm, bS "fuse_loops" fl, bS "licm" lc,
        bS "fuse_applies" fuse, bS "licm_applies" lic])
    | _ => none
  return .list [.atom "ok", Sexp.ofBool (optimizeCert code),
    .list (.atom "dead" :: D.map .atom),
    bS "fs_coefficient" (fsCert D code "Coefficient"),
    bS "fs_jacobian" (fsCert D c1 "Jacobian"),
    bS "context" (contextCert D (tempNames (maxTemps c2)) c2),
    .list (.atom "sections" :: secs)]

/-- `(licm_candidates section)` → `(ok (factor isCand mentionsInner)…)` for the first depth-2 nest:
    which factors `check_dependency` declares independent of the inner index, and whether they
    mention it -/
def handleLicmCandidates (args : List Sexp) : Except String Sexp := do
  match args with
  | [s] =>
    match (← readStmt s) with
    | .sect _ _ (.forRange _ _ _ (.forRange n _ _ body :: _) :: _) _ _ _ =>
      let rows := (leaves body).flatMap fun st => (prodArgs st).map fun a =>
        Sexp.list [writeExpr a, Sexp.ofBool (isCand n a), Sexp.ofBool (mentionsE n a)]
      return .list (.atom "ok" :: .atom n :: rows)
    | _ => return .list [.atom "ok", .atom "none"]
  | _ => throw "licm_candidates: expected (licm_candidates section)"

end Ffcx.Driver
