/-
The JIT cache protocol of `ffcx/codegeneration/jit.py` as a transition system
(DESIGN.md Appendix B; properties C14 and C15).  Core Lean only.

One *process* of the model is one call of `compile_forms`/`compile_expressions`
with a shared `cache_dir`.  One *step* of the model is one of the operations at
which the real code touches the file system or the process-global state; the
scheduler `harness/sched.py` blocks the real code at exactly these points:

  op        real call in jit.py
  lock      `open(c_filename, "x")`                     get_cached_module
  poll      `os.path.exists(ready_name)` (+ `time.sleep(1)` when false; raising
            `TimeoutError` when the `for i in range(timeout)` loop is exhausted)
  find      `finder.find_spec(module_name)`             waiter and `_load_objects`
  load      `importlib.util.module_from_spec(spec)` (the dlopen) + `exec_module`
  gen       `ffcx.compiler.compile_ufl_objects(...)`
  swap      `root_logger.handlers = [StreamHandler(f)]` and `redirect_stdout(f).__enter__`
  src       cffi: write `<module>.c` (tmp file + rename over the lock file)
  obj       cffi/distutils: `cc -c`  -> `<module>.o`
  link1     the linker has created the `.so` but not finished writing it
  link2     the linker has finished
  unredir   `redirect_stdout.__exit__` on the normal path
  tmpCreate `open(tmp_name, "x")`, tmp_name = `<module>.c.cached.tmp<pid>`   (nothing reads this file)
  tmpWrite  `fd.write(s)` and the `close` at the end of the `with` block  (either may raise: ENOSPC, ...)
  markCheck `ready_name.exists()`  (true -> `raise FileExistsError`)
  publish   `os.replace(tmp_name, ready_name)`: the marker appears in ONE step, complete
  tmpRemove `os.remove(tmp_name)` in the inner `finally` (when `tmp_name.exists()`, i.e. on every
            failure path after the temp file has been created)
  restore   `root_logger.handlers = old_handlers`
  release   `os.replace(c_filename, c_filename.with_suffix(".c.failed"))` in the
            `except Exception` block of compile_forms (errors swallowed)

The model mirrors the code AS IT IS (after /repo commits 9fb79f1 and 101bdbe): everything from
`ffibuilder.compile` to the publication of the ready marker is inside
`try: ... finally: root_logger.handlers = old_handlers`.  When `ffibuilder.compile` raises, the
`with redirect_stdout` block restores `sys.stdout` (silently, no gate), then the `finally` block
restores the handlers (op `restore`, control state `bFailRestore`), then the exception reaches the
`except` block of compile_forms (op `release`).  The ready marker is completed under a temporary
name and moved into place: an exception at `tmpCreate`, `tmpWrite`, `markCheck` or `publish`
(choice `fail` = the call raises an `OSError`; `markCheck` raises `FileExistsError` by itself when
the marker is there) first runs the inner `finally` - `tmp_name.exists()` is evaluated by the same
request right after the failing call, on a file nobody else touches: no step of its own - which
removes the temp file if there is one (op `tmpRemove`, control state `bTmpRemove`), then `restore`,
then `release`.  So the marker never exists without being complete, and nobody ever removes it.
A request killed between `tmpCreate` and `publish` leaves a stray temp file that nothing reads (the
lock stays with it, so no later request ever builds in that directory: see `no_poison`).
A failure of code generation happens before the swap and goes to `release` directly.

`compile_forms` and `compile_expressions` are the same protocol: both call `get_cached_module`, then
`_compile_objects` inside the same `try/except: os.replace(.c -> .c.failed); raise`, then
`_load_objects`; they differ only in the module-name prefix and the cffi declarations.  One
transition system models both (harness/props/c14.py and c15.py drive both through the scheduler).

A process may issue a further request after its previous one has returned or raised (choice
`again`): its process-global state is whatever the previous request left behind.
-/
namespace Ffcx.Jit

/-- `<module>.c`: the exclusive-create lock, later overwritten by the C source. -/
inductive Lock where
  | absent | empty | source
  deriving DecidableEq, Repr, Inhabited

/-- The extension module `<module>.<EXT_SUFFIX>`. -/
inductive So where
  | absent | part | complete
  deriving DecidableEq, Repr, Inhabited

/-- Cache directory contents relevant to the protocol. -/
structure FS where
  lock : Lock := .absent
  so : So := .absent
  obj : Bool := false      -- `<module>.o`
  marker : Bool := false   -- `<module>.c.cached`
  failed : Bool := false   -- `<module>.c.failed`
  tmp : Bool := false      -- `<module>.c.cached.tmp<pid>`: the marker under construction (or a stray one)
  /-- identity of the current `.so` file: how often the linker has (re)created it (it unlinks and
  re-creates the output file).  The module token handed to whoever imports the file. -/
  gen : Nat := 0
  deriving DecidableEq, Repr, Inhabited

/-- A value of a piece of process-global state: what the user had, or the capture buffer
installed by `_compile_objects`. -/
inductive GVal where
  | user | capture
  deriving DecidableEq, Repr, Inhabited

/-- Process-global state: `logging.getLogger().handlers` and `sys.stdout`. -/
structure Glob where
  handlers : GVal := .user
  stdout : GVal := .user
  deriving DecidableEq, Repr, Inhabited

/-- Where inside the `try:` block of `compile_forms` an exception came from. -/
inductive Cause where
  | gen       -- `compile_ufl_objects` raised (before the handlers are swapped)
  | compile   -- `ffibuilder.compile` raised (inside `with redirect_stdout`)
  | marker    -- `ready_name.exists()` was true: FileExistsError
  | tmpExists -- `open(tmp_name, "x")` raised FileExistsError
  | tmpOpen   -- `open(tmp_name, "x")` raised something else (nothing was created)
  | tmpWrite  -- `fd.write(s)` / `fd.close()` on the temp file raised
  | publish   -- `os.replace(tmp_name, ready_name)` raised
  deriving DecidableEq, Repr, Inhabited

inductive Err where
  | timeout             -- TimeoutError of get_cached_module
  | notFound            -- ModuleNotFoundError("Unable to find JIT module.")
  | build (c : Cause)   -- exception re-raised by compile_forms after the release
  deriving DecidableEq, Repr, Inhabited

/-- Control state of one request. -/
inductive Pc where
  | idle                       -- not yet arrived; next op: lock
  | wPoll (i : Nat)            -- waiter, `i` unsuccessful polls so far; next op: poll
  | wFind | wLoad
  | bGen | bSwap | bSrc | bObj | bLink1 | bLink2 | bUnredir | bTmpCreate | bTmpWrite | bMarkCheck
  | bPublish | bRestore | bFind
  | bLoad
  | bTmpRemove (c : Cause)     -- exception while the temp file exists; next op: tmpRemove
  | bFailRestore (c : Cause)   -- exception inside the `try` of `_compile_objects`; next op: restore
  | bFail (c : Cause)          -- in the `except` block of compile_forms; next op: release
  | done (built : Bool) (so : So)  -- returned; `so` = state of the file that was imported
  | raised (e : Err)
  | dead                       -- killed
  deriving DecidableEq, Repr, Inhabited

/-- Adversarial choice accompanying a step.  `again`: a process whose request has returned or
raised issues a new request (for a request still in progress `again` is an ordinary step). -/
inductive Choice where
  | none | fail | kill | again
  deriving DecidableEq, Repr, Inhabited

inductive Op where
  | lock | poll | find | load | gen | swap | src | obj | link1 | link2 | unredir | tmpCreate | tmpWrite | markCheck | publish
  | tmpRemove
  | restore   | release | kill | again | none
  deriving DecidableEq, Repr, Inhabited

inductive Res where
  | ok | exists_ | true_ | false_ | found | notfound | raise | so (s : So) | enoent | unit
  deriving DecidableEq, Repr, Inhabited

/-- Observable of one step. -/
structure Obs where
  op : Op
  res : Res
  deriving DecidableEq, Repr, Inhabited

structure Proc where
  pc : Pc := .idle
  g : Glob := {}
  /-- `old_handlers` and the `_old_targets` of `redirect_stdout`. -/
  saved : Glob := {}
  /-- ghost: number of unsuccessful polls performed -/
  polls : Nat := 0
  /-- module token: `FS.gen` of the `.so` file imported by the last `load` step of this process -/
  tok : Nat := 0
  deriving DecidableEq, Repr, Inhabited

structure Sys where
  timeout : Nat
  fs : FS := {}
  procs : List Proc
  /-- ghost counters: successful `lock`s, successful `release`s, invocations of `ffibuilder.compile` -/
  nLock : Nat := 0
  nRel : Nat := 0
  nCompile : Nat := 0
  deriving DecidableEq, Repr, Inhabited

def Pc.terminal : Pc → Bool
  | .done _ _ | .raised _ | .dead => true
  | _ => false

/-- The process is inside the lock epoch it created (between a successful `lock` and its return,
release or death). -/
def Pc.isB : Pc → Bool
  | .bGen | .bSwap | .bSrc | .bObj | .bLink1 | .bLink2 | .bUnredir | .bTmpCreate | .bTmpWrite | .bMarkCheck
  | .bPublish | .bRestore | .bFind | .bLoad | .bTmpRemove _ | .bFailRestore _ | .bFail _ => true
  | _ => false

/-- Builder states before the marker has been published. -/
def Pc.isPre : Pc → Bool
  | .bGen | .bSwap | .bSrc | .bObj | .bLink1 | .bLink2 | .bUnredir | .bTmpCreate | .bTmpWrite | .bMarkCheck
  | .bPublish | .bTmpRemove _ | .bFailRestore _ | .bFail _ => true
  | _ => false

/-- Builder states in which no temp file of this request exists. -/
def Pc.noTmp : Pc → Bool
  | .bGen | .bSwap | .bSrc | .bObj | .bLink1 | .bLink2 | .bUnredir | .bTmpCreate | .bRestore | .bFind | .bLoad
  | .bFailRestore _ | .bFail _ => true
  | _ => false

/-- States whose next step belongs to code generation / C compilation. -/
def Pc.isCompile : Pc → Bool
  | .bGen | .bSwap | .bSrc | .bObj | .bLink1 | .bLink2 => true
  | _ => false

/-- States whose next step imports the extension module. -/
def Pc.isLoad : Pc → Bool
  | .wLoad | .bLoad => true
  | _ => false

/-- Exit of `ffibuilder.compile` by exception: `redirect_stdout.__exit__` runs; the request is now
in the `finally` block that restores the handlers. -/
def Proc.compileRaises (p : Proc) : Proc :=
  { p with pc := .bFailRestore .compile, g := { p.g with stdout := p.saved.stdout } }

/-- An exception in the marker segment (`sys.stdout` is already restored): the inner `finally`
looks at `tmp_name.exists()` - to remove the temp file - before the outer one restores the handlers. -/
def Proc.markRaises (p : Proc) (fs : FS) (c : Cause) : Proc :=
  { p with pc := if fs.tmp then .bTmpRemove c else .bFailRestore c }

/-- The next operation of a live (not terminal, not killed) request whose control state is the
last argument (`p.pc`); `c = .fail` makes a fallible operation raise. -/
def stepLive (timeout : Nat) (fs : FS) (p : Proc) (c : Choice) : Pc → FS × Proc × Obs
  | .idle =>
    if fs.lock = .absent then ({ fs with lock := .empty }, { p with pc := .bGen }, ⟨.lock, .ok⟩)
    else if timeout = 0 then (fs, { p with pc := .raised .timeout }, ⟨.lock, .exists_⟩)
    else (fs, { p with pc := .wPoll 0 }, ⟨.lock, .exists_⟩)
  | .wPoll i =>
    if fs.marker then (fs, { p with pc := .wFind }, ⟨.poll, .true_⟩)
    else if i + 1 < timeout then (fs, { p with pc := .wPoll (i + 1), polls := p.polls + 1 }, ⟨.poll, .false_⟩)
    else (fs, { p with pc := .raised .timeout, polls := p.polls + 1 }, ⟨.poll, .false_⟩)
  | .wFind =>
    if fs.so = .absent then (fs, { p with pc := .raised .notFound }, ⟨.find, .notfound⟩)
    else (fs, { p with pc := .wLoad }, ⟨.find, .found⟩)
  | .wLoad => (fs, { p with pc := .done false fs.so, tok := fs.gen }, ⟨.load, .so fs.so⟩)
  | .bGen =>
    if c = .fail then (fs, { p with pc := .bFail .gen }, ⟨.gen, .raise⟩)
    else (fs, { p with pc := .bSwap }, ⟨.gen, .ok⟩)
  | .bSwap => (fs, { p with pc := .bSrc, saved := p.g, g := ⟨.capture, .capture⟩ }, ⟨.swap, .unit⟩)
  | .bSrc =>
    if c = .fail then (fs, p.compileRaises, ⟨.src, .raise⟩)
    else ({ fs with lock := .source }, { p with pc := .bObj }, ⟨.src, .ok⟩)
  | .bObj =>
    if c = .fail then (fs, p.compileRaises, ⟨.obj, .raise⟩)
    else ({ fs with obj := true }, { p with pc := .bLink1 }, ⟨.obj, .ok⟩)
  | .bLink1 =>
    if c = .fail then (fs, p.compileRaises, ⟨.link1, .raise⟩)
    else ({ fs with so := .part, gen := fs.gen + 1 }, { p with pc := .bLink2 }, ⟨.link1, .ok⟩)
  | .bLink2 =>
    if c = .fail then (fs, p.compileRaises, ⟨.link2, .raise⟩)
    else ({ fs with so := .complete }, { p with pc := .bUnredir }, ⟨.link2, .ok⟩)
  | .bUnredir =>
    (fs, { p with pc := .bTmpCreate, g := { p.g with stdout := p.saved.stdout } }, ⟨.unredir, .unit⟩)
  | .bTmpCreate =>
    if c = .fail then (fs, p.markRaises fs .tmpOpen, ⟨.tmpCreate, .raise⟩)
    else if fs.tmp then (fs, p.markRaises fs .tmpExists, ⟨.tmpCreate, .exists_⟩)
    else ({ fs with tmp := true }, { p with pc := .bTmpWrite }, ⟨.tmpCreate, .ok⟩)
  | .bTmpWrite =>
    if c = .fail then (fs, p.markRaises fs .tmpWrite, ⟨.tmpWrite, .raise⟩)
    else (fs, { p with pc := .bMarkCheck }, ⟨.tmpWrite, .ok⟩)
  | .bMarkCheck =>
    if fs.marker then (fs, p.markRaises fs .marker, ⟨.markCheck, .true_⟩)
    else (fs, { p with pc := .bPublish }, ⟨.markCheck, .false_⟩)
  | .bPublish =>
    if c = .fail then (fs, p.markRaises fs .publish, ⟨.publish, .raise⟩)
    else ({ fs with marker := true, tmp := false }, { p with pc := .bRestore }, ⟨.publish, .ok⟩)
  | .bTmpRemove cause =>
    ({ fs with tmp := false }, { p with pc := .bFailRestore cause }, ⟨.tmpRemove, .ok⟩)
  | .bRestore => (fs, { p with pc := .bFind, g := { p.g with handlers := p.saved.handlers } }, ⟨.restore, .unit⟩)
  | .bFind =>
    if fs.so = .absent then (fs, { p with pc := .raised .notFound }, ⟨.find, .notfound⟩)
    else (fs, { p with pc := .bLoad }, ⟨.find, .found⟩)
  | .bLoad => (fs, { p with pc := .done true fs.so, tok := fs.gen }, ⟨.load, .so fs.so⟩)
  | .bFailRestore cause =>
    (fs, { p with pc := .bFail cause, g := { p.g with handlers := p.saved.handlers } }, ⟨.restore, .unit⟩)
  | .bFail cause =>
    if fs.lock = .absent then (fs, { p with pc := .raised (.build cause) }, ⟨.release, .enoent⟩)
    else ({ fs with lock := .absent, failed := true }, { p with pc := .raised (.build cause) }, ⟨.release, .ok⟩)
  | .done _ _ | .raised _ | .dead => (fs, p, ⟨.none, .unit⟩)

/-- One step of one process: new file system, new process, observable. -/
def stepProc (timeout : Nat) (fs : FS) (p : Proc) (c : Choice) : FS × Proc × Obs :=
  if p.pc.terminal then
    if c = .again ∧ p.pc ≠ .dead then (fs, { p with pc := .idle, polls := 0 }, ⟨.again, .unit⟩)
    else (fs, p, ⟨.none, .unit⟩)
  else if c = .kill then (fs, { p with pc := .dead }, ⟨.kill, .unit⟩)
  else stepLive timeout fs p c p.pc

/-- Observable of the step process `pid` would take. -/
def obs (s : Sys) (pid : Nat) (c : Choice) : Obs :=
  match s.procs[pid]? with
  | none => ⟨.none, .unit⟩
  | some p => (stepProc s.timeout s.fs p c).2.2

/-- Process `pid` takes its next step with adversarial choice `c` (no-op if out of range). -/
def step (s : Sys) (pid : Nat) (c : Choice) : Sys :=
  match s.procs[pid]? with
  | none => s
  | some p =>
    let r := stepProc s.timeout s.fs p c
    { s with
      fs := r.1
      procs := s.procs.set pid r.2.1
      nLock := s.nLock + (if r.2.2 = ⟨.lock, .ok⟩ then 1 else 0)
      nRel := s.nRel + (if r.2.2 = ⟨.release, .ok⟩ then 1 else 0)
      nCompile := s.nCompile + (if r.2.2.op = .src then 1 else 0) }

/-- `n` requests on an empty cache directory. -/
def init (n timeout : Nat) : Sys :=
  { timeout := timeout, procs := List.replicate n {} }

/-- Run a forced schedule. -/
def run (s : Sys) : List (Nat × Choice) → Sys
  | [] => s
  | (pid, c) :: rest => run (step s pid c) rest

/-- Run a forced schedule and collect, per step, the observable and the stepping process's
globals after the step. -/
def runTrace (s : Sys) : List (Nat × Choice) → List (Nat × Obs × Glob) × Sys
  | [] => ([], s)
  | (pid, c) :: rest =>
    let o := obs s pid c
    let s' := step s pid c
    let g := match s'.procs[pid]? with
      | some p => p.g
      | none => {}
    let r := runTrace s' rest
    ((pid, o, g) :: r.1, r.2)

/-- Every state reachable from some initial state under any schedule and any fail/kill choices. -/
inductive Reach : Sys → Prop where
  | init (n timeout : Nat) : Reach (init n timeout)
  | step {s : Sys} (pid : Nat) (c : Choice) : Reach s → Reach (step s pid c)

/-- Reachable without failures or kills. -/
inductive ReachNF : Sys → Prop where
  | init (n timeout : Nat) : ReachNF (init n timeout)
  | step {s : Sys} (pid : Nat) : ReachNF s → ReachNF (step s pid .none)

/-- Upper bound on the number of effective steps a request can still take. -/
def fuel (timeout : Nat) : Pc → Nat
  | .idle => timeout + 16
  | .wPoll i => (timeout - i) + 3
  | .wFind => 2
  | .wLoad => 1
  | .bGen => 15 | .bSwap => 14 | .bSrc => 13 | .bObj => 12 | .bLink1 => 11 | .bLink2 => 10
  | .bUnredir => 9 | .bTmpCreate => 8 | .bTmpWrite => 7 | .bMarkCheck => 6 | .bPublish => 5
  | .bRestore => 4 | .bFind => 3 | .bLoad => 2
  | .bTmpRemove _ => 3
  | .bFailRestore _ => 2
  | .bFail _ => 1
  | .done _ _ | .raised _ | .dead => 0

def fuelAt (s : Sys) (pid : Nat) : Nat :=
  match s.procs[pid]? with
  | some p => fuel s.timeout p.pc
  | none => 0

/-! ### Schedule enumeration (driver only) -/

def livePids (s : Sys) : List Nat :=
  (List.range s.procs.length).filter fun i =>
    match s.procs[i]? with
    | some p => !p.pc.terminal
    | none => false

/-- All fault-free schedules over the processes `pids`, each extended until the marker exists
(or nobody in `pids` can move, or `depth` is exhausted). -/
def schedulesToMarker (pids : List Nat) : Nat → Sys → List (List Nat)
  | 0, _ => [[]]
  | depth + 1, s =>
    if s.fs.marker then [[]]
    else
      let live := (livePids s).filter (pids.contains ·)
      if live.isEmpty then [[]]
      else live.flatMap fun i => (schedulesToMarker pids depth (step s i .none)).map (i :: ·)

end Ffcx.Jit
