/-
Model of FFCx's signature / name computation (C13).

Anchors in /repo:
  ffcx/naming.py            compute_signature, integral_name, form_name, expression_name
  ffcx/codegeneration/jit.py _compute_option_signature, _compilation_signature,
                            compile_forms / compile_expressions (module name, object names)
  ffcx/ir/representation.py  compute_ir (which tag every generated object gets),
                            _compute_form_ir / _compute_expression_ir (alias names)
  ffcx/codegeneration/C/integral.py  factory_name = f"{name}_{domain.name}"

The renumbering of coefficients / constants / arguments / domains that `compute_signature` performs for an
expression BEFORE it asks UFL for the signature (naming.py:41-67) is modelled in FfcxModel/Jit/Renumber.lean;
here an expression enters through that signature (128 hex characters).

The model is the exact PRE-HASH STRING handed to `hashlib.sha1` (the harness captures
that string inside ffcx.naming and compares it with `encode`), with SHA-1 itself an
uninterpreted parameter `sha1 : Str → Str`.

Strings are `List Char` (`Str`) so that every proof is plain list induction; the
driver converts to/from `String`.

Modelled Python/NumPy printing (as far as it occurs here):
  * `repr(str)`   quote selection, escapes for \\ ' " \n \r \t and \xNN of other
                  ASCII control characters; characters ≥ U+0080 are taken as printable
                  (the harness only generates ASCII, see c13.py).
  * `repr(int)`, `repr(bool)`, `repr(None)`;
  * `repr(float)` LAYOUT (fixed vs. exponent notation, `.0`, 2-digit exponent) from
                  the shortest round-trip digits `(neg, digits, decpt)`; the digit
                  generation itself is an input (the harness computes the digits
                  independently of `repr` with a `%.{p}e` search).
  * `str(tuple)`, `str(list)` from already printed components;
  * the evaluation points of an expression enter as
    `f"{pts.dtype.str}{pts.shape}" + hashlib.sha1(pts.tobytes()).hexdigest()` (`pointsKey`); the
    digest of the bytes is an uninterpreted parameter `digest`, like SHA-1 of the whole string.
-/
namespace Ffcx.Naming

abbrev Str := List Char

/- `cs! "abc"` is the character list `['a','b','c']` (elaboration-time expansion, so that
kernel reduction never has to unfold `String` internals). -/
open Lean in
macro "cs!" s:str : term => do
  let cs := s.getString.toList.toArray.map (fun c => Syntax.mkCharLit c)
  `(([$cs,*] : List Char))

/-! ## Python `str.join` -/

/-- `sep.join(parts)` -/
def joinWith (sep : Str) : List Str → Str
  | [] => []
  | [a] => a
  | a :: b :: rest => a ++ sep ++ joinWith sep (b :: rest)

/-! ## Python scalar values and their `repr` -/

/-- A Python float given by its shortest round-trip decimal digits:
value = ± 0.d₁d₂…dₙ × 10^decpt (as `_Py_dg_dtoa` mode 0 returns it). -/
inductive Flt where
  | fin (neg : Bool) (digits : List Nat) (decpt : Int)
  | inf (neg : Bool)
  | nan
  deriving Repr, DecidableEq, Inhabited

inductive Scalar where
  | str (s : Str)
  | int (i : Int)
  | bool (b : Bool)
  | float (f : Flt)
  | none
  /-- any other object, given by its `repr` text (e.g. `<class 'numpy.float64'>`) -/
  | raw (r : Str)
  deriving Repr, DecidableEq, Inhabited

def hexDigit (n : Nat) : Char :=
  if n < 10 then Char.ofNat (48 + n) else Char.ofNat (87 + n)

/-- One character inside `repr(str)` with quote character `q`. -/
def escChar (q : Char) (c : Char) : Str :=
  if c = '\\' then ['\\', '\\']
  else if c = q then ['\\', q]
  else if c = '\n' then ['\\', 'n']
  else if c = '\r' then ['\\', 'r']
  else if c = '\t' then ['\\', 't']
  else if c.toNat < 32 ∨ c.toNat = 127 then
    ['\\', 'x', hexDigit (c.toNat / 16), hexDigit (c.toNat % 16)]
  else [c]

/-- CPython `unicode_repr`: double quotes iff the string has a `'` and no `"`. -/
def quoteOf (s : Str) : Char :=
  if s.contains '\'' && !s.contains '"' then '"' else '\''

def reprStr (s : Str) : Str :=
  let q := quoteOf s
  q :: (s.flatMap (escChar q) ++ [q])

def natDigits (n : Nat) : Str := Nat.toDigits 10 n

def reprInt (i : Int) : Str :=
  if i < 0 then '-' :: natDigits i.natAbs else natDigits i.toNat

def reprBool (b : Bool) : Str := if b then cs! "True" else cs! "False"

def digitChar (d : Nat) : Char := Char.ofNat (48 + d % 10)

def zeros (n : Nat) : Str := List.replicate n '0'

/-- `float_repr_style == 'short'`, format code `'r'`: exponent notation iff
`decpt <= -4 or decpt > 16`; always a `.0` or an exponent. -/
def reprFlt : Flt → Str
  | .nan => cs! "nan"
  | .inf neg => (if neg then ['-'] else []) ++ cs! "inf"
  | .fin neg digits decpt =>
    let ds : Str := digits.map digitChar
    let n : Int := ds.length
    let sign : Str := if neg then ['-'] else []
    if decpt ≤ -4 ∨ decpt > 16 then
      let e := decpt - 1
      let mant : Str := match ds with
        | [] => ['0']
        | [d] => [d]
        | d :: rest => d :: '.' :: rest
      let ed := natDigits e.natAbs
      let ed := if ed.length < 2 then '0' :: ed else ed
      sign ++ mant ++ ['e', if e < 0 then '-' else '+'] ++ ed
    else if decpt ≤ 0 then
      sign ++ cs! "0." ++ zeros (-decpt).toNat ++ ds
    else if decpt ≥ n then
      sign ++ ds ++ zeros (decpt - n).toNat ++ cs! ".0"
    else
      sign ++ ds.take decpt.toNat ++ ['.'] ++ ds.drop decpt.toNat

def reprScalar : Scalar → Str
  | .str s => reprStr s
  | .int i => reprInt i
  | .bool b => reprBool b
  | .float f => reprFlt f
  | .none => cs! "None"
  | .raw r => r

/-- `str(x)`: for `str` objects the string itself, otherwise the `repr`. -/
def strScalar : Scalar → Str
  | .str s => s
  | v => reprScalar v

/-- `repr` of a tuple whose components are already printed. -/
def tupleOf (parts : List Str) : Str :=
  match parts with
  | [a] => '(' :: (a ++ cs! ",)")
  | _ => '(' :: (joinWith (cs! ", ") parts ++ [')'])

/-- `repr` of a list whose components are already printed. -/
def listOf (parts : List Str) : Str :=
  '[' :: (joinWith (cs! ", ") parts ++ [']'])

/-! ## `sorted(options.items())` -/

/-- Python's `str` ordering (by code point). `strLe a b ↔ a <= b`. -/
def strLe : Str → Str → Bool
  | [], _ => true
  | _ :: _, [] => false
  | a :: as, b :: bs => if a.toNat < b.toNat then true else if b.toNat < a.toNat then false else strLe as bs

def insertItem {α} (x : Str × α) : List (Str × α) → List (Str × α)
  | [] => [x]
  | y :: ys => if strLe x.1 y.1 then x :: y :: ys else y :: insertItem x ys

/-- `sorted(d.items())` for a dict (unique `str` keys, so the values never get compared). -/
def sortItems {α} : List (Str × α) → List (Str × α)
  | [] => []
  | x :: xs => insertItem x (sortItems xs)

abbrev Options := List (Str × Scalar)

def itemRepr (kv : Str × Scalar) : Str := tupleOf [reprStr kv.1, reprScalar kv.2]

/-- jit.py `_compute_option_signature`: `str(sorted(options.items()))`. -/
def optionSignature (o : Options) : Str := listOf ((sortItems o).map itemRepr)

/-- The compile-input part of a JIT request (jit.py `_compilation_signature`, non-win32 branch; the win32
branch is `compilationSignatureWin32` / `CompileArgs.win32` below). -/
structure CompileArgs where
  extraArgs : List Str      -- cffi_extra_compile_args
  debug : Scalar            -- cffi_debug (a bool in every documented use)
  cflags : Scalar           -- sysconfig.get_config_var("CFLAGS")  (str or None)
  soabi : Scalar            -- sysconfig.get_config_var("SOABI")   (str or None)
  deriving Repr, DecidableEq

def compilationSignature (c : CompileArgs) : Str :=
  listOf (c.extraArgs.map reprStr) ++ strScalar c.debug ++ strScalar c.cflags ++ strScalar c.soabi

/-- jit.py `_compilation_signature`, win32 branch:
`str(cffi_extra_compile_args) + str(cffi_debug) + str(sysconfig.get_config_var("EXT_SUFFIX"))`. -/
def compilationSignatureWin32 (extraArgs : List Str) (debug extSuffix : Scalar) : Str :=
  listOf (extraArgs.map reprStr) ++ strScalar debug ++ strScalar extSuffix

/-- A win32 request seen through `CompileArgs`: EXT_SUFFIX stands where CFLAGS stands, and nothing (the
empty `str`) where SOABI stands — `compilationSignature_win32` (C13.lean) shows the two texts coincide. -/
def CompileArgs.win32 (extraArgs : List Str) (debug extSuffix : Scalar) : CompileArgs :=
  ⟨extraArgs, debug, extSuffix, .str []⟩

/-- The `tag` argument of `compute_signature` for a module name. -/
def moduleTag (o : Options) (c : CompileArgs) : Str := optionSignature o ++ compilationSignature c

/-! ## `compute_signature` -/

/-- What `compute_signature` folds over. JIT requests are homogeneous lists; `P` is the type of
evaluation-point arrays, printed by `reprP` (`repr(points)`). -/
inductive Objs (P : Type) where
  | forms (sigs : List Str)
  | exprs (es : List (Str × P))
  deriving Repr

/-- Constants of the install that enter every signature. -/
structure Env where
  version : Str       -- str(ffcx.__version__)
  ufcxHash : Str      -- ffcx.codegeneration.get_signature()
  deriving Repr, DecidableEq

variable {P : Type}

def objectSignature (reprP : P → Str) : Objs P → Str
  | .forms sigs => sigs.flatten
  | .exprs es => (es.map (fun e => e.1 ++ reprP e.2)).flatten

/-- `kind` is assigned in the loop body: an empty object list leaves it unbound
(`UnboundLocalError` in the real code) — `none` here. -/
def kindOf : Objs P → Option Str
  | .forms [] => none
  | .forms (_ :: _) => some (cs! "form")
  | .exprs [] => none
  | .exprs (_ :: _) => some (cs! "expression")

/-- The string handed to `hashlib.sha1` by `compute_signature(ufl_objects, tag)`. -/
def encode (reprP : P → Str) (env : Env) (objs : Objs P) (tag : Str) : Option Str :=
  (kindOf objs).map fun kind =>
    joinWith [';'] [objectSignature reprP objs, env.version, env.ufcxHash, kind, tag]

/-- A whole JIT request. -/
structure Request (P : Type) where
  objs : Objs P
  options : Options
  compile : CompileArgs

def encodeRequest (reprP : P → Str) (env : Env) (r : Request P) : Option Str :=
  encode reprP env r.objs (moduleTag r.options r.compile)

/-! ## Tags and names of generated objects -/

def formTag (pre : Str) (formId : Int) : Str := tupleOf [reprStr pre, reprInt formId]

/-- `subdomain_id` of an `IntegralData` is a tuple of ints and/or the string "otherwise". -/
def integralTag (pre itype : Str) (formId : Int) (sub : List Scalar) : Str :=
  tupleOf [reprStr pre, reprStr itype, reprInt formId, tupleOf (sub.map reprScalar)]

/-- expression_name: `prefix` if `expression_id is None` else `str((prefix, expression_id))`
(jit.compile_expressions and compute_ir always pass the position in the module). -/
def expressionTag (pre : Str) : Option Int → Str
  | none => pre
  | some i => tupleOf [reprStr pre, reprInt i]

section Names
variable (sha1 : Str → Str) (reprP : P → Str) (env : Env)

def sigOf (objs : Objs P) (tag : Str) : Option Str := (encode reprP env objs tag).map sha1

def moduleName (r : Request P) : Option Str :=
  (encodeRequest reprP env r).map fun pre =>
    match r.objs with
    | .forms _ => cs! "libffcx_forms_" ++ sha1 pre
    | .exprs _ => cs! "libffcx_expressions_" ++ sha1 pre

def formPre (sig pre : Str) (formId : Int) : Str :=
  joinWith [';'] [sig, env.version, env.ufcxHash, cs! "form", formTag pre formId]

def integralPre (sig pre itype : Str) (formId : Int) (sub : List Scalar) : Str :=
  joinWith [';'] [sig, env.version, env.ufcxHash, cs! "form", integralTag pre itype formId sub]

def expressionPre (sig : Str) (p : P) (pre : Str) (id : Option Int) : Str :=
  joinWith [';'] [sig ++ reprP p, env.version, env.ufcxHash, cs! "expression", expressionTag pre id]

def formName (sig pre : Str) (formId : Int) : Str := cs! "form_" ++ sha1 (formPre env sig pre formId)

/-- `ir.expression.name` of an integral (without the per-cell suffix). -/
def integralName (sig pre itype : Str) (formId : Int) (sub : List Scalar) : Str :=
  cs! "integral_" ++ sha1 (integralPre env sig pre itype formId sub)

/-- C/integral.py: `factory_name = f"{ir.expression.name}_{domain.name}"`. -/
def integralFactoryName (sig pre itype : Str) (formId : Int) (sub : List Scalar) (cell : Str) : Str :=
  integralName sha1 env sig pre itype formId sub ++ '_' :: cell

def expressionName (sig : Str) (p : P) (pre : Str) (id : Option Int) : Str :=
  cs! "expression_" ++ sha1 (expressionPre reprP env sig p pre id)

end Names

/-- One entry of `form_data.integral_data` as far as naming can see it — and the integration
domain, which naming does NOT see (DESIGN §7 F12). -/
structure IntegralData where
  itype : Str
  sub : List Scalar
  domain : Nat
  deriving Repr, DecidableEq

/-- The tag `compute_ir` gives the `k`-th integral data of form `formId`. -/
def integralDataTag (pre : Str) (formId : Int) (d : IntegralData) : Str :=
  integralTag pre d.itype formId d.sub

/-- `form_{prefix}_{name}` / `expression_{prefix}_{name}`; `name` is the UFL-file name or the
decimal index. -/
def aliasName (kind pre name : Str) : Str := kind ++ '_' :: (pre ++ '_' :: name)

/-! ## Identifier shapes -/

def isLetter (c : Char) : Bool :=
  (97 ≤ c.toNat && c.toNat ≤ 122) || (65 ≤ c.toNat && c.toNat ≤ 90)
def isDigitC (c : Char) : Bool := 48 ≤ c.toNat && c.toNat ≤ 57
def isIdentStart (c : Char) : Bool := isLetter c || c = '_'
/-- `string.ascii_letters + string.digits + "_"` -/
def isIdentChar (c : Char) : Bool := isLetter c || isDigitC c || c = '_'

/-- `[A-Za-z_][A-Za-z0-9_]*` -/
def validIdent : Str → Bool
  | [] => false
  | c :: cs => isIdentStart c && cs.all isIdentChar

def isHexChar (c : Char) : Bool := isDigitC c || (97 ≤ c.toNat && c.toNat ≤ 102)

/-! ## Evaluation points inside a signature

naming.compute_signature:  `pts = np.ascontiguousarray(points)`;
`object_signature += f"{pts.dtype.str}{pts.shape}"; object_signature += hashlib.sha1(pts.tobytes()).hexdigest()`.
`B` is the type of byte strings (`pts.tobytes()`), `digest : B → Str` the hex SHA-1 of them.
-/

/-- A C-contiguous array as the signature sees it. -/
structure Pts (B : Type) where
  /-- `pts.dtype.str`, e.g. `<f8` -/
  dtype : Str
  /-- `pts.shape` -/
  shape : List Nat
  /-- `pts.tobytes()` -/
  data : B
  deriving Repr, DecidableEq

/-- `str(pts.shape)`: a tuple of ints. -/
def shapeRepr (shape : List Nat) : Str := tupleOf (shape.map fun n => reprInt (Int.ofNat n))

/-- The text that stands for the evaluation points in the pre-hash string. -/
def pointsKey {B : Type} (digest : B → Str) (p : Pts B) : Str :=
  p.dtype ++ shapeRepr p.shape ++ digest p.data

end Ffcx.Naming
