/-
Model of the RENUMBERING that `ffcx.naming.compute_signature` performs for an expression before it asks
UFL for the signature (C13, stability half).

Anchor: /repo/ffcx/naming.py lines 41-67 (as of /repo 61cd434)

    coeffs = ufl.algorithms.extract_coefficients(expr)            # sorted(set, key=count())
    consts = ufl.algorithms.analysis.extract_constants(expr)      # sorted(set, key=count())
    args   = ufl.algorithms.analysis.extract_arguments(expr)      # sorted(set, key=(number(), part()))
    rn = {}; rn.update((c, i) for i, c in enumerate(coeffs)); … consts …; … args …
    domains = []
    for coeff in coeffs: domains.append(*extract_domains(coeff))
    for arg in args:     domains.append(*extract_domains(arg))
    for gc in traverse_unique_terminals(expr):                    # traversal order of the expression
        if isinstance(gc, GeometricQuantity): domains.append(*extract_domains(gc))
    for const in consts: domains.append(*extract_domains(const))
    domains = unique_tuple(domains)                               # first occurrences, order kept
    rn.update((d, i) for i, d in enumerate(domains))
    signature = compute_expression_signature(expr, rn)

(Before 61cd434 the geometric quantities were iterated as the SET `extract_type(expr, GeometricQuantity)`:
the finding `sig:unstable:geometric-quantity-domain-order`; `geo_set_order_regression` in C13Renumber.lean keeps
the old behaviour as a regression example.)

The input of the model is the list `terms` of terminals in the order of UFL's `traverse_unique_terminals(expr)`
— a deterministic function of the expression tree. UFL's own operand ordering of sums / products (which builds
that tree, and looks at counters too) is UPSTREAM of the model.

What is a COUNTER here (a number that depends on the history of the process): `Coefficient.count()`,
`Constant.count()`, `Mesh.ufl_id()`.  Argument numbers/parts, elements, shapes, class names are static.
Every Python `set` met on the way (`extract_type` returns one, three times) is modelled as "some duplicate-free
enumeration of its members" (`SetOrders`): the iteration order of a set depends on the hashes of its
members, i.e. on PYTHONHASHSEED and on the counters.

UFL side (trusted, tied by the harness): `compute_expression_signature(expr, rn)` hashes the expression tree
whose leaves carry `_ufl_signature_data_(rn)`; of `rn` a terminal reads exactly
  Coefficient  rn[self], rn[mesh]      Constant  rn[self], rn[mesh]
  Argument     rn[mesh]  (its own rn entry is never read)      GeometricQuantity  rn[mesh]
(`termData`).  The tree hashing itself is an uninterpreted function `H` of the list of leaf data in
traversal order (the tree skeleton is part of `H`).

Core Lean only.
-/
namespace Ffcx.Naming.Rn

/-- `ufl.Mesh`: Python equality / hash data is `(ufl_id, coordinate element)`. -/
structure Mesh where
  /-- `ufl_id()`: a per-process counter -/
  id : Nat
  /-- code of the coordinate element (static) -/
  cel : Nat
  deriving DecidableEq, Repr, Inhabited

/-- A terminal of the expression as far as the renumbering and the signature data can see it.
Structural equality is Python's `__eq__` of the UFL classes (count + function space, …). -/
inductive Term where
  | coeff (count space : Nat) (mesh : Mesh)
  | const (count shape : Nat) (mesh : Mesh)
  /-- `part`: 0 = None, k+1 = part k -/
  | arg (number part space : Nat) (mesh : Mesh)
  | geo (cls : Nat) (mesh : Mesh)
  /-- literals, multi-indices, …: nothing naming.py renumbers -/
  | other (data : Nat)
  deriving DecidableEq, Repr, Inhabited

def Term.isCoeff : Term → Bool | .coeff .. => true | _ => false
def Term.isConst : Term → Bool | .const .. => true | _ => false
def Term.isArg : Term → Bool | .arg .. => true | _ => false
def Term.isGeo : Term → Bool | .geo .. => true | _ => false

/-- `extract_domains(t)` of a single terminal over one mesh. -/
def Term.mesh? : Term → Option Mesh
  | .coeff _ _ m => some m
  | .const _ _ m => some m
  | .arg _ _ _ m => some m
  | .geo _ m => some m
  | .other _ => none

/-- `[d for t in l for d in extract_domains(t)]` -/
def meshes (l : List Term) : List Mesh := l.filterMap Term.mesh?

/-! ## `unique_tuple` -/

section Generic
variable {α : Type} [DecidableEq α]

/-- The loop of `ufl.algorithms.analysis.unique_tuple` with `seen` = the `handled` set. -/
def uniqueFrom : List α → List α → List α
  | _, [] => []
  | seen, x :: xs => if x ∈ seen then uniqueFrom seen xs else x :: uniqueFrom (x :: seen) xs

/-- `unique_tuple(objects)`: first occurrences, initial ordering preserved. -/
def uniqueTuple (l : List α) : List α := uniqueFrom [] l

/-- `dict((x, i) for i, x in enumerate(l))[x]` for a duplicate-free `l` containing `x`. -/
def indexIn (x : α) : List α → Nat
  | [] => 0
  | y :: ys => if x = y then 0 else indexIn x ys + 1

end Generic

/-! ## `sorted(set, key=…)` -/

/-- `<=` of the sort keys: a count `(c, 0)` or `(number, part)`, compared like Python tuples. -/
def keyLe (a b : Nat × Nat) : Bool := decide (a.1 < b.1) || (decide (a.1 = b.1) && decide (a.2 ≤ b.2))

section Sorting
variable {α : Type}

def insertBy (key : α → Nat × Nat) (x : α) : List α → List α
  | [] => [x]
  | y :: ys => if keyLe (key x) (key y) then x :: y :: ys else y :: insertBy key x ys

/-- Python's (stable) `sorted(l, key=key)`. -/
def sortBy (key : α → Nat × Nat) : List α → List α
  | [] => []
  | x :: xs => insertBy key x (sortBy key xs)

end Sorting

/-- `x.count()` -/
def Term.countKey : Term → Nat × Nat
  | .coeff c _ _ => (c, 0)
  | .const c _ _ => (c, 0)
  | _ => (0, 0)

/-- `(x.number(), x.part())` -/
def Term.argKey : Term → Nat × Nat
  | .arg n p _ _ => (n, p)
  | _ => (0, 0)

/-! ## The renumbering -/

/-- The iteration orders of the three Python sets `extract_type(expr, T)` builds in this process
(T = BaseCoefficient, Constant, BaseArgument). -/
structure SetOrders where
  coeffs : List Term
  consts : List Term
  args : List Term
  deriving Repr, DecidableEq

/-- The dict `rn`, as the four enumerated sequences it is built from. -/
structure Renumbering where
  coeffs : List Term
  consts : List Term
  args : List Term
  domains : List Mesh
  deriving Repr, DecidableEq

/-- naming.py:41-64; `terms` = `traverse_unique_terminals(expr)`. -/
def renumber (terms : List Term) (o : SetOrders) : Renumbering :=
  let coeffs := sortBy Term.countKey o.coeffs
  let consts := sortBy Term.countKey o.consts
  let args := sortBy Term.argKey o.args
  { coeffs := coeffs, consts := consts, args := args,
    domains := uniqueTuple (meshes coeffs ++ meshes args ++ meshes (terms.filter Term.isGeo) ++ meshes consts) }

/-- The members of the three sets, in order of first occurrence in the terminal list. -/
def canonicalOrders (terms : List Term) : SetOrders :=
  { coeffs := uniqueTuple (terms.filter Term.isCoeff), consts := uniqueTuple (terms.filter Term.isConst),
    args := uniqueTuple (terms.filter Term.isArg) }

/-- `o` enumerates the three sets of the expression with terminals `terms` (each member once). -/
def SetOrders.Valid (o : SetOrders) (terms : List Term) : Prop :=
  o.coeffs.Perm (canonicalOrders terms).coeffs ∧ o.consts.Perm (canonicalOrders terms).consts ∧
  o.args.Perm (canonicalOrders terms).args

/-- Executable `Valid` (driver). -/
def SetOrders.validB (o : SetOrders) (terms : List Term) : Bool :=
  o.coeffs.isPerm (canonicalOrders terms).coeffs && o.consts.isPerm (canonicalOrders terms).consts &&
  o.args.isPerm (canonicalOrders terms).args

/-- What `_ufl_signature_data_(rn)` of a terminal reads from `rn`, next to its static data. -/
inductive TermData where
  | coeff (num space meshNum cel : Nat)
  | const (meshNum cel shape num : Nat)
  | arg (number part space meshNum cel : Nat)
  | geo (cls meshNum cel : Nat)
  | other (data : Nat)
  deriving DecidableEq, Repr, Inhabited

def termData (rn : Renumbering) : Term → TermData
  | .coeff c s m => .coeff (indexIn (Term.coeff c s m) rn.coeffs) s (indexIn m rn.domains) m.cel
  | .const c s m => .const (indexIn m rn.domains) m.cel s (indexIn (Term.const c s m) rn.consts)
  | .arg n p s m => .arg n p s (indexIn m rn.domains) m.cel
  | .geo k m => .geo k (indexIn m rn.domains) m.cel
  | .other d => .other d

/-- The leaf data UFL hashes (in traversal order). -/
def leafData (terms : List Term) (o : SetOrders) : List TermData := terms.map (termData (renumber terms o))

/-- `compute_expression_signature(expr, rn)` with UFL's tree hashing `H` uninterpreted. -/
def exprSignature {σ : Type} (H : List TermData → σ) (terms : List Term) (o : SetOrders) : σ :=
  H (leafData terms o)

/-! ## Another process: relabelled counters -/

/-- How the counters of the objects of one program text differ in another process history. -/
structure Relabel where
  /-- `Coefficient.count()` -/
  fc : Nat → Nat
  /-- `Constant.count()` -/
  fk : Nat → Nat
  /-- `Mesh.ufl_id()` -/
  fm : Nat → Nat

def Relabel.mesh (ρ : Relabel) (m : Mesh) : Mesh := ⟨ρ.fm m.id, m.cel⟩

def Relabel.term (ρ : Relabel) : Term → Term
  | .coeff c s m => .coeff (ρ.fc c) s (ρ.mesh m)
  | .const c s m => .const (ρ.fk c) s (ρ.mesh m)
  | .arg n p s m => .arg n p s (ρ.mesh m)
  | .geo k m => .geo k (ρ.mesh m)
  | .other d => .other d

def Relabel.orders (ρ : Relabel) (o : SetOrders) : SetOrders :=
  ⟨o.coeffs.map ρ.term, o.consts.map ρ.term, o.args.map ρ.term⟩

def coeffCounts (terms : List Term) : List Nat :=
  terms.filterMap fun | .coeff c _ _ => some c | _ => none
def constCounts (terms : List Term) : List Nat :=
  terms.filterMap fun | .const c _ _ => some c | _ => none
def meshIds (terms : List Term) : List Nat := (meshes terms).map (·.id)

/-- "The same program text in another process": on the counters OF THIS EXPRESSION the relabelling keeps
the relative creation order of its coefficients and of its constants, and keeps distinct meshes distinct.
Nothing is asked about counters of objects that do not occur in the expression. -/
structure Relabel.Compatible (ρ : Relabel) (terms : List Term) : Prop where
  coeff : ∀ a ∈ coeffCounts terms, ∀ b ∈ coeffCounts terms, (ρ.fc a ≤ ρ.fc b ↔ a ≤ b)
  const : ∀ a ∈ constCounts terms, ∀ b ∈ constCounts terms, (ρ.fk a ≤ ρ.fk b ↔ a ≤ b)
  mesh : ∀ a ∈ meshIds terms, ∀ b ∈ meshIds terms, ρ.fm a = ρ.fm b → a = b

/-- Distinct members of each sorted set have distinct sort keys. -/
def DistinctKeys (terms : List Term) : Prop :=
  ((canonicalOrders terms).coeffs.map Term.countKey).Nodup ∧
  ((canonicalOrders terms).consts.map Term.countKey).Nodup ∧
  ((canonicalOrders terms).args.map Term.argKey).Nodup

/-- The meshes reached through geometric quantities only (each once) — no theorem needs them since 61cd434;
the harness uses their number to classify its cases (≥ 2 is where the old set iteration was unstable). -/
def geoNew (terms : List Term) : List Mesh :=
  uniqueTuple ((meshes (terms.filter Term.isGeo)).filter fun x =>
    !(decide (x ∈ meshes (terms.filter Term.isCoeff)) || decide (x ∈ meshes (terms.filter Term.isArg))))

instance (terms : List Term) : Decidable (DistinctKeys terms) := by
  unfold DistinctKeys; infer_instance

end Ffcx.Naming.Rn
