/-
`compute_argument_factorization` (`ffcx/ir/analysis/factorization.py`), handler by handler (C01).

State of the Python algorithm and its model:

* `F` (an `ExpressionGraph` with the lookup `F.e2i`)          ↦ `Array Node` whose nodes refer to
  operands by their index in `F`; `graph_insert` = `graphInsert` (look the node up, else append).
  Every expression the handlers build has its operands in `F` already (the factors of the
  operands, the argument-free operand `sf[i]` that was inserted when its node was visited), so
  the index representation loses nothing; `as_ufl(0.0)` in `handle_conditional` is inserted by
  `graph_insert(F, z)` right before the conditional that uses it (since commit e5efe38; before,
  the Python failed with `KeyError: Zero` in its last loop when `Zero` was not a node of `F`).
* `S.nodes[i]["factors"]` (a dict argkey → index in `F`)        ↦ `Dict`, an association list in
  insertion order; `factors[argkey] = …` is `Dict.set` (overwrite in place, else append).
* the UFL constructors `f0 + f1`, `f0 * f1`, `f0 / f1`, `Conj(f0)`, `conditional(c, f1, f2)` with
  their simplifications (`Sum/Product/Division/Conj/Conditional.__new__`) ↦ `mkSum … mkCond`.
  Not modelled: the canonical operand order `sorted_expr` of commutative operators (the model
  orders by index in `F`, literal first; comparison with the real `F` is modulo operand order),
  float rounding in literal folding (exact over `Rat`), folding of complex literals.

`sorted(...)` of argkeys is the lexicographic order of tuples (`List.le` on `List Nat`).
Core Lean only.
-/
import FfcxModel.IR.Graph

namespace Ffcx.IR

/-- The exceptions `compute_argument_factorization` can raise. -/
inductive FErr where
  /-- `RuntimeError("Assuming that a <class> cannot be applied to arguments. …")` (default handler) -/
  | nonlinear (cls : String)
  /-- `RuntimeError("Expecting equal argument rank terms among summands.")` -/
  | sumRank
  /-- `RuntimeError("Expecting all summands to depend on the arguments.")` (since commit d075f67:
  a sum of an argument-dependent and an argument-free term) -/
  | sumArgFree
  /-- `AssertionError("Cannot divide by arguments.")` -/
  | divByArg
  /-- `AssertionError("Cannot have argument in condition.")` -/
  | condInCondition
  /-- `assert fac1 or isinstance(f1, Zero)` / `assert fac2 or isinstance(f2, Zero)` -/
  | condNonzeroBranch
  /-- `assert () not in fac1` / `fac2` -/
  | condEmptyKey
  /-- `RuntimeError("Expecting all non-zero components to depend on the arguments.")` (since commit
  3991a34: a target without factors in a form of rank ≥ 1 that is not the literal `Zero`) -/
  | targetArgFree
  /-- `ValueError("Division by zero!")` from `Division.__new__` -/
  | divisionByZero
  /-- not a graph `build_scalar_graph` can produce (operand index out of order, wrong arity) -/
  | malformed (what : String)
  deriving DecidableEq, Repr

/-! ### Dictionaries and sorting -/

abbrev Dict := List (Key × Nat)

namespace Dict
def keys (d : Dict) : List Key := d.map (·.1)
/-- `d.get(k)` -/
def get (d : Dict) (k : Key) : Option Nat := d.lookup k
/-- `d[k] = v` -/
def set (d : Dict) (k : Key) (v : Nat) : Dict :=
  if k ∈ d.keys then d.map (fun kv => if kv.1 = k then (k, v) else kv) else d ++ [(k, v)]
end Dict

/-- insert into a sorted list, after the elements that are `≤` (stable) -/
def insertBy {α : Type} (le : α → α → Bool) (x : α) : List α → List α
  | [] => [x]
  | y :: ys => if le y x then y :: insertBy le x ys else x :: y :: ys

/-- `sorted(...)`: stable insertion sort (structurally recursive, so that the kernel can evaluate
the model on concrete graphs) -/
def isort {α : Type} (le : α → α → Bool) (l : List α) : List α := l.foldl (fun acc x => insertBy le x acc) []

/-- `sorted(tuple of ints)` -/
def sortNat (l : List Nat) : List Nat := isort (fun a b => decide (a ≤ b)) l
/-- tuple comparison -/
def keyLe (a b : Key) : Bool := decide (a ≤ b)
/-- `sorted(set of argkeys)` -/
def sortKeys (l : List Key) : List Key := isort keyLe l
/-- `sorted(dict)` followed by `dict[k]`: the entries in key order (keys of a dict are distinct) -/
def sortEntries {α : Type} (d : List (Key × α)) : List (Key × α) :=
  isort (fun a b => keyLe a.1 b.1) d

/-- `set(...)`: drop repeated elements -/
def dedup {α : Type} [DecidableEq α] : List α → List α
  | [] => []
  | x :: xs => if x ∈ xs then dedup xs else x :: dedup xs

/-! ### `graph_insert` and the UFL constructors on `F` -/

def Node.zero : Node := ⟨.zero, []⟩

def nodeAt (F : Array Node) (i : Nat) : Node := F[i]?.getD Node.zero
def kindAt (F : Array Node) (i : Nat) : Kind := (nodeAt F i).kind

/-- `graph_insert(F, expr)`: `F.e2i.get(expr)`, else append -/
def graphInsert (F : Array Node) (n : Node) : Array Node × Nat :=
  let i := F.toList.idxOf n
  if i < F.size then (F, i) else (F.push n, F.size)

def isLitAt (F : Array Node) (i : Nat) : Bool :=
  match kindAt F i with
  | .lit .. => true
  | _ => false

/-- operand order of a commutative binary operator: a literal first (as UFL does), otherwise by
index in `F` (UFL: `sorted_expr`, not modelled) -/
def normPair (F : Array Node) (a b : Nat) : List Nat :=
  if isLitAt F a then [a, b] else if isLitAt F b then [b, a] else if a ≤ b then [a, b] else [b, a]

/-- `as_ufl(value)` of a real number: `Zero()` for 0 -/
def mkLit (isInt : Bool) (v : Rat) : Node := if v = 0 then Node.zero else ⟨.lit isInt v, []⟩

/-- `f0 + f1` (`Sum.__new__`) -/
def mkSum (F : Array Node) (a b : Nat) : Array Node × Nat :=
  match kindAt F a, kindAt F b with
  | .zero, _ => (F, b)
  | _, .zero => (F, a)
  | .lit ia va, .lit ib vb => graphInsert F (mkLit (ia && ib) (va + vb))
  | _, _ => graphInsert F ⟨.sum, normPair F a b⟩

/-- `f0 * f1` (`Product.__new__`) -/
def mkProd (F : Array Node) (a b : Nat) : Array Node × Nat :=
  match kindAt F a, kindAt F b with
  | .zero, _ => graphInsert F Node.zero
  | _, .zero => graphInsert F Node.zero
  | .lit ia va, .lit ib vb => graphInsert F (mkLit (ia && ib) (va * vb))
  | .lit _ va, _ => if va = 1 then (F, b) else graphInsert F ⟨.prod, [a, b]⟩
  | _, .lit _ vb => if vb = 1 then (F, a) else graphInsert F ⟨.prod, [b, a]⟩
  | _, _ => graphInsert F ⟨.prod, normPair F a b⟩

/-- `f0 / f1` (`Division.__new__`) -/
def mkDiv (F : Array Node) (a b : Nat) : Except FErr (Array Node × Nat) :=
  match kindAt F a, kindAt F b with
  | _, .zero => .error .divisionByZero
  | .zero, _ => .ok (F, a)
  | .lit _ va, .lit _ vb =>
    if vb = 1 then .ok (F, a) else .ok (graphInsert F (mkLit false (va / vb)))
  | _, .lit _ vb => if vb = 1 then .ok (F, a) else .ok (graphInsert F ⟨.div, [a, b]⟩)
  | _, _ => .ok (graphInsert F ⟨.div, [a, b]⟩)

/-- `Conj(f0)` (`Conj.__new__`) -/
def mkConj (F : Array Node) (a : Nat) : Array Node × Nat :=
  match nodeAt F a with
  | ⟨.abs, _⟩ | ⟨.real, _⟩ | ⟨.imag, _⟩ | ⟨.zero, _⟩ => (F, a)
  | ⟨.conj, [c]⟩ => (F, c)
  | ⟨.lit .., _⟩ => (F, a)
  | _ => graphInsert F ⟨.conj, [a]⟩

/-- `conditional(f0, f1, f2)` (`Conditional.__new__`: equal branches collapse) -/
def mkCond (F : Array Node) (c t f : Nat) : Array Node × Nat :=
  if t = f then (F, t) else graphInsert F ⟨.cond, [c, t, f]⟩

/-! ### The loops `for k in …: factors[k] = graph_insert(F, <expr>)` -/

/-- Runs `step` for every entry in order and stores the returned index under the entry's key
(`factors[key] = …`). -/
def buildDict {α : Type} (step : Array Node → α → Except FErr (Array Node × Nat)) :
    Array Node → List (Key × α) → Dict → Except FErr (Array Node × Dict)
  | F, [], d => .ok (F, d)
  | F, (k, x) :: rest, d =>
    match step F x with
    | .error e => .error e
    | .ok (F', i) => buildDict step F' rest (d.set k i)

/-- `handle_sum` -/
def handleSum (F : Array Node) (fac0 fac1 : Dict) : Except FErr (Array Node × Dict) :=
  -- `if not fac0 or not fac1: raise RuntimeError("Expecting all summands to depend on …")`
  if fac0.isEmpty || fac1.isEmpty then .error .sumArgFree else
  let argkeys := sortKeys (dedup (fac0.keys ++ fac1.keys))
  let keylen := (argkeys.headD []).length
  buildDict (fun F (x : Key × Option Nat × Option Nat) =>
      if x.1.length ≠ keylen then .error .sumRank
      else match x.2.1, x.2.2 with
        | none, none => .error (.malformed "sum key")
        | none, some fi1 => .ok (F, fi1)
        | some fi0, none => .ok (F, fi0)
        | some fi0, some fi1 => .ok (mkSum F fi0 fi1))
    F (argkeys.map fun k => (k, (k, fac0.get k, fac1.get k))) []

/-- `handle_product`; `sf0`, `sf1`: index in `F` of the argument-free operand's expression -/
def handleProduct (F : Array Node) (fac0 fac1 : Dict) (sf0 sf1 : Nat) :
    Except FErr (Array Node × Dict) :=
  if fac0.isEmpty then
    -- non-arg * arg: `factors[k1] = graph_insert(F, f0 * f1)` for `k1 in sorted(fac1)`
    buildDict (fun F f1 => .ok (mkProd F sf0 f1)) F (sortEntries fac1) []
  else if fac1.isEmpty then
    -- arg * non-arg: `factors[k0] = graph_insert(F, f1 * f0)` for `k0 in sorted(fac0)`
    buildDict (fun F f0 => .ok (mkProd F sf1 f0)) F (sortEntries fac0) []
  else
    -- arg * arg: `factors[tuple(sorted(k0 + k1))] = graph_insert(F, f0 * f1)`
    buildDict (fun F (x : Nat × Nat) => .ok (mkProd F x.1 x.2)) F
      ((sortEntries fac0).flatMap fun e0 => (sortEntries fac1).map fun e1 =>
        (sortNat (e0.1 ++ e1.1), (e0.2, e1.2))) []

/-- `handle_conj` (iterates the dict in insertion order) -/
def handleConj (F : Array Node) (fac0 : Dict) : Except FErr (Array Node × Dict) :=
  buildDict (fun F f0 => .ok (mkConj F f0)) F fac0 []

/-- `handle_division` -/
def handleDivision (F : Array Node) (fac0 fac1 : Dict) (sf1 : Nat) :
    Except FErr (Array Node × Dict) :=
  if !fac1.isEmpty then .error .divByArg
  else buildDict (fun F f0 => mkDiv F f0 sf1) F (sortEntries fac0) []

/-- `handle_conditional`; `z1`/`z2`: whether the argument-free branch expression is `Zero`.
`z = as_ufl(0.0)` is inserted into `F` (`graph_insert(F, z)`) right before a conditional that
uses it. -/
def handleConditional (F : Array Node) (fac0 fac1 fac2 : Dict) (sf0 : Nat) (z1 z2 : Bool) :
    Except FErr (Array Node × Dict) :=
  if !fac0.isEmpty then .error .condInCondition
  else if fac1.isEmpty && !z1 then .error .condNonzeroBranch
  else if fac2.isEmpty && !z2 then .error .condNonzeroBranch
  else if [] ∈ fac1.keys || [] ∈ fac2.keys then .error .condEmptyKey
  else
    let mas := sortKeys (dedup (fac1.keys ++ fac2.keys))
    buildDict (fun F (x : Option Nat × Option Nat) =>
        -- `if fi1 is None or fi2 is None: graph_insert(F, z)`
        let Fz := if x.1.isNone || x.2.isNone then graphInsert F Node.zero else (F, 0)
        .ok (mkCond Fz.1 sf0 (x.1.getD Fz.2) (x.2.getD Fz.2)))
      F (mas.map fun k => (k, (fac1.get k, fac2.get k))) []

/-! ### The main loop -/

structure FState where
  F : Array Node
  /-- `S.nodes[i]["factors"]` -/
  facs : Array Dict := #[]
  /-- `F.e2i[S.nodes[i]["expression"]]` for the nodes inserted into `F` (argument-free nodes and
  the arguments); unused (0) for the others -/
  sf : Array Nat := #[]
  /-- index in `F` of `as_ufl(1.0)` -/
  one : Nat

def isArgKind : Kind → Bool
  | .arg .. => true
  | _ => false

def argPos : Kind → Nat
  | .arg p _ => p
  | _ => 0

/-- `build_argument_indices`: indices of the modified arguments, sorted by ordering key -/
def argIndices (S : Array Node) : List Nat :=
  isort (fun i j => decide (argPos (kindAt S i) ≤ argPos (kindAt S j)))
    ((List.range S.size).filter fun i => isArgKind (kindAt S i))

/-- class name in the message of the default handler -/
def Kind.clsName : Kind → String
  | .arg .. => "Argument" | .term _ => "Terminal" | .zero => "Zero" | .lit true _ => "IntValue"
  | .lit false _ => "FloatValue" | .clit .. => "ComplexValue" | .sum => "Sum" | .prod => "Product"
  | .div => "Division" | .conj => "Conj" | .real => "Real" | .imag => "Imag" | .abs => "Abs"
  | .cond => "Conditional" | .condition n => n | .op n => n

/-- the expression of an argument-free node of `S` as a node of `F` -/
def toFNode (F : Array Node) (sf : Array Nat) (n : Node) : Node :=
  let ds := n.deps.map fun d => sf[d]?.getD 0
  match n.kind, ds with
  | .sum, [a, b] => ⟨.sum, normPair F a b⟩
  | .prod, [a, b] => ⟨.prod, normPair F a b⟩
  | k, ds => ⟨k, ds⟩

/-- one iteration of `for si, attr in S.nodes.items()` -/
def stepNode (avIndex : Nat → Nat) (st : FState) (si : Nat) (n : Node) : Except FErr FState :=
  if !(n.deps.all fun d => d < si) then .error (.malformed "operand order")
  else if !(n.kind.arityOk n.deps.length) then .error (.malformed "arity")
  else if isArgKind n.kind then
    -- `factors = {(si,): one_index}`
    .ok { st with facs := st.facs.push [([si], st.one)], sf := st.sf.push (avIndex si) }
  else
    let fac := n.deps.map fun d => st.facs[d]?.getD []
    let sfAt := fun (i : Nat) => st.sf[n.deps[i]?.getD 0]?.getD 0
    if fac.all (·.isEmpty) then
      -- `graph_insert(F, v)`; `factors = noargs`
      let (F', i) := graphInsert st.F (toFNode st.F st.sf n)
      .ok { st with F := F', facs := st.facs.push [], sf := st.sf.push i }
    else
      let done := fun (r : Array Node × Dict) =>
        { st with F := r.1, facs := st.facs.push r.2, sf := st.sf.push 0 }
      match n.kind, fac with
      | .sum, [f0, f1] => (handleSum st.F f0 f1).map done
      | .prod, [f0, f1] => (handleProduct st.F f0 f1 (sfAt 0) (sfAt 1)).map done
      | .conj, [f0] => (handleConj st.F f0).map done
      | .div, [f0, f1] => (handleDivision st.F f0 f1 (sfAt 1)).map done
      | .cond, [f0, f1, f2] =>
        let isZ := fun (i : Nat) => kindAt st.F (sfAt i) == .zero
        (handleConditional st.F f0 f1 f2 (sfAt 0) (f1.isEmpty && isZ 1) (f2.isEmpty && isZ 2)).map done
      | k, _ => .error (.nonlinear k.clsName)

/-- the loop over the nodes of `S`, from node `si` on -/
def runNodes (avIndex : Nat → Nat) : FState → Nat → List Node → Except FErr FState
  | st, _, [] => .ok st
  | st, si, n :: rest =>
    match stepNode avIndex st si n with
    | .error e => .error e
    | .ok st' => runNodes avIndex st' (si + 1) rest

/-- `F` after `for v in AV: graph_insert(F, v)` and `one_index = graph_insert(F, as_ufl(1.0))` -/
def initState (S : Array Node) : FState :=
  let F0 := (argIndices S).foldl (fun F si => (graphInsert F (nodeAt S si)).1) #[]
  let (F1, one) := graphInsert F0 ⟨.lit false 1, []⟩
  { F := F1, one := one }

structure FResult where
  /-- the factorisation graph -/
  F : Array Node
  /-- per target node of `S`: `(target, components, dict)`; the dict maps an argkey (indices into
  `AV`, which are indices into `F`) to an index in `F`; empty for an argument-free target of a
  form of rank ≥ 1 ("Zero form of arity 1 or higher: make factors empty") -/
  targetDicts : List (Nat × List Nat × Dict)
  /-- `S.nodes[i]["factors"]` (argkeys are node indices of `S`) -/
  nodeFacs : Array Dict
  /-- `arg_indices` -/
  argIndices : List Nat
  deriving Repr

/-- `factors[comp]` of the Python: one entry per component of a target that has factors -/
def FResult.factors (r : FResult) : List (Nat × Dict) :=
  r.targetDicts.flatMap fun (_, comps, d) => if d.isEmpty then [] else comps.map fun c => (c, d)

/-- the per-target part of "Prepare a mapping from component of expression to factors" -/
def targetDict (avIndex : Nat → Nat) (rank : Nat) (st : FState) (t : Nat) : Dict :=
  let d := st.facs[t]?.getD []
  if d.isEmpty then
    -- `if rank == 0: factors[comp] = {(): F.e2i[expr]}` else nothing
    if rank = 0 then [([], st.sf[t]?.getD 0)] else []
  else
    -- `ai_fi = {tuple(sorted(arg_indices.index(si) for si in argkey)): fi}`, `.update(ai_fi)`
    d.foldl (fun acc kv => acc.set (sortNat (kv.1.map avIndex)) kv.2) []

/-- a target without factors in a form of rank ≥ 1 whose expression is not the literal `Zero` -/
def targetRejected (rank : Nat) (st : FState) (S : Array Node) (t : Nat) : Bool :=
  (st.facs[t]?.getD []).isEmpty && rank != 0 && kindAt S t != .zero

/-- `compute_argument_factorization(S, rank)` -/
def factorize (S : Graph) (rank : Nat) : Except FErr FResult :=
  let av := argIndices S.nodes
  let avIndex := fun si => av.idxOf si
  match runNodes avIndex (initState S.nodes) 0 S.nodes.toList with
  | .error e => .error e
  | .ok st =>
    if S.targets.any (fun t => decide (S.nodes.size ≤ t.1)) then .error (.malformed "target")
    -- `elif not isinstance(S.nodes[S_target]["expression"], Zero): raise RuntimeError(…)`
    else if S.targets.any (fun t => targetRejected rank st S.nodes t.1) then .error .targetArgFree
    else
    .ok { F := st.F,
          targetDicts := S.targets.map fun (t, comps) => (t, comps, targetDict avIndex rank st t),
          nodeFacs := st.facs, argIndices := av }

/-! ### Well-formedness

What the soundness proof needs BEYOND acceptance by the algorithm, as a decidable predicate of the
graph, stated on the argkey sets that the algorithm assigns to the nodes (`nodeFacs`, a function of
`S` alone).  These are the conditions that can still fail on an input the algorithm accepts:

* `prod`: the keys `sorted(k0 + k1)` for `k0` of the first and `k1` of the second operand are
  pairwise distinct (else `factors[argkey] = …` overwrites a term: `(u₀+u₁)·(u₀+u₁)`).  Operands
  with disjoint argument numbers always satisfy this.
* the re-keyed argkeys of a target are pairwise distinct (always true for the real ordering
  keys; not proved);
* the `pos` of the argument nodes are their ranks `0 … n-1` (the exporter's convention, so that
  `AV[pos]` is that node).

Implied by acceptance and therefore NOT part of the predicate (proved in
`FfcxProofs/Lemmas/FactorizeNodes.lean`): topological order and operand counts (checked by
`stepNode`), and — since commit d075f67 — that the operands of a sum are both argument-dependent or
both argument-free (`handle_sum` raises `sumArgFree` otherwise; before, it silently dropped the
argument-free summand, DESIGN F10), and — since commit 3991a34 — that a target of a form of rank
≥ 1 depends on arguments or is the literal zero (`targetArgFree` otherwise; before, the component
`f` of the Expression `as_vector((u, f))` was silently dropped).  No argument under a non-linear operator, a condition or a
divisor, and the shape of conditional branches, are enforced through errors as well. -/

def pairKeys (k0s k1s : List Key) : List Key :=
  k0s.flatMap fun k0 => k1s.map fun k1 => sortNat (k0 ++ k1)

def wfNode (facs : Array Dict) (n : Node) : Bool :=
  match n.kind, n.deps with
  | .prod, [a, b] =>
    decide (pairKeys (Dict.keys (sortEntries (facs[a]?.getD []))) (Dict.keys (sortEntries (facs[b]?.getD [])))).Nodup
  | _, _ => true

def wfTarget (avIndex : Nat → Nat) (S : Array Node) (rank : Nat) (facs : Array Dict) (t : Nat) : Bool :=
  let d := facs[t]?.getD []
  d.isEmpty || decide (d.keys.map fun k => sortNat (k.map avIndex)).Nodup

def wfCheck (S : Graph) (rank : Nat) (r : FResult) : Bool :=
  -- the ordering keys of the arguments are their ranks (the exporter's convention for `arg pos _`)
  decide ((r.argIndices.map fun si => argPos (kindAt S.nodes si)) = List.range r.argIndices.length) &&
  S.nodes.all (wfNode r.nodeFacs) &&
  S.targets.all (fun t => wfTarget (fun si => r.argIndices.idxOf si) S.nodes rank r.nodeFacs t.1)

/-- well-formed: accepted by the algorithm and satisfying `wfCheck` -/
def WF (S : Graph) (rank : Nat) : Prop :=
  match factorize S rank with
  | .ok r => wfCheck S rank r = true
  | .error _ => False

instance (S : Graph) (rank : Nat) : Decidable (WF S rank) := by
  unfold WF; split <;> infer_instance

/-- The stricter, purely syntactic condition named in DESIGN §6 (evaluated by the harness as
well):
operands of a sum depend on the same argument numbers, operands of a product on disjoint ones. -/
def argNumbers (S : Array Node) : Array (List Nat) :=
  S.foldl (fun acc n =>
    match n.kind with
    | .arg _ num => acc.push [num]
    | _ => acc.push (sortNat (dedup (n.deps.flatMap fun d => acc[d]?.getD [])))) #[]

def wfStrict (S : Array Node) : Bool :=
  let an := argNumbers S
  S.all fun n =>
    match n.kind, n.deps with
    | .sum, [a, b] => an[a]?.getD [] == an[b]?.getD []
    | .prod, [a, b] => (an[a]?.getD []).all fun x => !(an[b]?.getD []).contains x
    | _, _ => true

end Ffcx.IR
