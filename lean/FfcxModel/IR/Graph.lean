/-
Scalar expression graphs (C01): the list-based graph `S` that `build_scalar_graph` produces and
the factorisation graph `F` that `compute_argument_factorization` builds
(`ffcx/ir/analysis/graph.py`, `factorization.py`).

A graph is an array of nodes in topological order (operands before users, as produced by
`_count_nodes_with_unique_post_traversal`); a node is its UFL class (`Kind`) and its operand
list (`out_edges`, in operand order, multi-edges allowed).  Terminals and modified terminals have
no operands.  What the model does not interpret travels as opaque data:

* `arg pos number` — a modified Argument; `pos` is its rank under `argument_ordering_key`
  (= its index in `AV` = its index in `F`), `number` the argument number;
* `term id`        — any other (modified) terminal, identified by `id`;
* `op name`        — any operator without a factorisation handler (math functions, `Power`,
  `MinValue`, … ), `condition name` the `Condition` subclasses.

`evalGraph` gives the value of every node for an assignment of the terminals, in any field `R`
(core `Lean.Grind.Field`); math functions and conditions are uninterpreted but
argument-determined (`Env.fn`).  Core Lean only.
-/
namespace Ffcx.IR

/-- UFL class of a graph node (what `singledispatch` in `factorization.py` looks at, and what
the UFL constructors `Sum/Product/Division/Conj/Conditional.__new__` look at). -/
inductive Kind where
  /-- modified Argument: index in `AV`, argument number -/
  | arg (pos : Nat) (number : Nat)
  /-- any other terminal / modified terminal -/
  | term (id : Nat)
  /-- `Zero` -/
  | zero
  /-- real `ScalarValue`: `IntValue` (`isInt`) or `FloatValue` -/
  | lit (isInt : Bool) (v : Rat)
  /-- `ComplexValue` (opaque: complex constant folding is not modelled) -/
  | clit (re im : Rat)
  | sum | prod | div
  | conj | real | imag | abs
  /-- `Conditional` -/
  | cond
  /-- `LT, GT, LE, GE, EQ, NE, AndCondition, OrCondition, NotCondition` -/
  | condition (name : String)
  /-- every other operator: `Power`, `Sqrt`, `Sin`, …, `MinValue`, `MaxValue`, Bessel functions -/
  | op (name : String)
  deriving DecidableEq, Repr, Inhabited

structure Node where
  kind : Kind
  deps : List Nat := []
  deriving DecidableEq, Repr, Inhabited

structure Graph where
  nodes : Array Node
  /-- `(node index, components)` of the nodes marked `target`, in node order -/
  targets : List (Nat × List Nat) := []
  deriving Repr, Inhabited

/-- An argument key: a sorted tuple of node indices of `S` (inside the algorithm) or of
indices into `AV` (in the result). -/
abbrev Key := List Nat

/-! ### Evaluation -/

/-- Interpretation of what the graph leaves open. -/
structure Env (R : Type) where
  /-- value of the modified argument with index `pos` in `AV` -/
  argv : Nat → R
  /-- value of the terminal `id` -/
  termv : Nat → R
  /-- value of a real literal -/
  ofRat : Rat → R
  /-- value of a complex literal -/
  cplx : Rat → Rat → R
  conj : R → R
  re : R → R
  im : R → R
  abs : R → R
  /-- operators and conditions by UFL class name: uninterpreted, argument-determined -/
  fn : String → List R → R
  /-- truth value of the value of a condition node -/
  truth : R → Bool

section Eval
variable {R : Type} [Lean.Grind.Field R]

/-- value of one node, given the values `look d` of its operands -/
def evalNode (ρ : Env R) (look : Nat → R) (n : Node) : R :=
  match n.kind, n.deps with
  | .arg p _, _ => ρ.argv p
  | .term i, _ => ρ.termv i
  | .zero, _ => 0
  | .lit _ v, _ => ρ.ofRat v
  | .clit a b, _ => ρ.cplx a b
  | .sum, [a, b] => look a + look b
  | .prod, [a, b] => look a * look b
  | .div, [a, b] => look a / look b
  | .conj, [a] => ρ.conj (look a)
  | .real, [a] => ρ.re (look a)
  | .imag, [a] => ρ.im (look a)
  | .abs, [a] => ρ.abs (look a)
  | .cond, [c, t, f] => if ρ.truth (look c) then look t else look f
  | .condition name, ds => ρ.fn name (ds.map look)
  | .op name, ds => ρ.fn name (ds.map look)
  | _, _ => 0

/-- lookup in the array of values computed so far (`0` outside) -/
def lookIn (vals : Array R) (i : Nat) : R := vals[i]?.getD 0

/-- values of all nodes, in node order -/
def evalNodes (ρ : Env R) (g : Array Node) : Array R :=
  g.foldl (fun acc n => acc.push (evalNode ρ (lookIn acc) n)) #[]

/-- value of node `i` of `g` -/
def val (ρ : Env R) (g : Array Node) (i : Nat) : R := lookIn (evalNodes ρ g) i

/-- `Π_{a ∈ k} look a` -/
def keyProd (look : Nat → R) (k : Key) : R := k.foldr (fun a acc => look a * acc) 1

end Eval

/-! ### Shape -/

/-- operands come before their user -/
def Closed (g : Array Node) : Prop := ∀ i (h : i < g.size), ∀ d ∈ g[i].deps, d < i

def closedB (g : Array Node) : Bool :=
  (List.range g.size).all fun i => (g[i]?.getD default).deps.all fun d => d < i

/-- number of operands the UFL class has -/
def Kind.arityOk (k : Kind) (n : Nat) : Bool :=
  match k with
  | .arg .. | .term _ | .zero | .lit .. | .clit .. => n == 0
  | .sum | .prod | .div => n == 2
  | .conj | .real | .imag | .abs => n == 1
  | .cond => n == 3
  | .condition _ | .op _ => true

def arityB (g : Array Node) : Bool := g.all fun n => n.kind.arityOk n.deps.length

/-! ### The rational instance used by the driver

Literals are themselves; conditions evaluate to `1`/`0`; every other operator is an
uninterpreted function of its name and argument values (a hash folded into a rational), which is
sound for checking identities that hold for every interpretation. -/

def hashRat (q : Rat) : UInt64 := mixHash (hash q.num) (hash q.den)

def uninterp (name : String) (args : List Rat) : Rat :=
  let h := args.foldl (fun acc a => mixHash acc (hashRat a)) (hash name)
  ((h.toNat % 2000003 : Nat) : Rat) / 1009 - 991

def b2q (b : Bool) : Rat := if b then 1 else 0

def ratFn (name : String) (args : List Rat) : Rat :=
  match name, args with
  | "LT", [a, b] => b2q (a < b)
  | "GT", [a, b] => b2q (b < a)
  | "LE", [a, b] => b2q (a ≤ b)
  | "GE", [a, b] => b2q (b ≤ a)
  | "EQ", [a, b] => b2q (a = b)
  | "NE", [a, b] => b2q (a ≠ b)
  | "AndCondition", [a, b] => b2q (a ≠ 0 ∧ b ≠ 0)
  | "OrCondition", [a, b] => b2q (a ≠ 0 ∨ b ≠ 0)
  | "NotCondition", [a] => b2q (a = 0)
  | _, _ => uninterp name args

/-- `Rat` environment: `argv`/`termv` from association lists (default 0) -/
def ratEnv (argv termv : Nat → Rat) : Env Rat :=
  { argv, termv, ofRat := id, cplx := fun a _ => a, conj := id, re := id, im := fun _ => 0,
    abs := fun x => if x < 0 then -x else x, fn := ratFn, truth := fun x => x ≠ 0 }

end Ffcx.IR
