/-
Facet quadrature permutations (C03).

Mirrors (as coded):
* `ffcx/ir/elementtables.py`: `permute_quadrature_interval`, `permute_quadrature_triangle`,
  `permute_quadrature_quadrilateral` (rotations are applied first, then reflections),
  the nested loops `for rot in range(n): for ref in range(2): new_table.append(...)` of
  `build_optimized_tables` followed by `np.vstack` (row index `2*rot + ref`),
  `is_permuted_table` and the axis drop `tbl[:1, :, :, :]`;
* `ffcx/codegeneration/access.py`: `table_access` (how `quadrature_permutation[r]`, the entity
  index and the quadrature index select a table entry).

Core Lean only.  The point maps are generic over a commutative ring (`Lean.Grind.CommRing`, core),
so that the theorems in `FfcxProofs/C03.lean` quantify over all points; tolerance predicates
(`np.allclose`) are over `Rat`.
-/
import FfcxModel.LNodes.Syntax

namespace Ffcx.Perm

/-- `f` applied `n` times (Python: `for _ in range(n): …`). -/
def iter {α : Type} (f : α → α) : Nat → α → α
  | 0, x => x
  | n + 1, x => iter f n (f x)

section Points
variable {R : Type} [Lean.Grind.CommRing R]

/-! ### One reflection / rotation step (the loop bodies) -/

/-- `output[n] = [1 - p[0]]` -/
def reflectInterval (x : R) : R := 1 - x

/-- `output[n] = [p[1], 1 - p[0] - p[1]]` -/
def rotateTriangle (p : R × R) : R × R := (p.2, 1 - p.1 - p.2)

/-- `output[n] = [p[1], p[0]]` (triangle and quadrilateral) -/
def reflect2 (p : R × R) : R × R := (p.2, p.1)

/-- `output[n] = [p[1], 1 - p[0]]` -/
def rotateQuad (p : R × R) : R × R := (p.2, 1 - p.1)

/-! ### The three functions, for one point.

The Python functions loop `for _ in range(rotations)` **first** and `for _ in range(reflections)`
**second**; every pass rewrites each row from its current value, i.e. maps the step over the
points. -/

/-- `permute_quadrature_interval(points, reflections)` on one point `[x]`. -/
def permuteInterval (reflections : Nat) (x : R) : R :=
  iter reflectInterval reflections x

/-- `permute_quadrature_triangle(points, reflections, rotations)` on one point. -/
def permuteTriangle (reflections rotations : Nat) (p : R × R) : R × R :=
  let afterRot := iter rotateTriangle rotations p
  iter reflect2 reflections afterRot

/-- `permute_quadrature_quadrilateral(points, reflections, rotations)` on one point. -/
def permuteQuad (reflections rotations : Nat) (p : R × R) : R × R :=
  let afterRot := iter rotateQuad rotations p
  iter reflect2 reflections afterRot

/-- On point lists (rows of the `points` array). -/
def permuteIntervalPts (reflections : Nat) (pts : List R) : List R :=
  pts.map (permuteInterval reflections)
def permuteTrianglePts (reflections rotations : Nat) (pts : List (R × R)) : List (R × R) :=
  pts.map (permuteTriangle reflections rotations)
def permuteQuadPts (reflections rotations : Nat) (pts : List (R × R)) : List (R × R) :=
  pts.map (permuteQuad reflections rotations)

end Points

/-! ### Facet types and codes -/

inductive FacetType where
  | point | interval | triangle | quadrilateral
  deriving DecidableEq, Repr

/-- Number of rotations looped over in `build_optimized_tables` (`range(3)`, `range(4)`; the
2D branch has no rotation loop, the 1D branch no permutation at all). -/
def FacetType.numRot : FacetType → Nat
  | .point => 1
  | .interval => 1
  | .triangle => 3
  | .quadrilateral => 4

/-- Number of reflections looped over (`range(2)`), 1 for point facets (no loop). -/
def FacetType.numRef : FacetType → Nat
  | .point => 1
  | _ => 2

/-- Number of permutation rows = number of valid codes. -/
def FacetType.numCodes (t : FacetType) : Nat := t.numRot * t.numRef

/-- ufcx.h: `floor(N / 2)` rotations, `N % 2` reflections. -/
def codeRot (N : Nat) : Nat := N / 2
def codeRef (N : Nat) : Nat := N % 2

/-- The rows appended by `for rot in range(nrot): for ref in range(nref): append(f ref rot)`. -/
def permRows {α : Type} (nrot nref : Nat) (f : Nat → Nat → α) : List α :=
  (List.range nrot).flatMap (fun rot => (List.range nref).map (fun ref => f ref rot))

/-- A reference-facet point of any facet type (coordinates beyond the dimension unused). -/
def permutePoint {R : Type} [Lean.Grind.CommRing R] (t : FacetType) (ref rot : Nat)
    (p : List R) : List R :=
  match t with
  | .point => p
  | .interval => [permuteInterval ref (p.getD 0 0)]
  | .triangle =>
    let q := permuteTriangle ref rot (p.getD 0 0, p.getD 1 0)
    [q.1, q.2]
  | .quadrilateral =>
    let q := permuteQuad ref rot (p.getD 0 0, p.getD 1 0)
    [q.1, q.2]

/-- The point actually tabulated for code `N`. -/
def permuteByCode {R : Type} [Lean.Grind.CommRing R] (t : FacetType) (N : Nat) (p : List R) : List R :=
  permutePoint t (codeRef N) (codeRot N) p

/-! ### Tables `[perm][entity][point][dof]` -/

abbrev Table (α : Type) := List (List (List (List α)))

/-- The permuted table built by `build_optimized_tables` for an interior-facet integral:
row `2*rot+ref` holds, for each entity `e`, point `q`, dof `d`, the value
`φ d (F e (permute ref rot X_q))` (`get_ffcx_table_values` on the permuted points).
`P` = points of the reference facet, `C` = points of the reference cell (`F e` = the reference-entity
map `map_integral_points(·, entity = e)`), `φ d` = basis function `d` of the (component) element.
Integral types without permutation rows (exterior facets, vertices, interval cells: the plain
`t = get_ffcx_table_values(points, …)` branches) are the one-row case `t = .point`. -/
def buildTable {P C V : Type} (t : FacetType) (perm : Nat → Nat → P → P)
    (F : Nat → P → C) (phi : Nat → C → V) (nent ndof : Nat) (X : List P) : Table V :=
  permRows t.numRot t.numRef (fun ref rot =>
    (List.range nent).map (fun e =>
      X.map (fun x => (List.range ndof).map (fun d => phi d (F e (perm ref rot x))))))

def absR (x : Rat) : Rat := if x < 0 then -x else x

/-- `np.isclose(a, b, rtol, atol)` for finite reals: `|a - b| <= atol + rtol * |b|`. -/
def isClose (rtol atol a b : Rat) : Bool := decide (absR (a - b) ≤ atol + rtol * absR b)

/-- Pointwise relation of two lists of equal length (`false` on a shape mismatch). -/
def all2 {α β : Type} (r : α → β → Bool) : List α → List β → Bool
  | [], [] => true
  | a :: as, b :: bs => r a b && all2 r as bs
  | _, _ => false

def allClose1 (rtol atol : Rat) : List Rat → List Rat → Bool := all2 (isClose rtol atol)

def allClose2 (rtol atol : Rat) : List (List Rat) → List (List Rat) → Bool :=
  all2 (allClose1 rtol atol)

/-- `np.allclose` of two `[entity][point][dof]` slices of equal shape. -/
def allClose3 (rtol atol : Rat) : List (List (List Rat)) → List (List (List Rat)) → Bool :=
  all2 (allClose2 rtol atol)

/-- `is_permuted_table`: `not all(allclose(table[0], table[i]) for i in range(1, shape[0]))`. -/
def isPermutedTable (rtol atol : Rat) (t : Table Rat) : Bool :=
  match t with
  | [] => false
  | t0 :: rest => !(rest.all (fun ti => allClose3 rtol atol t0 ti))

/-- `if not is_permuted: tbl = tbl[:1, :, :, :]`. -/
def dropPermAxis (rtol atol : Rat) (t : Table Rat) : Table Rat :=
  if isPermutedTable rtol atol t then t else t.take 1

/-- Table metadata that `table_access` looks at. -/
structure TableFlags where
  isPermuted : Bool
  isUniform : Bool
  isPiecewise : Bool
  deriving Repr, DecidableEq

/-- The `[qp][entity][iq]` subscripts produced by `access.table_access`:
`qp = quadrature_permutation[1]` for '-' and `[0]` otherwise if the table is permuted, else 0;
entity 0 for uniform tables; point 0 for piecewise tables. `minus` = restriction is '-'. -/
def tableSubscripts (fl : TableFlags) (minus : Bool) (qperm : List Nat) (entity iq : Nat) :
    Nat × Nat × Nat :=
  let qp := if fl.isPermuted then (if minus then qperm.getD 1 0 else qperm.getD 0 0) else 0
  let e := if fl.isUniform then 0 else entity
  let q := if fl.isPiecewise then 0 else iq
  (qp, e, q)

def Table.get {α : Type} [Inhabited α] (t : Table α) (p e q d : Nat) : α :=
  (((t.getD p []).getD e []).getD q []).getD d default

/-- Value read by the kernel from a stored table. -/
def tableAccess {α : Type} [Inhabited α] (t : Table α) (fl : TableFlags) (minus : Bool)
    (qperm : List Nat) (entity iq dof : Nat) : α :=
  let s := tableSubscripts fl minus qperm entity iq
  t.get s.1 s.2.1 s.2.2 dof

/-! ### Vertex permutations of the reference facet and the affine maps they induce -/

section Affine
variable {R : Type} [Lean.Grind.CommRing R]

/-- reference interval vertices -/
def vI : Nat → R
  | 0 => 0
  | _ => 1

/-- reference triangle vertices (basix order) -/
def vT : Nat → R × R
  | 0 => (0, 0)
  | 1 => (1, 0)
  | _ => (0, 1)

/-- reference quadrilateral vertices (basix order) -/
def vQ : Nat → R × R
  | 0 => (0, 0)
  | 1 => (1, 0)
  | 2 => (0, 1)
  | _ => (1, 1)

/-- Affine map of the line sending reference vertex `i` to vertex `σ i` (σ as image list). -/
def affI (σ : List Nat) (x : R) : R :=
  let a : R := vI (σ.getD 0 0)
  let b : R := vI (σ.getD 1 0)
  a + x * (b - a)

/-- Affine map of the plane sending triangle vertex `i` to vertex `σ i`. -/
def affT (σ : List Nat) (p : R × R) : R × R :=
  let a : R × R := vT (σ.getD 0 0)
  let b : R × R := vT (σ.getD 1 0)
  let c : R × R := vT (σ.getD 2 0)
  (a.1 + p.1 * (b.1 - a.1) + p.2 * (c.1 - a.1), a.2 + p.1 * (b.2 - a.2) + p.2 * (c.2 - a.2))

/-- Affine map of the plane sending quadrilateral vertices 0,1,2 to `σ 0, σ 1, σ 2`
(it sends vertex 3 to `σ 3` exactly when σ is a symmetry of the square). -/
def affQ (σ : List Nat) (p : R × R) : R × R :=
  let a : R × R := vQ (σ.getD 0 0)
  let b : R × R := vQ (σ.getD 1 0)
  let c : R × R := vQ (σ.getD 2 0)
  (a.1 + p.1 * (b.1 - a.1) + p.2 * (c.1 - a.1), a.2 + p.1 * (b.2 - a.2) + p.2 * (c.2 - a.2))

end Affine

/-- All permutations of a list (insertion in every position). -/
def insertions {α : Type} (x : α) : List α → List (List α)
  | [] => [[x]]
  | y :: ys => (x :: y :: ys) :: (insertions x ys).map (y :: ·)

def perms {α : Type} : List α → List (List α)
  | [] => [[]]
  | x :: xs => (perms xs).flatMap (insertions x)

/-- S₂, S₃ as image lists. -/
def S2 : List (List Nat) := perms [0, 1]
def S3 : List (List Nat) := perms [0, 1, 2]

/-- The symmetries of the square among the 24 vertex permutations: those whose induced affine
map (defined by the images of vertices 0,1,2) also sends vertex 3 to `σ 3`. -/
def D4 : List (List Nat) :=
  (perms [0, 1, 2, 3]).filter (fun σ => decide (affQ (R := Rat) σ (vQ 3) = vQ (σ.getD 3 0)))

/-- index of the reference vertex equal to `p`, if any -/
def findVertex {P : Type} [DecidableEq P] (v : Nat → P) (n : Nat) (p : P) : Option Nat :=
  (List.range n).find? (fun i => decide (v i = p))

/-- The vertex permutation realised by code `N`: `σ i` = the vertex onto which the code's point
map sends reference vertex `i` (computed with the model's own permutation over `Rat`). -/
def sigmaOfCode (t : FacetType) (N : Nat) : List Nat :=
  match t with
  | .point => [0]
  | .interval =>
    (List.range 2).map (fun i => (findVertex (vI (R := Rat)) 2 (permuteInterval (codeRef N) (vI i))).getD 99)
  | .triangle =>
    (List.range 3).map (fun i =>
      (findVertex (vT (R := Rat)) 3 (permuteTriangle (codeRef N) (codeRot N) (vT i))).getD 99)
  | .quadrilateral =>
    (List.range 4).map (fun i =>
      (findVertex (vQ (R := Rat)) 4 (permuteQuad (codeRef N) (codeRot N) (vQ i))).getD 99)


/-! ### Static predicate: does a kernel AST read an (integer) array?

`readsS "quadrature_permutation" ast` is the predicate `readsPerm` of `FfcxProofs/C03.lean`
(`flag_false_independent`); the harness evaluates it on every real interior-facet AST. -/

section Reads
open Ffcx.LNodes

mutual
/-- expression mentions array `a` as the base of an `ArrayAccess` -/
def readsE (a : String) : Expr → Bool
  | .litF .. => false
  | .litI _ => false
  | .sym .. => false
  | .mi syms _ gi => readsL a syms || readsE a gi
  | .neg e => readsE a e
  | .not e => readsE a e
  | .bin _ x y => readsE a x || readsE a y
  | .sum args => readsL a args
  | .prod args => readsL a args
  | .call _ _ args => readsL a args
  | .idx arr _ ix => arr == a || readsL a ix
  | .cond c t f => readsE a c || readsE a t || readsE a f
def readsL (a : String) : List Expr → Bool
  | [] => false
  | e :: es => readsE a e || readsL a es
end

mutual
/-- statement mentions array `a` -/
def readsS (a : String) : Stmt → Bool
  | .assign l r => readsE a l || readsE a r
  | .addAssign l r => readsE a l || readsE a r
  | .vdecl _ _ v => readsE a v
  | .adecl _ _ _ _ none => false
  | .adecl _ _ _ _ (some vs) => readsL a vs
  | .forRange _ lo hi body => readsE a lo || readsE a hi || readsSL a body
  | .comment _ => false
  | .block ss => readsSL a ss
  | .sect _ decls stmts _ _ _ => readsSL a decls || readsSL a stmts
def readsSL (a : String) : List Stmt → Bool
  | [] => false
  | s :: ss => readsS a s || readsSL a ss
end

end Reads

end Ffcx.Perm
