/-
FfcxModel/IR/Layout.lean — executable model of the *layout / descriptor* code of FFCx
(properties C04 descriptor half, C05 layout half, C06).  CORE LEAN ONLY.

Every definition mirrors the Python code AS IT IS; the anchors are

  ffcx/ir/representation.py      _compute_integral_ir   (coefficient_offsets, original_constant_offsets)
                                 _compute_expression_ir (coefficient_offsets, original_coefficient_positions,
                                                         entity_type from (tdim, pdim), constant offsets)
                                 _compute_form_ir       (subdomain id tuples, 'otherwise' ↦ -1, rejection of negative user ids and of
                                                         ids > 2³¹−1, commit 9a772cd)
  ffcx/codegeneration/common.py  integral_data, tensor_sizes
  ffcx/codegeneration/C/form.py  form_integrals / form_integral_ids / form_integral_offsets initialisers
  ffcx/codegeneration/C/expression.py   ufcx_expression fields
  ffcx/codegeneration/symbols.py coefficient_dof_access (w[offset + dof]), constant_index_access (c[offset + index])

Modelling decisions (each is tied to the code by harness/layout_checks.py and harness/props/c06.py):

* `np.argsort(_ids)` is modelled as a RELATION `IsArgsort ids π` (π is any permutation of
  `range n` such that `ids∘π` is non-decreasing).  NumPy's default kind is an unstable introsort,
  so theorems quantify over every such π.  `argsortStable` (merge sort, the stable choice) is one
  executable instance used by the driver; the harness compares up to reordering inside runs of
  equal ids and separately checks that NumPy's actual output satisfies `IsArgsort`.
* `FormIR.subdomain_ids / integral_names / integral_domains` are three parallel dict-of-lists that
  `_compute_form_ir` extends in lockstep; they are modelled as ONE list of `Entry` triples per
  integral type (`Group`), types identified with their position in the tuple
  `("cell","exterior_facet","interior_facet","vertex","ridge")` (see Generated/IntegralTypes.lean and
  theorem `enum_order`).
* A set of `basix.CellType` (`integral_domains[...]` entries) is modelled as a list of the integer
  tags; only its length matters for the offsets.
-/
namespace Ffcx.Layout

/-! ## Prefix sums: coefficient and constant offsets -/

/-- `_offset = start; for s in sizes: offsets[k] = _offset; _offset += s`. -/
def offsetsFrom (start : Nat) : List Nat → List Nat
  | [] => []
  | s :: ss => start :: offsetsFrom (start + s) ss

/-- `x in "interior_facet"` on Python strings is a SUBSTRING test
(`width = 2 if integral_type in ("interior_facet") else 1`: the parentheses do not make a tuple). -/
def isSubstr (p : List Char) : List Char → Bool
  | [] => p.isEmpty
  | c :: cs => p.isPrefixOf (c :: cs) || isSubstr p cs

/-- `_compute_integral_ir`: `width = 2 if integral_type in ("interior_facet") else 1`. -/
def widthOf (integralType : String) : Nat :=
  if isSubstr integralType.toList "interior_facet".toList then 2 else 1

/-- Sizes of the coefficient blocks in `w`: `width * element_dimensions[el]`. -/
def blockSizes (width : Nat) (dims : List Nat) : List Nat := dims.map (width * ·)

/-- `coefficient_offsets` of `_compute_integral_ir` (width 1 or 2) and of
`_compute_expression_ir` (width 1), listed in the order of `reduced_coefficients`. -/
def coeffOffsets (width : Nat) (dims : List Nat) : List Nat := offsetsFrom 0 (blockSizes width dims)

/-- Final value of `_offset`: the extent of `w` the kernel may read. -/
def coeffTotal (width : Nat) (dims : List Nat) : Nat := (blockSizes width dims).sum

/-- `np.prod(shape, dtype=int)`. -/
def shapeProd (shape : List Nat) : Nat := shape.foldr (· * ·) 1

/-- `original_constant_offsets`, in the order of `original_form.constants()`. -/
def constOffsets (shapes : List (List Nat)) : List Nat := offsetsFrom 0 (shapes.map shapeProd)

def constTotal (shapes : List (List Nat)) : Nat := (shapes.map shapeProd).sum

/-- Row-major flattening of a component multi-index (UFL `flat_component`; also the
`global_index` of an LNodes `MultiIndex`, cf. `Ffcx.LNodes.flatIdx`). -/
def flatComponent : List Nat → List Nat → Nat
  | _ :: ds, i :: is => i * shapeProd ds + flatComponent ds is
  | _, _ => 0

/-- All indices inside their extents and ranks equal. -/
def InRange : List Nat → List Nat → Prop
  | [], [] => True
  | d :: ds, i :: is => i < d ∧ InRange ds is
  | _, _ => False

/-- `symbols.coefficient_dof_access`: index into `w` of dof `dof` (already including the
restriction shift for interior facets) of the k-th reduced coefficient. -/
def coeffAccess (width : Nat) (dims : List Nat) (k dof : Nat) : Nat :=
  (coeffOffsets width dims).getD k 0 + dof

/-- `symbols.constant_index_access`: index into `c` of component `idx` of the k-th constant. -/
def constAccess (shapes : List (List Nat)) (k : Nat) (idx : List Nat) : Nat :=
  (constOffsets shapes).getD k 0 + flatComponent (shapes.getD k []) idx

/-! ## tensor_sizes: the extents the numba backend declares for the kernel arguments -/

/-- `KernelTensorSizes` of `common.py`. -/
structure TensorSizes where
  A : Nat
  w : Nat
  c : Nat
  coords : Nat
  localIndex : Nat
  permutation : Nat
  deriving Repr, DecidableEq

/-- `tensor_sizes(IntegralIR)`: `width = 2 if ir.expression.integral_type == "interior_facet" else 1`
(an EQUALITY test, unlike `widthOf`). -/
def tensorWidth (integralType : String) : Nat := if integralType = "interior_facet" then 2 else 1

/-- `expression_ir["tensor_shape"]` of `_compute_integral_ir`: `[2 * dim …]` for interior facets
(`== "interior_facet"`), the argument dimensions otherwise; only the first entry when diagonalising. -/
def integralTensorShape (integralType : String) (argDims : List Nat) (diagonalise : Bool) : List Nat :=
  let sh := if integralType = "interior_facet" then argDims.map (2 * ·) else argDims
  if diagonalise then sh.take 1 else sh

/-- `tensor_sizes(ir: IntegralIR)`: `dims` are the element dimensions of the reduced coefficients
(keys of `coefficient_offsets`), `constShapes` the shapes of the original constants (keys of
`original_constant_offsets`), `nodes = number_coordinate_dofs` (number of NODES of the coordinate
element). -/
def tensorSizesIntegral (integralType : String) (tensorShape dims : List Nat)
    (constShapes : List (List Nat)) (nodes : Nat) (needsPerm : Bool) : TensorSizes :=
  let width := tensorWidth integralType
  { A := shapeProd tensorShape, w := width * dims.sum, c := (constShapes.map shapeProd).sum,
    coords := width * nodes * 3, localIndex := 2, permutation := if needsPerm then 2 else 0 }

/-- `tensor_sizes(ir: ExpressionIR)`. -/
def tensorSizesExpr (numPoints : Nat) (shape argDims dims : List Nat)
    (constShapes : List (List Nat)) (nodes : Nat) (needsPerm : Bool) : TensorSizes :=
  { A := numPoints * shapeProd shape * shapeProd argDims, w := dims.sum,
    c := (constShapes.map shapeProd).sum, coords := nodes * 3, localIndex := 2,
    permutation := if needsPerm then 2 else 0 }

/-! ## original_coefficient_positions -/

/-- `_compute_expression_ir`: `[original_coefficients.index(coeff) for coeff in coefficients]`.
(`list.index` raises if absent; `idxOf` returns the length — excluded by the sublist hypothesis.) -/
def origPositions {α} [BEq α] (orig reduced : List α) : List Nat := reduced.map (orig.idxOf ·)

/-- Indices (increasing) of the entries of `orig` that satisfy `p` ("survive"). -/
def survivingIdx {α} (p : α → Bool) : List α → List Nat
  | [] => []
  | a :: l => (if p a then [0] else []) ++ (survivingIdx p l).map (· + 1)

/-! ## integral_data -/

/-- One `(subdomain id, integral name, set of domain cell types)` triple of a FormIR. -/
structure Entry where
  id : Int
  name : String
  domains : List Nat
  deriving Repr, DecidableEq, Inhabited

abbrev Group := List Entry

/-- `[xs[i] for i in π]` (indices out of range would raise IndexError; they cannot occur when
`π` is a permutation of `range xs.length`). -/
def applyPerm {α} (π : List Nat) (xs : List α) : List α := π.filterMap (xs[·]?)

/-- The relation `np.argsort` is assumed to satisfy. -/
def IsArgsort (ids : List Int) (π : List Nat) : Prop :=
  π.Perm (List.range ids.length) ∧ (applyPerm π ids).Pairwise (· ≤ ·)

instance (ids : List Int) (π : List Nat) : Decidable (IsArgsort ids π) := by
  unfold IsArgsort; exact inferInstance

/-- Executable test of `IsArgsort` (used by the driver on NumPy's actual output). -/
def isArgsortB (ids : List Int) (π : List Nat) : Bool :=
  π.isPerm (List.range ids.length) &&
    (let s := applyPerm π ids; (s.zip (s.drop 1)).all (fun p => p.1 ≤ p.2))

/-- A stable argsort (merge sort on (id, index) pairs comparing ids only). -/
def argsortStable (ids : List Int) : List Nat :=
  (ids.zipIdx.mergeSort (fun a b => a.1 ≤ b.1)).map (·.2)

/-- `ids += [_ids[i] for i in id_sort]; names += …; domains += …` for one type. -/
def sortGroup (π : List Nat) (g : Group) : Group := applyPerm π g

/-- Number of kernel pointers `C/form.py` emits for a group: one per (entry, domain). -/
def kernelCount (g : Group) : Nat := (g.map (·.domains.length)).sum

/-- The offsets loop of `integral_data`, mirroring
`offsets.append(offsets[-1] + sum(len(ir.integral_domains[itg_type][i]) for i in id_sort))`:
`last` is `offsets[-1]`; the summand runs over the (argsorted) entries of THIS type, one kernel per
(integral, domain) pair. -/
def offsLoop (last : Nat) : List Group → List Nat
  | [] => []
  | g :: gs =>
    let next := last + kernelCount g
    next :: offsLoop next gs

/-- `integral_data(ir).offsets` for the argsorted groups. -/
def offsets (sorted : List Group) : List Nat := 0 :: offsLoop 0 sorted

structure IntData where
  names : List String
  ids : List Int
  offsets : List Nat
  domains : List (List Nat)
  deriving Repr, DecidableEq

/-- `common.integral_data` with the argsort results `πs` (one per integral type). -/
def intData (πs : List (List Nat)) (groups : List Group) : IntData :=
  let sorted := List.zipWith sortGroup πs groups
  let es := sorted.flatten
  { names := es.map (·.name), ids := es.map (·.id), offsets := offsets sorted,
    domains := es.map (·.domains) }

/-- The executable instance (stable argsort). -/
def intDataStable (groups : List Group) : IntData :=
  intData (groups.map (fun g => argsortStable (g.map (·.id)))) groups

/-- What the property demands of `offsets` (closed form): entry `t` is the number of kernel
pointers of all types before `t`. -/
def Delimits (offs counts : List Nat) : Prop :=
  offs.length = counts.length + 1 ∧ ∀ t, t ≤ counts.length → offs[t]? = some (counts.take t).sum

/-- `form_integrals` initialiser of `C/form.py`:
`[&name_domain for name, domains in zip(names, domains) for domain in domains]`. -/
def emitKernels (es : List Entry) : List (String × Nat) :=
  es.flatMap (fun e => e.domains.map (fun d => (e.name, d)))

/-- `form_integral_ids` initialiser: `[i for i, domains in zip(ids, domains) for _ in domains]`. -/
def emitIds (es : List Entry) : List Int :=
  es.flatMap (fun e => e.domains.map (fun _ => e.id))

/-- `zip(form_integral_ids, form_integrals)`: the (id, kernel name, domain tag) rows of the table. -/
def emit (es : List Entry) : List (Int × String × Nat) :=
  es.flatMap (fun e => e.domains.map (fun d => (e.id, e.name, d)))

/-- Entries of the kernel table the UFCx consumer visits for integral type `t`:
positions `offsets[t] ≤ k < offsets[t+1]` of `form_integrals` / `form_integral_ids`. -/
def slice {β} (offs : List Nat) (t : Nat) (xs : List β) : List β :=
  (xs.drop (offs.getD t 0)).take (offs.getD (t + 1) 0 - offs.getD t 0)

/-! ## _compute_form_ir: subdomain ids -/

/-- An element of UFL's `itg_data.subdomain_id` tuple. -/
inductive SubId where
  | otherwise
  | num (i : Int)
  deriving Repr, DecidableEq

/-- `sid if sid != "otherwise" else -1`. -/
def SubId.toInt : SubId → Int
  | .otherwise => -1
  | .num i => i

/-- What `_compute_form_ir` reads of one `itg_data` (name and domains come from
`integral_names[(form_id, itg_index)]` and `integral_domains[name]`). -/
structure ItgData where
  itype : Nat
  subIds : List SubId
  name : String
  domains : List Nat
  deriving Repr, DecidableEq

def ItgData.entries (d : ItgData) : List Entry :=
  d.subIds.map (fun s => ⟨s.toInt, d.name, d.domains⟩)

def modifyAt {α} (f : α → α) : Nat → List α → List α
  | _, [] => []
  | 0, a :: l => f a :: l
  | n + 1, a :: l => a :: modifyAt f n l

/-- `sid != "otherwise" and sid < 0` -/
def SubId.isNegative : SubId → Bool
  | .otherwise => false
  | .num i => decide (i < 0)

/-- `sid != "otherwise" and sid > 2**31 - 1` (commit 9a772cd: `ufcx_form.form_integral_ids` is an
array of C `int`) -/
def SubId.tooLarge : SubId → Bool
  | .otherwise => false
  | .num i => decide (i > 2147483647)

/-- One iteration of the `for itg_index, itg_data in enumerate(form_data.integral_data)` loop:
`if any(sid != "otherwise" and sid < 0 for sid in itg_data.subdomain_id): raise ValueError(...)`, then
`if any(sid != "otherwise" and sid > 2**31 - 1 for sid in itg_data.subdomain_id): raise ValueError(...)`,
both BEFORE 'otherwise' is mapped to -1; then the three dict-of-lists are extended (KeyError for an
integral type that is not a key). -/
def formIRStep (groups : List Group) (d : ItgData) : Except String (List Group) :=
  if d.subIds.any SubId.isNegative then .error "Integral subdomain IDs must be non-negative."
  else if d.subIds.any SubId.tooLarge then .error "Integral subdomain IDs must fit a 32-bit signed integer."
  else if d.itype < groups.length then .ok (modifyAt (· ++ d.entries) d.itype groups)
  else .error "KeyError: integral type"

def formIRLoop (groups : List Group) : List ItgData → Except String (List Group)
  | [] => .ok groups
  | d :: ds => match formIRStep groups d with
    | .error e => .error e
    | .ok g => formIRLoop g ds

/-- The integral part of `_compute_form_ir` for `ntypes` integral types. -/
def formIR (ntypes : Nat) (itgs : List ItgData) : Except String (List Group) :=
  formIRLoop (List.replicate ntypes []) itgs

/-- The entries the property expects under type `t`: every integral of that type once for each
id of its tuple, in declaration order. -/
def expectedGroup (itgs : List ItgData) (t : Nat) : Group :=
  (itgs.filter (·.itype == t)).flatMap ItgData.entries

/-! ## Expression descriptor -/

/-- `base_ir["entity_type"]` from `(cell.topological_dimension, points.shape[1])`;
`tdim = none` when the expression has no domain. -/
def entityType (tdim : Option Nat) (pdim : Nat) : Except String String :=
  match tdim with
  | none => .ok "cell"
  | some t =>
    if t = pdim then .ok "cell"
    else if t = pdim + 1 then .ok "facet"
    else .error s!"Expression on domain with topological dimension {t}with points of dimension {pdim} not supported."

/-- What `_compute_expression_ir` / `C/expression.py` read of an expression. -/
structure ExprIn where
  tdim : Option Nat
  numPoints : Nat
  pdim : Nat
  shape : List Nat            -- expr.ufl_shape
  argDims : List Nat          -- element dimension of every Argument of the expression
  origCoeffs : List Nat       -- extract_coefficients(original_expr), as identifying numbers
  coeffs : List Nat           -- extract_coefficients(expr) (after preprocessing)
  origConstShapes : List (List Nat)   -- shapes of extract_constants(original_expr)
  numConstsReduced : Nat      -- len(extract_constants(expr)) after preprocessing (no longer read by the code)
  deriving Repr

structure ExprDesc where
  numPoints : Nat
  entityDimension : Nat
  valueShape : List Nat
  numComponents : Nat
  rank : Nat
  numCoefficients : Nat
  numConstants : Nat
  origPositions : List Nat
  entityType : String
  sizeA : Nat
  deriving Repr, DecidableEq

/-- Descriptor fields of `ufcx_expression` (plus `entity_type` and `tensor_sizes(ir).A`).
`num_constants = len(ir.constant_names)`, and `constant_names` enumerates
`extract_constants(original_expr)` — the same list `original_constant_offsets` is built from. -/
def exprDesc (e : ExprIn) : Except String ExprDesc :=
  if e.argDims.length > 1 then .error "Expression with more than one Argument not implemented."
  else match entityType e.tdim e.pdim with
    | .error m => .error m
    | .ok et => .ok
      { numPoints := e.numPoints, entityDimension := e.pdim, valueShape := e.shape,
        numComponents := e.shape.length, rank := e.argDims.length,
        numCoefficients := e.coeffs.length, numConstants := e.origConstShapes.length,
        origPositions := origPositions e.origCoeffs e.coeffs, entityType := et,
        sizeA := e.numPoints * shapeProd e.shape * shapeProd e.argDims }

/-- `A_shape = [num_points, components] + tensor_shape` of `ExpressionGenerator.generate_block_parts`. -/
def exprAShape (e : ExprIn) : List Nat := [e.numPoints, shapeProd e.shape] ++ e.argDims

end Ffcx.Layout
