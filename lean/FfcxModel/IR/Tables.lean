/-
Element tables (C01, C10): clamping, classification, compression, access.

Mirrors, AS CODED:
* `ffcx/ir/elementtables.py`: `clamp_table_small_numbers`, `is_zeros_table`, `is_ones_table`,
  `is_quadrature_table`, `is_permuted_table`, `is_piecewise_table`, `is_uniform_table`,
  `analyse_table_type`, and the compression block of `build_optimized_tables`
  (`tbl[:, :, :1, :]`, `tbl[:, :1, :, :]`, `is_permuted_table(tbl)` evaluated AFTER these two
  reductions, `tbl[:1, :, :, :]`);
* `ffcx/codegeneration/access.py`: the index computation of `table_access`.

A table is a 4-D array `[perm][entity][point][dof]`.  It is represented by its four extents and
an index function; slicing (`tbl[:, :, :1, :]`) only shrinks an extent, reads are bounds checked
(`get?`), so an access outside the *compressed* shape is visible as `none`.  The driver builds the
index function from a flat row-major `Array Rat` (`ofFlat`) and re-materialises after clamping.

Tolerances: `np.isclose(a, b, rtol, atol)` is `|a - b| ≤ atol + rtol * |b|` (finite values),
`np.allclose` its conjunction over all entries; evaluated exactly over `Rat`.
Note (DESIGN F19): `build_optimized_tables` calls `analyse_table_type(tbl)` and
`is_permuted_table(tbl)` WITHOUT tolerances, i.e. with the module defaults 1e-6 / 1e-9; only
`clamp_table_small_numbers` receives the user's `table_rtol/table_atol`.  `build` below therefore
takes two pairs of tolerances.

Core Lean only.
-/
namespace Ffcx.IR

/-- absolute value on `Rat` (own definition so that the model stays inside core Lean) -/
def qabs (x : Rat) : Rat := if x < 0 then -x else x

/-- `np.isclose(a, b, rtol=rtol, atol=atol)`: `|a - b| <= atol + rtol * |b|`. -/
def isClose (rtol atol a b : Rat) : Bool := decide (qabs (a - b) ≤ atol + rtol * qabs b)

/-! ### `clamp_table_small_numbers` -/

/-- one pass of the loop body: `table[np.where(np.isclose(table, n))] = n`, on one entry -/
def clampTo (rtol atol n x : Rat) : Rat := if isClose rtol atol x n then n else x

/-- `for n in (-1.0, 0.0, 1.0): table[np.where(np.isclose(table, n, rtol, atol))] = n` on one
entry; the passes are sequential (the second pass sees the result of the first). -/
def clamp (rtol atol x : Rat) : Rat :=
  clampTo rtol atol 1 (clampTo rtol atol 0 (clampTo rtol atol (-1) x))

/-! ### Tables -/

structure Table where
  /-- number of permutations -/
  P : Nat
  /-- number of entities -/
  E : Nat
  /-- number of points -/
  Q : Nat
  /-- number of dofs -/
  D : Nat
  /-- entry `[p][e][q][d]` (only meaningful inside the extents) -/
  val : Nat → Nat → Nat → Nat → Rat

namespace Table

/-- bounds-checked read -/
def get? (t : Table) (p e q d : Nat) : Option Rat :=
  if p < t.P ∧ e < t.E ∧ q < t.Q ∧ d < t.D then some (t.val p e q d) else none

/-- row-major flat index -/
def flatIndex (t : Table) (p e q d : Nat) : Nat := ((p * t.E + e) * t.Q + q) * t.D + d

def ofFlat (P E Q D : Nat) (data : Array Rat) : Table :=
  { P, E, Q, D, val := fun p e q d => data[((p * E + e) * Q + q) * D + d]?.getD 0 }

/-- all entries in row-major order -/
def toFlat (t : Table) : Array Rat := Id.run do
  let mut out : Array Rat := Array.mkEmpty (t.P * t.E * t.Q * t.D)
  for p in [0:t.P] do
    for e in [0:t.E] do
      for q in [0:t.Q] do
        for d in [0:t.D] do
          out := out.push (t.val p e q d)
  return out

/-- evaluate every entry once and store it (used by the driver after `clampTable`) -/
def materialise (t : Table) : Table := ofFlat t.P t.E t.Q t.D t.toFlat

def size (t : Table) : Nat := t.P * t.E * t.Q * t.D

/-- `tbl[:, :, :1, :]` -/
def slicePoints (t : Table) : Table := { t with Q := min 1 t.Q }
/-- `tbl[:, :1, :, :]` -/
def sliceEntities (t : Table) : Table := { t with E := min 1 t.E }
/-- `tbl[:1, :, :, :]` -/
def slicePerms (t : Table) : Table := { t with P := min 1 t.P }

end Table

/-- `clamp_table_small_numbers(table, rtol, atol)` -/
def clampTable (rtol atol : Rat) (t : Table) : Table :=
  { t with val := fun p e q d => clamp rtol atol (t.val p e q d) }

/-- `∀ i < n, f i` as a `Bool` (Python `all(... for i in range(n))`) -/
def allBelow (n : Nat) (f : Nat → Bool) : Bool := (List.range n).all f

/-! ### The six predicates

Each definition names the slices the Python inspects. -/

/-- `np.prod(table.shape) == 0 or np.allclose(table, zeros)` — the WHOLE table, all permutations. -/
def isZerosTable (rtol atol : Rat) (t : Table) : Bool :=
  t.size == 0 ||
  allBelow t.P fun p => allBelow t.E fun e => allBelow t.Q fun q => allBelow t.D fun d =>
    isClose rtol atol (t.val p e q d) 0

/-- `np.allclose(table, ones)` — the WHOLE table, all permutations. -/
def isOnesTable (rtol atol : Rat) (t : Table) : Bool :=
  allBelow t.P fun p => allBelow t.E fun e => allBelow t.Q fun q => allBelow t.D fun d =>
    isClose rtol atol (t.val p e q d) 1

/-- `is_quadrature_table` on permutation slice `p` (the Python uses `p = 0` only):
`num_points == num_dofs and all(allclose(table[p, i, :, :], eye) for i in range(num_entities))` -/
def isQuadratureSlice (rtol atol : Rat) (t : Table) (p : Nat) : Bool :=
  t.Q == t.D &&
  allBelow t.E fun e => allBelow t.Q fun q => allBelow t.D fun d =>
    isClose rtol atol (t.val p e q d) (if q = d then 1 else 0)

/-- `is_quadrature_table(table)`: inspects `table[0, i, :, :]` only. -/
def isQuadratureTable (rtol atol : Rat) (t : Table) : Bool := isQuadratureSlice rtol atol t 0

/-- `is_permuted_table(table)`: `not all(allclose(table[0,:,:,:], table[i,:,:,:]) for i in
range(1, P))`; `a = table[0]`, `b = table[i]`. -/
def isPermutedTable (rtol atol : Rat) (t : Table) : Bool :=
  !(allBelow t.P fun i => i == 0 ||
    (allBelow t.E fun e => allBelow t.Q fun q => allBelow t.D fun d =>
      isClose rtol atol (t.val 0 e q d) (t.val i e q d)))

/-- `is_piecewise_table` on permutation slice `p` (the Python uses `p = 0` only):
`all(allclose(table[p, :, 0, :], table[p, :, i, :]) for i in range(1, Q))`. -/
def isPiecewiseSlice (rtol atol : Rat) (t : Table) (p : Nat) : Bool :=
  allBelow t.Q fun i => i == 0 ||
    (allBelow t.E fun e => allBelow t.D fun d =>
      isClose rtol atol (t.val p e 0 d) (t.val p e i d))

/-- `is_piecewise_table(table)`: inspects `table[0, :, 0, :]` vs `table[0, :, i, :]` only. -/
def isPiecewiseTable (rtol atol : Rat) (t : Table) : Bool := isPiecewiseSlice rtol atol t 0

/-- `is_uniform_table` on permutation slice `p` (the Python uses `p = 0` only):
`all(allclose(table[p, 0, :, :], table[p, i, :, :]) for i in range(1, E))`. -/
def isUniformSlice (rtol atol : Rat) (t : Table) (p : Nat) : Bool :=
  allBelow t.E fun i => i == 0 ||
    (allBelow t.Q fun q => allBelow t.D fun d =>
      isClose rtol atol (t.val p 0 q d) (t.val p i q d))

/-- `is_uniform_table(table)`: inspects `table[0, 0, :, :]` vs `table[0, i, :, :]` only. -/
def isUniformTable (rtol atol : Rat) (t : Table) : Bool := isUniformSlice rtol atol t 0

/-! ### `analyse_table_type` -/

inductive TType where
  | zeros | ones | quadrature | fixed | piecewise | uniform | varying
  deriving DecidableEq, Repr, Inhabited

def TType.name : TType → String
  | .zeros => "zeros" | .ones => "ones" | .quadrature => "quadrature" | .fixed => "fixed"
  | .piecewise => "piecewise" | .uniform => "uniform" | .varying => "varying"

/-- `ttype in piecewise_ttypes = ("piecewise", "fixed", "ones", "zeros")` -/
def TType.isPiecewise : TType → Bool
  | .piecewise | .fixed | .ones | .zeros => true
  | _ => false

/-- `ttype in uniform_ttypes = ("fixed", "ones", "zeros", "uniform")` -/
def TType.isUniform : TType → Bool
  | .fixed | .ones | .zeros | .uniform => true
  | _ => false

/-- `analyse_table_type(table, rtol, atol)` — the decision order of the `if/elif` chain. -/
def analyse (rtol atol : Rat) (t : Table) : TType :=
  if isZerosTable rtol atol t then .zeros
  else if isOnesTable rtol atol t then .ones
  else if isQuadratureTable rtol atol t then .quadrature
  else
    let piecewise := isPiecewiseTable rtol atol t
    let uniform := isUniformTable rtol atol t
    if piecewise && uniform then .fixed
    else if piecewise then .piecewise
    else if uniform then .uniform
    else .varying

/-! ### Compression (`build_optimized_tables`, lines "Clean up table" … "Reduce table along num_perms axis") -/

/-- what `UniqueTableReferenceT` keeps of a table: `ttype`, `is_permuted`, `values` -/
structure Compressed where
  ttype : TType
  isPermuted : Bool
  table : Table

/-- the two type-driven reductions, in the order of the code -/
def reduceByType (tt : TType) (t : Table) : Table :=
  let t1 := if tt.isPiecewise then t.slicePoints else t
  if tt.isUniform then t1.sliceEntities else t1

/-- ```
tabletype = analyse_table_type(tbl)
if tabletype in piecewise_ttypes: tbl = tbl[:, :, :1, :]
if tabletype in uniform_ttypes:   tbl = tbl[:, :1, :, :]
is_permuted = is_permuted_table(tbl)          # on the REDUCED table
if not is_permuted: tbl = tbl[:1, :, :, :]
``` -/
def compress (rtol atol : Rat) (t : Table) : Compressed :=
  let tt := analyse rtol atol t
  let t2 := reduceByType tt t
  let perm := isPermutedTable rtol atol t2
  { ttype := tt, isPermuted := perm, table := if perm then t2 else t2.slicePerms }

/-- `clamp_table_small_numbers(t, rtol, atol)` with the user's tolerances, then `compress` with
the classification tolerances (the module defaults in the real call). -/
def build (rtolClamp atolClamp rtolCls atolCls : Rat) (t : Table) : Compressed :=
  compress rtolCls atolCls (clampTable rtolClamp atolClamp t)

/-! ### `table_access` -/

/-- `qp = quadrature_permutation[0]`, or `[1]` if `restriction == "-"` (only if permuted). -/
def selectPerm (restrictionMinus : Bool) (perm0 perm1 : Nat) : Nat :=
  if restrictionMinus then perm1 else perm0

/-- The index tuple `[qp][entity][iq][ic]` of `table_access` for run-time values
`p` (selected quadrature permutation), `e` (entity), `q` (quadrature index), `d` (dof index). -/
def accessIndex (c : Compressed) (p e q d : Nat) : Nat × Nat × Nat × Nat :=
  let e' := if c.ttype.isUniform then 0 else e
  let q' := if c.ttype.isPiecewise then 0 else q
  let p' := if c.isPermuted then p else 0
  (p', e', q', d)

/-- value read by the generated code; `none` = read outside the stored array -/
def tableAccess (c : Compressed) (p e q d : Nat) : Option Rat :=
  let (p', e', q', d') := accessIndex c p e q d
  c.table.get? p' e' q' d'

/-! ### The hypothesis under which compression is justified

The classification looked at permutation slice 0 only; the reductions are applied to every
slice.  `ClassifiedOnAllPerms` says that the predicate that justified the type holds on every
permutation slice. -/

def classifiedOnAllPerms (rtol atol : Rat) (tt : TType) (t : Table) : Bool :=
  match tt with
  | .zeros | .ones | .varying => true
  | .quadrature => allBelow t.P fun p => isQuadratureSlice rtol atol t p
  | .fixed => allBelow t.P fun p => isPiecewiseSlice rtol atol t p && isUniformSlice rtol atol t p
  | .piecewise => allBelow t.P fun p => isPiecewiseSlice rtol atol t p
  | .uniform => allBelow t.P fun p => isUniformSlice rtol atol t p

def ClassifiedOnAllPerms (rtol atol : Rat) (t : Table) : Prop :=
  classifiedOnAllPerms rtol atol (analyse rtol atol t) t = true

instance (rtol atol : Rat) (t : Table) : Decidable (ClassifiedOnAllPerms rtol atol t) :=
  inferInstanceAs (Decidable (classifiedOnAllPerms rtol atol (analyse rtol atol t) t = true))

end Ffcx.IR
