/-
Decidable side conditions of the loop-nest theorems (`FfcxProofs/C01Codegen.lean`) on a block
description.  Evaluated on every real block by `driver_codegen` (`block_wf`).  Core Lean only.
-/
import FfcxModel.Codegen.Block
import FfcxModel.LNodes.Static

namespace Ffcx.Codegen
open Ffcx.LNodes

/-- The block rank. -/
def GroupDesc.rank (g : GroupDesc) : Nat := g.bmLens.length

/-- **The shape of block `genBlock_spec` covers**: full tensor (not `diagonal`), no sum factorisation
    (neither the rule nor an argument table is tensor-factorised), rank ≤ 2 (functionals, linear
    and bilinear forms). -/
def regularGroup (g : GroupDesc) : Bool :=
  !g.diagonal && g.rule.factors.isNone &&
    g.blocks.all (fun b => b.args.all (fun a => a.table.factors.isNone)) && decide (g.rank ≤ 2)

/-- One block: as many arguments as the scalar blockmap has entries, as many dofs per argument as
    that entry (`len(blockmap[i]) == tabledata.values.shape[-1]` — the loop nest is built from the
    LAST block's ranges only, so this is what makes it right for the other blocks of the group), one
    extent of `A` per argument, at least one dof, and every `block_size * d + offset` (`d < ndofs`)
    inside the extent. -/
def coversB : List ArgDesc → List Nat → List Nat → Bool
  | a :: as, n :: ns, e :: es =>
    (a.table.ndofs == n && decide (0 ≤ a.table.offset) && decide (0 ≤ a.table.blockSize) &&
      decide (1 ≤ n) && decide (a.table.blockSize * ((n : Int) - 1) + a.table.offset < (e : Int))) &&
    coversB as ns es
  | [], [], [] => true
  | _, _, _ => false

/-- **`A` covers the blockmap** (and the blocks of the group have uniform dimensions). -/
def coversA (g : GroupDesc) : Bool :=
  g.blocks.all (fun b => coversB b.args g.bmLens g.aShape)

/-- **No aliasing.** No argument table is the element tensor `A`; no `fw` expression (the cached
    temporary, or `weights[iq]`) mentions `A` or a dof loop index. -/
def namesOk (g : GroupDesc) (st : GenState) : Bool :=
  g.blocks.all (fun b => b.args.all (fun a => a.table.name != aName)) &&
  (fwExprs g st g.blocks).all (fun fw => !mentionsE aName fw && dofNames.all (fun n => !mentionsE n fw))

/-- **Injective blockmaps** (`block_size ≥ 1`): distinct dof tuples of a block hit distinct entries
    of `A`.  Needed only for the per-entry corollary `genBlock_entry_spec`. -/
def injectiveBlocks (g : GroupDesc) : Bool :=
  g.blocks.all (fun b => b.args.all (fun a => decide (1 ≤ a.table.blockSize)))

/-! ### Side conditions of the quadrature-loop theorem `quadLoop_spec` -/

/-- the `(name, defining expression)` pairs of a list of `VariableDecl(fw, fw_rhs)` -/
def fwPairs : List Stmt → List (String × Expr)
  | [] => []
  | .vdecl n _ v :: ss => (n, v) :: fwPairs ss
  | _ :: ss => fwPairs ss

/-- every statement is a `VariableDecl` of a non-integer variable -/
def fwShape : List Stmt → Bool
  | [] => true
  | .vdecl _ dt _ :: ss => dt != .int && fwShape ss
  | _ :: _ => false

/-- **The `fw` protocol** (decidable, on the `intermediates` `generate_dofblock_partition` returns):
    they are declarations of pairwise distinct scalar temporaries, and no defining expression
    `f * weights[iq]` reads one of the temporaries. -/
def fwDeclsOk (fw : List Stmt) : Bool :=
  fwShape fw && decide (declNames fw).Nodup &&
    (fwPairs fw).all (fun p => (declNames fw).all (fun m => !mentionsE m p.2))

/-- the side conditions of all groups of one rule, with the `fw` cache threaded (Bool version of
    `GroupsOk` of `C01Codegen.lean`) -/
def groupsOkB (rule : QRule) (aShape : List Nat) : GenState → List GroupDesc → Bool
  | _, [] => true
  | st, g :: gs =>
    (g.rule.id == rule.id && g.rule.nweights == rule.nweights && g.rule.factors == rule.factors &&
      g.aShape == aShape && regularGroup g && coversA g && namesOk g st) &&
    groupsOkB rule aShape (fwState g st g.blocks) gs

/-- every `fw` expression used by the blocks of a rule is either a temporary declared in the rule's
    `intermediates` or an expression (`weights[iq]`) reading none of the temporaries
    (the shape `FwReady` of `kernel_meets_spec_partial` expects) -/
def fwLinkedB (fw : List Stmt) (st : GenState) (gs : List GroupDesc) : Bool :=
  (allFw st gs).all (fun e => match e with
    | .sym n dt => dt != .int && (fwPairs fw).any (fun p => p.1 == n)
    | e => (declNames fw).all (fun m => !mentionsE m e))

/-! ### Side condition of the partition theorem `partition_ssa` -/

/-- **Static single assignment** of the `sv_`/`sp_` intermediates `generate_partition` returns: they
    are declarations of pairwise distinct non-integer, non-boolean temporaries, none of them `A`, and no
    defining expression reads its own or a LATER temporary (decidable; evaluated on every real
    partition by `driver_codegen`). Boolean temporaries (conditions) are outside the theorem. -/
def ssaOk : List Stmt → Bool
  | [] => true
  | .vdecl n dt v :: ss =>
    (dt != .int && dt != .bool && n != aName && !mentionsE n v &&
      (declNames ss).all (fun m => m != n && !mentionsE m v)) && ssaOk ss
  | _ :: _ => false

end Ffcx.Codegen
