/-
Decidable side conditions of the loop-nest theorems (`FfcxProofs/C01Codegen.lean`) on a block
description.  Evaluated on every real block by `driver_codegen` (`block_wf`).  Core Lean only.
-/
import FfcxModel.Codegen.Block
import FfcxModel.LNodes.Static

namespace Ffcx.Codegen
open Ffcx.LNodes

/-- The block rank. -/
def GroupDesc.rank (g : GroupDesc) : Nat := g.bmLens.length

/-- **The shape of block `genBlock_spec` covers**: full tensor (not `diagonal`), no sum factorisation
    (neither the rule nor an argument table is tensor-factorised), rank ≤ 2 (functionals, linear
    and bilinear forms). -/
def regularGroup (g : GroupDesc) : Bool :=
  !g.diagonal && g.rule.factors.isNone &&
    g.blocks.all (fun b => b.args.all (fun a => a.table.factors.isNone)) && decide (g.rank ≤ 2)

/-- One block: as many arguments as the scalar blockmap has entries, as many dofs per argument as
    that entry (`len(blockmap[i]) == tabledata.values.shape[-1]` — the loop nest is built from the
    LAST block's ranges only, so this is what makes it right for the other blocks of the group), one
    extent of `A` per argument, at least one dof, and every `block_size * d + offset` (`d < ndofs`)
    inside the extent. -/
def coversB : List ArgDesc → List Nat → List Nat → Bool
  | a :: as, n :: ns, e :: es =>
    (a.table.ndofs == n && decide (0 ≤ a.table.offset) && decide (0 ≤ a.table.blockSize) &&
      decide (1 ≤ n) && decide (a.table.blockSize * ((n : Int) - 1) + a.table.offset < (e : Int))) &&
    coversB as ns es
  | [], [], [] => true
  | _, _, _ => false

/-- **`A` covers the blockmap** (and the blocks of the group have uniform dimensions). -/
def coversA (g : GroupDesc) : Bool :=
  g.blocks.all (fun b => coversB b.args g.bmLens g.aShape)

/-- **No aliasing.** No argument table is the element tensor `A`; no `fw` expression (the cached
    temporary, or `weights[iq]`) mentions `A` or a dof loop index. -/
def namesOk (g : GroupDesc) (st : GenState) : Bool :=
  g.blocks.all (fun b => b.args.all (fun a => a.table.name != aName)) &&
  (fwExprs g st g.blocks).all (fun fw => !mentionsE aName fw && dofNames.all (fun n => !mentionsE n fw))

/-- **Injective blockmaps** (`block_size ≥ 1`): distinct dof tuples of a block hit distinct entries
    of `A`.  Needed only for the per-entry corollary `genBlock_entry_spec`. -/
def injectiveBlocks (g : GroupDesc) : Bool :=
  g.blocks.all (fun b => b.args.all (fun a => decide (1 ≤ a.table.blockSize)))

/-! ### Side conditions of the quadrature-loop theorem `quadLoop_spec` -/

/-- the `(name, defining expression)` pairs of a list of `VariableDecl(fw, fw_rhs)` -/
def fwPairs : List Stmt → List (String × Expr)
  | [] => []
  | .vdecl n _ v :: ss => (n, v) :: fwPairs ss
  | _ :: ss => fwPairs ss

/-- every statement is a `VariableDecl` of a non-integer variable -/
def fwShape : List Stmt → Bool
  | [] => true
  | .vdecl _ dt _ :: ss => dt != .int && fwShape ss
  | _ :: _ => false

/-- **The `fw` protocol** (decidable, on the `intermediates` `generate_dofblock_partition` returns):
    they are declarations of pairwise distinct scalar temporaries, and no defining expression
    `f * weights[iq]` reads one of the temporaries. -/
def fwDeclsOk (fw : List Stmt) : Bool :=
  fwShape fw && decide (declNames fw).Nodup &&
    (fwPairs fw).all (fun p => (declNames fw).all (fun m => !mentionsE m p.2))

/-- the side conditions of all groups of one rule, with the `fw` cache threaded (Bool version of
    `GroupsOk` of `C01Codegen.lean`) -/
def groupsOkB (rule : QRule) (aShape : List Nat) : GenState → List GroupDesc → Bool
  | _, [] => true
  | st, g :: gs =>
    (g.rule.id == rule.id && g.rule.nweights == rule.nweights && g.rule.factors == rule.factors &&
      g.aShape == aShape && regularGroup g && coversA g && namesOk g st) &&
    groupsOkB rule aShape (fwState g st g.blocks) gs

/-- every `fw` expression used by the blocks of a rule is either a temporary declared in the rule's
    `intermediates` or an expression (`weights[iq]`) reading none of the temporaries
    (the shape `FwReady` of `kernel_meets_spec_partial` expects) -/
def fwLinkedB (fw : List Stmt) (st : GenState) (gs : List GroupDesc) : Bool :=
  (allFw st gs).all (fun e => match e with
    | .sym n dt => dt != .int && (fwPairs fw).any (fun p => p.1 == n)
    | e => (declNames fw).all (fun m => !mentionsE m e))

/-! ### Side condition of the partition theorem `partition_ssa` -/

/-- **Static single assignment** of the `sv_`/`sp_` intermediates `generate_partition` returns: they
    are declarations of pairwise distinct non-integer, non-boolean temporaries, none of them `A`, and no
    defining expression reads its own or a LATER temporary (decidable; evaluated on every real
    partition by `driver_codegen`). Boolean temporaries (conditions) are outside the theorem. -/
def ssaOk : List Stmt → Bool
  | [] => true
  | .vdecl n dt v :: ss =>
    (dt != .int && dt != .bool && n != aName && !mentionsE n v &&
      (declNames ss).all (fun m => m != n && !mentionsE m v)) && ssaOk ss
  | _ :: _ => false

/-! ### Side conditions of `kernel_meets_spec_defs_partial` (Bool versions of `PrefixDisjoint`, `PrefixReads`) -/

def isSymE : Expr → Bool
  | .sym .. => true
  | _ => false

/-- the defining expressions of a list of `VariableDecl`s -/
def declExprs : List Stmt → List Expr
  | [] => []
  | .vdecl _ _ v :: ss => v :: declExprs ss
  | _ :: ss => declExprs ss

/-- **Every `sv_`/`fw` temporary is defined from symbols the definition sections establish, from
    earlier temporaries, or from names the loop never writes**: the symbols written by the definition
    sections (`dnames`), by the `fw` declarations and by the intermediates are pairwise disjoint, none is
    a loop integer or `A`; no defining expression (and no non-symbol `fw` expression) mentions `A`,
    `ic`, a dof loop index or an `fw` temporary. With `ssaOk i0`, `fwDeclsOk fw`, `fwLinkedB`. -/
def prefixOkB (dnames : List String) (fw i0 : List Stmt) (fwes : List Expr) : Bool :=
  let fwn := declNames fw
  let i0n := declNames i0
  let ints := "iq" :: "ic" :: dofNames
  decide dnames.Nodup &&
  dnames.all (fun n => !fwn.contains n && !i0n.contains n) &&
  fwn.all (fun n => !i0n.contains n) &&
  (dnames ++ fwn ++ i0n).all (fun n => !ints.contains n && n != aName) &&
  (declExprs i0 ++ declExprs fw ++ fwes.filter (fun e => !isSymE e)).all (fun e =>
    !mentionsE aName e && ("ic" :: dofNames).all (fun m => !mentionsE m e) &&
    fwn.all (fun m => !mentionsE m e))

/-! ### Side condition of `genBlock_diagonal_spec` -/

/-- one block of a `diagonal` group: two non-tensor-factorised argument tables with as many dofs as
    the (common) blockmap length, the first one's blockmap inside the one extent of `A` -/
def diagonalBlock (n0 : Nat) (aShape : List Nat) (b : BlockData) : Bool :=
  match b.args with
  | [a0, a1] => a0.table.factors.isNone && a1.table.factors.isNone && a1.table.ndofs == n0 &&
      coversB [a0] [n0] aShape
  | _ => false

/-- **The shape of group `genBlock_diagonal_spec` covers**: `part = 'diagonal'`, rank 2 with equal
    block dimensions, `A` of rank 1, no sum factorisation. -/
def diagonalGroup (g : GroupDesc) : Bool :=
  g.diagonal && g.rule.factors.isNone &&
  (match g.bmLens with
   | [n0, n1] => n0 == n1 && g.blocks.all (diagonalBlock n0 g.aShape)
   | _ => false)

/-- the two block maps of every block coincide (`blockmap[0] == blockmap[1]`, the guard
    `generate_dofblock_partition` applies for `diagonal`): same offset and block size -/
def coincidentMaps (g : GroupDesc) : Bool :=
  g.blocks.all (fun b => match b.args with
    | [a0, a1] => a0.table.offset == a1.table.offset && a0.table.blockSize == a1.table.blockSize &&
        a0.table.ndofs == a1.table.ndofs
    | _ => false)

/-! ### Side condition of `genBlock_tensor_spec` -/

/-- dimensions of the factor tables of an argument -/
def tfDims (a : ArgDesc) : List Nat := (a.table.factors.getD []).map (·.2)

/-- the loop symbols `name0 … name(D-1)` -/
def famSymsB (name : String) (D : Nat) : List String := (List.range D).map (fun i => s!"{name}{i}")

/-- **The shape of group `genBlock_tensor_spec` covers** (Bool mirror of its hypotheses): full tensor,
    rule with `D ≥ 2` tensor factors, rank 1 or 2, every argument table with `D` factor tables whose
    dimensions agree across the blocks of the group and multiply to `ndofs`, `A` covers the blockmap,
    no factor table is `A`, usable loop names, no `fw` expression mentions `A` or a loop symbol. -/
def tensorGroupB (g : GroupDesc) (st : GenState) : Bool :=
  !g.diagonal &&
  (match g.rule.factors, g.blocks with
   | some ms, b0 :: _ =>
     let D := ms.length
     let dims := b0.args.map tfDims
     let fam := (dofNames.map (fun nm => famSymsB nm D)).flatten
     decide (2 ≤ D) && (g.rank == 1 || g.rank == 2) && dims.flatten.all (fun d => decide (1 ≤ d)) &&
     g.blocks.all (fun b =>
       b.args.map tfDims == dims &&
       b.args.all (fun a => (match a.table.factors with | some fs => fs.length == D | none => false) &&
         a.table.ndofs == (tfDims a).foldr (· * ·) 1 &&
         (a.table.factors.getD []).all (fun f => f.1 != aName)) &&
       coversB b.args g.bmLens g.aShape) &&
     decide (famSymsB "j" D ++ famSymsB "i" D).Nodup &&
     (famSymsB "iq" D).all (fun s => !(famSymsB "j" D ++ famSymsB "i" D).contains s) &&
     !(famSymsB "iq" D).contains aName && !fam.contains aName &&
     (fwExprs g st g.blocks).all (fun fw => !mentionsE aName fw && fam.all (fun n => !mentionsE n fw))
   | _, _ => false)

/-- `blockmap[0] == blockmap[1]` for one block (the guard of `generate_dofblock_partition` for `diagonal`) -/
def coincidentBlock (b : BlockData) : Bool :=
  match b.args with
  | [a0, a1] => a0.table.offset == a1.table.offset && a0.table.blockSize == a1.table.blockSize &&
      a0.table.ndofs == a1.table.ndofs
  | _ => false

/-- the two block maps of a block have no common global dof number (e.g. different components of a
    blocked element, different sub-elements of a mixed element) -/
def disjointMapsB (n0 n1 : Nat) (b : BlockData) : Bool :=
  match b.args with
  | [a0, a1] => (List.range n0).all (fun i => (List.range n1).all (fun j =>
      (if n0 == 1 then (i : Int) + a0.table.offset else a0.table.blockSize * (i : Int) + a0.table.offset) !=
      (if n1 == 1 then (j : Int) + a1.table.offset else a1.table.blockSize * (j : Int) + a1.table.offset)))
  | _ => false

/-- the diagonal kernel's group is the full kernel's group restricted to the coincident blocks, and the
    dropped blocks cannot touch the diagonal (decidable; checked on every real full/diagonal pair) -/
def diagonalPairB (gF gD : GroupDesc) : Bool :=
  decide (gD.blocks.map (fun b => (b.args, b.factorIndex)) =
    (gF.blocks.filter coincidentBlock).map (fun b => (b.args, b.factorIndex))) &&
  (match gF.bmLens with
   | [n0, n1] => (gF.blocks.filter (fun b => !coincidentBlock b)).all (disjointMapsB n0 n1)
   | _ => false)

end Ffcx.Codegen
