/-
Decidable links between a generated kernel and the IR it was generated from (evaluated on every real
rank-2 integral by `driver_codegen`, command `spec_link`): the blocks are the entries of the argument
factorisation of the integrand graph `S`; their argument tables are the tables the IR attaches to the
modified-argument nodes of `F`; the partition's nodes are the nodes of `F`.
-/
import FfcxModel.Codegen.Spec
import FfcxModel.Codegen.Partition
import FfcxModel.IR.Factorize

namespace Ffcx.Codegen
open Ffcx.LNodes

/-- what the IR attaches to the modified argument at position `pos` of `F` (`F.nodes[pos]["tr"]`,
    `["mt"]`): table reference + restriction, number of dofs, argument number -/
structure ArgInfoD where
  pos : Nat
  arg : ArgDesc
  len : Nat
  number : Nat
  deriving Repr, Inhabited

def lookupArg (tab : List ArgInfoD) (pos : Nat) : Option ArgInfoD := tab.find? (fun a => a.pos == pos)

/-- `ArgLink` (Bool): the block's `ma_index`es are argument nodes of `F` whose IR tables are the
    block's argument tables (test = number 0, trial = number 1) with the group's block lengths -/
def argLinkB (F : Array IR.Node) (tab : List ArgInfoD) (et : String)
    (t : GroupDesc × BlockData × Expr) : Bool :=
  match t.2.1.maIndices, t.2.1.args, t.1.bmLens with
  | [p0, p1], [a0, a1], [n0, n1] =>
    (match F[p0]?, F[p1]? with
     | some nd0, some nd1 =>
       (match nd0.kind, nd1.kind with
        | .arg pos0 _, .arg pos1 _ =>
          (match lookupArg tab pos0, lookupArg tab pos1 with
           | some i0, some i1 =>
             decide (i0.arg = a0) && i0.len == n0 && i0.number == 0 &&
             decide (i1.arg = a1) && i1.len == n1 && i1.number == 1
           | _, _ => false)
        | _, _ => false)
     | _, _ => false) && t.1.entityType == et
  | _, _, _ => false

/-- the `(ma_indices, factor_index)` of all blocks -/
def blockKeys (st : GenState) (gs : List GroupDesc) : List (IR.Key × Nat) :=
  (allBlocks st gs).map (fun t => (t.2.1.maIndices, t.2.1.factorIndex))

/-- the UFL class name `generate_partition` sees for a node kind -/
def kindOfCls (cls : String) : Option IR.Kind :=
  match cls with
  | "Sum" => some .sum | "Product" => some .prod | "Division" => some .div | "Conj" => some .conj
  | "Real" => some .real | "Imag" => some .imag | "Abs" => some .abs | "Conditional" => some .cond
  | _ => none

/-- node `n` of the partition description is the translation of node `n.idx` of `F` -/
def pnodeLinkB (F : Array IR.Node) (n : PNode) : Bool :=
  match F[n.idx]? with
  | none => false
  | some nd =>
    match n.kind with
    | .literal _ => (match nd.kind with | .lit .. | .zero | .clit .. => true | _ => false) && nd.deps.isEmpty
    | .terminal _ => (match nd.kind with | .term _ | .arg .. => true | _ => false) && nd.deps.isEmpty
    | .operator cls _ ops =>
      nd.deps == ops &&
      (match kindOfCls cls with
       | some k => nd.kind == k
       | none => (match nd.kind with | .condition c => c == cls | .op c => c == cls | _ => false))

/-- two nodes are the same up to the operand order of a `Sum` / `Product` (UFL orders the operands of
    commutative operators canonically; the model of `compute_argument_factorization` keeps its own order) -/
def nodeEquivB (a b : IR.Node) : Bool :=
  a.kind == b.kind && (a.deps == b.deps ||
    ((a.kind == .sum || a.kind == .prod) &&
      (match a.deps, b.deps with
       | [x0, x1], [y0, y1] => x0 == y1 && x1 == y0
       | _, _ => false)))

/-- the real `F` is the model's `F` node by node, up to commutativity -/
def graphEquivB (F G : Array IR.Node) : Bool :=
  F.size == G.size && (List.range F.size).all (fun i =>
    match F[i]?, G[i]? with
    | some a, some b => nodeEquivB a b
    | _, _ => false)

/-- all checks of one rank-2 integrand / rule -/
structure SpecLinkResult where
  accepted : Bool
  wf : Bool
  closedF : Bool
  fEqual : Bool
  oneTarget : Bool
  perm : Bool
  argLinks : Bool
  pnodes : Bool
  deriving Repr

def specLink (S : IR.Graph) (rank : Nat) (realF : Array IR.Node) (st : GenState) (gs : List GroupDesc)
    (tab : List ArgInfoD) (et : String) (parts : List (List PNode)) : SpecLinkResult :=
  match IR.factorize S rank with
  | .error _ => ⟨false, false, false, false, false, false, false, false⟩
  | .ok res =>
    let (one, perm) := match res.targetDicts with
      | [(_, _, dict)] => (true, (blockKeys st gs).isPerm dict)
      | _ => (false, false)
    { accepted := true, wf := decide (IR.WF S rank), closedF := IR.closedB res.F,
      fEqual := graphEquivB res.F realF, oneTarget := one, perm := perm,
      argLinks := (allBlocks st gs).all (argLinkB res.F tab et),
      pnodes := parts.all (fun ns => ns.all (pnodeLinkB realF)) }

/-! ## translation validation of the partition values (`hphi` of `kernel_meets_spec_linked`) -/

mutual
/-- structural equality of expression trees (sound: `exprEqB_sound`) -/
def exprEqB : Expr → Expr → Bool
  | .litF r i c, .litF r' i' c' => decide (r = r') && decide (i = i') && decide (c = c')
  | .litI v, .litI v' => decide (v = v')
  | .sym n d, .sym n' d' => decide (n = n') && decide (d = d')
  | .mi s z g, .mi s' z' g' => exprsEqB s s' && decide (z = z') && exprEqB g g'
  | .neg a, .neg b => exprEqB a b
  | .not a, .not b => exprEqB a b
  | .bin o a b, .bin o' a' b' => decide (o = o') && exprEqB a a' && exprEqB b b'
  | .sum a, .sum b => exprsEqB a b
  | .prod a, .prod b => exprsEqB a b
  | .call f d a, .call f' d' a' => decide (f = f') && decide (d = d') && exprsEqB a a'
  | .idx n d a, .idx n' d' a' => decide (n = n') && decide (d = d') && exprsEqB a a'
  | .cond c t f, .cond c' t' f' => exprEqB c c' && exprEqB t t' && exprEqB f f'
  | _, _ => false
def exprsEqB : List Expr → List Expr → Bool
  | [], [] => true
  | a :: as, b :: bs => exprEqB a b && exprsEqB as bs
  | _, _ => false
end

/-- node of `F` ↦ the expression `get_var` returns for it after the partitions were generated -/
abbrev AccessTab := List (Nat × Expr)

def accessOf (sc : AccessTab) (i : Nat) : Option Expr := (sc.find? (fun p => p.1 == i)).map (·.2)

/-- the access expression as a total function (nodes without access: `0`) -/
def accessE (sc : AccessTab) (i : Nat) : Expr := (accessOf sc i).getD (.litI 0)

/-- the access of a literal node is the LNodes literal of its value -/
def litAccessB (e : Expr) (v : Rat) : Bool :=
  match e with
  | .litF re im _ => decide (re = v) && decide (im = 0)
  | .litI n => decide ((n : Rat) = v)
  | _ => false

/-- `e` is a non-integer symbol declared (in `decls`) with defining expression `rhs` -/
def defOfB (decls : List (String × DType × Expr)) (e rhs : Expr) : Bool :=
  match e with
  | .sym n dt => dt != .int && decls.any (fun t => t.1 == n && exprEqB t.2.2 rhs)
  | _ => false

/-- UFL math-function class ↦ `_ufl_handler_name_` (the name `ufl_to_lnodes` gives the `MathFunction`) -/
def fnPairs : List (String × String) :=
  [("Power", "power"), ("Sqrt", "sqrt"), ("Ln", "ln"), ("Exp", "exp"), ("Cos", "cos"), ("Sin", "sin"),
   ("Tan", "tan"), ("Cosh", "cosh"), ("Sinh", "sinh"), ("Tanh", "tanh"), ("Acos", "acos"), ("Asin", "asin"),
   ("Atan", "atan"), ("Erf", "erf"), ("Atan2", "atan2"), ("MinValue", "min_value"), ("MaxValue", "max_value"),
   ("BesselJ", "bessel_j"), ("BesselY", "bessel_y"), ("BesselI", "bessel_i"), ("BesselK", "bessel_k")]

/-- `e` is a non-integer symbol declared as `MathFunction(h, args)` -/
def callOfB (decls : List (String × DType × Expr)) (e : Expr) (h : String) (args : List Expr) : Bool :=
  match e with
  | .sym n dt => dt != .int && decls.any (fun t => t.1 == n &&
      (match t.2.2 with
       | .call h' _ args' => decide (h' = h) && exprsEqB args' args
       | _ => false))
  | _ => false

def accessesOf (sc : AccessTab) : List Nat → Option (List Expr)
  | [] => some []
  | i :: is =>
    match accessOf sc i, accessesOf sc is with
    | some e, some es => some (e :: es)
    | _, _ => none

/-- **The generated code computes node `i` of `F`** (algebraic fragment + `Abs` + math functions): a literal's access is its
    LNodes literal; the access of a `Sum` / `Product` / `Division` node is a symbol whose declaration is
    `ufl_to_lnodes` of the operands' accesses; that of an `Abs` / math-function node a symbol declared as
    `MathFunction(handler, operand accesses)`.  Terminals are accepted (their values are a hypothesis). -/
def nodeEqB (F : Array IR.Node) (sc : AccessTab) (decls : List (String × DType × Expr)) (i : Nat) : Bool :=
  match F[i]?, accessOf sc i with
  | some nd, some e =>
    (match nd.kind, nd.deps with
     | .term _, _ => true
     | .zero, _ => litAccessB e 0
     | .lit _ v, _ => litAccessB e v
     | .sum, [a, b] =>
       (match accessOf sc a, accessOf sc b with
        | some ea, some eb => defOfB decls e (lAdd ea eb)
        | _, _ => false)
     | .prod, [a, b] =>
       (match accessOf sc a, accessOf sc b with
        | some ea, some eb => defOfB decls e (lMul ea eb)
        | _, _ => false)
     | .div, [a, b] =>
       (match accessOf sc a, accessOf sc b with
        | some ea, some eb => (match lDiv ea eb with | some r => defOfB decls e r | none => false)
        | _, _ => false)
     | .abs, [a] =>
       (match accessOf sc a with
        | some ea => callOfB decls e "abs" [ea]
        | none => false)
     | .op cls, ds =>
       (match fnPairs.find? (fun p => p.1 == cls), accessesOf sc ds with
        | some p, some eas => callOfB decls e p.2 eas
        | _, _ => false)
     | _, _ => false)
  | _, _ => false

/-- the nodes the factor nodes `roots` depend on (operands have smaller indices) -/
def coneOf (F : Array IR.Node) (roots : List Nat) : List Nat :=
  (List.range F.size).reverse.foldl (fun acc i =>
    if acc.contains i then (match F[i]? with | some nd => acc ++ nd.deps | none => acc) else acc) roots

/-- `cone` is closed under operands and every member is computed by the generated code -/
def coneOkB (F : Array IR.Node) (sc : AccessTab) (decls : List (String × DType × Expr)) (cone : List Nat) : Bool :=
  cone.all (fun i => match F[i]? with
    | some nd => nodeEqB F sc decls i && nd.deps.all (fun d => cone.contains d)
    | none => false)

/-- the `fw` of block `t` is (declared as) `float_product([access of its factor node, weights[iq]])` -/
def fwFactorB (fw : List Stmt) (sc : AccessTab) (t : GroupDesc × BlockData × Expr) : Bool :=
  match accessOf sc t.2.1.factorIndex with
  | none => false
  | some f =>
    let rhs := floatProduct [f, weightExpr t.1]
    (match t.2.2 with
     | .sym n _ => (match (fwPairs fw).find? (fun p => p.1 == n) with
        | some p => exprEqB p.2 rhs
        | none => false)
     | e => exprEqB e rhs)

/-- the triples `(name, dtype, defining expression)` of a list of `VariableDecl`s -/
def declsOf : List Stmt → List (String × DType × Expr)
  | [] => []
  | .vdecl n dt v :: ss => (n, dt, v) :: declsOf ss
  | _ :: ss => declsOf ss

/-- all value links of one rule -/
def valuesLinkB (F : Array IR.Node) (sc : AccessTab) (decls : List (String × DType × Expr)) (fw : List Stmt)
    (st : GenState) (gs : List GroupDesc) : Bool :=
  coneOkB F sc decls (coneOf F ((allBlocks st gs).map (fun t => t.2.1.factorIndex))) &&
  (allBlocks st gs).all (fwFactorB fw sc)

/-- all groups are rank-2 groups of an `e0 × e1` tensor -/
def rank2GroupsB (e0 e1 : Nat) (gs : List GroupDesc) : Bool :=
  gs.all (fun g => g.aShape == [e0, e1] && g.bmLens.length == 2 && g.blocks.all (fun b => b.args.length == 2))

/-! ## table extents (`ArgOk` from the exported table shapes and the kernel contract) -/

/-- **the accesses of argument `a` stay inside its table** given the table's shape
    `[perms, entities, points, dofs]`, the number `nq` of quadrature points, and the contract bounds
    `entity_local_index[k] < nEnt`, `quadrature_permutation[k] < nPerm` -/
def extentsOkB (shapes : List (String × List Nat)) (et : String) (nq nEnt nPerm : Nat) (a : ArgDesc) : Bool :=
  a.table.ttype == "ones" ||
  (match (if a.table.isUniform then some (Expr.litI 0) else entityExpr et a.restriction),
      (shapes.find? (fun p => p.1 == a.table.name)).map (·.2) with
   | some e, some [P, E, Q, D] =>
     (if a.table.isPermuted then decide (nPerm ≤ P) else decide (1 ≤ P)) &&
     (match e with | .litI 0 => decide (1 ≤ E) | _ => decide (nEnt ≤ E)) &&
     (if a.table.isPiecewise then decide (1 ≤ Q) else decide (nq ≤ Q)) &&
     decide (a.table.ndofs ≤ D)
   | _, _ => false)

end Ffcx.Codegen
