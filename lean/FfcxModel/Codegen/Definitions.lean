/-
Transcription, AS THEY ARE, of the code that defines the terminals of an integrand before the tensor
computation:

* `FFCXBackendDefinitions.get` and its handlers `coefficient`, `_define_coordinate_dofs_lincomb`
  (Jacobian, SpatialCoordinate), `spatial_coordinate`, `pass_through`
  (`ffcx/codegeneration/definitions.py`)  —  `genDefinition`
* `FFCXBackendAccess.get` and the handlers the definitions rely on: `coefficient`, `constant`,
  `spatial_coordinate`, `jacobian`, `reference_cell_volume`, `reference_facet_volume`,
  `reference_normal`, `cell_facet_jacobian`, `cell_ridge_jacobian`, `reference_cell_edge_vectors`,
  `reference_facet_edge_vectors`, `facet_orientation`, `_pass` (`ffcx/codegeneration/access.py`) and
  `symbols.format_mt_name`  —  `genAccess`.
  `cell_vertices`, `cell_edge_vectors` (the vertex/edge dof numbers of the coordinate element are
  inputs).  NOT transcribed (reported as `Unmodelled`): `cell_coordinate`, `facet_coordinate`
  (both unreachable and broken in the real code), `facet_edge_vectors`.

Core Lean only.
-/
import FfcxModel.Codegen.Block

namespace Ffcx.Codegen
open Ffcx.LNodes

/-- What the handlers read of a `ModifiedTerminal`. -/
structure MtDesc where
  /-- class names of `type(mt.terminal).__mro__` (most derived first): `isinstance` tests -/
  mro : List String
  /-- `type, type.__bases__[0], type.__bases__[0].__bases__[0], …`: the walk of `definitions.get` -/
  bases : List String
  averaged : Option String
  restriction : Restr
  globalDerivs : List Nat
  localDerivs : List Nat
  /-- geometric dimension of the terminal's domain -/
  gdim : Nat
  component : List Nat
  flatComponent : Nat
  cellname : String
  /-- coordinate-element data read by `cell_vertices` (`[dof]` of vertex `component[0]`) and
      `cell_edge_vectors` (`[dof0, dof1]` of the two vertices of edge `component[0]`): Basix data,
      looked up by the harness exactly as the handlers do -/
  auxDofs : List Nat := []
  deriving Repr, Inhabited

/-- What the handlers read of the backend. -/
structure DefCtx where
  entityType : String
  /-- `integral_type in ufl.custom_integral_types` -/
  custom : Bool
  /-- `None`/`0` (expression kernels) or the quadrature rule -/
  rule : Option QRule
  /-- `coefficient_numbering[terminal]`, `coefficient_offsets[terminal]`, `original_constant_offsets[terminal]` -/
  coeffNumber : Option Nat
  coeffOffset : Option Int
  constOffset : Option Int
  /-- `domain_numbers.setdefault(domain, len(domain_numbers))` -/
  jnum : Nat
  /-- `coordinate_element._sub_element.dim` -/
  numScalarDofs : Nat
  deriving Repr, Inhabited

/-- `create_quadrature_index(quadrature_rule, Symbol("iq"))`, also for a falsy rule -/
def quadIndexOpt : Option QRule → MIx
  | none => { syms := ["iq"], sizes := [0] }
  | some r => quadIndex r

def natsToString (l : List Nat) : String := String.join (l.map toString)

/-- `format_mt_name(basename, mt)`; `isJ`: the basename is literally `"J"` (the assertion on global
    derivatives — the Jacobian symbol is `"J<number>"`, so the assertion fails for it) -/
def formatMtName (basename : String) (mt : MtDesc) : M String := do
  let mut s := basename
  match mt.averaged with
  | some a => s := s ++ "_a" ++ a
  | none => pure ()
  s := s ++ (match mt.restriction with | .plus => "_r0" | .minus => "_r1" | .none => "")
  if !mt.globalDerivs.isEmpty then
    if basename != "J" then throw "AssertionError"
    s := s ++ "_deriv_" ++ natsToString mt.globalDerivs
  if !mt.localDerivs.isEmpty then
    s := s ++ "_d" ++ natsToString ((List.range mt.gdim).map (fun i => mt.localDerivs.count i))
  if !mt.component.isEmpty then
    s := s ++ "_c" ++ toString mt.flatComponent
  return s

/-- keys of `FFCXBackendAccess.call_lookup`, in insertion order -/
def accessTable : List String :=
  ["Coefficient", "Constant", "Jacobian", "CellCoordinate", "FacetCoordinate", "CellVertices",
   "FacetEdgeVectors", "CellEdgeVectors", "CellFacetJacobian", "CellRidgeJacobian",
   "ReferenceCellVolume", "ReferenceFacetVolume", "ReferenceCellEdgeVectors",
   "ReferenceFacetEdgeVectors", "ReferenceNormal", "CellOrientation", "FacetOrientation",
   "SpatialCoordinate"]

/-- the handler `access.get` selects: the exact type, else the first key (insertion order) the
    terminal is an instance of -/
def accessHandler (mt : MtDesc) : Option String :=
  match mt.mro.head? with
  | none => none
  | some t => if accessTable.contains t then some t else accessTable.find? (fun k => mt.mro.contains k)

def eli (k : Int) : Expr := .idx "entity_local_index" .int [.litI k]

/-- `symbols.entity("facet", restriction)` -/
def facetEntity (r : Restr) : Expr := if r == .minus then eli 1 else eli 0

def simplexAndTP : List String := ["interval", "triangle", "tetrahedron", "quadrilateral", "hexahedron"]

def compAt (mt : MtDesc) (i : Nat) : M Expr :=
  match mt.component[i]? with
  | some c => .ok (.litI c)
  | none => .error "IndexError"

/-- `symbols.domain_dof_access(dof, component, gdim, num_scalar_dofs, restriction)` -/
def domainDofAccess (ctx : DefCtx) (dof comp : Nat) (r : Restr) : Expr :=
  let offset : Int := if r == .minus then ctx.numScalarDofs * 3 else 0
  .idx "coordinate_dofs" .real [.litI (3 * dof + comp + offset)]

/-- `FFCXBackendAccess.get(mt, tabledata, quadrature_rule)`; `tref = none` when `tabledata is None` -/
def genAccess (ctx : DefCtx) (mt : MtDesc) (tref : Option TableRef) : M MSym := do
  match accessHandler mt with
  | none => throw "RuntimeError"
  | some "Coefficient" =>
    match tref with
    | none => throw "AttributeError"
    | some t =>
      if t.ttype == "zeros" then throw "AssertionError"
      -- end - begin == block_size * (num_dofs - 1) + 1
      if t.ttype == "ones" && t.blockSize * ((t.ndofs : Int) - 1) + 1 == 1 then
        match ctx.coeffOffset with
        | some off => return .ex (.idx "w" .scalar [.litI (off + t.offset)])
        | none => throw "KeyError"
      else
        match ctx.coeffNumber with
        | some c => return .ex (.sym (← formatMtName s!"w{c}" mt) .scalar)
        | none => throw "KeyError"
  | some "Constant" =>
    match ctx.constOffset with
    | some off => return .ex (.idx "c" .scalar [.litI (off + mt.flatComponent)])
    | none => throw "KeyError"
  | some "SpatialCoordinate" =>
    if !mt.globalDerivs.isEmpty then throw "RuntimeError"
    if mt.averaged.isSome then throw "RuntimeError"
    if ctx.custom then
      if !mt.localDerivs.isEmpty then throw "RuntimeError"
      let index := if mt.gdim == 1 then isym "iq"
        else lAdd (lMul (isym "iq") (.litI mt.gdim)) (.litI mt.flatComponent)
      return .ex (.idx "points_chunk" .real [index])
    else return .ex (.sym (← formatMtName "x" mt) .real)
  | some "Jacobian" =>
    if mt.averaged.isSome then throw "RuntimeError"
    return .ex (.sym (← formatMtName s!"J{ctx.jnum}" mt) .real)
  | some "ReferenceCellVolume" =>
    if simplexAndTP.contains mt.cellname then return .ex (.sym s!"{mt.cellname}_reference_cell_volume" .real)
    else throw "RuntimeError"
  | some "ReferenceFacetVolume" =>
    if simplexAndTP.contains mt.cellname then return .ex (.sym s!"{mt.cellname}_reference_facet_volume" .real)
    else throw "RuntimeError"
  | some "ReferenceNormal" =>
    if simplexAndTP.contains mt.cellname then
      return .ex (.idx s!"{mt.cellname}_reference_normals" .real [facetEntity mt.restriction, ← compAt mt 0])
    else throw "RuntimeError"
  | some "CellFacetJacobian" =>
    if ["triangle", "tetrahedron", "quadrilateral", "hexahedron", "prism", "pyramid"].contains mt.cellname then
      return .ex (.idx s!"{mt.cellname}_cell_facet_jacobian" .real
        [facetEntity mt.restriction, ← compAt mt 0, ← compAt mt 1])
    else throw "RuntimeError"
  | some "CellRidgeJacobian" =>
    if ["tetrahedron", "prism", "hexahedron"].contains mt.cellname then
      return .ex (.idx s!"{mt.cellname}_cell_ridge_jacobian" .real [eli 0, ← compAt mt 0, ← compAt mt 1])
    else throw "RuntimeError"
  | some "ReferenceCellEdgeVectors" =>
    if ["triangle", "tetrahedron", "quadrilateral", "hexahedron"].contains mt.cellname then
      return .ex (.idx s!"{mt.cellname}_reference_cell_edge_vectors" .real [← compAt mt 0, ← compAt mt 1])
    else throw "RuntimeError"
  | some "ReferenceFacetEdgeVectors" =>
    if ["tetrahedron", "hexahedron"].contains mt.cellname then
      return .ex (.idx s!"{mt.cellname}_reference_facet_edge_vectors" .real [← compAt mt 0, ← compAt mt 1])
    else throw "RuntimeError"
  | some "FacetOrientation" =>
    if ["interval", "triangle", "tetrahedron"].contains mt.cellname then
      return .ex (.idx s!"{mt.cellname}_facet_orientation" .int [facetEntity mt.restriction])
    else throw "RuntimeError"
  | some "CellOrientation" => return .py 1
  | some "CellVertices" =>
    match mt.auxDofs, mt.component[1]? with
    | [dof], some comp => return .ex (domainDofAccess ctx dof comp mt.restriction)
    | _, _ => throw "Unmodelled"
  | some "CellEdgeVectors" =>
    if ["triangle", "tetrahedron", "quadrilateral", "hexahedron"].contains mt.cellname then
      match mt.auxDofs, mt.component[1]? with
      | [dof0, dof1], some comp =>
        return .ex (lSub (domainDofAccess ctx dof0 comp mt.restriction)
          (domainDofAccess ctx dof1 comp mt.restriction))
      | _, _ => throw "Unmodelled"
    else throw "RuntimeError"
  | some _ => throw "Unmodelled"

/-- keys of `FFCXBackendDefinitions.handler_lookup` -/
def defPassThrough : List String :=
  ["Constant", "CellVertices", "FacetEdgeVectors", "CellEdgeVectors", "CellFacetJacobian",
   "CellRidgeJacobian", "ReferenceCellVolume", "ReferenceFacetVolume", "ReferenceCellEdgeVectors",
   "ReferenceFacetEdgeVectors", "ReferenceNormal", "CellOrientation", "FacetOrientation"]

/-- the handler `definitions.get` selects: walk `__bases__[0]` until a key is found -/
def defHandler (mt : MtDesc) : Option String :=
  mt.bases.find? (fun t => t == "Coefficient" || t == "Jacobian" || t == "SpatialCoordinate" ||
    defPassThrough.contains t)

/-- the description of what a linear-combination section computes, shared by the two handlers -/
structure Lincomb where
  /-- the section name `type(mt.terminal).__name__` -/
  name : String
  access : String
  dtype : DType
  /-- the dof array: `w` or `coordinate_dofs` (and its dtype) -/
  arr : String
  arrDt : DType
  /-- the subscript of the dof array -/
  dofIdx : Expr
  /-- the table access and the table symbols -/
  fe : Expr
  tables : List String
  ic : MIx
  deriving Repr, Inhabited

/-- the `Section` both handlers build -/
def lincombSection (l : Lincomb) : Stmt :=
  .sect l.name [.vdecl l.access l.dtype (.litF 0 0 false)]
    [nestStmt (l.ic.syms.zip l.ic.sizes)
      (asStmt [.addAssign (.sym l.access l.dtype) (lMul (.idx l.arr l.arrDt [l.dofIdx]) l.fe)])]
    (l.arr :: l.tables) [l.access] ["fuse"]

/-- the symbol a definition declares (`VariableDecl` asserts that `access` is a `Symbol`) -/
def accessSym : MSym → M (String × DType)
  | .ex (.sym n dt) => .ok (n, dt)
  | _ => .error "AssertionError"

/-- the subscript `offset + ((ic.global_index) * bs + begin)` of `w` -/
def coeffDofIdx (t : TableRef) (ic : MIx) (off : Int) : Expr :=
  lRAdd (lAdd (lMul ic.global (.litI t.blockSize)) (.litI t.offset)) (.litI off)

/-- the subscript `ic.global_index * 3 + begin + offset` of `coordinate_dofs` -/
def coordDofIdx (t : TableRef) (ic : MIx) (offset : Int) : Expr :=
  lAdd (lAdd (lMul ic.global (.litI 3)) (.litI t.offset)) (.litI offset)

/-- `FFCXBackendDefinitions.coefficient` up to the section (none = `return []`) -/
def coeffLincomb (ctx : DefCtx) (mt : MtDesc) (t : TableRef) (access : MSym) : M (Option Lincomb) :=
  let iq := quadIndexOpt ctx.rule
  let ic := dofIndex t "ic"
  if t.ttype == "zeros" then .ok none
  else if t.ttype == "ones" && t.blockSize * ((t.ndofs : Int) - 1) + 1 == 1 then .ok none
  -- assert begin < end
  else if !(t.blockSize * ((t.ndofs : Int) - 1) + 1 > 0) then .error "AssertionError"
  else match tableAccess t ctx.entityType mt.restriction iq ic with
    | .error e => .error e
    | .ok (fe, tables) =>
      match ctx.coeffOffset with
      | none => .error "KeyError"
      | some off =>
        match accessSym access with
        | .error e => .error e
        | .ok (n, dt) =>
          .ok (some { name := mt.mro.headD "", access := n, dtype := dt, arr := "w", arrDt := .scalar,
                      dofIdx := coeffDofIdx t ic off, fe := fe, tables := tables, ic := ic })

/-- `_define_coordinate_dofs_lincomb` up to the section -/
def coordLincomb (ctx : DefCtx) (mt : MtDesc) (t : TableRef) (access : MSym) : M Lincomb :=
  if ctx.numScalarDofs != t.ndofs then .error "AssertionError"
  else if t.ttype == "zeros" || t.ttype == "ones" then .error "AssertionError"
  else
    let ic := dofIndex t "ic"
    let iq := quadIndexOpt ctx.rule
    match tableAccess t ctx.entityType mt.restriction iq ic with
    | .error e => .error e
    | .ok (fe, tables) =>
      let offset : Int := if mt.restriction == .minus then ctx.numScalarDofs * 3 else 0
      match accessSym access with
      | .error e => .error e
      | .ok (n, dt) =>
        .ok { name := mt.mro.headD "", access := n, dtype := dt, arr := "coordinate_dofs", arrDt := .real,
              dofIdx := coordDofIdx t ic offset, fe := fe, tables := tables, ic := ic }

/-- `FFCXBackendDefinitions.get(mt, tabledata, quadrature_rule, access)`: the `Section`, or `none`
    for `[]` -/
def genDefinition (ctx : DefCtx) (mt : MtDesc) (tref : Option TableRef) (access : MSym) :
    M (Option Stmt) := do
  match defHandler mt with
  | none => throw "NotImplementedError"
  | some "Coefficient" =>
    match tref with
    | none => throw "AttributeError"
    | some t => return (← coeffLincomb ctx mt t access).map lincombSection
  | some "Jacobian" =>
    match tref with
    | none => throw "AttributeError"
    | some t => return some (lincombSection (← coordLincomb ctx mt t access))
  | some "SpatialCoordinate" =>
    if ctx.custom then return none
    else match tref with
      | none => throw "AttributeError"
      | some t => return some (lincombSection (← coordLincomb ctx mt t access))
  | some _ => return none

end Ffcx.Codegen
