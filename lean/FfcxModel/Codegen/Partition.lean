/-
Transcription of the operator branch of `IntegralGenerator.generate_partition` /
`ExpressionGenerator.generate_partition` (the code that evaluates the factorisation graph `F` into
`sv_…` / `sp_…` temporaries) and of `lnodes.ufl_to_lnodes`, AS THEY ARE.

A node of `F` is described by what the function reads: whether `status == mode`, whether it is a
literal, a modified terminal (whose access expression comes from `access.py` — captured, not
modelled) or an operator (UFL class, handler name, operand node indices).  Core Lean only.
-/
import FfcxModel.LNodes.Syntax
import FfcxModel.LNodes.Simplify
import FfcxModel.LNodes.Dtypes

namespace Ffcx.Codegen
open Ffcx.LNodes

inductive PKind where
  /-- `v._ufl_is_literal_`: `get_var` returns `ufl_to_lnodes(v)`; no code -/
  | literal (e : Expr)
  /-- modified terminal: the access the backend returns (captured): an LNodes expression, or a plain
      Python int (`CellOrientation` is passed through as `1`) -/
  | terminal (access : MSym)
  /-- operator: UFL class name, `_ufl_handler_name_`, operand node indices (`F.e2i[op]`) -/
  | operator (cls handler : String) (ops : List Nat)
  deriving Repr, Inhabited

structure PNode where
  idx : Nat
  /-- `attr["status"] == mode` -/
  active : Bool
  kind : PKind
  deriving Repr, Inhabited

/-- node index ↦ access expression (`scopes[(domain, rule)]` over `scopes[(None, None)]`) -/
abbrev Scope := List (Nat × MSym)

def Scope.get (s : Scope) (i : Nat) : Option MSym := (s.find? (fun p => p.1 == i)).map (·.2)

abbrev PM := Except String

/-- the math-function classes of `_ufl_call_lookup` -/
def mathClasses : List String :=
  ["Abs", "Power", "Real", "Imag", "Conj", "MinValue", "MaxValue", "Sqrt", "Ln", "Exp", "Cos", "Sin",
   "Tan", "Cosh", "Sinh", "Tanh", "Acos", "Asin", "Atan", "Erf", "Atan2", "MathFunction", "BesselJ",
   "BesselY"]

def cmpClass : String → Option BinOp
  | "GT" => some .gt | "GE" => some .ge | "EQ" => some .eq | "NE" => some .ne
  | "LT" => some .lt | "LE" => some .le | "AndCondition" => some .and | "OrCondition" => some .or
  | _ => none

/-- `a op b` where an operand may be a Python int: `a.__op__(b)` if `a` is an LNodes expression,
    else `b.__rop__(a)`, else plain integer arithmetic -/
def pyBin (f rf : Expr → Expr → PM Expr) (num : Int → Int → PM MSym) : MSym → MSym → PM MSym
  | .ex a, b => (f a b.toExpr).map .ex
  | .py a, .ex b => (rf b (.litI a)).map .ex
  | .py a, .py b => num a b

def optE (o : Option Expr) : PM Expr :=
  match o with
  | some e => .ok e
  | none => .error "ValueError"

/-- `ufl_to_lnodes(v, *args)` for an operator `v` of class `cls` -/
def uflToLnodes (cls handler : String) (args : List MSym) : PM MSym :=
  match cls, args with
  | "Product", [a, b] =>
    pyBin (fun a b => .ok (lMul a b)) (fun b a => .ok (lRMul b a)) (fun a b => .ok (.py (a * b))) a b
  | "Sum", [a, b] =>
    pyBin (fun a b => .ok (lAdd a b)) (fun b a => .ok (lRAdd b a)) (fun a b => .ok (.py (a + b))) a b
  | "Division", [a, b] =>
    pyBin (fun a b => optE (lDiv a b)) (fun b a => optE (lRDiv b a))
      (fun _ b => if b == 0 then .error "ZeroDivisionError" else .error "Unrepresentable") a b
  | "NotCondition", [a] => .ok (.ex (.not a.toExpr))
  | "Conditional", [c, t, f] => .ok (.ex (.cond c.toExpr t.toExpr f.toExpr))
  | _, _ =>
    match cmpClass cls, args with
    | some op, [a, b] => .ok (.ex (.bin op a.toExpr b.toExpr))
    | some _, _ => .error "TypeError"
    | none, _ =>
      if mathClasses.contains cls then
        match args with
        | [] => .error "IndexError"
        | .py _ :: _ => .error "AttributeError"   -- `args[0].dtype` of a Python int
        | .ex a :: _ =>
          match dtypeOf a with
          | some dt => .ok (.ex (mathFunction handler dt (args.map MSym.toExpr)))
          | none => .error "ValueError"
      else if ["Product", "Sum", "Division", "NotCondition", "Conditional"].contains cls then .error "TypeError"
      else .error "RuntimeError"

def conditionClasses : List String :=
  ["GT", "GE", "EQ", "NE", "LT", "LE", "AndCondition", "OrCondition", "NotCondition"]

/-- `extract_dtype(v, vops)` of `integral_generator.py` (every operand here is an LNodes
    expression with a `dtype`, or a Python int: `DataType.INT`, as for `LiteralInt`) -/
def extractDtype (cls : String) (vops : List MSym) : PM DType :=
  match dtypesOf (vops.map MSym.toExpr) with
  | none => .error "ValueError"
  | some ds =>
    if conditionClasses.contains cls then .ok .bool
    else if cls == "Real" || cls == "Imag" then .ok .real
    else match mergeDtypes ds with
      | some d => .ok d
      | none => .error "ValueError"

/-- the dtype rule of `ExpressionGenerator.generate_partition` -/
def exprDtype (cls : String) : DType :=
  if conditionClasses.contains cls then .bool
  else if cls == "Real" || cls == "Imag" then .real
  else .scalar

/-- operands as `get_var` returns them; `None` (an operand without access) makes `as_lexpr` /
    the dtype extraction fail -/
def operandAccess (nodes : List PNode) (scope : Scope) (i : Nat) : Option MSym :=
  match nodes.find? (fun n => n.idx == i) with
  | some { kind := .literal e, .. } => some (.ex e)
  | _ => scope.get i

def operandsAccess (nodes : List PNode) (scope : Scope) : List Nat → Option (List MSym)
  | [] => some []
  | i :: is =>
    match operandAccess nodes scope i, operandsAccess nodes scope is with
    | some e, some es => some (e :: es)
    | _, _ => none

/-- `generate_partition`: the `intermediates` (`VariableDecl(sym_j, vexpr)`) and the scope afterwards.
    `integral = true`: `IntegralGenerator` (skips cached nodes, `extract_dtype`);
    `false`: `ExpressionGenerator` (no cache test, fixed dtype rule). -/
def genPartition (integral : Bool) (symbol : String) (all : List PNode) :
    List PNode → Scope → List Stmt → PM (List Stmt × Scope)
  | [], scope, inter => .ok (inter, scope)
  | n :: ns, scope, inter =>
    if !n.active then genPartition integral symbol all ns scope inter
    else match n.kind with
      | .literal _ => genPartition integral symbol all ns scope inter
      | .terminal access =>
        if integral && (scope.get n.idx).isSome then genPartition integral symbol all ns scope inter
        else genPartition integral symbol all ns ((n.idx, access) :: scope.filter (fun p => p.1 != n.idx)) inter
      | .operator cls handler ops =>
        if integral && (scope.get n.idx).isSome then genPartition integral symbol all ns scope inter
        else
          match operandsAccess all scope ops with
          | none => .error "RuntimeError"
          | some vops =>
            match (if integral then extractDtype cls vops else .ok (exprDtype cls)) with
            | .error e => .error e
            | .ok dt =>
              match uflToLnodes cls handler vops with
              | .error e => .error e
              | .ok vexpr =>
                let name := s!"{symbol}_{inter.length}"
                genPartition integral symbol all ns
                  ((n.idx, .ex (.sym name dt)) :: scope.filter (fun p => p.1 != n.idx))
                  (inter ++ [.vdecl name dt vexpr.toExpr])

end Ffcx.Codegen
