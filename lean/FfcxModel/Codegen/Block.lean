/-
Transcription of the dof-block code generators AS THEY ARE:

* `IntegralGenerator.generate_block_parts` (+ `get_arg_factors`, `get_temp_symbol`,
  `definitions.create_quadrature_index`, `create_dof_index`, `access.table_access`,
  `lnodes.create_nested_for_loops`, `as_statement`, `Section`) of
  `ffcx/codegeneration/integral_generator.py`  —  `genBlockParts`
* the assembly of one quadrature loop by `IntegralGenerator.generate_quadrature_loop`
  (before `optimize`, which is the optimiser cluster's business)  —  `genQuadLoop`
* `ExpressionGenerator.generate_block_parts` (+ `get_arg_factors`, `symbols.element_table`), including
  its `expand_loop` branch  —  `genExprBlock`

The input is a *block description*: exactly the data the Python functions read from their
arguments, from the IR and from the generator's caches (captured by `harness/codegen_checks.py`,
which also compares the statements produced here with the ones the real functions return,
s-expression by s-expression).  Core Lean only.
-/
import FfcxModel.LNodes.Syntax
import FfcxModel.LNodes.Simplify

namespace Ffcx.Codegen
open Ffcx.LNodes

/-! ## Descriptions -/

/-- `mt.restriction` of a modified argument: `None`, `"+"`, `"-"`. -/
inductive Restr where
  | none | plus | minus
  deriving DecidableEq, Repr, Inhabited

/-- What the generators read from a `UniqueTableReferenceT`. -/
structure TableRef where
  name : String
  ttype : String
  /-- `values.shape[-1]` -/
  ndofs : Nat
  offset : Int
  blockSize : Int
  isPermuted : Bool
  /-- `tensor_factors`: (name, `values.shape[-1]`) of every factor table -/
  factors : Option (List (String × Nat))
  deriving DecidableEq, Repr, Inhabited

/-- `piecewise_ttypes` of `ffcx/ir/elementtables.py` -/
def piecewiseTtypes : List String := ["piecewise", "fixed", "ones", "zeros"]
/-- `uniform_ttypes` -/
def uniformTtypes : List String := ["fixed", "ones", "zeros", "uniform"]

def TableRef.isPiecewise (t : TableRef) : Bool := piecewiseTtypes.contains t.ttype
def TableRef.isUniform (t : TableRef) : Bool := uniformTtypes.contains t.ttype

/-- What the generators read from a `QuadratureRule`. -/
structure QRule where
  /-- `quadrature_rule.id()` -/
  id : String
  /-- `weights.size` -/
  nweights : Nat
  /-- `tensor_factors`: `factor[1].size` of every factor (`has_tensor_factors` iff `some`) -/
  factors : Option (List Nat)
  deriving Repr, Inhabited

/-- One modified argument of a block: `blockdata.ma_data[i]` and the restriction of
    `modified_arguments[ma_index]`. -/
structure ArgDesc where
  table : TableRef
  restriction : Restr
  deriving DecidableEq, Repr, Inhabited

/-- One `BlockDataT` as `generate_block_parts` sees it. `f` is what `get_var` returns for the
    factor expression (a literal, an `sv_`/`sp_` symbol, or a terminal access). -/
structure BlockData where
  ttypes : List String
  args : List ArgDesc
  /-- `len(factor_indices_comp_indices)` -/
  nFactorComps : Nat
  /-- `factor_indices_comp_indices[0][0]` -/
  factorIndex : Nat
  allFactorsPiecewise : Bool
  transposed : Bool
  f : Expr
  /-- `ma_data[i].ma_index`: the positions of the block's modified arguments in the factorisation
      graph `F` (not read by the generator; used by the specification link) -/
  maIndices : List Nat := []
  deriving Repr, Inhabited

/-- One call of `IntegralGenerator.generate_block_parts`. -/
structure GroupDesc where
  rule : QRule
  /-- `integral_type in ufl.custom_integral_types` -/
  custom : Bool
  /-- `ir.expression.entity_type` -/
  entityType : String
  /-- `ir.part == TensorPart.diagonal` -/
  diagonal : Bool
  /-- `ir.expression.tensor_shape` -/
  aShape : List Nat
  /-- `len(blockmap[i])`; the block rank is the length of this list -/
  bmLens : List Nat
  blocks : List BlockData
  deriving Repr, Inhabited

/-- The part of the generator's state `generate_block_parts` reads and writes:
    `temp_symbols` restricted to `"fw"` keys `(rule id, factor_index, all_factors_piecewise) ↦ name`
    and `symbol_counters["fw"]`. -/
structure GenState where
  cache : List ((String × Nat × Bool) × String) := []
  counter : Nat := 0
  deriving Repr, Inhabited

abbrev M := Except String

/-! ## Small pieces of LNodes -/

/-- A `MultiIndex` all of whose symbols are integer `Symbol`s. -/
structure MIx where
  syms : List String
  sizes : List Nat
  deriving Repr, Inhabited

def isym (n : String) : Expr := .sym n .int

/-- `MultiIndex.global_index` -/
def MIx.global (m : MIx) : Expr := miGlobal (m.syms.map (fun s => .ex (isym s))) m.sizes

/-- `MultiIndex.dim` (`len(sizes)`) -/
def MIx.dim (m : MIx) : Nat := m.sizes.length

/-- `create_quadrature_index(rule, Symbol("iq"))` -/
def quadIndex (r : QRule) : MIx :=
  match r.factors with
  | none => { syms := ["iq"], sizes := [r.nweights] }
  | some fs => { syms := (List.range fs.length).map (fun i => s!"iq{i}"), sizes := fs }

/-- `symbols.argument_loop_index(i)` (`IndexError` beyond four arguments) -/
def argLoopName (i : Nat) : M String :=
  match ["i", "j", "k", "l"][i]? with
  | some s => .ok s
  | none => .error "IndexError"

/-- `create_dof_index(tabledata, Symbol(name))` -/
def dofIndex (t : TableRef) (name : String) : MIx :=
  match t.factors with
  | some fs => { syms := (List.range fs.length).map (fun i => s!"{name}{i}"), sizes := fs.map (·.2) }
  | none => { syms := [name], sizes := [t.ndofs] }

/-- `symbols.entity(entity_type, restriction)`; `none` is Python's `None` (unknown entity type) -/
def entityExpr (entityType : String) (r : Restr) : Option Expr :=
  let eli (k : Int) : Expr := .idx "entity_local_index" .int [.litI k]
  if entityType == "cell" then some (.litI 0)
  else if entityType == "facet" then (if r == .minus then some (eli 1) else some (eli 0))
  else if entityType == "vertex" then some (eli 0)
  else if entityType == "ridge" then some (eli 0)
  else none

/-- the quadrature-permutation subscript of a table access -/
def qpExpr (t : TableRef) (r : Restr) : Expr :=
  if t.isPermuted then
    (if r == .minus then .idx "quadrature_permutation" .int [.litI 1]
     else .idx "quadrature_permutation" .int [.litI 0])
  else .litI 0

/-- the loop of the tensor-factor branch of `table_access`: `for i in range(dof_index.dim)` over the
    factor tables, the quadrature index symbols and the dof index symbols (`IndexError` when the factor
    list runs out, `AssertionError` from `local_index` when an index has too few symbols,
    `RuntimeError` for the `None` entity) -/
def tpGo (qp : Expr) (entity : Option Expr) :
    Nat → List (String × Nat) → List String → List String → M (List Expr × List String)
  | 0, _, _, _ => .ok ([], [])
  | _ + 1, [], _, _ => .error "IndexError"
  | _ + 1, _ :: _, [], _ => .error "AssertionError"
  | _ + 1, _ :: _, _ :: _, [] => .error "AssertionError"
  | n + 1, (fname, _) :: fs, qs :: qss, ds :: dss =>
    match entity with
    | none => .error "RuntimeError"
    | some e =>
      match tpGo qp entity n fs qss dss with
      | .error err => .error err
      | .ok (fe, names) => .ok (.idx fname .real [qp, e, isym qs, isym ds] :: fe, fname :: names)

/-- `FFCXBackendAccess.table_access(tabledata, entity_type, restriction, iq, dof_index)`:
    the access expression and the list of table symbols it uses. -/
def tableAccess (t : TableRef) (entityType : String) (r : Restr) (iq dof : MIx) :
    M (Expr × List String) :=
  let entity0 := entityExpr entityType r
  let entity : Option Expr := if t.isUniform then some (.litI 0) else entity0
  let iqg : Expr := if t.isPiecewise then .litI 0 else iq.global
  let icg : Expr := dof.global
  let qp := qpExpr t r
  if dof.dim == 1 && iq.dim == 1 then
    match entity with
    | none => .error "RuntimeError"   -- as_lexpr(None)
    | some e => .ok (.idx t.name .real [qp, e, iqg, icg], [t.name])
  else
    match t.factors with
    | none => .error "AssertionError"
    | some fs =>
      match tpGo qp entity dof.dim fs iq.syms dof.syms with
      | .error e => .error e
      | .ok (fe, names) =>
        if fe.isEmpty then .error "IndexError"   -- `NaryOp.__init__`: `self.args[0]`
        else .ok (.prod fe, names)

/-- `float_product(factors)` where some factors are plain Python numbers (`arg_factor = 1` for a
    "ones" table): `is_one_lexpr` is `False` for a Python `int`, so such a factor stays and is
    wrapped by `Product.__init__` (`as_lexpr`). -/
def floatProductPy (factors : List MSym) : MSym :=
  match factors.filter (fun f => match f with | .py _ => true | .ex e => !isOne e) with
  | [] => .ex (.litF 1 0 false)
  | [f] => f
  | fs => .ex (.prod (fs.map MSym.toExpr))

/-- Python `a == b` on LNodes expressions (`Symbol.__eq__` compares names only, literals compare
    values, operators compare class and operands). Used for the `dict` keyed by `tuple(A_indices)`. -/
def pyEq : Expr → Expr → Bool
  | .litF r i _, .litF r' i' _ => r == r' && i == i'
  | .litI v, .litI w => v == w
  | .sym n _, .sym m _ => n == m
  | .mi s z g, .mi s' z' g' => pyEqL s s' && z == z' && pyEq g g'
  | .neg a, .neg b => pyEq a b
  | .not a, .not b => pyEq a b
  | .bin o a b, .bin o' a' b' => o == o' && pyEq a a' && pyEq b b'
  | .sum as, .sum bs => pyEqL as bs
  | .prod as, .prod bs => pyEqL as bs
  | .call f _ as, .call g _ bs => f == g && pyEqL as bs
  | .idx a _ ix, .idx b _ jx => a == b && pyEqL ix jx
  | .cond c t f, .cond c' t' f' => pyEq c c' && pyEq t t' && pyEq f f'
  | _, _ => false
where
  pyEqL : List Expr → List Expr → Bool
    | [], [] => true
    | a :: as, b :: bs => pyEq a b && pyEqL as bs
    | _, _ => false

/-- equality of two `tuple(A_indices)` keys -/
def keyEq : List Expr → List Expr → Bool
  | [], [] => true
  | a :: as, b :: bs => pyEq a b && keyEq as bs
  | _, _ => false

/-- `as_statement(list_of_statements)`: a one-element list is unwrapped, otherwise a
    `StatementList`. -/
def asStmt : List Stmt → Stmt
  | [s] => s
  | ss => .block ss

/-- `create_nested_for_loops(indices, body)` followed by the `as_statement` wrapping done by
    `ForRange.__init__` / `Section.__init__`: loops are listed outermost first. -/
def nestStmt : List (String × Nat) → Stmt → Stmt
  | [], s => s
  | (i, n) :: ls, s => .forRange i (.litI 0) (.litI n) [nestStmt ls s]

/-- `list(dict.fromkeys(xs))` -/
def dedup : List String → List String
  | [] => []
  | x :: xs => x :: (dedup xs).filter (· != x)

/-- One `A[multi_index] += rhs` of a block: the key `tuple(A_indices)` and the right-hand side. -/
structure Term where
  aIdx : List Expr
  rhs : Expr
  deriving Repr, Inhabited

/-- Regrouping done by `rhs_expressions[tuple(A_indices)].append(B_rhs)` followed by iteration over
    the dict: keys in first-insertion order, under each key its right-hand sides in insertion order.
    (`fuel` ≥ length makes the recursion structural.) -/
def groupTerms : Nat → List Term → List Term
  | 0, ts => ts
  | _, [] => []
  | fuel + 1, t :: ts =>
    let same := ts.filter (fun u => keyEq u.aIdx t.aIdx)
    let rest := ts.filter (fun u => !keyEq u.aIdx t.aIdx)
    t :: same ++ groupTerms fuel rest

/-- the element tensor symbol -/
def aName : String := "A"

/-- `AssignAdd(A[MultiIndex(list(indices), A_shape)], expression)` -/
def termStmt (aShape : List Nat) (t : Term) : Stmt :=
  .addAssign (.idx aName .scalar [mkMultiIndex (t.aIdx.map .ex) aShape]) t.rhs

/-! ## `IntegralGenerator.generate_block_parts` -/

/-- `get_temp_symbol("fw", key)` -/
def getTempSymbol (st : GenState) (key : String × Nat × Bool) : String × Bool × GenState :=
  match st.cache.find? (fun p => p.1 == key) with
  | some p => (p.2, true, st)
  | none =>
    let name := s!"fw{st.counter}"
    (name, false, { cache := st.cache ++ [(key, name)], counter := st.counter + 1 })

/-- the quadrature weight access `weights[iq.global_index]` -/
def weightExpr (g : GroupDesc) : Expr :=
  let w := if g.custom then "weights_chunk" else s!"weights_{g.rule.id}"
  .idx w .real [(quadIndex g.rule).global]

/-- result of processing one `blockdata` in the first loop of `generate_block_parts` -/
structure BlockOut where
  term : Term
  /-- the `fw` expression: the cached temporary, or `weights[iq]` when `f` is one -/
  fw : Expr
  var : String
  tables : List String
  decl : List Stmt
  bIdx : List MIx
  deriving Inhabited

/-- one entry of `A_indices`: `index.global_index + offset` if `len(blockmap[i]) == 1`, else
    `block_size * index.global_index + offset` -/
def aIndex (a : ArgDesc) (index : MIx) (len : Nat) : Expr :=
  if len == 1 then lAdd index.global (.litI a.table.offset)
  else lAdd (lRMul index.global (.litI a.table.blockSize)) (.litI a.table.offset)

/-- `A_indices` of one block (`for i in range(insert_rank)`: the shortest list decides) -/
def aIndices : List ArgDesc → List MIx → List Nat → List Expr
  | a :: as, ix :: ixs, n :: ns => aIndex a ix n :: aIndices as ixs ns
  | _, _, _ => []

/-- one round of `get_arg_factors` -/
def argFactor (g : GroupDesc) (iq : MIx) (a : ArgDesc) (ix : MIx) : M (MSym × List String) :=
  if a.table.ttype == "zeros" then .error "AssertionError"
  else if a.table.ttype == "ones" then .ok (.py 1, [])
  else match tableAccess a.table g.entityType a.restriction iq ix with
    | .error e => .error e
    | .ok (e, ts) => .ok (.ex e, ts)

/-- `get_arg_factors` -/
def argFactors (g : GroupDesc) (iq : MIx) : List (ArgDesc × MIx) → M (List MSym × List String)
  | [] => .ok ([], [])
  | (a, ix) :: rest =>
    match argFactor g iq a ix with
    | .error e => .error e
    | .ok (f, ts) =>
      match argFactors g iq rest with
      | .error e => .error e
      | .ok (fs, tss) => .ok (f :: fs, ts ++ tss)

/-- the dof loop index names `argument_loop_index(0..3)` -/
def dofNames : List String := ["i", "j", "k", "l"]

/-- `B_indices` of one block: `create_dof_index(table_ref, argument_loop_index(i))` -/
def bIndices : List ArgDesc → List String → List MIx
  | a :: as, nm :: nms => dofIndex a.table nm :: bIndices as nms
  | _, _ => []

/-- `fw`, its declaration (if new) and the new cache: `fw_rhs = float_product([f, weight])`,
    cached as a temporary iff it is a `Product`. -/
def fwOf (g : GroupDesc) (st : GenState) (b : BlockData) : Expr × List Stmt × GenState :=
  let fwRhs := floatProduct [b.f, weightExpr g]
  match fwRhs with
  | .prod _ =>
    let (name, defined, st') := getTempSymbol st (g.rule.id, b.factorIndex, b.allFactorsPiecewise)
    (.sym name .scalar, if defined then [] else [.vdecl name .scalar fwRhs], st')
  | e => (e, [], st)

/-- `var = fw if isinstance(fw, L.Symbol) else fw.array` -/
def varOf : Expr → M String
  | .sym n _ => .ok n
  | .idx a _ _ => .ok a
  | _ => .error "AttributeError"

/-- the body of `for blockdata in blocklist:` -/
def genOneBlock (g : GroupDesc) (st : GenState) (b : BlockData) : M (BlockOut × GenState) :=
  let rank := g.bmLens.length
  let iq := quadIndex g.rule
  let diag := g.diagonal && rank == 2
  -- `ma_data[i]` / `argument_loop_index(i)` for `i in range(block_rank)`
  if b.args.length < rank || dofNames.length < rank then .error "IndexError"
  else
    let args := b.args.take rank
    let bIdx0 := bIndices args dofNames
    let bIdx1 : M (List MIx) :=
      if diag then
        (if g.aShape.length != 1 then .error "AssertionError"
         else match bIdx0 with
          | b0 :: _ => .ok [b0, b0]
          | [] => .error "IndexError")
      else .ok bIdx0
    match bIdx1 with
    | .error e => .error e
    | .ok bIdx =>
      if b.ttypes.contains "zeros" then .error "RuntimeError"
      else if b.nFactorComps > 1 then .error "RuntimeError"
      else if b.nFactorComps == 0 then .error "IndexError"
      else
        let (fw, decl, st') := fwOf g st b
        match varOf fw with
        | .error e => .error e
        | .ok var =>
          if b.transposed then .error "AssertionError"
          else match argFactors g iq (args.zip bIdx) with
            | .error e => .error e
            | .ok (facs, tables) =>
              let bIdx' := if diag then bIdx.take 1 else bIdx
              let rhs := (floatProductPy (.ex fw :: facs)).toExpr
              .ok ({ term := { aIdx := aIndices args bIdx' g.bmLens, rhs := rhs }, fw := fw, var := var,
                     tables := tables, decl := decl, bIdx := bIdx' }, st')

/-- the loops of `create_nested_for_loops(B_indices[::-1], body)`, outermost first -/
def loopsOf (bIdx : List MIx) : List (String × Nat) :=
  (bIdx.reverse.map (fun m => m.syms.zip m.sizes)).flatten

/-- all blocks of a group, threading the `fw` cache -/
def genBlocks (g : GroupDesc) : GenState → List BlockData → M (List BlockOut × GenState)
  | st, [] => .ok ([], st)
  | st, b :: bs => do
    let (o, st1) ← genOneBlock g st b
    let (os, st2) ← genBlocks g st1 bs
    .ok (o :: os, st2)

/-- the `fw` expression of every block of a group (what `genBlocks` puts into `BlockOut.fw`) -/
def fwExprs (g : GroupDesc) : GenState → List BlockData → List Expr
  | _, [] => []
  | st, b :: bs => (fwOf g st b).1 :: fwExprs g (fwOf g st b).2.2 bs

/-- the `fw` cache after all blocks of a group -/
def fwState (g : GroupDesc) : GenState → List BlockData → GenState
  | st, [] => st
  | st, b :: bs => fwState g (fwOf g st b).2.2 bs

/-- the `fw` expressions of all groups of a rule (cache threaded through the groups) -/
def allFw : GenState → List GroupDesc → List Expr
  | _, [] => []
  | st, g :: gs => fwExprs g st g.blocks ++ allFw (fwState g st g.blocks) gs

/-- all blocks of all groups of a rule with their `fw` expressions (cache threaded) -/
def allBlocks : GenState → List GroupDesc → List (GroupDesc × BlockData × Expr)
  | _, [] => []
  | st, g :: gs =>
    (g.blocks.zip (fwExprs g st g.blocks)).map (fun p => (g, p.1, p.2)) ++
      allBlocks (fwState g st g.blocks) gs

/-- the emitted terms of a group, in the order of the `AssignAdd` statements -/
def emittedTerms (outs : List BlockOut) : List Term :=
  let ts := outs.map (·.term)
  groupTerms ts.length ts

/-- `IntegralGenerator.generate_block_parts(quadrature_rule, domain, blockmap, blocklist)`:
    `(quadparts, intermediates)` and the updated cache. -/
def genBlockParts (g : GroupDesc) (st : GenState) : M (List Stmt × List Stmt × GenState) := do
  let (outs, st') ← genBlocks g st g.blocks
  match outs.getLast? with
  | none => .error "UnboundLocalError"   -- empty blocklist: `B_indices` is never bound
  | some last =>
    let body := (emittedTerms outs).map (termStmt g.aShape)
    let nest := nestStmt (loopsOf last.bIdx) (asStmt body)
    let input := dedup (outs.map (·.var) ++ (outs.map (·.tables)).flatten)
    let annot := if last.bIdx.length > 1 then ["licm"] else []
    .ok ([.sect "Tensor Computation" [] [nest] input [aName] annot],
         (outs.map (·.decl)).flatten, st')

/-! ## `IntegralGenerator.generate_quadrature_loop` (before `optimize`) -/

/-- names declared by a list of `VariableDecl`s -/
def declNames : List Stmt → List String
  | [] => []
  | .vdecl n _ _ :: ss => n :: declNames ss
  | _ :: ss => declNames ss

/-- `declarations += [VariableDecl(fw.symbol, 0)]` -/
def fwDecls : List Stmt → List Stmt
  | [] => []
  | .vdecl n dt _ :: ss => .vdecl n dt (.litI 0) :: fwDecls ss
  | _ :: ss => fwDecls ss

/-- `intermediates_0 += [Assign(fw.symbol, fw.value)]` -/
def fwAssigns : List Stmt → List Stmt
  | [] => []
  | .vdecl n dt v :: ss => .assign (.sym n dt) v :: fwAssigns ss
  | _ :: ss => fwAssigns ss

/-- outputs of the definition sections (`inputs += definition.output`) -/
def sectOutputs : List Stmt → List String
  | [] => []
  | .sect _ _ _ _ out _ :: ss => out ++ sectOutputs ss
  | _ :: ss => sectOutputs ss

/-- The code handed to `optimize` and the loop `create_nested_for_loops([iq], code)` around it.
    `definitions`, `intermediates0` are the two results of `generate_varying_partition`;
    `tensorComp`, `fw` the two results of `generate_dofblock_partition`. -/
def quadLoopCode (definitions intermediates0 tensorComp fw : List Stmt) : List Stmt :=
  let out := declNames fw
  definitions ++
    [.sect "Intermediates" (fwDecls fw) (intermediates0 ++ fwAssigns fw) (sectOutputs definitions)
      -- `Section.__init__` appends the declared symbols not yet in `output`
      (out ++ (declNames (fwDecls fw)).filter (fun n => !out.contains n)) []] ++
    tensorComp

def genQuadLoop (rule : QRule) (code : List Stmt) : Stmt :=
  let iq := quadIndex rule
  nestStmt (iq.syms.zip iq.sizes) (asStmt code)

/-- all groups of one rule (`generate_dofblock_partition` after the grouping by scalar blockmap) -/
def genGroups : GenState → List GroupDesc → M (List Stmt × List Stmt × GenState)
  | st, [] => .ok ([], [], st)
  | st, g :: gs => do
    let (q, i, st1) ← genBlockParts g st
    let (qs, is, st2) ← genGroups st1 gs
    .ok (q ++ qs, i ++ is, st2)

/-! ## `ExpressionGenerator.generate_block_parts` -/

structure ExprArg where
  table : TableRef
  restriction : Restr
  deriving Repr, Inhabited

structure ExprBlockDesc where
  blockmap : List (List Int)
  ttypes : List String
  args : List ExprArg
  entityType : String
  transposed : Bool
  /-- per `(factor index, component index)`: what `get_var` returns, and the component -/
  fcs : List (Expr × Int)
  numPoints : Nat
  /-- `ufl.product(ir.expression.shape)` -/
  components : Nat
  tensorShape : List Nat
  deriving Repr, Inhabited

/-- `for a, b in pairwise(bm): if b - a != bm[1] - bm[0]` -/
def unevenlySpaced : List Int → Bool
  | a :: b :: rest =>
    let d := b - a
    let rec go : Int → List Int → Bool
      | _, [] => false
      | p, c :: cs => (c - p != d) || go c cs
    go a (b :: rest)
  | _ => false

/-- `symbols.element_table(tabledata, entity_type, restriction)[index]` -/
def exprTableAccess (t : TableRef) (entityType : String) (r : Restr) (index : MSym) : M Expr :=
  let entity : Option Expr := if t.isUniform then some (.litI 0) else entityExpr entityType r
  let iq : Expr := if t.isPiecewise then .litI 0 else isym "iq"
  match entity with
  | none => .error "RuntimeError"
  | some e => .ok (.idx t.name .real [qpExpr t r, e, iq, index.toExpr])

def exprArgFactors (d : ExprBlockDesc) (indices : List MSym) : Nat → Nat → M (List Expr)
  | _, 0 => .ok []
  | i, n + 1 =>
    match d.args[i]?, indices[i]? with
    | some a, some ix =>
      if a.table.ttype == "zeros" then .error "AssertionError"
      else do
        let fac ← if a.table.ttype == "ones" then (pure (.litF 1 0 false) : M Expr)
                  else exprTableAccess a.table d.entityType a.restriction ix
        let rest ← exprArgFactors d indices (i + 1) n
        .ok (fac :: rest)
    | _, _ => .error "IndexError"

/-- `ExpressionGenerator.generate_block_parts(blockmap, blockdata)`: the `quadparts` (each already
    passed through `as_statement`, as the enclosing `ForRange` does); `preparts` is always empty. -/
def genExprBlock (d : ExprBlockDesc) : M (List Stmt) := do
  let rank := d.blockmap.length
  if d.ttypes.contains "zeros" then throw "RuntimeError"
  let mut names : List String := []
  for i in List.range rank do
    names := names ++ [← argLoopName i]
  if d.transposed then throw "AssertionError"
  let aShape := [d.numPoints, d.components] ++ d.tensorShape
  if d.blockmap.any unevenlySpaced then
    -- `A_indices = tuple([iq] + A_indices)` concatenates a list and a tuple
    if d.blockmap.any (·.isEmpty) then return [] else throw "TypeError"
  else
    let facs ← exprArgFactors d (names.map (fun n => .ex (isym n))) 0 rank
    let mut aIdx : List Expr := []
    for (bm, n) in d.blockmap.zip names do
      match bm with
      | [] => throw "IndexError"
      | [off] => aIdx := aIdx ++ [lAdd (isym n) (.litI off)]
      | off :: b1 :: _ => aIdx := aIdx ++ [lAdd (lRMul (isym n) (.litI (b1 - off))) (.litI off)]
    let body : List Stmt := d.fcs.map (fun (f, comp) =>
      .addAssign (.idx aName .scalar
          [mkMultiIndex ([.ex (isym "iq"), .py comp] ++ aIdx.map .ex) aShape])
        (floatProduct (f :: facs)))
    match d.blockmap.zip names with
    | [] => return [asStmt body]
    | [(bm, n)] => return [.forRange n (.litI 0) (.litI bm.length) body]
    | _ => throw "AssertionError"   -- `ForRange(..., body=<ForRange>)`: `assert isinstance(body, list)`

end Ffcx.Codegen
