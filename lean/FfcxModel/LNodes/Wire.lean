/-
Reading/writing LNodes trees as s-expressions (Appendix C of DESIGN.md).
Not used in any theorem: this is the (trusted) glue of the line protocol.
-/
import FfcxModel.Base.Sexp
import FfcxModel.LNodes.Syntax

namespace Ffcx.LNodes
open Ffcx

def DType.ofString : String → Except String DType
  | "real" => .ok .real | "scalar" => .ok .scalar | "int" => .ok .int
  | "bool" => .ok .bool | "none" => .ok .none
  | s => .error s!"bad dtype {s}"

def DType.toString : DType → String
  | .real => "real" | .scalar => "scalar" | .int => "int" | .bool => "bool" | .none => "none"

def BinOp.ofString : String → Option BinOp
  | "add" => some .add | "sub" => some .sub | "mul" => some .mul | "div" => some .div
  | "eq" => some .eq | "ne" => some .ne | "lt" => some .lt | "gt" => some .gt
  | "le" => some .le | "ge" => some .ge | "and" => some .and | "or" => some .or
  | _ => none

def BinOp.toString : BinOp → String
  | .add => "add" | .sub => "sub" | .mul => "mul" | .div => "div"
  | .eq => "eq" | .ne => "ne" | .lt => "lt" | .gt => "gt"
  | .le => "le" | .ge => "ge" | .and => "and" | .or => "or"

partial def readExpr (s : Sexp) : Except String Expr := do
  match s with
  | .list (.atom "lf" :: [v]) => return .litF (← v.asRat) 0 false
  | .list (.atom "lc" :: [re, im]) => return .litF (← re.asRat) (← im.asRat) true
  | .list (.atom "li" :: [v]) => return .litI (← v.asInt)
  | .list (.atom "sym" :: [n, dt]) => return .sym (← n.asAtom) (← DType.ofString (← dt.asAtom))
  | .list (.atom "mi" :: [syms, sizes, gi]) =>
    return .mi (← (← syms.asList).mapM readExpr) (← (← sizes.asList).mapM Sexp.asNat) (← readExpr gi)
  | .list (.atom "neg" :: [a]) => return .neg (← readExpr a)
  | .list (.atom "not" :: [a]) => return .not (← readExpr a)
  | .list (.atom "sum" :: args) => return .sum (← args.mapM readExpr)
  | .list (.atom "prod" :: args) => return .prod (← args.mapM readExpr)
  | .list (.atom "call" :: f :: dt :: args) =>
    return .call (← f.asAtom) (← DType.ofString (← dt.asAtom)) (← args.mapM readExpr)
  | .list (.atom "idx" :: a :: dt :: ix) =>
    return .idx (← a.asAtom) (← DType.ofString (← dt.asAtom)) (← ix.mapM readExpr)
  | .list (.atom "cond" :: [c, t, f]) => return .cond (← readExpr c) (← readExpr t) (← readExpr f)
  | .list (.atom op :: [a, b]) =>
    match BinOp.ofString op with
    | some o => return .bin o (← readExpr a) (← readExpr b)
    | none => throw s!"bad expr head {op}"
  | _ => throw s!"bad expr {s.toStr.take 80}"

partial def readStmt (s : Sexp) : Except String Stmt := do
  match s with
  | .list (.atom "assign" :: [l, r]) => return .assign (← readExpr l) (← readExpr r)
  | .list (.atom "addassign" :: [l, r]) => return .addAssign (← readExpr l) (← readExpr r)
  | .list (.atom "vdecl" :: [n, dt, v]) =>
    return .vdecl (← n.asAtom) (← DType.ofString (← dt.asAtom)) (← readExpr v)
  | .list (.atom "adecl" :: [n, dt, sizes, c, vals]) =>
    let vs ← match vals with
      | .atom "none" => pure none
      | .list xs => pure (some (← xs.mapM readExpr))
      | _ => throw "bad adecl values"
    return .adecl (← n.asAtom) (← DType.ofString (← dt.asAtom))
      (← (← sizes.asList).mapM Sexp.asNat) (← c.asBool) vs
  | .list (.atom "for" :: i :: lo :: hi :: body) =>
    return .forRange (← i.asAtom) (← readExpr lo) (← readExpr hi) (← body.mapM readStmt)
  | .list (.atom "comment" :: [t]) => return .comment (← t.asAtom)
  | .list (.atom "block" :: ss) => return .block (← ss.mapM readStmt)
  | .list (.atom "section" :: [n, decls, stmts, inp, out, ann]) =>
    return .sect (← n.asAtom) (← (← decls.asList).mapM readStmt) (← (← stmts.asList).mapM readStmt)
      (← (← inp.asList).mapM Sexp.asAtom) (← (← out.asList).mapM Sexp.asAtom)
      (← (← ann.asList).mapM Sexp.asAtom)
  | _ => throw s!"bad stmt {s.toStr.take 80}"

partial def writeExpr : Expr → Sexp
  | .litF re _ false => .list [.atom "lf", Sexp.ofRat re]
  | .litF re im true => .list [.atom "lc", Sexp.ofRat re, Sexp.ofRat im]
  | .litI v => .list [.atom "li", Sexp.ofInt v]
  | .sym n dt => .list [.atom "sym", .atom n, .atom dt.toString]
  | .mi syms sizes gi => .list [.atom "mi", .list (syms.map writeExpr),
      .list (sizes.map Sexp.ofNat), writeExpr gi]
  | .neg a => .list [.atom "neg", writeExpr a]
  | .not a => .list [.atom "not", writeExpr a]
  | .bin op a b => .list [.atom op.toString, writeExpr a, writeExpr b]
  | .sum args => .list (.atom "sum" :: args.map writeExpr)
  | .prod args => .list (.atom "prod" :: args.map writeExpr)
  | .call f dt args => .list (.atom "call" :: .atom f :: .atom dt.toString :: args.map writeExpr)
  | .idx a dt ix => .list (.atom "idx" :: .atom a :: .atom dt.toString :: ix.map writeExpr)
  | .cond c t f => .list [.atom "cond", writeExpr c, writeExpr t, writeExpr f]

partial def writeStmt : Stmt → Sexp
  | .assign l r => .list [.atom "assign", writeExpr l, writeExpr r]
  | .addAssign l r => .list [.atom "addassign", writeExpr l, writeExpr r]
  | .vdecl n dt v => .list [.atom "vdecl", .atom n, .atom dt.toString, writeExpr v]
  | .adecl n dt sizes c vals => .list [.atom "adecl", .atom n, .atom dt.toString,
      .list (sizes.map Sexp.ofNat), Sexp.ofBool c,
      match vals with | none => .atom "none" | some vs => .list (vs.map writeExpr)]
  | .forRange i lo hi body => .list (.atom "for" :: .atom i :: writeExpr lo :: writeExpr hi ::
      body.map writeStmt)
  | .comment t => .list [.atom "comment", .atom t]
  | .block ss => .list (.atom "block" :: ss.map writeStmt)
  | .sect n decls stmts inp out ann => .list [.atom "section", .atom n,
      .list (decls.map writeStmt), .list (stmts.map writeStmt),
      .list (inp.map .atom), .list (out.map .atom), .list (ann.map .atom)]

end Ffcx.LNodes
