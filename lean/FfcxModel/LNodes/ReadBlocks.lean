/-
C05, kernel side of `enabled_coefficients`: the read set of `w` (computed by `execReads`) against the
coefficient BLOCKS of the packing contract (`Ffcx.Layout.coeffOffsets` / `blockSizes`, the model of
`coefficient_offsets` in `_compute_integral_ir`) and the `enabled_coefficients` flags of the IntegralIR.

  coeffBlocks width dims            [(offset_k, width·dim_k)]  — the block of reduced coefficient k in `w`
  disabledBlocks width dims enabled the blocks whose flag is false            (D = ⋃ of these)
  readsAvoidB                       decidable: the run succeeds, every subscript of `w` is evaluable and
                                    no read of `w` hits a disabled block; flags and blocks have equal length
  blockOf / readsInBlocksB          per-read block attribution: the coefficient a read index belongs to

Theorems: `Ffcx.LNodes.disabled_irrelevant`, `reads_in_blocks` (FfcxProofs/C05.lean).  CORE LEAN ONLY.
-/
import FfcxModel.IR.Layout
import FfcxModel.LNodes.Reads
import FfcxModel.LNodes.ReadOnly

namespace Ffcx.LNodes
open Ffcx.Layout

/-- index `i` of `w` lies in `[off, off + size)` -/
def inBlock (off size : Nat) (i : Int) : Bool :=
  decide (0 ≤ i) && decide (off ≤ i.toNat) && decide (i.toNat < off + size)

/-- the blocks `(offset_k, width·dim_k)` of the reduced coefficients in `w`, in contract order -/
def coeffBlocks (width : Nat) (dims : List Nat) : List (Nat × Nat) :=
  (coeffOffsets width dims).zip (blockSizes width dims)

/-- the blocks of the coefficients whose `enabled_coefficients` flag is false -/
def disabledBlocks (width : Nat) (dims : List Nat) (enabled : List Bool) : List (Nat × Nat) :=
  ((coeffBlocks width dims).zip enabled).filterMap (fun p => if p.2 then none else some p.1)

/-- `D = ⋃ disabled blocks`, as a predicate on positions of `w` -/
def InDisabled (width : Nat) (dims : List Nat) (enabled : List Bool) (k : Nat) : Prop :=
  ∃ b ∈ disabledBlocks width dims enabled, b.1 ≤ k ∧ k < b.1 + b.2

/-- every recorded read is evaluable and lies outside all the given blocks -/
def avoidsB (blocks : List (Nat × Nat)) (rs : List (Option Int)) : Bool :=
  rs.all fun r => match r with
    | none => false
    | some i => blocks.all (fun b => !inBlock b.1 b.2 i)

section
variable {R : Type} [Add R] [Sub R] [Mul R] [Div R] [Neg R] [IntCast R]

/-- **the flag obligation**: running kernel `k` from `σ` succeeds, and no read of `w` touches the block of
a coefficient flagged disabled (one flag per coefficient block). -/
def readsAvoidB (x : Extra R) (k : Stmt) (σ : St R) (width : Nat) (dims : List Nat)
    (enabled : List Bool) : Bool :=
  decide (enabled.length = dims.length) &&
    match execReads x "w" k σ with
    | .ok (_, rs) => avoidsB (disabledBlocks width dims enabled) rs
    | .error _ => false

/-- index of the first block containing `i` -/
def blockOf (blocks : List (Nat × Nat)) (i : Int) : Option Nat :=
  blocks.findIdx? (fun b => inBlock b.1 b.2 i)

/-- every recorded read is evaluable and lies inside `[0, total)` -/
def inRangeB (total : Nat) (rs : List (Option Int)) : Bool :=
  rs.all fun r => match r with
    | none => false
    | some i => decide (0 ≤ i) && decide (i.toNat < total)

/-- **per-read block attribution, decidable part**: the run succeeds and every read of `w` is an evaluable
index inside `[0, width·Σdim)` (theorem `reads_in_blocks`: then it lies in the block of exactly one
coefficient, the one `blockOf` returns). -/
def readsInBlocksB (x : Extra R) (k : Stmt) (σ : St R) (width : Nat) (dims : List Nat) : Bool :=
  match execReads x "w" k σ with
  | .ok (_, rs) => inRangeB (coeffTotal width dims) rs
  | .error _ => false

end

end Ffcx.LNodes
