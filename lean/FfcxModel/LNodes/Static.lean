/-
Static predicates on kernels (decidable, run by the driver on every generated kernel).
Their soundness theorems are in FfcxProofs (C07, C08, C05, C03).
-/
import FfcxModel.LNodes.Syntax

namespace Ffcx.LNodes

mutual
/-- the name `n` occurs in `e` (as a symbol or as an array) -/
def mentionsE (n : String) : Expr → Bool
  | .litF .. | .litI .. => false
  | .sym m _ => m == n
  | .mi syms _ gi => mentionsL n syms || mentionsE n gi
  | .neg a | .not a => mentionsE n a
  | .bin _ a b => mentionsE n a || mentionsE n b
  | .sum args | .prod args | .call _ _ args => mentionsL n args
  | .idx arr _ ix => arr == n || mentionsL n ix
  | .cond c t f => mentionsE n c || mentionsE n t || mentionsE n f
def mentionsL (n : String) : List Expr → Bool
  | [] => false
  | e :: es => mentionsE n e || mentionsL n es
end

mutual
/-- the name `n` occurs anywhere in the statement (read, written, declared, or as loop index) -/
def mentionsS (n : String) : Stmt → Bool
  | .assign l r | .addAssign l r => mentionsE n l || mentionsE n r
  | .vdecl m _ v => m == n || mentionsE n v
  | .adecl m _ _ _ vals => m == n || mentionsL n (vals.getD [])
  | .forRange i lo hi body => i == n || mentionsE n lo || mentionsE n hi || mentionsSL n body
  | .comment _ => false
  | .block ss => mentionsSL n ss
  | .sect _ decls stmts _ _ _ => mentionsSL n decls || mentionsSL n stmts
def mentionsSL (n : String) : List Stmt → Bool
  | [] => false
  | s :: ss => mentionsS n s || mentionsSL n ss
end

mutual
/-- `A` is only ever the target of `A[…] += rhs` with `A` occurring neither in the subscripts
    nor in `rhs`; it is never read, assigned, declared, or used as a loop index. -/
def onlyAccum (A : String) : Stmt → Bool
  | .assign l r => !mentionsE A l && !mentionsE A r
  | .addAssign (.idx arr dt ix) r =>
    if arr == A then dt != .int && !mentionsL A ix && !mentionsE A r
    else !mentionsL A ix && !mentionsE A r
  | .addAssign l r => !mentionsE A l && !mentionsE A r
  | .vdecl m _ v => m != A && !mentionsE A v
  | .adecl m _ _ _ vals => m != A && !mentionsL A (vals.getD [])
  | .forRange i lo hi body => i != A && !mentionsE A lo && !mentionsE A hi && onlyAccumL A body
  | .comment _ => true
  | .block ss => onlyAccumL A ss
  | .sect _ decls stmts _ _ _ => onlyAccumL A decls && onlyAccumL A stmts
def onlyAccumL (A : String) : List Stmt → Bool
  | [] => true
  | s :: ss => onlyAccum A s && onlyAccumL A ss
end

mutual
/-- the array / scalar `n` is never the target of an assignment and never (re)declared -/
def neverWritten (n : String) : Stmt → Bool
  | .assign (.idx arr _ _) _ | .addAssign (.idx arr _ _) _ => arr != n
  | .assign (.sym m _) _ | .addAssign (.sym m _) _ => m != n
  | .assign _ _ | .addAssign _ _ => true   -- not an lvalue: `exec` rejects it
  | .vdecl m _ _ => m != n
  | .adecl m _ _ _ _ => m != n
  | .forRange i _ _ body => i != n && neverWrittenL n body
  | .comment _ => true
  | .block ss => neverWrittenL n ss
  | .sect _ decls stmts _ _ _ => neverWrittenL n decls && neverWrittenL n stmts
def neverWrittenL (n : String) : List Stmt → Bool
  | [] => true
  | s :: ss => neverWritten n s && neverWrittenL n ss
end

/-- The UFCx kernel parameters. -/
def kernelInputs : List String :=
  ["w", "c", "coordinate_dofs", "entity_local_index", "quadrature_permutation"]

/-- C07's static certificate: `A` is accumulate-only and no input array is ever written. -/
def pureKernel (s : Stmt) : Bool :=
  onlyAccum "A" s && kernelInputs.all (fun n => neverWritten n s)

end Ffcx.LNodes
