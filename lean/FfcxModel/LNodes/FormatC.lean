/-
String-exact transcription of `ffcx/codegeneration/C/formatter.py` (every `@__call__.register`
handler), plus the number printing both formatters rely on.

Numbers.  The AST carries exact rationals (`Expr.litF re im isComplex`, `Expr.litI v`); Python's
float formatting is modelled on exact rationals:
* (`fmtFloat16 x` = `f"{x:.16}"`, the spelling `_format_number` used before /repo commit 74ce3e1;
  kept as a model of Python's formatting only, no formatter handler uses it any more: float `__format__` without a type character and precision 16:
  correctly rounded — round-half-even on the exact value — to 16 significant digits, trailing
  zeros stripped, exponent notation iff `decpt ≤ -4 ∨ decpt > 15` where the value is
  `0.d₁d₂… · 10^decpt` AFTER rounding, i.e. iff the decimal exponent is `< -4` or `≥ 15`; at least one
  digit after the point in fixed notation; at least two exponent digits);
* `reprFloat x`   = `repr(x)` = `str(x)` (shortest digit string that reads back to `x` under
  `round64`, closest to `x` among those; exponent notation iff `decpt ≤ -4 ∨ decpt > 16`);
* `strComplex`    = `str(complex)`; `fmtInt` = `str(int)`.
`round64 : Rat → Rat` rounds to the nearest binary64 (ties to even).  Subnormals are handled
(the grid below 2^-1022 is 2^-1074); OVERFLOW IS NOT: the exponent range is unbounded above, so
values ≥ 2^1024 round as if binary64 had larger exponents.  Negative zero, NaN and infinities have
no rational and are outside the model (export.py refuses non-finite literals; `-0.0` is exported as 0).

Expressions are formatted into `Piece`s (tokens and white space) so that the text
(`render`) and the token stream the formatter *intends* (`toks`) come from one definition; the
theorem `no_token_fusion` is about whether `lexC (render ps) = toks ps`.
Statements are formatted to text directly (`fmtStmtC`), because the formatter post-processes the
text of nested statements (`replace("\n", "\n  ")`, `split("\n")`); `tokStmtC` is the intended
token stream of a statement.
-/
import FfcxModel.LNodes.Syntax
import FfcxModel.LNodes.Lex
import FfcxModel.Generated.Precedence
import FfcxModel.LNodes.Dtypes

namespace Ffcx.LNodes.Fmt
open Ffcx.LNodes

/-! ## exact decimal / binary arithmetic -/

/-- `10^n` (through `Nat.pow`, which the compiler and the kernel evaluate with GMP) -/
def p10 (n : Nat) : Rat := ((10 ^ n : Nat) : Rat)

/-- `2^n` -/
def p2 (n : Nat) : Rat := ((2 ^ n : Nat) : Rat)

/-- `10^e` for an integer exponent -/
def p10i (e : Int) : Rat := if 0 ≤ e then p10 e.toNat else 1 / p10 (-e).toNat

/-- `2^e` for an integer exponent -/
def p2i (e : Int) : Rat := if 0 ≤ e then p2 e.toNat else 1 / p2 (-e).toNat

/-- round to nearest integer, ties to even (`q ≥ 0` in all uses) -/
def rne (q : Rat) : Int :=
  let f := q.floor
  let r := q - (f : Rat)
  if r < 1 / 2 then f else if 1 / 2 < r then f + 1 else if f % 2 = 0 then f else f + 1

/-- least `k' ≥ k` with `x < 10^(k'+1)`; `pk = 10^(k+1)` -/
def expUp (x : Rat) : Nat → Nat → Rat → Nat
  | 0, k, _ => k
  | f + 1, k, pk => if x < pk then k else expUp x f (k + 1) (10 * pk)

/-- least `j' ≥ j` with `1 ≤ x·10^j'`; `xj = x·10^j` -/
def expDown (x : Rat) : Nat → Nat → Rat → Nat
  | 0, j, _ => j
  | f + 1, j, xj => if 1 ≤ xj then j else expDown x f (j + 1) (10 * xj)

/-- decimal exponent of `x > 0`: the `e` with `10^e ≤ x < 10^(e+1)` -/
def decExp (x : Rat) : Int :=
  if 1 ≤ x then ((expUp x x.num.toNat 0 10 : Nat) : Int)
  else - ((expDown x x.den 1 (10 * x) : Nat) : Int)

/-- binary exponent of `x > 0`: the `e` with `2^e ≤ x < 2^(e+1)` -/
def binExp (x : Rat) : Int :=
  let e0 : Int := (x.num.toNat.log2 : Int) - (x.den.log2 : Int)
  if p2i e0 ≤ x then e0 else e0 - 1

/-- A decimal: value `m · 10^e`. -/
structure Dec where
  m : Nat
  e : Int
  deriving Repr, DecidableEq

def Dec.val (d : Dec) : Rat := (d.m : Rat) * p10i d.e

/-- `x > 0` correctly rounded (half-even) to `p ≥ 1` significant decimal digits:
    the mantissa has exactly `p` digits. -/
def roundSig (p : Nat) (x : Rat) : Dec :=
  let e := decExp x
  let q := x * p10i ((p : Int) - 1 - e)
  let m := (rne q).toNat
  if m = 10 ^ p then ⟨10 ^ (p - 1), e - ((p : Int) - 1) + 1⟩ else ⟨m, e - ((p : Int) - 1)⟩

/-- value of the literal the C formatter prints for `x` (sign handled separately) -/
def litValue (p : Nat) (x : Rat) : Rat :=
  if x = 0 then 0 else if x < 0 then - (roundSig p (-x)).val else (roundSig p x).val

/-- round to nearest binary64, ties to even; subnormal grid below 2^-1022; no overflow -/
def round64 (x : Rat) : Rat :=
  if x = 0 then 0 else
  let a := if x < 0 then -x else x
  let e := binExp a
  let e' := if e < -1022 then -1022 else e
  let q := a / p2i (e' - 52)
  let r := ((rne q : Int) : Rat) * p2i (e' - 52)
  if x < 0 then -r else r

/-- unit in the last place of binary64 at `x ≠ 0` (spacing of the binade containing `|x|`) -/
def ulp64 (x : Rat) : Rat :=
  let a := if x < 0 then -x else x
  let e := binExp a
  p2i ((if e < -1022 then -1022 else e) - 52)

/-! ## digit strings -/

def natDigits (n : Nat) : List Char := Nat.toDigits 10 n

def stripZeros (ds : List Char) : List Char :=
  match (ds.reverse.dropWhile (· == '0')).reverse with
  | [] => ['0']
  | r => r

/-- digits `d₁…dₙ` (no trailing zeros) and `decpt` with value `0.d₁…dₙ · 10^decpt`, for a `Dec`
    whose mantissa has exactly `p` digits -/
def digitsOf (p : Nat) (d : Dec) : List Char × Int := (stripZeros (natDigits d.m), d.e + p)

def zeros (n : Nat) : List Char := List.replicate n '0'

/-- exponent suffix `e+XX` / `e-XX`, at least two digits -/
def expSuffix (e : Int) : List Char :=
  let a := natDigits e.natAbs
  let a := if a.length < 2 then '0' :: a else a
  'e' :: (if e < 0 then '-' else '+') :: a

/-- `format_float_short` layout. `maxFixed`: exponent notation iff `decpt ≤ -4 ∨ decpt > maxFixed`;
    `dot0`: add `.0` to an integral fixed-notation result (`Py_DTSF_ADD_DOT_0`). -/
def layout (maxFixed : Int) (dot0 : Bool) (ds : List Char) (decpt : Int) : List Char :=
  if decpt ≤ -4 ∨ decpt > maxFixed then
    match ds with
    | [] => []
    | [d] => d :: expSuffix (decpt - 1)
    | d :: rest => d :: '.' :: rest ++ expSuffix (decpt - 1)
  else if decpt ≤ 0 then
    '0' :: '.' :: zeros (-decpt).toNat ++ ds
  else if decpt.toNat ≥ ds.length then
    ds ++ zeros (decpt.toNat - ds.length) ++ (if dot0 then ['.', '0'] else [])
  else
    ds.take decpt.toNat ++ '.' :: ds.drop decpt.toNat

/-- `f"{x:.16}"` for `x > 0` -/
def fmtPos16 (x : Rat) : List Char :=
  let (ds, dp) := digitsOf 16 (roundSig 16 x)
  layout 15 true ds dp

/-- `f"{x:.16}"` of a Python float with exact value `x` -/
def fmtFloat16 (x : Rat) : List Char :=
  if x = 0 then ['0', '.', '0']
  else if x < 0 then '-' :: fmtPos16 (-x) else fmtPos16 x

/-- the two `n`-digit decimals around `x > 0`, closest first (ties: even mantissa first) -/
def candidates (n : Nat) (x : Rat) (e : Int) : List Dec :=
  let sc := (n : Int) - 1 - e
  let q := x * p10i sc
  let lo := q.floor.toNat
  let hi := lo + 1
  let dlo : Dec := ⟨lo, -sc⟩
  let dhi : Dec := ⟨hi, -sc⟩
  let r := q - (lo : Rat)
  if r < 1 / 2 then [dlo, dhi] else if 1 / 2 < r then [dhi, dlo]
  else if lo % 2 = 0 then [dlo, dhi] else [dhi, dlo]

/-- shortest decimal that reads back to `x` (a binary64 value `> 0`), closest to `x`;
    searched for `n = 1 … 17` digits; the 17-digit correctly rounded value is the fallback -/
def shortestFrom (x : Rat) (e : Int) : Nat → Nat → Dec × Nat
  | 0, _ => (roundSig 17 x, 17)
  | fuel + 1, n =>
    match (candidates n x e).filter (fun d => d.m ≠ 0 ∧ round64 d.val = x) with
    | d :: _ => (d, n)
    | [] => shortestFrom x e fuel (n + 1)

/-- normalise a mantissa that became `10^n` (e.g. 9.5 → "10" with 1 digit): digits and decpt -/
def decDigits (d : Dec) : List Char × Int :=
  let ds := natDigits d.m
  (stripZeros ds, d.e + ds.length)

/-- `repr(x)` for `x > 0`; `dot0 = false` gives the `'r'` format used inside `complex.__repr__` -/
def reprPos (dot0 : Bool) (x : Rat) : List Char :=
  let (d, _) := shortestFrom x (decExp x) 17 1
  let (ds, dp) := decDigits d
  layout 16 dot0 ds dp

/-- `repr(x)` = `str(x)` of a Python float (also `str(numpy.float64)`) -/
def reprFloat (x : Rat) : List Char :=
  if x = 0 then ['0', '.', '0']
  else if x < 0 then '-' :: reprPos true (-x) else reprPos true x

/-- value of the decimal `repr(x)` prints (the literal the C and numba formatters emit) -/
def litValueR (x : Rat) : Rat :=
  if x = 0 then 0
  else if x < 0 then - (shortestFrom (-x) (decExp (-x)) 17 1).1.val
  else (shortestFrom x (decExp x) 17 1).1.val

/-- `'r'` format without `.0` (parts of a complex) -/
def reprPart (x : Rat) : List Char :=
  if x = 0 then ['0']
  else if x < 0 then '-' :: reprPos false (-x) else reprPos false x

/-- `str(int)` -/
def fmtInt (v : Int) : List Char :=
  if v < 0 then '-' :: natDigits v.natAbs else natDigits v.toNat

/-- `str(complex(re, im))` (finite parts, no negative zeros) -/
def strComplex (re im : Rat) : List Char :=
  if re = 0 then reprPart im ++ ['j']
  else ['('] ++ reprPart re ++ (if im < 0 then [] else ['+']) ++ reprPart im ++ ['j', ')']

/-- decimal text → exact rational: `[-] digits [. digits] [(e|E) [+|-] digits]`; `none` otherwise -/
def readDigits : List Char → Option (Nat × Nat)   -- value, count
  | [] => some (0, 0)
  | c :: cs =>
    if c.isDigit then
      match readDigits cs with
      | some (v, n) => some ((c.toNat - '0'.toNat) * 10 ^ n + v, n + 1)
      | none => none
    else none

def splitAt (p : Char → Bool) : List Char → List Char × Option (List Char)
  | [] => ([], none)
  | c :: cs => if p c then ([], some cs) else
    let (a, b) := splitAt p cs
    (c :: a, b)

def readInt (cs : List Char) : Option Int :=
  match cs with
  | '-' :: r => match readDigits r with
    | some (v, n) => if n = 0 then none else some (-(v : Int))
    | none => none
  | '+' :: r => match readDigits r with
    | some (v, n) => if n = 0 then none else some (v : Int)
    | none => none
  | r => match readDigits r with
    | some (v, n) => if n = 0 then none else some (v : Int)
    | none => none

def readPosNum (cs : List Char) : Option Rat :=
  let (mant, ex) := splitAt (fun c => c == 'e' || c == 'E') cs
  let (ip, fp) := splitAt (· == '.') mant
  match readDigits ip, readDigits (fp.getD []) with
  | some (iv, inn), some (fv, fnn) =>
    if inn + fnn = 0 then none else
    let m : Rat := (iv : Rat) + (fv : Rat) / p10 fnn
    match ex with
    | none => some m
    | some es => match readInt es with
      | some e => some (m * p10i e)
      | none => none
  | _, _ => none

def readNum (cs : List Char) : Option Rat :=
  match cs with
  | '-' :: r => (readPosNum r).map (fun v => -v)
  | r => readPosNum r

/-! ## pieces -/

inductive Piece where
  | t (tok : Tok)
  | ws (s : List Char)
  deriving DecidableEq, Repr, Inhabited

def render : List Piece → List Char
  | [] => []
  | .t k :: ps => k.text ++ render ps
  | .ws s :: ps => s ++ render ps

def toks : List Piece → List Tok
  | [] => []
  | .t k :: ps => k :: toks ps
  | .ws _ :: ps => toks ps

def pp (q : P) : Piece := .t (.p q)
def sp : Piece := .ws [' ']

def parenIf (b : Bool) (ps : List Piece) : List Piece :=
  if b then pp .lpar :: ps ++ [pp .rpar] else ps

/-- join with a separator -/
def joinP (sep : List Piece) : List (List Piece) → List Piece
  | [] => []
  | [x] => x
  | x :: xs => x ++ sep ++ joinP sep xs

/-- a number text as pieces: a leading `-` is its own token -/
def numPieces (txt : List Char) : List Piece :=
  match txt with
  | '-' :: r => [pp .minus, .t (.num (String.ofList r))]
  | r => [.t (.num (String.ofList r))]

/-- scalar types the C formatter is instantiated with -/
inductive Scalar where
  | f64 | f32 | c128 | c64
  deriving DecidableEq, Repr, Inhabited

def Scalar.ofString : String → Option Scalar
  | "float64" => some .f64 | "float32" => some .f32
  | "complex128" => some .c128 | "complex64" => some .c64
  | _ => none

/-- `np.dtype(scalar_type).name` -/
def Scalar.name : Scalar → String
  | .f64 => "float64" | .f32 => "float32" | .c128 => "complex128" | .c64 => "complex64"

/-- `dtype_to_scalar_dtype` -/
def Scalar.real : Scalar → Scalar
  | .f64 | .c128 => .f64
  | .f32 | .c64 => .f32

/-- `dtype_to_c_type` -/
def Scalar.cType : Scalar → String
  | .f64 => "double" | .f32 => "float" | .c128 => "double _Complex" | .c64 => "float _Complex"

/-- `Formatter._dtype_to_name`; `none` = `ValueError` -/
def cTypeName (sc : Scalar) : DType → Option String
  | .scalar => some sc.cType
  | .real => some sc.real.cType
  | .int => some "int"
  | .bool => some "bool"
  | .none => none

def lookup (k : String) : List (String × String) → Option String
  | [] => none
  | (a, b) :: r => if a = k then some b else lookup k r

/-- `math_table[ty.name].get(function, function)` -/
def mathNameIn (ty : Scalar) (f : String) : String :=
  match (Generated.Precedence.mathTable.find? (fun r => r.1 = ty.name)) with
  | some (_, tbl) => (lookup f tbl).getD f
  | none => f

/-- `any(getattr(arg, "dtype", None) == L.DataType.SCALAR for arg in c.args)` -/
def scalarArgs (args : List Expr) : Bool := args.any (fun a => dtypeOf a == some .scalar)

/-- the name the MathFunction handler prints: from the scalar-type table iff ANY argument has
    dtype SCALAR, otherwise from the real-type table -/
def cMathName (sc : Scalar) (args : List Expr) (f : String) : String :=
  mathNameIn (if scalarArgs args then sc else sc.real) f

def Scalar.isComplex : Scalar → Bool
  | .c128 | .c64 => true
  | _ => false

/-- `c.function in math_table[ty.name]` -/
def mathHas (ty : Scalar) (f : String) : Bool :=
  match (Generated.Precedence.mathTable.find? (fun r => r.1 = ty.name)) with
  | some (_, tbl) => (lookup f tbl).isSome
  | none => false

/-- the handler raises `RuntimeError("Math function … is not supported for complex arguments.")`:
    the chosen table is the one of a complex scalar type (complex scalar type and a SCALAR argument)
    and the function is not in it (`erf`, `atan_2`, Bessel functions, `min_value`/`max_value`, any
    unknown handler name have no complex version) -/
def callRaisesC (sc : Scalar) (f : String) (args : List Expr) : Bool :=
  scalarArgs args && sc.isComplex && !mathHas sc f

def opTok : BinOp → P
  | .add => .plus | .sub => .minus | .mul => .star | .div => .slash
  | .eq => .eqeq | .ne => .ne | .lt => .lt | .gt => .gt | .le => .le | .ge => .ge
  | .and => .andand | .or => .oror

/-- the `precedence` attribute the formatter reads off a node: the class attribute, except for a
    `MultiIndex`, whose constructor sets `self.precedence = self.global_index.precedence` -/
def precF : Expr → Nat
  | .mi _ _ gi => precF gi
  | e => e.prec

/-- `text.startswith(c)` on rendered pieces -/
def startsWith (c : Char) (ps : List Piece) : Bool :=
  match render ps with
  | d :: _ => d == c
  | [] => false

/-- `_format_number`: `repr(float(x))`, `({re!r}+I*{im!r})`, `str(int)` -/
def cNumber (e : Expr) : List Piece :=
  match e with
  | .litF re im true =>
    [pp .lpar] ++ numPieces (reprFloat re) ++ [pp .plus, .t (.id "I"), pp .star]
      ++ numPieces (reprFloat im) ++ [pp .rpar]
  | .litF re _ false => numPieces (reprFloat re)
  | .litI v => numPieces (fmtInt v)
  | _ => []

mutual
/-- `Formatter.__call__` on expressions -/
def piecesC (sc : Scalar) : Expr → List Piece
  | .litF re im c => cNumber (.litF re im c)
  | .litI v => cNumber (.litI v)
  | .sym n _ => [.t (.id n)]
  | .mi _ _ gi => piecesC sc gi
  | .neg a => pp .minus :: parenIf (decide (precF a ≥ 3) || startsWith '-' (piecesC sc a)) (piecesC sc a)
  | .not a => pp .bang :: parenIf (decide (precF a ≥ 3) || startsWith '!' (piecesC sc a)) (piecesC sc a)
  | .bin op a b =>
    parenIf (decide (precF a ≥ op.prec)) (piecesC sc a) ++ [sp, pp (opTok op), sp]
      ++ parenIf (decide (precF b ≥ op.prec)) (piecesC sc b)
  | .sum args => joinP [sp, pp .plus, sp] (piecesNary sc 5 args)
  | .prod args => joinP [sp, pp .star, sp] (piecesNary sc 4 args)
  | .call f _ args =>
    .t (.id (cMathName sc args f)) :: pp .lpar :: joinP [pp .comma, sp] (piecesList sc args) ++ [pp .rpar]
  | .idx arr _ ix =>
    .t (.id arr) :: pp .lbrack :: joinP [pp .rbrack, pp .lbrack] (piecesList sc ix) ++ [pp .rbrack]
  | .cond c t f =>
    parenIf (decide (precF c ≥ 13)) (piecesC sc c) ++ [sp, pp .quest, sp]
      ++ parenIf (decide (precF t ≥ 13)) (piecesC sc t) ++ [sp, pp .colon, sp]
      ++ parenIf (decide (precF f ≥ 13)) (piecesC sc f)
def piecesNary (sc : Scalar) (p : Nat) : List Expr → List (List Piece)
  | [] => []
  | a :: as => parenIf (decide (precF a ≥ p)) (piecesC sc a) :: piecesNary sc p as
def piecesList (sc : Scalar) : List Expr → List (List Piece)
  | [] => []
  | a :: as => piecesC sc a :: piecesList sc as
end

/-- text of an expression -/
def fmtExprC (sc : Scalar) (e : Expr) : List Char := render (piecesC sc e)
/-- intended token stream of an expression -/
def tokExprC (sc : Scalar) (e : Expr) : List Tok := toks (piecesC sc e)

mutual
/-- does the C formatter raise on this expression? (a MathFunction anywhere inside it that has no
    complex version; every sub-expression is formatted exactly once) -/
def raisesC (sc : Scalar) : Expr → Bool
  | .litF .. | .litI .. | .sym .. => false
  | .mi _ _ gi => raisesC sc gi
  | .neg a => raisesC sc a
  | .not a => raisesC sc a
  | .bin _ a b => raisesC sc a || raisesC sc b
  | .sum args => raisesLC sc args
  | .prod args => raisesLC sc args
  | .call f _ args => callRaisesC sc f args || raisesLC sc args
  | .idx _ _ ix => raisesLC sc ix
  | .cond c t f => raisesC sc c || raisesC sc t || raisesC sc f
def raisesLC (sc : Scalar) : List Expr → Bool
  | [] => false
  | a :: as => raisesC sc a || raisesLC sc as
end

/-- `Formatter.__call__` on an expression: `none` = the Python raises -/
def formatExprC (sc : Scalar) (e : Expr) : Option (List Char) :=
  if raisesC sc e then none else some (fmtExprC sc e)

/-! ## statements -/

def strL (s : String) : List Char := s.toList

/-- `s.replace("\n", "\n  ")` -/
def indentAfterNewlines : List Char → List Char
  | [] => []
  | c :: cs => if c == '\n' then '\n' :: ' ' :: ' ' :: indentAfterNewlines cs else c :: indentAfterNewlines cs

/-- `for line in body.split("\n"): if len(line) > 0: output += f"  {line}\n"` -/
def indentLines (body : List Char) : List Char :=
  ((splitLines [] body).filter (fun l => !l.isEmpty)).flatMap (fun l => ' ' :: ' ' :: l ++ ['\n'])

def dropLast2 (l : List Char) : List Char := l.take (l.length - 2)

def joinC (sep : List Char) : List (List Char) → List Char
  | [] => []
  | [x] => x
  | x :: xs => x ++ sep ++ joinC sep xs

/-- split a flat list into consecutive chunks of length `n` -/
def chunks {α} (n : Nat) : Nat → List α → List (List α)
  | 0, _ => []
  | k + 1, l => l.take n :: chunks n k (l.drop n)

/-- `_build_initializer_lists` for an array of the given shape with flat row-major `vals` -/
def initListC (sc : Scalar) : List Nat → List Expr → List Char
  | [], _ => ['{', '}']
  | [_], vals => ['{'] ++ joinC [',', ' '] (vals.map (fun v => render (cNumber v))) ++ ['}']
  | d :: d' :: ds, vals =>
    let inner := (d' :: ds).foldr (· * ·) 1
    ['{'] ++ joinC [',', '\n', ' ', ' '] ((chunks inner d vals).map (initListC sc (d' :: ds))) ++ ['}']

/-- the shape `values.shape` the model assumes: `sizes` if the number of initialisers matches,
    otherwise a flat list (the only other case export.py lets through is one initialiser) -/
def initShape (sizes : List Nat) (vals : List Expr) : List Nat :=
  if sizes ≠ [] ∧ sizes.foldr (· * ·) 1 = vals.length then sizes else [vals.length]

def commaNames (ns : List String) : List Char := joinC [',', ' '] (ns.map strL)

mutual
/-- `Formatter.__call__` on statements; `none` = the Python raises (`ValueError` for dtype NONE) -/
def fmtStmtC (sc : Scalar) : Stmt → Option (List Char)
  | .assign l r => some (fmtExprC sc l ++ strL " = " ++ fmtExprC sc r ++ strL ";\n")
  | .addAssign l r => some (fmtExprC sc l ++ strL " += " ++ fmtExprC sc r ++ strL ";\n")
  | .vdecl n dt v =>
    match cTypeName sc dt with
    | some ty => some (strL ty ++ [' '] ++ strL n ++ strL " = " ++ fmtExprC sc v ++ strL ";\n")
    | none => none
  | .adecl n dt sizes c vals =>
    match cTypeName sc dt with
    | none => none
    | some ty =>
      let dims := sizes.flatMap (fun i => ['['] ++ natDigits i ++ [']'])
      match vals with
      | none => some (strL ty ++ [' '] ++ strL n ++ dims ++ strL ";\n")
      | some vs =>
        some ((if c then strL "static const " else []) ++ strL ty ++ [' '] ++ strL n ++ dims
          ++ strL " = " ++ initListC sc (initShape sizes vs) vs ++ strL ";\n")
  | .forRange i lo hi body =>
    match fmtStmtsC sc body with
    | none => none
    | some b =>
      some (strL "for (int " ++ strL i ++ strL " = " ++ fmtExprC sc lo ++ strL "; " ++ strL i
        ++ strL " < " ++ fmtExprC sc hi ++ strL "; ++" ++ strL i ++ strL ")\n{\n"
        ++ indentLines b ++ strL "}\n")
  | .comment t => some ((splitLines [] (strL t)).flatMap (fun l => strL "// " ++ l ++ ['\n']))
  | .block ss => fmtStmtsC sc ss
  | .sect name decls stmts inp out _ =>
    match fmtStmtsC sc decls, fmtStmtsC sc stmts with
    | some d, some b =>
      let comments := strL "// ------------------------ \n" ++ strL "// Section: " ++ strL name ++ ['\n']
        ++ strL "// Inputs: " ++ commaNames inp ++ ['\n']
        ++ strL "// Outputs: " ++ commaNames out ++ ['\n']
      let (d', body) :=
        if stmts.isEmpty then (d, [])
        else (d ++ strL "{\n  ", dropLast2 (indentAfterNewlines b) ++ strL "}\n")
      some (comments ++ d' ++ body ++ strL "// ------------------------ \n")
    | _, _ => none
def fmtStmtsC (sc : Scalar) : List Stmt → Option (List Char)
  | [] => some []
  | s :: ss =>
    match fmtStmtC sc s, fmtStmtsC sc ss with
    | some a, some b => some (a ++ b)
    | _, _ => none
end

mutual
/-- does formatting the statement raise because of an expression inside it? -/
def stmtRaisesC (sc : Scalar) : Stmt → Bool
  | .assign l r => raisesC sc l || raisesC sc r
  | .addAssign l r => raisesC sc l || raisesC sc r
  | .vdecl _ _ v => raisesC sc v
  | .adecl .. => false
  | .forRange _ lo hi body => raisesC sc lo || raisesC sc hi || stmtsRaiseC sc body
  | .comment _ => false
  | .block ss => stmtsRaiseC sc ss
  | .sect _ decls stmts _ _ _ => stmtsRaiseC sc decls || stmtsRaiseC sc stmts
def stmtsRaiseC (sc : Scalar) : List Stmt → Bool
  | [] => false
  | s :: ss => stmtRaisesC sc s || stmtsRaiseC sc ss
end

/-- `Formatter.__call__` on a statement: `none` = the Python raises (`ValueError` for a declared
    dtype NONE, `RuntimeError` for a math function without a complex version); otherwise the text
    `fmtStmtC` assembles -/
def formatStmtC (sc : Scalar) (s : Stmt) : Option (List Char) :=
  if stmtRaisesC sc s then none else fmtStmtC sc s

/-- type name as tokens (`double _Complex` is two identifiers) -/
def wordsOf : List Char → List Char → List String
  | acc, [] => if acc.isEmpty then [] else [String.ofList acc.reverse]
  | acc, c :: cs =>
    if c == ' ' then (if acc.isEmpty then wordsOf [] cs else String.ofList acc.reverse :: wordsOf [] cs)
    else wordsOf (c :: acc) cs

/-- the blank-separated words of a type name -/
def tyWords (ty : String) : List String := wordsOf [] ty.toList

def tyToks (ty : String) : List Tok := (tyWords ty).map Tok.id

/-- join token lists with a separator -/
def joinT (sep : List Tok) : List (List Tok) → List Tok
  | [] => []
  | [x] => x
  | x :: xs => x ++ sep ++ joinT sep xs

def initToksC : List Nat → List Expr → List Tok
  | [], _ => [.p .lbrace, .p .rbrace]
  | [_], vals => [.p .lbrace] ++ joinT [.p .comma] (vals.map (fun v => toks (cNumber v))) ++ [.p .rbrace]
  | d :: d' :: ds, vals =>
    let inner := (d' :: ds).foldr (· * ·) 1
    [.p .lbrace] ++ joinT [.p .comma] ((chunks inner d vals).map (initToksC (d' :: ds))) ++ [.p .rbrace]

mutual
/-- the token stream the C formatter intends for a statement (comments are not tokens) -/
def tokStmtC (sc : Scalar) : Stmt → List Tok
  | .assign l r => tokExprC sc l ++ [.p .assign] ++ tokExprC sc r ++ [.p .semi]
  | .addAssign l r => tokExprC sc l ++ [.p .plusAssign] ++ tokExprC sc r ++ [.p .semi]
  | .vdecl n dt v =>
    tyToks ((cTypeName sc dt).getD "") ++ [.id n, .p .assign] ++ tokExprC sc v ++ [.p .semi]
  | .adecl n dt sizes c vals =>
    let dims := sizes.flatMap (fun i => [Tok.p .lbrack, .num (String.ofList (natDigits i)), .p .rbrack])
    let hd := (if c ∧ vals.isSome then [Tok.id "static", .id "const"] else [])
      ++ tyToks ((cTypeName sc dt).getD "") ++ [.id n] ++ dims
    match vals with
    | none => hd ++ [.p .semi]
    | some vs => hd ++ [.p .assign] ++ initToksC (initShape sizes vs) vs ++ [.p .semi]
  | .forRange i lo hi body =>
    [.id "for", .p .lpar, .id "int", .id i, .p .assign] ++ tokExprC sc lo ++ [.p .semi, .id i, .p .lt]
      ++ tokExprC sc hi ++ [.p .semi, .p .incr, .id i, .p .rpar, .p .lbrace] ++ tokStmtsC sc body
      ++ [.p .rbrace]
  | .comment _ => []
  | .block ss => tokStmtsC sc ss
  | .sect _ decls stmts _ _ _ =>
    tokStmtsC sc decls ++ (if stmts.isEmpty then [] else [.p .lbrace] ++ tokStmtsC sc stmts ++ [.p .rbrace])
def tokStmtsC (sc : Scalar) : List Stmt → List Tok
  | [] => []
  | s :: ss => tokStmtC sc s ++ tokStmtsC sc ss
end

end Ffcx.LNodes.Fmt
