/-
Free (read-before-bound) names and bound loop indices.  A `ForRange i` statement sets `i` itself
before the body runs, so as a whole it does not depend on the incoming value of `i`.
-/
import FfcxModel.LNodes.Threads

namespace Ffcx.LNodes

mutual
/-- `n` occurs free in `s`: like `mentionsS`, except that a loop binds its own index -/
def freeS (n : String) : Stmt → Bool
  | .assign l r | .addAssign l r => mentionsE n l || mentionsE n r
  | .vdecl m _ v => m == n || mentionsE n v
  | .adecl m _ _ _ vals => m == n || mentionsL n (vals.getD [])
  | .forRange i lo hi body => mentionsE n lo || mentionsE n hi || (i != n && freeSL n body)
  | .comment _ => false
  | .block ss => freeSL n ss
  | .sect _ decls stmts _ _ _ => freeSL n decls || freeSL n stmts
def freeSL (n : String) : List Stmt → Bool
  | [] => false
  | s :: ss => freeS n s || freeSL n ss
end

mutual
/-- loop indices bound anywhere in `s` -/
def boundIdx : Stmt → List String
  | .forRange i _ _ body => i :: boundIdxL body
  | .block ss => boundIdxL ss
  | .sect _ decls stmts _ _ _ => boundIdxL decls ++ boundIdxL stmts
  | _ => []
def boundIdxL : List Stmt → List String
  | [] => []
  | s :: ss => boundIdx s ++ boundIdxL ss
end

/-- `t` with its own loop indices renamed apart (α-renaming of bound loop indices) -/
def renameLoopIdx (t : Stmt) : Stmt :=
  let idx := boundIdx t
  renameS (fun n => if idx.contains n then n ++ "__h" else n) t

/-- may (the α-renamed) `t` hop over `p`?  The certificate of `fuse_sections_hop_sound`, applied to
    `renameLoopIdx t`.  That renaming a statement's own loop indices does not change what it computes
    is NOT proved; it is validated per kernel by executing optimised and unoptimised ASTs exactly. -/
def hopModB (t : Stmt) (p : List Stmt) : Bool :=
  disjointB [renameLoopIdx t] p

end Ffcx.LNodes
