/-
`merge_dtypes`, per-class dtype computation, and `_math_function` of lnodes.py.
-/
import FfcxModel.LNodes.Syntax

namespace Ffcx.LNodes

/-- `merge_dtypes(dtypes)`; `none` = `ValueError` -/
def mergeDtypes (ds : List DType) : Option DType :=
  if ds.contains .none then none
  else if ds.contains .scalar then some .scalar
  else if ds.contains .real then some .real
  else if ds.contains .int then some .int
  else if ds.contains .bool then some .bool
  else none

mutual
/-- the `dtype` attribute each LNodes class computes in its constructor -/
def dtypeOf : Expr → Option DType
  | .litF _ _ c => some (if c then .scalar else .real)
  | .litI _ => some .int
  | .sym _ dt => some dt
  | .mi .. => some .int
  | .neg a => dtypeOf a
  | .not _ => some .none          -- `Not` never sets dtype: class default NONE
  | .bin op a b =>
    if op.isArith then
      match dtypeOf a, dtypeOf b with
      | some x, some y => mergeDtypes [x, y]
      | _, _ => none
    else some .none               -- comparison / logical BinOps keep the class default NONE
  | .sum args | .prod args =>
    match dtypesOf args with
    | some (d :: ds) => mergeDtypes (d :: ds)
    | _ => none
  | .call _ dt _ => some dt
  | .idx _ dt _ => some dt
  | .cond _ t f =>
    match dtypeOf t, dtypeOf f with
    | some x, some y => mergeDtypes [x, y]
    | _, _ => none
def dtypesOf : List Expr → Option (List DType)
  | [] => some []
  | e :: es =>
    match dtypeOf e, dtypesOf es with
    | some d, some ds => some (d :: ds)
    | _, _ => none
end

/-- `_math_function(op, *args)` for a handler `name`, given the dtype of `args[0]` -/
def mathFunction (name : String) (argDt : DType) (args : List Expr) : Expr :=
  match args with
  | [a] =>
    if (name == "conj" || name == "real") && argDt == .real then a
    else if name == "imag" && argDt == .real then .litF 0 0 false
    else .call name argDt args
  | _ => .call name argDt args

end Ffcx.LNodes
