/-
A parser for the fragment of Python's expression grammar (Python 3.12 reference, §6) the numba
formatter can reach, written from the grammar:

  test        ::= or_test ["if" or_test "else" test]
  or_test     ::= and_test ("or" and_test)*
  and_test    ::= not_test ("and" not_test)*
  not_test    ::= "not" not_test | comparison
  comparison  ::= arith (comp_op arith)*          -- CHAINED: a < b == c is ONE comparison
  arith       ::= term (("+"|"-") term)* ;  term ::= factor (("*"|"/") factor)*
  factor      ::= ("-"|"+") factor | primary
  primary     ::= atom trailer* ; trailer ::= "." NAME | "(" arglist ")" | "[" subscripts "]"
  atom        ::= NAME | NUMBER | "(" [test ("," test)* [","]] ")" | "[" … "]"

Binary levels (larger binds tighter): or 1, and 2, (not 3, prefix), comparison 4, additive 5,
multiplicative 6, unary minus 7.  Precedence climbing, fuel-indexed, total.
Statements: `target = expr`, `target += expr`, `for i in range(lo, hi):` + indented block.

`erasePy` is the tree the numba text must parse back to.
-/
import FfcxModel.LNodes.ParseC
import FfcxModel.LNodes.FormatNumba

namespace Ffcx.LNodes.Fmt
open Ffcx.LNodes

def pyKeywords : List String :=
  ["and", "or", "not", "if", "else", "elif", "for", "in", "is", "lambda", "def", "class", "return",
   "while", "import", "from", "as", "with", "pass", "None", "True", "False", "del", "try", "except",
   "finally", "raise", "global", "nonlocal", "assert", "break", "continue", "yield", "await", "async"]

/-- binary operator tokens of Python with their level -/
def pyBinLevel : Tok → Option (BinOp × Nat)
  | .id "or" => some (.or, 1)
  | .id "and" => some (.and, 2)
  | .p .lt => some (.lt, 4) | .p .gt => some (.gt, 4) | .p .le => some (.le, 4) | .p .ge => some (.ge, 4)
  | .p .eqeq => some (.eq, 4) | .p .ne => some (.ne, 4)
  | .p .plus => some (.add, 5) | .p .minus => some (.sub, 5)
  | .p .star => some (.mul, 6) | .p .slash => some (.div, 6)
  | _ => none

def mkCmp (l : PT) (ops : List (BinOp × PT)) : PT :=
  match ops with
  | [] => l
  | [(op, r)] => .bin op l r
  | _ => .chain l ops

/-- atoms that are single tokens: NUMBER, NAME (not a keyword) -/
def pyAtomOf : Tok → Option PT
  | .num s => some (.num s)
  | .id s => if pyKeywords.contains s then none else some (.id s)
  | _ => none

/-- a NAME token -/
def nameOf' : Tok → Option String
  | .id s => some s
  | _ => none

/-- `NAME` after a dot -/
def dotName : List Tok → Option (String × List Tok)
  | .id s :: r => some (s, r)
  | _ => none

/- The parser functions are written with non-overlapping matches and `if t = tok` tests only, so
   that they unfold predictably in the proofs of FfcxProofs/Lemmas/FormatPy*.lean. -/
mutual
/-- `test ::= or_test ["if" or_test "else" test]` -/
def pyTest : Nat → List Tok → Option (PT × List Tok)
  | 0, _ => none
  | f + 1, ts =>
    match pyLvl f 1 ts with
    | none => none
    | some (a, r) =>
      match r with
      | [] => some (a, [])
      | t :: r1 =>
        if t = .id "if" then
          match pyLvl f 1 r1 with
          | none => none
          | some (c, r2) =>
            match r2 with
            | [] => none
            | t2 :: r3 =>
              if t2 = .id "else" then
                match pyTest f r3 with
                | none => none
                | some (e, r4) => some (.cond c a e, r4)
              else none
        else some (a, t :: r1)
/-- expression whose binary operators all have level ≥ `m` -/
def pyLvl : Nat → Nat → List Tok → Option (PT × List Tok)
  | 0, _, _ => none
  | f + 1, m, ts =>
    match pyOperand f m ts with
    | none => none
    | some (l, r) => pyLoop f m l r
/-- continue with left operand `l`; a comparison collects its whole chain -/
def pyLoop : Nat → Nat → PT → List Tok → Option (PT × List Tok)
  | 0, _, _, _ => none
  | f + 1, m, l, ts =>
    match ts with
    | [] => some (l, [])
    | t :: r =>
      match pyBinLevel t with
      | none => some (l, t :: r)
      | some (op, lv) =>
        if m ≤ lv then
          if lv = 4 then
            match pyLvl f 5 r with
            | none => none
            | some (rhs, r') =>
              match pyChain f r' with
              | none => none
              | some (more, r'') => pyLoop f m (mkCmp l ((op, rhs) :: more)) r''
          else
            match pyLvl f (lv + 1) r with
            | none => none
            | some (rhs, r') => pyLoop f m (.bin op l rhs) r'
        else some (l, t :: r)
/-- further `comp_op arith` pairs of a comparison -/
def pyChain : Nat → List Tok → Option (List (BinOp × PT) × List Tok)
  | 0, _ => none
  | f + 1, ts =>
    match ts with
    | [] => some ([], [])
    | t :: r =>
      match pyBinLevel t with
      | none => some ([], t :: r)
      | some (op, lv) =>
        if lv = 4 then
          match pyLvl f 5 r with
          | none => none
          | some (rhs, r') =>
            match pyChain f r' with
            | none => none
            | some (more, r'') => some ((op, rhs) :: more, r'')
        else some ([], t :: r)
/-- operand at level `m`: `not` only where a not_test may stand (`m ≤ 3`), unary minus over a
    factor, parenthesised expression / tuple, list display, atom; then trailers -/
def pyOperand : Nat → Nat → List Tok → Option (PT × List Tok)
  | 0, _, _ => none
  | f + 1, m, ts =>
    match ts with
    | [] => none
    | t :: r =>
      if t = .id "not" then
        if m ≤ 3 then
          match pyLvl f 3 r with
          | none => none
          | some (a, r') => some (.un .not a, r')
        else none
      else if t = .p .minus then
        match pyOperand f 7 r with
        | none => none
        | some (a, r') => some (.un .neg a, r')
      else if t = .p .lpar then
        if r.head? = some (.p .rpar) then pyTrailers f (.tuple []) r.tail
        else
          match pyTest f r with
          | none => none
          | some (e, r2) =>
            match r2 with
            | [] => none
            | t2 :: r3 =>
              if t2 = .p .rpar then pyTrailers f e r3
              else if t2 = .p .comma then
                match pyItems f .rpar r3 with
                | none => none
                | some (es, r4) => pyTrailers f (.tuple (e :: es)) r4
              else none
      else if t = .p .lbrack then
        match pyItems f .rbrack r with
        | none => none
        | some (es, r') => pyTrailers f (.list es) r'
      else
        match pyAtomOf t with
        | none => none
        | some b => pyTrailers f b r
/-- items separated by commas up to the closing token (trailing comma allowed) -/
def pyItems : Nat → P → List Tok → Option (List PT × List Tok)
  | 0, _, _ => none
  | f + 1, close, ts =>
    match ts with
    | [] => none
    | t :: r => if t = .p close then some ([], r) else pyItem f close (t :: r)
/-- one item (`test` or `NAME = test`) and what follows it -/
def pyItem : Nat → P → List Tok → Option (List PT × List Tok)
  | 0, _, _ => none
  | f + 1, close, ts =>
    match pyTest f ts with
    | none => none
    | some (e, r) =>
      match r with
      | [] => none
      | t :: r1 =>
        if t = .p .assign then
          -- keyword argument: the item read so far must be a plain NAME
          match nameOf e with
          | none => none
          | some k =>
            match pyTest f r1 with
            | none => none
            | some (v, r2) =>
              match r2 with
              | [] => none
              | t2 :: r3 =>
                if t2 = .p .comma then
                  match pyItems f close r3 with
                  | none => none
                  | some (es, r') => some (.kw k v :: es, r')
                else if t2 = .p close then some ([.kw k v], r3)
                else none
        else if t = .p .comma then
          match pyItems f close r1 with
          | none => none
          | some (es, r') => some (e :: es, r')
        else if t = .p close then some ([e], r1)
        else none
/-- trailers: `.NAME` (merged into a dotted name), `(arglist)` after a name, `[subscripts]` -/
def pyTrailers : Nat → PT → List Tok → Option (PT × List Tok)
  | 0, _, _ => none
  | f + 1, base, ts =>
    match ts with
    | [] => some (base, [])
    | t :: r =>
      if t = .p .dot then
        match dotName r with
        | none => none
        | some (s, r2) =>
          match nameOf base with
          | none => none
          | some b => pyTrailers f (.id (b ++ "." ++ s)) r2
      else if t = .p .lpar then
        match nameOf base with
        | none => none
        | some name =>
          match pyItems f .rpar r with
          | none => none
          | some (args, r') => pyTrailers f (.call name args) r'
      else if t = .p .lbrack then
        match pyItems f .rbrack r with
        | none => none
        | some (ix, r') => if ix.isEmpty then none else pyTrailers f (.idx base ix) r'
      else some (base, t :: r)
end

/-- parse a complete Python expression -/
def parseExprPy (ts : List Tok) : Option PT :=
  match pyTest (fuelFor ts) ts with
  | some (e, []) => some e
  | _ => none

/-- `i in range ( lo , hi ) : NEWLINE INDENT` after the keyword `for`: index, bounds, rest -/
def forHeadPy (ts : List Tok) : Option (String × PT × PT × List Tok) :=
  match ts with
  | t1 :: t2 :: t3 :: t4 :: r =>
    if t2 = .id "in" ∧ t3 = .id "range" ∧ t4 = .p .lpar then
      match nameOf' t1 with
      | none => none
      | some i =>
        match pyTest (fuelFor r) r with
        | none => none
        | some (lo, r1) =>
          if r1.head? = some (.p .comma) then
            match pyTest (fuelFor r1.tail) r1.tail with
            | none => none
            | some (hi, r2) =>
              match r2 with
              | b1 :: b2 :: b3 :: b4 :: r3 =>
                if b1 = .p .rpar ∧ b2 = .p .colon ∧ b3 = .newline ∧ b4 = .indent then some (i, lo, hi, r3)
                else none
              | _ => none
          else none
    else none
  | _ => none

/-- `target = expr NEWLINE` / `target += expr NEWLINE` -/
def simpleStmtPy (ts : List Tok) : Option (PS × List Tok) :=
  match pyOperand (fuelFor ts) 7 ts with
  | none => none
  | some (lhs, r) =>
    if r.head? = some (.p .assign) ∨ r.head? = some (.p .plusAssign) then
      match pyTest (fuelFor r.tail) r.tail with
      | none => none
      | some (rhs, r2) =>
        if r2.head? = some .newline then some (.assign (decide (r.head? = some (.p .plusAssign))) lhs rhs, r2.tail)
        else none
    else none

mutual
def parseStmtPy : Nat → List Tok → Option (PS × List Tok)
  | 0, _ => none
  | f + 1, ts =>
    if ts.head? = some (.id "for") then
      match forHeadPy ts.tail with
      | none => none
      | some (i, lo, hi, r2) =>
        match parseStmtsPy f r2 with
        | none => none
        | some (body, r3) => if r3.head? = some .dedent then some (.loop i lo hi body, r3.tail) else none
    else simpleStmtPy ts
/-- statements up to (not including) a DEDENT or the end; `pass` is no statement -/
def parseStmtsPy : Nat → List Tok → Option (List PS × List Tok)
  | 0, _ => none
  | f + 1, ts =>
    if ts = [] then some ([], [])
    else if ts.head? = some .dedent then some ([], ts)
    else if ts.head? = some (.id "pass") ∧ ts.tail.head? = some .newline then parseStmtsPy f ts.tail.tail
    else
      match parseStmtPy f ts with
      | none => none
      | some (s, r) =>
        match parseStmtsPy f r with
        | none => none
        | some (ss, r') => some (s :: ss, r')
end

def parseStmtsTopPy (ts : List Tok) : Option (List PS) :=
  match parseStmtsPy (2 * ts.length + 2) ts with
  | some (ss, []) => some ss
  | _ => none

/-! ## erasure -/

def erasePyReal (re : Rat) : PT :=
  if re < 0 then .un .neg (.num (String.ofList (reprFloat (-re))))
  else .num (String.ofList (reprFloat re))

/-- a part of `str(complex)`: `'r'` format without `.0`; `suffix` = `j` for the imaginary part -/
def erasePyPart (x : Rat) (suffix : List Char) : PT :=
  if x < 0 then .un .neg (.num (String.ofList (reprPart (-x) ++ suffix)))
  else .num (String.ofList (reprPart x ++ suffix))

mutual
/-- the tree the numba text of an expression must parse back to -/
def erasePy : Expr → PT
  | .litF re _ false => erasePyReal re
  | .litF re im true =>
    if re = 0 then erasePyPart im ['j']
    else if im < 0 then .bin .sub (erasePyPart re []) (.num (String.ofList (reprPart (-im) ++ ['j'])))
    else .bin .add (erasePyPart re []) (.num (String.ofList (reprPart im ++ ['j'])))
  | .litI v => if v < 0 then .un .neg (.num (String.ofList (fmtInt (-v)))) else .num (String.ofList (fmtInt v))
  | .sym n _ => .id n
  | .mi _ _ gi => erasePy gi
  | .neg a => .un .neg (erasePy a)
  | .not a => .un .not (erasePy a)
  | .bin op a b => .bin op (erasePy a) (erasePy b)
  | .sum args => leftNestPT .add "0" (eraseLPy args)
  | .prod args => leftNestPT .mul "1" (eraseLPy args)
  | .call f _ args =>
    -- the Python callable that denotes the LNodes function, applied to ALL arguments
    let fn := pyMathName f
    if containsL "bessel_y".toList fn.toList then .call "scipy.special.yn" (eraseLPy args)
    else if containsL "bessel_j".toList fn.toList then .call "scipy.special.jn" (eraseLPy args)
    else if fn = "erf" then .call "math.erf" (eraseLPy args)
    else .call ("np." ++ fn) (eraseLPy args)
  | .idx arr _ ix => .idx (.id arr) (eraseLPy ix)
  | .cond c t f => .cond (erasePy c) (erasePy t) (erasePy f)
def eraseLPy : List Expr → List PT
  | [] => []
  | a :: as => erasePy a :: eraseLPy as
end

/-! ## well-formedness for the numba round trip -/

/-- an identifier that is neither a C nor a Python keyword -/
def validIdentPy (s : String) : Bool := validIdent s && !pyKeywords.contains s

/-- all characters continue a Python number whose previous character is `last` -/
def pyNumContAll : Char → List Char → Bool
  | _, [] => true
  | last, c :: cs => pyNumCont last c && pyNumContAll c cs

/-- the text lexes as exactly one Python NUMBER: starts with a digit, every character continues
    it, the last character is a digit or the imaginary suffix `j` -/
def pyNumShape (cs : List Char) : Bool :=
  match cs with
  | [] => false
  | c :: r => c.isDigit && pyNumContAll c r
      && (let l := ((c :: r).reverse).headD 'x'; l.isDigit || l == 'j')

def absR (x : Rat) : Rat := if x < 0 then -x else x

/-- magnitude texts of a literal are single NUMBER tokens -/
def pyLitShapeOK : Expr → Bool
  | .litF re im false => pyNumShape (reprFloat (absR re)) && decide (im = 0)
  | .litF re im true =>
    (decide (re = 0) || pyNumShape (reprPart (absR re))) && pyNumShape (reprPart (absR im) ++ ['j'])
  | .litI v => pyNumShape (fmtInt (if v < 0 then -v else v))
  | _ => true

mutual
/-- Structural well-formedness for the numba round trip: identifiers are identifiers and not
    Python keywords, n-ary nodes and subscript lists are non-empty, literal texts are NUMBER tokens,
    `erf` has exactly one argument (the formatter prints `math.erf(args[0])`), a MultiIndex carries
    the global index its constructor builds (a Sum or an integer literal; the formatter's
    `isinstance` test for comparisons does not look through a MultiIndex). No typing is needed. -/
def wfPy : Expr → Bool
  | .litF re im c => pyLitShapeOK (.litF re im c)
  | .litI v => pyLitShapeOK (.litI v)
  | .sym n _ => validIdentPy n
  | .mi _ _ gi => (match gi with | .sum _ | .litI _ => true | _ => false) && wfPy gi
  | .neg a => wfPy a
  | .not a => wfPy a
  | .bin _ a b => wfPy a && wfPy b
  | .sum args => !args.isEmpty && wfLPy args
  | .prod args => !args.isEmpty && wfLPy args
  | .call f _ args =>
    validIdentPy (pyMathName f) && (pyMathName f != "erf" || args.length == 1) && wfLPy args
  | .idx arr _ ix => validIdentPy arr && !ix.isEmpty && wfLPy ix
  | .cond c t f => wfPy c && wfPy t && wfPy f
def wfLPy : List Expr → Bool
  | [] => true
  | a :: as => wfPy a && wfLPy as
end

mutual
/-- no complex literal occurs (Python reads `(1+2j)` as a sum with an imaginary NUMBER, the C
    normal form `norm` writes it `1 + I * 2`; on all other trees the two normal forms coincide) -/
def noComplex : Expr → Bool
  | .litF _ _ c => !c
  | .litI _ => true
  | .sym _ _ => true
  | .mi _ _ gi => noComplex gi
  | .neg a => noComplex a
  | .not a => noComplex a
  | .bin _ a b => noComplex a && noComplex b
  | .sum args => noComplexL args
  | .prod args => noComplexL args
  | .call _ _ args => noComplexL args
  | .idx _ _ ix => noComplexL ix
  | .cond c t f => noComplex c && noComplex t && noComplex f
def noComplexL : List Expr → Bool
  | [] => true
  | a :: as => noComplex a && noComplexL as
end

/-- the executable round-trip checker for numba expressions -/
def roundtripExprPy (e : Expr) : Bool × Option PT × PT :=
  let got := parseExprPy (lexPyExpr (fmtExprPy e))
  let want := erasePy e
  (got == some want, got, want)

def initPTPy : List Nat → List Expr → PT
  | [], _ => .list []
  | [_], vals => .list (vals.map erasePy)
  | d :: d' :: ds, vals =>
    let inner := (d' :: ds).foldr (· * ·) 1
    .list ((chunks inner d vals).map (initPTPy (d' :: ds)))

def sizesPT (sizes : List Nat) : PT := .tuple (sizes.map (fun n => .num (String.ofList (natDigits n))))

mutual
def eraseStmtPy (sc : Scalar) : Stmt → List PS
  | .assign l r => [.assign false (erasePy l) (erasePy r)]
  | .addAssign l r => [.assign true (erasePy l) (erasePy r)]
  | .vdecl n _ v => [.assign false (.id n) (erasePy v)]
  | .adecl n dt sizes _ vals =>
    let dtype := PT.kw "dtype" (.id ((pyTypeName sc dt).getD ""))
    match vals with
    | none => [.assign false (.id n) (.call "np.empty" [sizesPT sizes, dtype])]
    | some [v] => [.assign false (.id n) (.call "np.full" [sizesPT sizes, erasePy v, dtype])]
    | some vs => [.assign false (.id n) (.call "np.array" [initPTPy (initShape sizes vs) vs, dtype])]
  | .forRange i lo hi body => [.loop i (erasePy lo) (erasePy hi) (eraseStmtsPy sc body)]
  | .comment _ => []
  | .block ss => eraseStmtsPy sc ss
  | .sect _ decls stmts _ _ _ => eraseStmtsPy sc decls ++ eraseStmtsPy sc stmts
def eraseStmtsPy (sc : Scalar) : List Stmt → List PS
  | [] => []
  | s :: ss => eraseStmtPy sc s ++ eraseStmtsPy sc ss
end

mutual
/-- Structural well-formedness of statements for the numba round trip (the analogue of `wfS`):
    assignments have a symbol or an array access on the left; declared names and loop indices are
    identifiers and not Python keywords; the declared type of an array is not `DataType.NONE`;
    array initialisers are numeric literals; all expressions are well-formed (`wfPy`). Comment
    texts and Section names are arbitrary (every line of them gets its own `#`). -/
def wfSPy (sc : Scalar) : Stmt → Bool
  | .assign l r => isLvalue l && wfPy l && wfPy r
  | .addAssign l r => isLvalue l && wfPy l && wfPy r
  | .vdecl n _ v => validIdentPy n && wfPy v
  | .adecl n dt _ _ vals =>
    validIdentPy n && (pyTypeName sc dt).isSome
      && (match vals with | none => true | some vs => vs.all (fun v => isLit v && wfPy v))
  | .forRange i lo hi body => validIdentPy i && wfPy lo && wfPy hi && wfSLPy sc body
  | .comment _ => true
  | .block ss => wfSLPy sc ss
  | .sect _ decls stmts _ _ _ => wfSLPy sc decls && wfSLPy sc stmts
def wfSLPy (sc : Scalar) : List Stmt → Bool
  | [] => true
  | s :: ss => wfSPy sc s && wfSLPy sc ss
end

end Ffcx.LNodes.Fmt
