/-
A parser for the fragment of Python's expression grammar (Python 3.12 reference, §6) the numba
formatter can reach, written from the grammar:

  test        ::= or_test ["if" or_test "else" test]
  or_test     ::= and_test ("or" and_test)*
  and_test    ::= not_test ("and" not_test)*
  not_test    ::= "not" not_test | comparison
  comparison  ::= arith (comp_op arith)*          -- CHAINED: a < b == c is ONE comparison
  arith       ::= term (("+"|"-") term)* ;  term ::= factor (("*"|"/") factor)*
  factor      ::= ("-"|"+") factor | primary
  primary     ::= atom trailer* ; trailer ::= "." NAME | "(" arglist ")" | "[" subscripts "]"
  atom        ::= NAME | NUMBER | "(" [test ("," test)* [","]] ")" | "[" … "]"

Binary levels (larger binds tighter): or 1, and 2, (not 3, prefix), comparison 4, additive 5,
multiplicative 6, unary minus 7.  Precedence climbing, fuel-indexed, total.
Statements: `target = expr`, `target += expr`, `for i in range(lo, hi):` + indented block.

`erasePy` is the tree the numba text must parse back to.
-/
import FfcxModel.LNodes.ParseC
import FfcxModel.LNodes.FormatNumba

namespace Ffcx.LNodes.Fmt
open Ffcx.LNodes

def pyKeywords : List String :=
  ["and", "or", "not", "if", "else", "elif", "for", "in", "is", "lambda", "def", "class", "return",
   "while", "import", "from", "as", "with", "pass", "None", "True", "False", "del", "try", "except",
   "finally", "raise", "global", "nonlocal", "assert", "break", "continue", "yield", "await", "async"]

/-- binary operator tokens of Python with their level -/
def pyBinLevel : Tok → Option (BinOp × Nat)
  | .id "or" => some (.or, 1)
  | .id "and" => some (.and, 2)
  | .p .lt => some (.lt, 4) | .p .gt => some (.gt, 4) | .p .le => some (.le, 4) | .p .ge => some (.ge, 4)
  | .p .eqeq => some (.eq, 4) | .p .ne => some (.ne, 4)
  | .p .plus => some (.add, 5) | .p .minus => some (.sub, 5)
  | .p .star => some (.mul, 6) | .p .slash => some (.div, 6)
  | _ => none

def mkCmp (l : PT) (ops : List (BinOp × PT)) : PT :=
  match ops with
  | [] => l
  | [(op, r)] => .bin op l r
  | _ => .chain l ops

mutual
/-- `test` -/
def pyTest : Nat → List Tok → Option (PT × List Tok)
  | 0, _ => none
  | f + 1, ts =>
    match pyLvl f 1 ts with
    | none => none
    | some (a, .id "if" :: r1) =>
      match pyLvl f 1 r1 with
      | some (c, .id "else" :: r2) =>
        match pyTest f r2 with
        | some (e, r3) => some (.cond c a e, r3)
        | none => none
      | _ => none
    | some (a, r) => some (a, r)
/-- expression whose binary operators all have level ≥ `m` -/
def pyLvl : Nat → Nat → List Tok → Option (PT × List Tok)
  | 0, _, _ => none
  | f + 1, m, ts =>
    match pyOperand f m ts with
    | none => none
    | some (l, r) => pyLoop f m l r
def pyLoop : Nat → Nat → PT → List Tok → Option (PT × List Tok)
  | 0, _, _, _ => none
  | f + 1, m, l, ts =>
    match ts with
    | t :: r =>
      match pyBinLevel t with
      | some (op, lv) =>
        if m ≤ lv then
          if lv = 4 then
            -- comparison: collect the whole chain
            match pyLvl f 5 r with
            | none => none
            | some (rhs, r') =>
              match pyChain f r' with
              | none => none
              | some (more, r'') => pyLoop f m (mkCmp l ((op, rhs) :: more)) r''
          else
            match pyLvl f (lv + 1) r with
            | none => none
            | some (rhs, r') => pyLoop f m (.bin op l rhs) r'
        else some (l, ts)
      | none => some (l, ts)
    | [] => some (l, ts)
/-- further `comp_op arith` pairs of a comparison -/
def pyChain : Nat → List Tok → Option (List (BinOp × PT) × List Tok)
  | 0, _ => none
  | f + 1, ts =>
    match ts with
    | t :: r =>
      match pyBinLevel t with
      | some (op, 4) =>
        match pyLvl f 5 r with
        | none => none
        | some (rhs, r') =>
          match pyChain f r' with
          | none => none
          | some (more, r'') => some ((op, rhs) :: more, r'')
      | _ => some ([], ts)
    | [] => some ([], ts)
/-- operand at level `m`: `not` only where a not_test may stand, unary minus, primary -/
def pyOperand : Nat → Nat → List Tok → Option (PT × List Tok)
  | 0, _, _ => none
  | f + 1, m, ts =>
    match ts with
    | .id "not" :: r =>
      if m ≤ 3 then
        match pyLvl f 3 r with
        | some (a, r') => some (.un .not a, r')
        | none => none
      else none
    | .p .minus :: r =>
      match pyOperand f 7 r with
      | some (a, r') => some (.un .neg a, r')
      | none => none
    | .num s :: r => pyTrailers f (.num s) r
    | .id s :: r => if pyKeywords.contains s then none else pyTrailers f (.id s) r
    | .p .lpar :: .p .rpar :: r => pyTrailers f (.tuple []) r
    | .p .lpar :: r =>
      match pyTest f r with
      | some (e, .p .rpar :: r') => pyTrailers f e r'
      | some (e, .p .comma :: r') =>
        match pyItems f .rpar r' with
        | some (es, r'') => pyTrailers f (.tuple (e :: es)) r''
        | none => none
      | _ => none
    | .p .lbrack :: r =>
      match pyItems f .rbrack r with
      | some (es, r') => pyTrailers f (.list es) r'
      | none => none
    | _ => none
/-- items separated by commas up to the closing token (trailing comma allowed; keyword items) -/
def pyItems : Nat → P → List Tok → Option (List PT × List Tok)
  | 0, _, _ => none
  | f + 1, close, ts =>
    match ts with
    | .p q :: r =>
      if q = close then some ([], r) else pyItem f close ts
    | _ => pyItem f close ts
def pyItem : Nat → P → List Tok → Option (List PT × List Tok)
  | 0, _, _ => none
  | f + 1, close, ts =>
    let one : Option (PT × List Tok) :=
      match ts with
      | .id k :: .p .assign :: r =>
        match pyTest f r with
        | some (v, r') => some (.kw k v, r')
        | none => none
      | _ => pyTest f ts
    match one with
    | some (e, .p .comma :: r) =>
      match pyItems f close r with
      | some (es, r') => some (e :: es, r')
      | none => none
    | some (e, .p q :: r) => if q = close then some ([e], r) else none
    | _ => none
def pyTrailers : Nat → PT → List Tok → Option (PT × List Tok)
  | 0, _, _ => none
  | f + 1, base, ts =>
    match ts with
    | .p .dot :: .id s :: r =>
      match base with
      | .id b => pyTrailers f (.id (b ++ "." ++ s)) r
      | _ => none
    | .p .lpar :: r =>
      match base with
      | .id name =>
        match pyItems f .rpar r with
        | some (args, r') => pyTrailers f (.call name args) r'
        | none => none
      | _ => none
    | .p .lbrack :: r =>
      match pyItems f .rbrack r with
      | some ([], _) => none
      | some (ix, r') => pyTrailers f (.idx base ix) r'
      | none => none
    | _ => some (base, ts)
end

/-- parse a complete Python expression -/
def parseExprPy (ts : List Tok) : Option PT :=
  match pyTest (fuelFor ts) ts with
  | some (e, []) => some e
  | _ => none

mutual
def parseStmtPy : Nat → List Tok → Option (PS × List Tok)
  | 0, _ => none
  | f + 1, ts =>
    match ts with
    | .id "for" :: .id i :: .id "in" :: .id "range" :: .p .lpar :: r =>
      match pyTest (fuelFor r) r with
      | some (lo, .p .comma :: r1) =>
        match pyTest (fuelFor r1) r1 with
        | some (hi, .p .rpar :: .p .colon :: .newline :: .indent :: r2) =>
          match parseStmtsPy f r2 with
          | some (body, .dedent :: r3) => some (.loop i lo hi body, r3)
          | _ => none
        | _ => none
      | _ => none
    | _ =>
      match pyOperand (fuelFor ts) 7 ts with
      | some (lhs, .p .assign :: r) =>
        match pyTest (fuelFor r) r with
        | some (rhs, .newline :: r') => some (.assign false lhs rhs, r')
        | _ => none
      | some (lhs, .p .plusAssign :: r) =>
        match pyTest (fuelFor r) r with
        | some (rhs, .newline :: r') => some (.assign true lhs rhs, r')
        | _ => none
      | _ => none
def parseStmtsPy : Nat → List Tok → Option (List PS × List Tok)
  | 0, _ => none
  | f + 1, ts =>
    match ts with
    | [] => some ([], [])
    | .dedent :: _ => some ([], ts)
    | .id "pass" :: .newline :: r => parseStmtsPy f r
    | _ =>
      match parseStmtPy f ts with
      | some (s, r) =>
        match parseStmtsPy f r with
        | some (ss, r') => some (s :: ss, r')
        | none => none
      | none => none
end

def parseStmtsTopPy (ts : List Tok) : Option (List PS) :=
  match parseStmtsPy (2 * ts.length + 2) ts with
  | some (ss, []) => some ss
  | _ => none

/-! ## erasure -/

def erasePyReal (re : Rat) : PT :=
  if re < 0 then .un .neg (.num (String.ofList (reprFloat (-re))))
  else .num (String.ofList (reprFloat re))

/-- a part of `str(complex)`: `'r'` format without `.0`; `suffix` = `j` for the imaginary part -/
def erasePyPart (x : Rat) (suffix : List Char) : PT :=
  if x < 0 then .un .neg (.num (String.ofList (reprPart (-x) ++ suffix)))
  else .num (String.ofList (reprPart x ++ suffix))

mutual
/-- the tree the numba text of an expression must parse back to -/
def erasePy : Expr → PT
  | .litF re _ false => erasePyReal re
  | .litF re im true =>
    if re = 0 then erasePyPart im ['j']
    else if im < 0 then .bin .sub (erasePyPart re []) (.num (String.ofList (reprPart (-im) ++ ['j'])))
    else .bin .add (erasePyPart re []) (.num (String.ofList (reprPart im ++ ['j'])))
  | .litI v => if v < 0 then .un .neg (.num (String.ofList (fmtInt (-v)))) else .num (String.ofList (fmtInt v))
  | .sym n _ => .id n
  | .mi _ _ gi => erasePy gi
  | .neg a => .un .neg (erasePy a)
  | .not a => .un .not (erasePy a)
  | .bin op a b => .bin op (erasePy a) (erasePy b)
  | .sum args => leftNestPT .add "0" (eraseLPy args)
  | .prod args => leftNestPT .mul "1" (eraseLPy args)
  | .call f _ args =>
    -- the Python callable that denotes the LNodes function, applied to ALL arguments
    let fn := pyMathName f
    if containsL "bessel_y".toList fn.toList then .call "scipy.special.yn" (eraseLPy args)
    else if containsL "bessel_j".toList fn.toList then .call "scipy.special.jn" (eraseLPy args)
    else if fn = "erf" then .call "math.erf" (eraseLPy args)
    else .call ("np." ++ fn) (eraseLPy args)
  | .idx arr _ ix => .idx (.id arr) (eraseLPy ix)
  | .cond c t f => .cond (erasePy c) (erasePy t) (erasePy f)
def eraseLPy : List Expr → List PT
  | [] => []
  | a :: as => erasePy a :: eraseLPy as
end

/-- the executable round-trip checker for numba expressions -/
def roundtripExprPy (e : Expr) : Bool × Option PT × PT :=
  let got := parseExprPy (lexPyExpr (fmtExprPy e))
  let want := erasePy e
  (got == some want, got, want)

def initPTPy : List Nat → List Expr → PT
  | [], _ => .list []
  | [_], vals => .list (vals.map erasePy)
  | d :: d' :: ds, vals =>
    let inner := (d' :: ds).foldr (· * ·) 1
    .list ((chunks inner d vals).map (initPTPy (d' :: ds)))

def sizesPT (sizes : List Nat) : PT := .tuple (sizes.map (fun n => .num (String.ofList (natDigits n))))

mutual
def eraseStmtPy (sc : Scalar) : Stmt → List PS
  | .assign l r => [.assign false (erasePy l) (erasePy r)]
  | .addAssign l r => [.assign true (erasePy l) (erasePy r)]
  | .vdecl n _ v => [.assign false (.id n) (erasePy v)]
  | .adecl n dt sizes _ vals =>
    let dtype := PT.kw "dtype" (.id ((pyTypeName sc dt).getD ""))
    match vals with
    | none => [.assign false (.id n) (.call "np.empty" [sizesPT sizes, dtype])]
    | some [v] => [.assign false (.id n) (.call "np.full" [sizesPT sizes, erasePy v, dtype])]
    | some vs => [.assign false (.id n) (.call "np.array" [initPTPy (initShape sizes vs) vs, dtype])]
  | .forRange i lo hi body => [.loop i (erasePy lo) (erasePy hi) (eraseStmtsPy sc body)]
  | .comment _ => []
  | .block ss => eraseStmtsPy sc ss
  | .sect _ decls stmts _ _ _ => eraseStmtsPy sc decls ++ eraseStmtsPy sc stmts
def eraseStmtsPy (sc : Scalar) : List Stmt → List PS
  | [] => []
  | s :: ss => eraseStmtPy sc s ++ eraseStmtsPy sc ss
end

end Ffcx.LNodes.Fmt
