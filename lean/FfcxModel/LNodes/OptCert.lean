/-
Decidable certificates of the optimiser soundness theorems (FfcxProofs.C17Opt).  Evaluated by
`driver_opt` on every part list the generators pass to `optimize`.
-/
import FfcxModel.LNodes.Optimizer
import FfcxModel.LNodes.Free

namespace Ffcx.LNodes.Opt
open Ffcx.LNodes

mutual
/-- `n` is never an assignment target and never declared (it may be a loop index): the scalar
    variable, the integer array and the scalar array called `n` are untouched -/
def noStore (n : String) : Stmt → Bool
  | .assign (.idx arr _ _) _ | .addAssign (.idx arr _ _) _ => arr != n
  | .assign (.sym m _) _ | .addAssign (.sym m _) _ => m != n
  | .assign _ _ | .addAssign _ _ => true
  | .vdecl m _ _ => m != n
  | .adecl m _ _ _ _ => m != n
  | .forRange _ _ _ body => noStoreL n body
  | .comment _ => true
  | .block ss => noStoreL n ss
  | .sect _ decls stmts _ _ _ => noStoreL n decls && noStoreL n stmts
def noStoreL (n : String) : List Stmt → Bool
  | [] => true
  | s :: ss => noStore n s && noStoreL n ss
end

/-- the per-name condition of `commB` -/
def commAt (D : List String) (s₁ s₂ : Stmt) (n : String) : Bool :=
  (!freeS n s₁ || neverWritten n s₂) && (!freeS n s₂ || neverWritten n s₁) &&
  (!mentionsS n s₁ || neverWritten n s₂ || noStore n s₂) &&
  (!mentionsS n s₂ || neverWritten n s₁ || noStore n s₁) &&
  (neverWritten n s₁ || neverWritten n s₂ || (D.contains n && noStore n s₁ && noStore n s₂))

/-- `s₁; s₂` and `s₂; s₁` are interchangeable up to the integer variables in `D`: neither writes a
    name the other reads free; a name written by both is a dead loop index (`D`) that neither
    assigns nor declares; a name one mentions is, in the other, at most a loop index -/
def commB (D : List String) (s₁ s₂ : Stmt) : Bool :=
  (namesS s₁ ++ namesS s₂).all (commAt D s₁ s₂)

/-- `t` may hop over every statement of `p` -/
def hopB (D : List String) (t : Stmt) (p : List Stmt) : Bool := p.all (fun a => commB D a t)

/-- no statement of `code` reads a dead name free -/
def deadOK (D : List String) (code : List Stmt) : Bool := D.all (fun n => !freeSL n code)

end Ffcx.LNodes.Opt

namespace Ffcx.LNodes.Opt
open Ffcx.LNodes

/-! ## certificate of `fuse_sections`

The scan below follows `fuse_sections`: `sacc` holds the statement blocks of the same-named sections
met so far, `mid` the other statements passed since the first one.  The declarations of a later
section hop over `sacc ++ mid`, its statements over `mid`. -/

def fsCertGo (D : List String) (name : String) : List Stmt → List Stmt → List Stmt → Bool
  | _, _, [] => true
  | sacc, mid, r :: rest =>
    if isNamed name r then
      hopB D (.block (sDecls r)) (sacc ++ mid) && hopB D (.block (sStmts r)) mid &&
      fsCertGo D name (sacc ++ [.block (sStmts r)]) mid rest
    else fsCertGo D name sacc (mid ++ [r]) rest

def fsCertTop (D : List String) (name : String) : List Stmt → Bool
  | [] => true
  | r :: rest =>
    if isNamed name r then fsCertGo D name [.block (sStmts r)] [] rest else fsCertTop D name rest

/-- certificate of `fuse_sections code name` with dead integer variables `D` -/
def fsCert (D : List String) (code : List Stmt) (name : String) : Bool :=
  deadOK D code && fsCertTop D name code

end Ffcx.LNodes.Opt

namespace Ffcx.LNodes.Opt
open Ffcx.LNodes

/-! ## certificate of `fuse_loops`

Stage 1 (`flScanCert`, following `splitLoops`): a non-loop statement hops over all loops collected so
far; a loop whose key is already present hops over the groups behind its own group.
Stage 2 (`groupCert`): inside one group, the next body may be appended to the bodies fused so far.
Loop bounds are integer literals (then `pyEq` keys are equal keys). -/

def litLoop : Stmt → Bool
  | .forRange _ (.litI _) (.litI _) _ => true
  | .forRange .. => false
  | _ => true

def groupStmts (g : LoopKey × List (List Stmt)) : List Stmt :=
  g.2.map (fun b => Stmt.forRange g.1.1 g.1.2.1 g.1.2.2 b)

def flatLoops : List (LoopKey × List (List Stmt)) → List Stmt
  | [] => []
  | g :: r => groupStmts g ++ flatLoops r

def laterGroups (k : LoopKey) : List (LoopKey × List (List Stmt)) → List Stmt
  | [] => []
  | (k', _) :: r => if keyEq k' k then flatLoops r else laterGroups k r

def flScanCert (D : List String) : List Stmt → List (LoopKey × List (List Stmt)) → Bool
  | [], _ => true
  | .forRange i lo hi body :: r, loops =>
    hopB D (.forRange i lo hi body) (laterGroups (i, lo, hi) loops) &&
    flScanCert D r (insertLoop (i, lo, hi) body loops)
  | s :: r, loops => hopB D s (flatLoops loops) && flScanCert D r loops

/-- a loop over `i` with body `b`; the bounds are irrelevant for the footprint conditions -/
def loop0 (i : String) (b : List Stmt) : Stmt := .forRange i (.litI 0) (.litI 0) b

/-- `acc` = bodies fused so far (never writing the index); the next body `b` may follow it inside
    one iteration: an iteration of `b` commutes with later iterations of `acc` -/
def fuseGroupCert (D : List String) (i : String) : List Stmt → List (List Stmt) → Bool
  | _, [] => true
  | acc, b :: bs =>
    neverWrittenL i acc && commB D (loop0 i acc) (loop0 i b) && fuseGroupCert D i (acc ++ b) bs

def groupCert (D : List String) : LoopKey × List (List Stmt) → Bool
  | (_, []) => true
  | ((i, _, _), b :: bs) => fuseGroupCert D i b bs

/-- certificate of `fuse_loops section` with dead integer variables `D` -/
def flCert (D : List String) : Stmt → Bool
  | .sect _ _ stmts _ _ _ =>
    deadOK D stmts && stmts.all litLoop && flScanCert D stmts [] &&
    (match splitLoops stmts [] [] with
     | .ok (_, loops) => loops.all (groupCert D)
     | .error _ => false)
  | _ => false

end Ffcx.LNodes.Opt

namespace Ffcx.LNodes.Opt
open Ffcx.LNodes

/-! ## certificate of `licm`

The section is exactly one loop nest `for o∈[0,N) { for n∈[lo2,hi2) { A[…] += Π args; … } }`; every
factor that `check_dependency` declares independent of `n` (`isCand`) is really invariant
(`hoistableB`): it mentions neither `n`, nor an array written in the body, nor a `temp_k` name; no
`temp_k` name occurs in the section; the written arrays are not the loop indices. -/

def flatAdd : Stmt → Bool
  | .addAssign (.idx ..) (.prod _) => true
  | _ => false

def lhsArr : Stmt → String
  | .addAssign (.idx a _ _) _ => a
  | _ => ""

def prodArgs : Stmt → List Expr
  | .addAssign _ (.prod args) => args
  | _ => []

/-- `check_dependency(e, n)` returns False -/
def isCand (n : String) (e : Expr) : Bool :=
  match checkDependency e n with
  | .ok false => true
  | _ => false

def tempNames (k : Nat) : List String := (List.range k).map tempName

def hoistableB (n : String) (W T : List String) (e : Expr) : Bool :=
  !mentionsE n e && W.all (fun w => !mentionsE w e) && T.all (fun t => !mentionsE t e)

/-- the statements of an inner body, one level of `StatementList` opened -/
def leaves : List Stmt → List Stmt
  | [] => []
  | .block ss :: r => ss ++ leaves r
  | s :: r => s :: leaves r

/-- number of temporaries `licm` creates for a section of the expected shape (0 otherwise) -/
def licmTemps : Stmt → Nat
  | .sect _ _ [.forRange o lo hi [.forRange n _ _ body]] _ _ _ =>
    match collect body with
    | .ok es =>
      match hoistAll o n lo hi {} (processingOrder (number 0 es)) with
      | .ok st => st.counter
      | .error _ => 0
    | .error _ => 0
  | _ => 0

/-- the pre-loops `licm` puts in front of the loop nest -/
def licmPre : Stmt → List Stmt
  | .sect _ _ [.forRange o lo hi [.forRange n _ _ body]] _ _ _ =>
    match collect body with
    | .ok es =>
      match hoistAll o n lo hi {} (processingOrder (number 0 es)) with
      | .ok st => st.pre
      | .error _ => []
    | .error _ => []
  | _ => []

/-- the outer loop index of the nest (dead after the section) -/
def licmDead : Stmt → List String
  | .sect _ _ [.forRange o _ _ [.forRange _ _ _ _]] _ _ _ => [o]
  | _ => []

/-- the inner loop of the nest has literal bounds and at least one iteration -/
def licmTripCert : Stmt → Bool
  | .sect _ _ [.forRange _ _ _ [.forRange _ lo2 hi2 _]] _ _ _ =>
    match lo2, hi2 with
    | .litI a, .litI b => decide (a < b)
    | _, _ => false
  | _ => true

def licmShapeCert : Stmt → Bool
  | .sect nm decls [.forRange o (.litI 0) (.litI N) [.forRange n lo2 hi2 body]] inp out ann =>
    let W := (leaves body).map lhsArr
    let T := tempNames (licmTemps
      (.sect nm decls [.forRange o (.litI 0) (.litI N) [.forRange n lo2 hi2 body]] inp out ann))
    o != n && decide (0 ≤ N) && (leaves body).all flatAdd &&
    (leaves body).all (fun st => (prodArgs st).all (fun a => !isCand n a || hoistableB n W T a)) &&
    W.all (fun w => w != o && w != n) &&
    T.all (fun t => !mentionsS t
      (.sect nm decls [.forRange o (.litI 0) (.litI N) [.forRange n lo2 hi2 body]] inp out ann)) &&
    decide T.Nodup
  | _ => false

/-- certificate of `licm section`: sections whose first statement is not a loop nest of depth 2 are
    returned unchanged -/
def licmCert : Stmt → Bool
  | .sect nm decls (first :: rest) inp out ann =>
    match depth first with
    | .ok 2 => licmShapeCert (.sect nm decls (first :: rest) inp out ann)
    | _ => true
  | _ => true

end Ffcx.LNodes.Opt

namespace Ffcx.LNodes.Opt
open Ffcx.LNodes

/-! ## certificate of `optimize` -/

/-- dead integer variables: every loop index bound anywhere in the part list -/
def optDead (code : List Stmt) : List String := (boundIdxL code).eraseDups

/-- the largest number of `temp_k` names `licm` creates in one section -/
def maxTemps : List Stmt → Nat
  | [] => 0
  | s :: r => max (licmTemps s) (maxTemps r)

def sectionCert (D : List String) (s : Stmt) : Bool :=
  match s with
  | .sect _ _ _ _ _ ann =>
    if ann.contains "fuse" then flCert D s
    else if ann.contains "licm" then
      licmCert s && licmTripCert s && (licmDead s).all (fun n => D.contains n)
    else true
  | _ => true

/-- later parts neither read a dead integer variable free nor mention a `temp_k` name -/
def contextCert (D T : List String) (code : List Stmt) : Bool :=
  deadOK D code && T.all (fun t => !mentionsSL t code)

/-- the names of the temporaries `optimize code` may create -/
def optTemps (code : List Stmt) : List String :=
  match fuseSections code "Coefficient" with
  | .error _ => []
  | .ok c1 =>
    match fuseSections c1 "Jacobian" with
    | .error _ => []
    | .ok c2 => tempNames (maxTemps c2)

/-- certificate of `optimize code` -/
def optimizeCert (code : List Stmt) : Bool :=
  let D := optDead code
  fsCert D code "Coefficient" &&
  (match fuseSections code "Coefficient" with
   | .error _ => true
   | .ok c1 =>
     fsCert D c1 "Jacobian" &&
     (match fuseSections c1 "Jacobian" with
      | .error _ => true
      | .ok c2 => contextCert D (tempNames (maxTemps c2)) c2 && c2.all (sectionCert D)))

end Ffcx.LNodes.Opt
