/-
Lexers for the text emitted by the C and numba formatters (C16).

Both lexers are finite-state transducers folded over the character list
(`feed`: one `trans` step per character, `flush` at the end), so that
* they are structurally recursive (usable under `decide`), and
* `feed st (a ++ b)` splits (`feed_append`), which is what the token-fusion theorem needs.

C lexer: maximal munch as in C17 §6.4 for the tokens that can occur here: identifiers,
pp-numbers (a digit, or `.` digit, followed by digits, letters, `_`, `.`, and a sign directly
after `e E p P`), the one- and two-character punctuators (`--`, `++`, `<=`, `==`, `&&`, `||`,
`->`, `+=`, …; so `--2.0` lexes as the decrement token followed by `2.0`), `//` comments
(dropped, they end at the newline) and white space. Anything else is a `bad` token.

Python lexer: NAME, NUMBER (decimal integers and floats with exponent and `j` suffix),
operators, comments `#…`, and the line structure (NEWLINE / INDENT / DEDENT with implicit
line joining inside brackets, blank lines ignored) produced by `pyLines`.
-/
namespace Ffcx.LNodes.Fmt

/-- punctuators (C and Python share the type; each lexer produces its own subset) -/
inductive P where
  | lpar | rpar | lbrack | rbrack | lbrace | rbrace | comma | semi | quest | colon | dot
  | plus | minus | star | slash | lt | gt | le | ge | eqeq | ne | andand | oror | bang
  | assign | plusAssign | minusAssign | starAssign | slashAssign | incr | decr | arrow
  | amp | bar
  deriving DecidableEq, Repr, Inhabited

def P.text : P → List Char
  | .lpar => ['('] | .rpar => [')'] | .lbrack => ['['] | .rbrack => [']']
  | .lbrace => ['{'] | .rbrace => ['}'] | .comma => [','] | .semi => [';']
  | .quest => ['?'] | .colon => [':'] | .dot => ['.']
  | .plus => ['+'] | .minus => ['-'] | .star => ['*'] | .slash => ['/']
  | .lt => ['<'] | .gt => ['>'] | .le => ['<', '='] | .ge => ['>', '=']
  | .eqeq => ['=', '='] | .ne => ['!', '='] | .andand => ['&', '&'] | .oror => ['|', '|']
  | .bang => ['!'] | .assign => ['=']
  | .plusAssign => ['+', '='] | .minusAssign => ['-', '='] | .starAssign => ['*', '=']
  | .slashAssign => ['/', '='] | .incr => ['+', '+'] | .decr => ['-', '-'] | .arrow => ['-', '>']
  | .amp => ['&'] | .bar => ['|']

inductive Tok where
  | id (s : String)
  | num (s : String)
  | p (p : P)
  | bad (c : Char)
  /-- Python line structure -/
  | newline | indent | dedent
  deriving DecidableEq, Repr, Inhabited

def Tok.text : Tok → List Char
  | .id s => s.toList
  | .num s => s.toList
  | .p q => q.text
  | .bad c => [c]
  | .newline => ['\n'] | .indent => [] | .dedent => []

def isIdStart (c : Char) : Bool := c.isAlpha || c == '_'
def isIdChar (c : Char) : Bool := c.isAlphanum || c == '_'
def isSpace (c : Char) : Bool := c == ' ' || c == '\n' || c == '\t' || c == '\r'
def isExpChar (c : Char) : Bool := c == 'e' || c == 'E' || c == 'p' || c == 'P'

/-! ## C -/

inductive LS where
  | start
  /-- inside an identifier; `acc` reversed -/
  | ident (acc : List Char)
  /-- inside a pp-number; `acc` reversed (its head is the last character read) -/
  | num (acc : List Char)
  /-- one punctuator character that may still be extended (`- + < > = ! & | / * .`) -/
  | pend (c : Char)
  /-- inside a `//` comment -/
  | comment
  deriving DecidableEq, Repr, Inhabited

/-- can `c` start a two-character token (or a comment / a number for `.`)? -/
def isPendChar (c : Char) : Bool :=
  c == '-' || c == '+' || c == '<' || c == '>' || c == '=' || c == '!' || c == '&' || c == '|'
  || c == '/' || c == '*' || c == '.'

/-- a single-character punctuator that is never extended -/
def single (c : Char) : Option P :=
  if c == '(' then some .lpar else if c == ')' then some .rpar
  else if c == '[' then some .lbrack else if c == ']' then some .rbrack
  else if c == '{' then some .lbrace else if c == '}' then some .rbrace
  else if c == ',' then some .comma else if c == ';' then some .semi
  else if c == '?' then some .quest else if c == ':' then some .colon
  else none

/-- the punctuator spelled by a single pending character -/
def pend1 (c : Char) : Tok :=
  if c == '-' then .p .minus else if c == '+' then .p .plus
  else if c == '<' then .p .lt else if c == '>' then .p .gt
  else if c == '=' then .p .assign else if c == '!' then .p .bang
  else if c == '&' then .p .amp else if c == '|' then .p .bar
  else if c == '/' then .p .slash else if c == '*' then .p .star
  else if c == '.' then .p .dot else .bad c

/-- the two-character punctuator `c d`, if any -/
def pend2 (c d : Char) : Option P :=
  if c == '-' && d == '-' then some .decr
  else if c == '-' && d == '=' then some .minusAssign
  else if c == '-' && d == '>' then some .arrow
  else if c == '+' && d == '+' then some .incr
  else if c == '+' && d == '=' then some .plusAssign
  else if c == '<' && d == '=' then some .le
  else if c == '>' && d == '=' then some .ge
  else if c == '=' && d == '=' then some .eqeq
  else if c == '!' && d == '=' then some .ne
  else if c == '&' && d == '&' then some .andand
  else if c == '|' && d == '|' then some .oror
  else if c == '*' && d == '=' then some .starAssign
  else if c == '/' && d == '=' then some .slashAssign
  else none

/-- one step from the start state -/
def transStart (c : Char) : List Tok × LS :=
  if isSpace c then ([], .start)
  else if isIdStart c then ([], .ident [c])
  else if c.isDigit then ([], .num [c])
  else if isPendChar c then ([], .pend c)
  else match single c with
    | some q => ([.p q], .start)
    | none => ([.bad c], .start)

/-- does `c` continue a pp-number whose last character is `last`? -/
def numCont (last c : Char) : Bool :=
  c.isAlphanum || c == '_' || c == '.' || ((c == '+' || c == '-') && isExpChar last)

def mkStr (acc : List Char) : String := String.ofList acc.reverse

def trans : LS → Char → List Tok × LS
  | .start, c => transStart c
  | .ident acc, c =>
    if isIdChar c then ([], .ident (c :: acc))
    else let (o, s) := transStart c; (.id (mkStr acc) :: o, s)
  | .num acc, c =>
    if numCont (acc.headD '0') c then ([], .num (c :: acc))
    else let (o, s) := transStart c; (.num (mkStr acc) :: o, s)
  | .pend p, c =>
    if p == '/' && c == '/' then ([], .comment)
    else if p == '.' && c.isDigit then ([], .num [c, '.'])
    else match pend2 p c with
      | some q => ([.p q], .start)
      | none => let (o, s) := transStart c; (pend1 p :: o, s)
  | .comment, c => if c == '\n' then ([], .start) else ([], .comment)

def flush : LS → List Tok
  | .start => []
  | .ident acc => [.id (mkStr acc)]
  | .num acc => [.num (mkStr acc)]
  | .pend p => [pend1 p]
  | .comment => []

/-- run the transducer: emitted tokens and final state -/
def feed : LS → List Char → List Tok × LS
  | s, [] => ([], s)
  | s, c :: cs =>
    let (o, s') := trans s c
    let (o', s'') := feed s' cs
    (o ++ o', s'')

/-- the C lexer -/
def lexC (cs : List Char) : List Tok :=
  let (o, s) := feed .start cs
  o ++ flush s

/-! ## Python -/

inductive PLS where
  | start
  | ident (acc : List Char)
  /-- number: `acc` reversed; `seenE` an exponent marker has been read -/
  | num (acc : List Char)
  | pend (c : Char)
  | comment
  deriving DecidableEq, Repr, Inhabited

def isPyPend (c : Char) : Bool :=
  c == '-' || c == '+' || c == '<' || c == '>' || c == '=' || c == '!' || c == '*' || c == '/' || c == '.'

def pySingle (c : Char) : Option P :=
  if c == '(' then some .lpar else if c == ')' then some .rpar
  else if c == '[' then some .lbrack else if c == ']' then some .rbrack
  else if c == '{' then some .lbrace else if c == '}' then some .rbrace
  else if c == ',' then some .comma else if c == ';' then some .semi
  else if c == ':' then some .colon
  else none

/-- `!` alone is not a Python token; `&&`, `||`, `?` do not exist -/
def pyPend1 (c : Char) : Tok :=
  if c == '-' then .p .minus else if c == '+' then .p .plus
  else if c == '<' then .p .lt else if c == '>' then .p .gt
  else if c == '=' then .p .assign
  else if c == '/' then .p .slash else if c == '*' then .p .star
  else if c == '.' then .p .dot else .bad c

def pyPend2 (c d : Char) : Option P :=
  if c == '-' && d == '=' then some .minusAssign
  else if c == '-' && d == '>' then some .arrow
  else if c == '+' && d == '=' then some .plusAssign
  else if c == '<' && d == '=' then some .le
  else if c == '>' && d == '=' then some .ge
  else if c == '=' && d == '=' then some .eqeq
  else if c == '!' && d == '=' then some .ne
  else if c == '*' && d == '=' then some .starAssign
  else if c == '/' && d == '=' then some .slashAssign
  else none

def pyTransStart (c : Char) : List Tok × PLS :=
  if c == ' ' || c == '\t' || c == '\r' then ([], .start)
  else if c == '\n' then ([.newline], .start)
  else if c == '#' then ([], .comment)
  else if isIdStart c then ([], .ident [c])
  else if c.isDigit then ([], .num [c])
  else if isPyPend c then ([], .pend c)
  else match pySingle c with
    | some q => ([.p q], .start)
    | none => ([.bad c], .start)

/-- Python number continuation: digits, `.`, `_`, an exponent marker, a sign directly after the
    exponent marker, the imaginary suffix.  (Letters other than `e E j J` end the number: Python
    then reports an error for e.g. `1if`, which the parser sees as NUMBER NAME.) -/
def pyNumCont (last c : Char) : Bool :=
  c.isDigit || c == '.' || c == '_' || c == 'e' || c == 'E' || c == 'j' || c == 'J'
  || ((c == '+' || c == '-') && (last == 'e' || last == 'E'))

def pyTrans : PLS → Char → List Tok × PLS
  | .start, c => pyTransStart c
  | .ident acc, c =>
    if isIdChar c then ([], .ident (c :: acc))
    else let (o, s) := pyTransStart c; (.id (mkStr acc) :: o, s)
  | .num acc, c =>
    if pyNumCont (acc.headD '0') c then ([], .num (c :: acc))
    else let (o, s) := pyTransStart c; (.num (mkStr acc) :: o, s)
  | .pend p, c =>
    if p == '.' && c.isDigit then ([], .num [c, '.'])
    else match pyPend2 p c with
      | some q => ([.p q], .start)
      | none => let (o, s) := pyTransStart c; (pyPend1 p :: o, s)
  | .comment, c => if c == '\n' then ([.newline], .start) else ([], .comment)

def pyFlush : PLS → List Tok
  | .start => []
  | .ident acc => [.id (mkStr acc)]
  | .num acc => [.num (mkStr acc)]
  | .pend p => [pyPend1 p]
  | .comment => []

def pyFeed : PLS → List Char → List Tok × PLS
  | s, [] => ([], s)
  | s, c :: cs =>
    let (o, s') := pyTrans s c
    let (o', s'') := pyFeed s' cs
    (o ++ o', s'')

/-- Python lexer for ONE logical line or an expression (no INDENT/DEDENT; physical newlines are
    `newline` tokens) -/
def lexPyFlat (cs : List Char) : List Tok :=
  let (o, s) := pyFeed .start cs
  o ++ pyFlush s

/-- drop `newline` tokens that are inside brackets (implicit line joining) and those that end a
    line without any token (blank / comment-only lines) -/
def pyJoin : Nat → Bool → List Tok → List Tok
  | _, _, [] => []
  | depth, seen, t :: ts =>
    match t with
    | .newline =>
      if depth > 0 then pyJoin depth seen ts
      else if seen then .newline :: pyJoin 0 false ts
      else pyJoin 0 false ts
    | .p .lpar | .p .lbrack | .p .lbrace => t :: pyJoin (depth + 1) true ts
    | .p .rpar | .p .rbrack | .p .rbrace => t :: pyJoin (depth - 1) true ts
    | _ => t :: pyJoin depth true ts

/-- split text into physical lines -/
def splitLines : List Char → List Char → List (List Char)
  | acc, [] => [acc.reverse]
  | acc, c :: cs => if c == '\n' then acc.reverse :: splitLines [] cs else splitLines (c :: acc) cs

def leadingSpaces : List Char → Nat
  | ' ' :: cs => leadingSpaces cs + 1
  | _ => 0

def isBlankLine (l : List Char) : Bool :=
  match l.dropWhile (fun c => c == ' ' || c == '\t' || c == '\r') with
  | [] => true
  | '#' :: _ => true
  | _ => false

/-- bracket depth after a list of tokens -/
def depthAfter : Nat → List Tok → Nat
  | d, [] => d
  | d, .p .lpar :: ts | d, .p .lbrack :: ts | d, .p .lbrace :: ts => depthAfter (d + 1) ts
  | d, .p .rpar :: ts | d, .p .rbrack :: ts | d, .p .rbrace :: ts => depthAfter (d - 1) ts
  | d, _ :: ts => depthAfter d ts

/-- pop the indentation stack down to `n`, emitting DEDENTs; `none` = inconsistent dedent -/
def popTo (n : Nat) : List Nat → Option (List Tok × List Nat)
  | [] => if n == 0 then some ([], []) else none
  | k :: st =>
    if n == k then some ([], k :: st)
    else if n < k then (popTo n st).map (fun (o, st') => (.dedent :: o, st'))
    else none

/-- Python tokeniser with line structure: physical lines, indentation stack, implicit joining.
    `depth` = open brackets carried over from previous lines. -/
def pyLines : List Nat → Nat → List (List Char) → Option (List Tok)
  | st, _, [] => some (st.filter (· > 0) |>.map (fun _ => Tok.dedent))
  | st, depth, l :: ls =>
    let toks := (lexPyFlat l).filter (· != .newline)
    if depth > 0 then
      -- continuation line inside brackets: indentation is irrelevant
      let d' := depthAfter depth toks
      (pyLines st d' ls).map (fun r => toks ++ (if d' == 0 then [.newline] else []) ++ r)
    else if isBlankLine l then pyLines st 0 ls
    else
      let n := leadingSpaces l
      let cur := st.headD 0
      let d' := depthAfter 0 toks
      let tail := fun (pre : List Tok) (st' : List Nat) =>
        (pyLines st' d' ls).map (fun r => pre ++ toks ++ (if d' == 0 then [.newline] else []) ++ r)
      if n > cur then tail [.indent] (n :: st)
      else if n == cur then tail [] st
      else match popTo n st with
        | some (o, st') => tail o st'
        | none => none

/-- the Python lexer for a module / statement text -/
def lexPy (cs : List Char) : Option (List Tok) := pyLines [0] 0 (splitLines [] cs)

/-- the Python lexer for an expression (newlines inside brackets are joined; a newline outside
    brackets stays as a token and makes the expression parser fail) -/
def lexPyExpr (cs : List Char) : List Tok := pyJoin 0 true (lexPyFlat cs)

end Ffcx.LNodes.Fmt
