/-
Concrete scalar domains for the driver: exact rationals (model-vs-model and
model-vs-IR comparisons) and binary64 floats (model-vs-compiled-C comparison).
-/
import FfcxModel.LNodes.Sem

namespace Ffcx.LNodes

/-- Integer powers on rationals (used for `power` with a literal integer exponent). -/
def ratPow (b : Rat) (e : Int) : Rat :=
  if e ≥ 0 then b ^ e.toNat else 1 / (b ^ (-e).toNat)

/-- Math functions that are exact on rationals; everything else is an
uninterpreted, argument-determined value (an injective-enough hash), which is
sound for *equality* checking of two evaluations of the same function symbol. -/
def ratFn (f : String) (args : List Rat) : Rat :=
  match f, args with
  | "abs", [a] => if a < 0 then -a else a
  | "min_value", [a, b] => if a ≤ b then a else b
  | "max_value", [a, b] => if a ≤ b then b else a
  | "conj", [a] => a
  | "real", [a] => a
  | "imag", [_] => 0
  | "power", [a, b] => if b.den == 1 then ratPow a b.num else hashOf f args
  | _, _ => hashOf f args
where
  hashOf (f : String) (args : List Rat) : Rat :=
    let h := args.foldl (fun acc a => mixHash acc (mixHash (hash a.num) (hash a.den))) (hash f)
    ((h.toNat % 1000003 : Nat) : Rat) / 1000003 + 2

def ratExtra : Extra Rat where
  ofRat re _ := re
  lt a b := decide (a < b)
  le a b := decide (a ≤ b)
  eqb a b := decide (a = b)
  fn := ratFn

def ratToFloat (r : Rat) : Float :=
  -- dyadic rationals convert exactly when they are representable
  let d := r.den
  let k := d.log2
  if d == 2 ^ k then (Float.ofInt r.num).scaleB (-(k : Int))
  else Float.ofInt r.num / Float.ofNat d

def floatFn (f : String) (args : List Float) : Float :=
  match f, args with
  | "sqrt", [a] => a.sqrt | "abs", [a] => a.abs
  | "cos", [a] => a.cos | "sin", [a] => a.sin | "tan", [a] => a.tan
  | "acos", [a] => a.acos | "asin", [a] => a.asin | "atan", [a] => a.atan
  | "cosh", [a] => a.cosh | "sinh", [a] => a.sinh | "tanh", [a] => a.tanh
  | "acosh", [a] => a.acosh | "asinh", [a] => a.asinh | "atanh", [a] => a.atanh
  | "exp", [a] => a.exp | "ln", [a] => a.log
  | "power", [a, b] => a.pow b
  | "atan2", [a, b] => Float.atan2 a b
  | "min_value", [a, b] => if a ≤ b then a else b
  | "max_value", [a, b] => if a ≤ b then b else a
  | "conj", [a] => a | "real", [a] => a | "imag", [_] => 0.0
  | _, _ => 0.0 / 0.0   -- NaN: unsupported in the float driver (erf, bessel)

instance : IntCast Float := ⟨Float.ofInt⟩

def floatExtra : Extra Float where
  ofRat re _ := ratToFloat re
  lt a b := a < b
  le a b := a ≤ b
  eqb a b := a == b
  fn := floatFn

end Ffcx.LNodes
