/-
Transcription of the overloaded operators of `lnodes.LExpr` (`__add__`, `__radd__`,
`__sub__`, `__rsub__`, `__mul__`, `__rmul__`, `__div__`, `__rdiv__`, `__neg__`),
of `float_product`, and of `MultiIndex.__init__`'s `global_index`.
Branch order is the Python branch order.
-/
import FfcxModel.LNodes.Syntax

namespace Ffcx.LNodes

/-- `is_zero_lexpr` -/
def isZero : Expr → Bool
  | .litF re im _ => re == 0 && im == 0
  | .litI v => v == 0
  | _ => false

/-- `is_one_lexpr` -/
def isOne : Expr → Bool
  | .litF re im _ => re == 1 && im == 0
  | .litI v => v == 1
  | _ => false

/-- `is_negative_one_lexpr` -/
def isNegOne : Expr → Bool
  | .litF re im _ => re == -1 && im == 0
  | .litI v => v == -1
  | _ => false

/-- `LExpr.__neg__` -/
def lNeg : Expr → Expr
  | .litF re im c => .litF (-re) (-im) c
  | .litI v => .litI (-v)
  | e => .neg e

/-- `self.__add__(other)` -/
def lAdd (self other : Expr) : Expr :=
  if isZero self then other
  else if isZero other then self
  else match other with
    | .neg a => .bin .sub self a
    | _ => .bin .add self other

/-- `self.__radd__(other)` = `other + self` -/
def lRAdd (self other : Expr) : Expr :=
  if isZero self then other
  else if isZero other then self
  else match self with
    | .neg a => .bin .sub other a
    | _ => .bin .add other self

/-- `self.__sub__(other)` -/
def lSub (self other : Expr) : Expr :=
  if isZero self then lNeg other
  else if isZero other then self
  else match other with
    | .neg a => .bin .add self a
    | _ =>
      match self, other with
      | .litI a, .litI b => .litI (a - b)
      | _, _ => .bin .sub self other

/-- `self.__rsub__(other)` = `other - self` -/
def lRSub (self other : Expr) : Expr :=
  if isZero self then other
  else if isZero other then lNeg self
  else match self with
    | .neg a => .bin .add other a
    | _ => .bin .sub other self

/-- `self.__mul__(other)` -/
def lMul (self other : Expr) : Expr :=
  if isZero self then self
  else if isZero other then other
  else if isOne self then other
  else if isOne other then self
  else if isNegOne other then .neg self
  else if isNegOne self then .neg other
  else match self, other with
    | .litI a, .litI b => .litI (a * b)
    | _, _ => .bin .mul self other

/-- `self.__rmul__(other)` = `other * self` -/
def lRMul (self other : Expr) : Expr :=
  if isZero self then self
  else if isZero other then other
  else if isOne self then other
  else if isOne other then self
  else if isNegOne other then .neg self
  else if isNegOne self then .neg other
  else .bin .mul other self

/-- `self.__div__(other)`; `none` = `ValueError("Division by zero!")` -/
def lDiv (self other : Expr) : Option Expr :=
  if isZero other then none
  else if isZero self then some self
  else some (.bin .div self other)

/-- `self.__rdiv__(other)` = `other / self` -/
def lRDiv (self other : Expr) : Option Expr :=
  if isZero self then none
  else if isZero other then some other
  else some (.bin .div other self)

/-- `float_product(factors)` -/
def floatProduct (factors : List Expr) : Expr :=
  match factors.filter (fun f => !isOne f) with
  | [] => .litF 1 0 false
  | [f] => f
  | fs => .prod fs

/-- strides `[prod sizes[1:], prod sizes[2:], …, 1]` -/
def strides : List Nat → List Nat
  | [] => []
  | _ :: ds => ds.foldr (· * ·) 1 :: strides ds

/-- A symbol handed to `MultiIndex(symbols, sizes)`: FFCx passes LExpr nodes and, in
    `expression_generator`, plain Python ints (component indices). -/
inductive MSym where
  | py (n : Int)
  | ex (e : Expr)
  deriving Repr, Inhabited

/-- `as_lexpr(sym)` -/
def MSym.toExpr : MSym → Expr
  | .py n => .litI n
  | .ex e => e

/-- one summand `n * sym` of `MultiIndex.global_index`: `n` is a NumPy integer, so for a Python
    int the product is computed numerically and wrapped by `as_lexpr`; for an LExpr it is
    `sym.__rmul__(n)`. (The last stride is `LiteralInt(1).__mul__(sym)`, which yields the same.) -/
def miTerm (n : Nat) : MSym → Expr
  | .py k => .litI (n * k)
  | .ex s => lRMul s (.litI n)

def miTerms : List Nat → List MSym → List Expr
  | n :: ns, s :: ss => miTerm n s :: miTerms ns ss
  | _, _ => []

/-- `MultiIndex(symbols, sizes).global_index` -/
def miGlobal (syms : List MSym) (sizes : List Nat) : Expr :=
  if sizes.isEmpty then .litI 0 else .sum (miTerms (strides sizes) syms)

def mkMultiIndex (syms : List MSym) (sizes : List Nat) : Expr :=
  .mi (syms.map MSym.toExpr) sizes (miGlobal syms sizes)

end Ffcx.LNodes
