/-
Two concurrent calls of one kernel on disjoint tensors, at statement granularity.

Thread 2 runs the same code with its own automatic variables and its own tensor: `renameS` renames
every name declared in the kernel (locals, loop indices) and `A`; the input arrays are shared.
`disjointB p q` is the decidable footprint-disjointness certificate of `Interleave`'s theorem.
-/
import FfcxModel.LNodes.Static

namespace Ffcx.LNodes

mutual
def namesE : Expr → List String
  | .litF .. | .litI .. => []
  | .sym n _ => [n]
  | .mi syms _ gi => namesEL syms ++ namesE gi
  | .neg a | .not a => namesE a
  | .bin _ a b => namesE a ++ namesE b
  | .sum args | .prod args | .call _ _ args => namesEL args
  | .idx arr _ ix => arr :: namesEL ix
  | .cond c t f => namesE c ++ namesE t ++ namesE f
def namesEL : List Expr → List String
  | [] => []
  | e :: es => namesE e ++ namesEL es
end

mutual
/-- all names mentioned by a statement -/
def namesS : Stmt → List String
  | .assign l r | .addAssign l r => namesE l ++ namesE r
  | .vdecl m _ v => m :: namesE v
  | .adecl m _ _ _ vals => m :: namesEL (vals.getD [])
  | .forRange i lo hi body => i :: (namesE lo ++ namesE hi ++ namesSL body)
  | .comment _ => []
  | .block ss => namesSL ss
  | .sect _ decls stmts _ _ _ => namesSL decls ++ namesSL stmts
def namesSL : List Stmt → List String
  | [] => []
  | s :: ss => namesS s ++ namesSL ss
end

mutual
/-- names declared by a statement (locals and loop indices) -/
def declsS : Stmt → List String
  | .vdecl m _ _ => [m]
  | .adecl m _ _ _ _ => [m]
  | .forRange i _ _ body => i :: declsSL body
  | .block ss => declsSL ss
  | .sect _ decls stmts _ _ _ => declsSL decls ++ declsSL stmts
  | _ => []
def declsSL : List Stmt → List String
  | [] => []
  | s :: ss => declsS s ++ declsSL ss
end

mutual
def renameE (f : String → String) : Expr → Expr
  | .litF a b c => .litF a b c
  | .litI v => .litI v
  | .sym n dt => .sym (f n) dt
  | .mi syms z gi => .mi (renameEL f syms) z (renameE f gi)
  | .neg a => .neg (renameE f a)
  | .not a => .not (renameE f a)
  | .bin op a b => .bin op (renameE f a) (renameE f b)
  | .sum args => .sum (renameEL f args)
  | .prod args => .prod (renameEL f args)
  | .call g dt args => .call g dt (renameEL f args)
  | .idx arr dt ix => .idx (f arr) dt (renameEL f ix)
  | .cond c t e => .cond (renameE f c) (renameE f t) (renameE f e)
def renameEL (f : String → String) : List Expr → List Expr
  | [] => []
  | e :: es => renameE f e :: renameEL f es
end

mutual
def renameS (f : String → String) : Stmt → Stmt
  | .assign l r => .assign (renameE f l) (renameE f r)
  | .addAssign l r => .addAssign (renameE f l) (renameE f r)
  | .vdecl m dt v => .vdecl (f m) dt (renameE f v)
  | .adecl m dt sizes c vals => .adecl (f m) dt sizes c (vals.map (renameEL f))
  | .forRange i lo hi body => .forRange (f i) (renameE f lo) (renameE f hi) (renameSL f body)
  | .comment t => .comment t
  | .block ss => .block (renameSL f ss)
  | .sect n decls stmts a b c => .sect n (renameSL f decls) (renameSL f stmts) a b c
def renameSL (f : String → String) : List Stmt → List Stmt
  | [] => []
  | s :: ss => renameS f s :: renameSL f ss
end

/-- no statement of `q` writes a name of `p` and vice versa (checked on the finitely many names) -/
def disjointB (p q : List Stmt) : Bool :=
  (namesSL p).all (fun n => neverWrittenL n q) && (namesSL q).all (fun n => neverWrittenL n p)

/-- the second thread's copy of a kernel body -/
def thread2 (k : List Stmt) : List Stmt :=
  let locals := "A" :: declsSL k
  renameSL (fun n => if locals.contains n then n ++ "__t2" else n) k

/-- flatten the top-level statement list of a kernel -/
def topStmts : Stmt → List Stmt
  | .block ss => ss
  | s => [s]

def threadsDisjoint (k : Stmt) : Bool :=
  disjointB (topStmts k) (thread2 (topStmts k))

end Ffcx.LNodes
