/-
Read sets: the indices at which a run of a kernel reads a given one-dimensional input array
(`w`, `c`, `coordinate_dofs`).  Both branches of every conditional are counted, so the set is
independent of the scalar data (it is computed over the one-point domain `U`).
C05: a coefficient whose block of `w` is disjoint from the read set cannot influence the result
(theorem `unread_irrelevant` in FfcxProofs.C05).
-/
import FfcxModel.LNodes.Sem
import FfcxModel.LNodes.ShapeDomain

namespace Ffcx.LNodes

mutual
/-- indices (possibly out of range / `none` if not evaluable) at which `e` reads array `W` -/
def readsE (W : String) (iv : AList Int) (ia : AList (Array Int)) : Expr → List (Option Int)
  | .litF .. | .litI .. | .sym .. => []
  | .mi syms _ gi => readsL W iv ia syms ++ readsE W iv ia gi
  | .neg a | .not a => readsE W iv ia a
  | .bin _ a b => readsE W iv ia a ++ readsE W iv ia b
  | .sum args | .prod args | .call _ _ args => readsL W iv ia args
  | .idx arr _ ix =>
    (if arr == W then
      match ix with
      | [i] => [evalI iv ia i]
      | _ => [none]
    else []) ++ readsL W iv ia ix
  | .cond c t f => readsE W iv ia c ++ readsE W iv ia t ++ readsE W iv ia f
def readsL (W : String) (iv : AList Int) (ia : AList (Array Int)) : List Expr → List (Option Int)
  | [] => []
  | e :: es => readsE W iv ia e ++ readsL W iv ia es
end

/-- subscripts of an lvalue are evaluated (read) too -/
def readsLhs (W : String) (iv : AList Int) (ia : AList (Array Int)) : Expr → List (Option Int)
  | .idx _ _ ix => readsL W iv ia ix
  | _ => []

section
variable {R : Type} [Add R] [Sub R] [Mul R] [Div R] [Neg R] [IntCast R]

def loopReads (body : St R → Except Err (St R × List (Option Int))) (index : String) (lo : Int) :
    Nat → St R → Except Err (St R × List (Option Int))
  | 0, σ => .ok (σ, [])
  | n + 1, σ =>
    match body (σ.setIV index lo) with
    | .error e => .error e
    | .ok (σ', r) =>
      match loopReads body index (lo + 1) n σ' with
      | .error e => .error e
      | .ok (σ'', r') => .ok (σ'', r ++ r')

mutual
/-- run the kernel, returning the final state and all reads of `W` (in order) -/
def execReads (x : Extra R) (W : String) : Stmt → St R → Except Err (St R × List (Option Int))
  | .assign l r, σ =>
    match exec x (.assign l r) σ with
    | .error e => .error e
    | .ok σ' => .ok (σ', readsE W σ.iv σ.ia r ++ readsLhs W σ.iv σ.ia l)
  | .addAssign l r, σ =>
    match exec x (.addAssign l r) σ with
    | .error e => .error e
    | .ok σ' => .ok (σ', readsE W σ.iv σ.ia r ++ readsLhs W σ.iv σ.ia l ++ readsE W σ.iv σ.ia l)
  | .vdecl n dt v, σ =>
    match exec x (.vdecl n dt v) σ with
    | .error e => .error e
    | .ok σ' => .ok (σ', readsE W σ.iv σ.ia v)
  | .adecl n dt sizes c vals, σ =>
    match exec x (.adecl n dt sizes c vals) σ with
    | .error e => .error e
    | .ok σ' => .ok (σ', readsL W σ.iv σ.ia (vals.getD []))
  | .forRange i lo hi body, σ =>
    match evalI σ.iv σ.ia lo, evalI σ.iv σ.ia hi with
    | some l, some h => loopReads (fun s => execReadsL x W body s) i l (h - l).toNat σ
    | _, _ => .error (.badIndex i)
  | .comment _, σ => .ok (σ, [])
  | .block ss, σ => execReadsL x W ss σ
  | .sect _ decls stmts _ _ _, σ =>
    match execReadsL x W decls σ with
    | .error e => .error e
    | .ok (σ', r) =>
      match execReadsL x W stmts σ' with
      | .error e => .error e
      | .ok (σ'', r') => .ok (σ'', r ++ r')
def execReadsL (x : Extra R) (W : String) : List Stmt → St R → Except Err (St R × List (Option Int))
  | [], σ => .ok (σ, [])
  | s :: ss, σ =>
    match execReads x W s σ with
    | .error e => .error e
    | .ok (σ', r) =>
      match execReadsL x W ss σ' with
      | .error e => .error e
      | .ok (σ'', r') => .ok (σ'', r ++ r')
end
end

end Ffcx.LNodes
