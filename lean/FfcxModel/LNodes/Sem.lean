/-
Total, structurally recursive semantics of LNodes kernels.

Control flow of a kernel is data independent (ForRange with literal bounds,
assignments, expression-level conditionals), so `exec` needs no fuel.

Scalars live in an arbitrary carrier `R` with the arithmetic operations given
by type classes (so that theorems can assume `Lean.Grind.Field R` and the
driver can run over `Rat` and `Float`) and the non-ring operations given by an
`Extra R` record (literals, comparisons, uninterpreted math functions).
Integers (loop indices, entity indices, array subscripts) are evaluated
separately and exactly by `evalI`.
-/
import FfcxModel.Base.AList
import FfcxModel.LNodes.Syntax

namespace Ffcx.LNodes

structure Extra (R : Type) where
  /-- value of `LiteralFloat(re)` / `LiteralFloat(re + im j)` -/
  ofRat : Rat → Rat → R
  lt : R → R → Bool
  le : R → R → Bool
  eqb : R → R → Bool
  /-- math functions by (FFCx handler) name -/
  fn : String → List R → R

/-- A (multi-dimensional, row-major) scalar array. -/
structure Arr (R : Type) where
  dims : List Nat
  data : Array R
  const : Bool := false

structure St (R : Type) where
  iv : AList Int := []
  sv : AList R := []
  ia : AList (Array Int) := []
  sa : AList (Arr R) := []

inductive Err where
  | oob (arr : String)
  | undeclared (name : String)
  | constWrite (arr : String)
  | badIndex (what : String)
  | unsupported (what : String)
  deriving Repr, BEq, DecidableEq

/-- Row-major flattening; `none` if the rank differs or an index is outside its extent. -/
def flatIdx : List Nat → List Int → Option Nat
  | [], [] => some 0
  | d :: ds, i :: is =>
    if 0 ≤ i ∧ i < (d : Int) then
      match flatIdx ds is with
      | some r => some (i.toNat * ds.foldr (· * ·) 1 + r)
      | none => none
    else none
  | _, _ => none

section IntEval

/-- Integer evaluation of index expressions. `none`: not an integer expression,
unbound symbol, or out-of-range read of an integer array. -/
def evalI (iv : AList Int) (ia : AList (Array Int)) : Expr → Option Int
  | .litI v => some v
  | .sym n _ => iv.get n
  | .mi _ _ gi => evalI iv ia gi
  | .neg a => (evalI iv ia a).map (- ·)
  | .bin .add a b => do let x ← evalI iv ia a; let y ← evalI iv ia b; pure (x + y)
  | .bin .sub a b => do let x ← evalI iv ia a; let y ← evalI iv ia b; pure (x - y)
  | .bin .mul a b => do let x ← evalI iv ia a; let y ← evalI iv ia b; pure (x * y)
  | .sum args => evalISum iv ia args
  | .prod args => evalIProd iv ia args
  | .idx arr _ [i] => do
      let a ← ia.get arr
      let k ← evalI iv ia i
      if 0 ≤ k ∧ k.toNat < a.size then a[k.toNat]? else none
  | _ => none
where
  evalISum (iv : AList Int) (ia : AList (Array Int)) : List Expr → Option Int
    | [] => some 0
    | e :: es => do let x ← evalI iv ia e; let y ← evalISum iv ia es; pure (x + y)
  evalIProd (iv : AList Int) (ia : AList (Array Int)) : List Expr → Option Int
    | [] => some 1
    | e :: es => do let x ← evalI iv ia e; let y ← evalIProd iv ia es; pure (x * y)

def evalIs (iv : AList Int) (ia : AList (Array Int)) : List Expr → Option (List Int)
  | [] => some []
  | e :: es => do let x ← evalI iv ia e; let xs ← evalIs iv ia es; pure (x :: xs)

end IntEval

section Eval
variable {R : Type} [Add R] [Sub R] [Mul R] [Div R] [Neg R] [IntCast R]

/-- left fold used for n-ary Sum/Product: `((a0 op a1) op a2) …` as C evaluates the
    formatted text. The empty Sum is 0 and the empty Product is 1. -/
def foldOp (op : R → R → R) (unit : R) : List R → R
  | [] => unit
  | x :: xs => xs.foldl op x

/-- Read of a scalar array; total (out-of-range reads give `0`; `safeE` is the guard). -/
def readArr (σ : St R) (arr : String) (ix : List Int) : R :=
  match σ.sa.get arr with
  | some a => match flatIdx a.dims ix with
    | some k => a.data.getD k (IntCast.intCast 0)
    | none => IntCast.intCast 0
  | none => IntCast.intCast 0

/-- booleans embedded in the scalars (C: 1 / 0) -/
def b2r (b : Bool) : R := if b then IntCast.intCast 1 else IntCast.intCast 0

mutual
/-- Scalar value of an expression. Integer-typed subexpressions are embedded by `IntCast`. -/
def eval (x : Extra R) (σ : St R) : Expr → R
  | .litF re im _ => x.ofRat re im
  | .litI v => IntCast.intCast v
  | .sym n dt =>
    if dt == .int then IntCast.intCast ((σ.iv.get n).getD 0)
    else (σ.sv.get n).getD (IntCast.intCast 0)
  | .mi s z gi => IntCast.intCast ((evalI σ.iv σ.ia (.mi s z gi)).getD 0)
  | .neg a => - eval x σ a
  | .not a => b2r (!(evalB x σ a))
  | .bin .add a b => eval x σ a + eval x σ b
  | .bin .sub a b => eval x σ a - eval x σ b
  | .bin .mul a b => eval x σ a * eval x σ b
  | .bin .div a b => eval x σ a / eval x σ b
  | .bin .lt a b => b2r (x.lt (eval x σ a) (eval x σ b))
  | .bin .le a b => b2r (x.le (eval x σ a) (eval x σ b))
  | .bin .gt a b => b2r (x.lt (eval x σ b) (eval x σ a))
  | .bin .ge a b => b2r (x.le (eval x σ b) (eval x σ a))
  | .bin .eq a b => b2r (x.eqb (eval x σ a) (eval x σ b))
  | .bin .ne a b => b2r (!(x.eqb (eval x σ a) (eval x σ b)))
  | .bin .and a b => b2r (evalB x σ a && evalB x σ b)
  | .bin .or a b => b2r (evalB x σ a || evalB x σ b)
  | .sum args => foldOp (· + ·) (IntCast.intCast 0) (evalL x σ args)
  | .prod args => foldOp (· * ·) (IntCast.intCast 1) (evalL x σ args)
  | .call f _ args => x.fn f (evalL x σ args)
  | .idx arr dt ix =>
    if dt == .int then IntCast.intCast ((evalI σ.iv σ.ia (.idx arr dt ix)).getD 0)
    else readArr σ arr ((evalIs σ.iv σ.ia ix).getD [])
  | .cond c t f => if evalB x σ c then eval x σ t else eval x σ f

def evalB (x : Extra R) (σ : St R) : Expr → Bool
  | .not a => !(evalB x σ a)
  | .bin .and a b => evalB x σ a && evalB x σ b
  | .bin .or a b => evalB x σ a || evalB x σ b
  | .bin .lt a b => x.lt (eval x σ a) (eval x σ b)
  | .bin .le a b => x.le (eval x σ a) (eval x σ b)
  | .bin .gt a b => x.lt (eval x σ b) (eval x σ a)
  | .bin .ge a b => x.le (eval x σ b) (eval x σ a)
  | .bin .eq a b => x.eqb (eval x σ a) (eval x σ b)
  | .bin .ne a b => !(x.eqb (eval x σ a) (eval x σ b))
  | .sym n _ => !(x.eqb ((σ.sv.get n).getD (IntCast.intCast 0)) (IntCast.intCast 0))  -- a stored condition
  | _ => false  -- not a condition: excluded by the well-typedness check `wtE`

def evalL (x : Extra R) (σ : St R) : List Expr → List R
  | [] => []
  | e :: es => eval x σ e :: evalL x σ es
end

/-- All scalar-array reads in `e` are within the declared extents in state `σ`
    (and all index expressions evaluate). -/
def safeE (σ : St R) : Expr → Bool
  | .litF .. | .litI .. => true
  | .sym n dt => if dt == .int then (σ.iv.get n).isSome else (σ.sv.get n).isSome
  | .mi _ _ gi => (evalI σ.iv σ.ia gi).isSome
  | .neg a | .not a => safeE σ a
  | .bin _ a b => safeE σ a && safeE σ b
  | .sum args | .prod args | .call _ _ args => safeL σ args
  | .idx arr dt ix =>
    if dt == .int then (evalI σ.iv σ.ia (.idx arr dt ix)).isSome
    else match σ.sa.get arr, evalIs σ.iv σ.ia ix with
      | some a, some is => (flatIdx a.dims is).isSome
      | _, _ => false
  | .cond c t f => safeE σ c && safeE σ t && safeE σ f
where
  safeL (σ : St R) : List Expr → Bool
    | [] => true
    | e :: es => safeE σ e && safeL σ es

end Eval

section Exec
variable {R : Type} [Add R] [Sub R] [Mul R] [Div R] [Neg R] [IntCast R]

def St.setIV (σ : St R) (n : String) (v : Int) : St R := { σ with iv := σ.iv.set n v }
def St.setSV (σ : St R) (n : String) (v : R) : St R := { σ with sv := σ.sv.set n v }
def St.setSA (σ : St R) (n : String) (a : Arr R) : St R := { σ with sa := σ.sa.set n a }

/-- Resolve an lvalue `arr[ix…]` to (array, flat index). -/
def resolve (σ : St R) (arr : String) (ix : List Expr) : Except Err (Arr R × Nat) :=
  match σ.sa.get arr with
  | none => .error (.undeclared arr)
  | some a =>
    match evalIs σ.iv σ.ia ix with
    | none => .error (.badIndex arr)
    | some is =>
      match flatIdx a.dims is with
      | none => .error (.oob arr)
      | some k => if k < a.data.size then .ok (a, k) else .error (.oob arr)

/-- Store `f old` into `lhs`. -/
def store (x : Extra R) (σ : St R) (lhs : Expr) (f : R → R) : Except Err (St R) :=
  match lhs with
  | .idx arr dt ix =>
    if dt == .int then .error (.unsupported "write to int array") else
    match resolve σ arr ix with
    | .error e => .error e
    | .ok (a, k) =>
      if a.const then .error (.constWrite arr)
      else .ok (σ.setSA arr { a with data := a.data.setIfInBounds k (f (a.data.getD k (IntCast.intCast 0))) })
  | .sym n dt =>
    if dt == .int then .error (.unsupported "write to int symbol") else
    match σ.sv.get n with
    | none => .error (.undeclared n)
    | some v => .ok (σ.setSV n (f v))
  | _ => let _ := x; .error (.unsupported "lvalue")

/-- Initial contents of a declared array: the given initialisers, zero-filled (C semantics). -/
def initData (x : Extra R) (σ : St R) (n : Nat) (vals : List Expr) : Array R :=
  let vs := (evalL x σ vals).toArray
  Array.ofFn (n := n) (fun i => vs.getD i.val (IntCast.intCast 0))

/-- Run `body` for `i = lo, lo+1, …, lo+n-1`. -/
def loopN (body : St R → Except Err (St R)) (index : String) (lo : Int) :
    Nat → St R → Except Err (St R)
  | 0, σ => .ok σ
  | n + 1, σ =>
    match body (σ.setIV index lo) with
    | .error e => .error e
    | .ok σ' => loopN body index (lo + 1) n σ'

mutual
def exec (x : Extra R) : Stmt → St R → Except Err (St R)
  | .assign lhs rhs, σ =>
    if safeE σ rhs then store x σ lhs (fun _ => eval x σ rhs) else .error (.oob "rhs")
  | .addAssign lhs rhs, σ =>
    if safeE σ rhs then store x σ lhs (fun old => old + eval x σ rhs) else .error (.oob "rhs")
  | .vdecl n dt v, σ =>
    if dt == .int then
      match evalI σ.iv σ.ia v with
      | some k => .ok (σ.setIV n k)
      | none => .error (.badIndex n)
    else if safeE σ v then
      .ok (σ.setSV n (if dt == .bool then b2r (evalB x σ v) else eval x σ v))
    else .error (.oob n)
  | .adecl n dt sizes c vals, σ =>
    if dt == .int then .error (.unsupported "int array decl") else
    let total := sizes.foldr (· * ·) 1
    .ok (σ.setSA n { dims := sizes, data := initData x σ total (vals.getD []), const := c })
  | .forRange i lo hi body, σ =>
    match evalI σ.iv σ.ia lo, evalI σ.iv σ.ia hi with
    | some l, some h => loopN (fun s => execL x body s) i l (h - l).toNat σ
    | _, _ => .error (.badIndex i)
  | .comment _, σ => .ok σ
  | .block ss, σ => execL x ss σ
  | .sect _ decls stmts _ _ _, σ =>
    match execL x decls σ with
    | .error e => .error e
    | .ok σ' => execL x stmts σ'

def execL (x : Extra R) : List Stmt → St R → Except Err (St R)
  | [], σ => .ok σ
  | s :: ss, σ =>
    match exec x s σ with
    | .error e => .error e
    | .ok σ' => execL x ss σ'
end

end Exec

end Ffcx.LNodes
