/-
LNodes abstract syntax: one constructor per class of `ffcx/codegeneration/lnodes.py`.
-/
namespace Ffcx.LNodes

inductive DType where
  | real | scalar | int | bool | none
  deriving DecidableEq, Repr, Inhabited

/-- All `BinOp` subclasses that can occur inside an expression. -/
inductive BinOp where
  | add | sub | mul | div | eq | ne | lt | gt | le | ge | and | or
  deriving DecidableEq, Repr, Inhabited

inductive Expr where
  /-- `LiteralFloat`: exact value of the Python float (`re`), or of the complex (`re`,`im`) -/
  | litF (re im : Rat) (isComplex : Bool)
  /-- `LiteralInt` -/
  | litI (v : Int)
  /-- `Symbol(name, dtype)` -/
  | sym (name : String) (dt : DType)
  /-- `MultiIndex(symbols, sizes)` with its pre-computed `global_index` -/
  | mi (syms : List Expr) (sizes : List Nat) (gi : Expr)
  | neg (a : Expr)
  | not (a : Expr)
  | bin (op : BinOp) (a b : Expr)
  /-- `Sum(args)` -/
  | sum (args : List Expr)
  /-- `Product(args)` -/
  | prod (args : List Expr)
  /-- `MathFunction(func, args)`; `dt` is the node's dtype (= dtype of args[0]) -/
  | call (fn : String) (dt : DType) (args : List Expr)
  /-- `ArrayAccess(array, indices)` -/
  | idx (arr : String) (dt : DType) (ix : List Expr)
  /-- `Conditional(condition, true, false)` -/
  | cond (c t f : Expr)
  deriving Repr, Inhabited, BEq

inductive Stmt where
  /-- `Assign(lhs, rhs)` as a statement -/
  | assign (lhs rhs : Expr)
  /-- `AssignAdd(lhs, rhs)` as a statement -/
  | addAssign (lhs rhs : Expr)
  /-- `VariableDecl(symbol, value)` -/
  | vdecl (name : String) (dt : DType) (val : Expr)
  /-- `ArrayDecl(symbol, sizes, values, const)`; `vals` is the flat (row-major) list of
      initialisers (possibly shorter than the array: C zero-fills), `none` = uninitialised. -/
  | adecl (name : String) (dt : DType) (sizes : List Nat) (const : Bool) (vals : Option (List Expr))
  /-- `ForRange(index, begin, end, body)` -/
  | forRange (index : String) (lo hi : Expr) (body : List Stmt)
  | comment (text : String)
  /-- `StatementList` -/
  | block (ss : List Stmt)
  /-- `Section(name, statements, declarations, input, output, annotations)` -/
  | sect (name : String) (decls : List Stmt) (stmts : List Stmt)
         (inp out : List String) (annot : List String)
  deriving Repr, Inhabited, BEq

def BinOp.isArith : BinOp → Bool
  | .add | .sub | .mul | .div => true
  | _ => false

def BinOp.isCompare : BinOp → Bool
  | .eq | .ne | .lt | .gt | .le | .ge => true
  | _ => false

/-- LNodes precedence numbers (`lnodes.PRECEDENCE`), as hard-wired in the class bodies.
The generated table `Generated.Precedence` is checked against this on every run. -/
def BinOp.prec : BinOp → Nat
  | .mul | .div => 4
  | .add | .sub => 5
  | .lt | .le | .gt | .ge => 7
  | .eq | .ne => 8
  | .and => 11
  | .or => 12

def BinOp.opStr : BinOp → String
  | .add => "+" | .sub => "-" | .mul => "*" | .div => "/"
  | .eq => "==" | .ne => "!=" | .lt => "<" | .gt => ">" | .le => "<=" | .ge => ">="
  | .and => "&&" | .or => "||"

def Expr.prec : Expr → Nat
  | .litF .. | .litI .. | .sym .. | .mi .. | .call .. => 0
  | .idx .. => 2
  | .neg .. | .not .. => 3
  | .bin op .. => op.prec
  | .sum .. => 5
  | .prod .. => 4
  | .cond .. => 13

end Ffcx.LNodes
