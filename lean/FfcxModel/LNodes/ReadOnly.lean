/- Static predicate for C05: the input array `W` is only ever read inside right-hand sides /
   initialisers — never assigned, declared, used as a loop index, or mentioned in an lvalue's
   subscripts or in loop bounds. -/
import FfcxModel.LNodes.Static

namespace Ffcx.LNodes

mutual
def readOnly (W : String) : Stmt → Bool
  | .assign l _ | .addAssign l _ => !mentionsE W l
  | .vdecl m _ _ => m != W
  | .adecl m _ _ _ _ => m != W
  | .forRange i lo hi body => i != W && !mentionsE W lo && !mentionsE W hi && readOnlyL W body
  | .comment _ => true
  | .block ss => readOnlyL W ss
  | .sect _ decls stmts _ _ _ => readOnlyL W decls && readOnlyL W stmts
def readOnlyL (W : String) : List Stmt → Bool
  | [] => true
  | s :: ss => readOnly W s && readOnlyL W ss
end

end Ffcx.LNodes
