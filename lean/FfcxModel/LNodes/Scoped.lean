/-
C block scoping of a formatted kernel, as the C formatter lays it out:
* `Section`: declarations in the current scope, statements inside `{ … }` (a new block);
* `ForRange`: `for (int i = …; …) { body }` — index and body in a new block;
* `StatementList`: no braces, same scope.
`scopedS` walks the statements with a stack of scopes and fails on (i) a use of an identifier that
is not declared in an enclosing scope at that point, (ii) a second declaration of an identifier in
the SAME scope (shadowing in an inner block is legal C).
-/
import FfcxModel.LNodes.Static

namespace Ffcx.LNodes

inductive ScopeErr where
  | undeclared (n : String)
  | redeclared (n : String)
  deriving Repr, DecidableEq

abbrev Scopes := List (List String)

def declared (sc : Scopes) (n : String) : Bool := sc.any (fun s => s.contains n)

mutual
/-- every identifier used in `e` is declared -/
def usesOkE (sc : Scopes) : Expr → Option String
  | .litF .. | .litI .. => none
  | .sym n _ => if declared sc n then none else some n
  | .mi syms _ gi => (usesOkL sc syms).orElse (fun _ => usesOkE sc gi)
  | .neg a | .not a => usesOkE sc a
  | .bin _ a b => (usesOkE sc a).orElse (fun _ => usesOkE sc b)
  | .sum args | .prod args | .call _ _ args => usesOkL sc args
  | .idx arr _ ix => if declared sc arr then usesOkL sc ix else some arr
  | .cond c t f => (usesOkE sc c).orElse (fun _ => (usesOkE sc t).orElse (fun _ => usesOkE sc f))
def usesOkL (sc : Scopes) : List Expr → Option String
  | [] => none
  | e :: es => (usesOkE sc e).orElse (fun _ => usesOkL sc es)
end

/-- declare `n` in the innermost scope -/
def declare (sc : Scopes) (n : String) : Except ScopeErr Scopes :=
  match sc with
  | [] => .ok [[n]]
  | s :: rest => if s.contains n then .error (.redeclared n) else .ok ((n :: s) :: rest)

def checkUse (sc : Scopes) (r : Option String) : Except ScopeErr Unit :=
  match r with
  | none => .ok ()
  | some n => .error (.undeclared n)

mutual
def scopedS (sc : Scopes) : Stmt → Except ScopeErr Scopes
  | .assign l r | .addAssign l r =>
    match checkUse sc ((usesOkE sc l).orElse (fun _ => usesOkE sc r)) with
    | .error e => .error e
    | .ok _ => .ok sc
  | .vdecl n _ v =>
    match checkUse sc (usesOkE sc v) with
    | .error e => .error e
    | .ok _ => declare sc n
  | .adecl n _ _ _ vals =>
    match checkUse sc (usesOkL sc (vals.getD [])) with
    | .error e => .error e
    | .ok _ => declare sc n
  | .forRange i lo hi body =>
    match checkUse sc ((usesOkE sc lo).orElse (fun _ => usesOkE sc hi)) with
    | .error e => .error e
    | .ok _ =>
      -- `for (int i …)` opens a scope holding `i`; the braces open another one for the body
      match scopedL ([] :: [i] :: sc) body with
      | .error e => .error e
      | .ok _ => .ok sc
  | .comment _ => .ok sc
  | .block ss => scopedL sc ss
  | .sect _ decls stmts _ _ _ =>
    match scopedL sc decls with
    | .error e => .error e
    | .ok sc' =>
      match scopedL ([] :: sc') stmts with
      | .error e => .error e
      | .ok _ => .ok sc'
def scopedL (sc : Scopes) : List Stmt → Except ScopeErr Scopes
  | [] => .ok sc
  | s :: ss =>
    match scopedS sc s with
    | .error e => .error e
    | .ok sc' => scopedL sc' ss
end

/-- the kernel parameters form the outermost scope of the function body -/
def kernelScope : Scopes :=
  [["A", "w", "c", "coordinate_dofs", "entity_local_index", "quadrature_permutation", "custom_data"]]

def scopedKernel (k : Stmt) : Except ScopeErr Unit :=
  match scopedS kernelScope k with
  | .error e => .error e
  | .ok _ => .ok ()

end Ffcx.LNodes
