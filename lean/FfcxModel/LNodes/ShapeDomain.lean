/-
The one-point scalar domain: running a kernel over it exercises exactly the control flow,
integer arithmetic and array subscripts of the kernel and nothing else.
(C08: out-of-bounds freedom is independent of the scalar data — theorem `oob_data_independent`.)
-/
import FfcxModel.LNodes.Sem

namespace Ffcx.LNodes

structure U where
  deriving Repr, Inhabited

instance : Add U := ⟨fun _ _ => ⟨⟩⟩
instance : Sub U := ⟨fun _ _ => ⟨⟩⟩
instance : Mul U := ⟨fun _ _ => ⟨⟩⟩
instance : Div U := ⟨fun _ _ => ⟨⟩⟩
instance : Neg U := ⟨fun _ => ⟨⟩⟩
instance : IntCast U := ⟨fun _ => ⟨⟩⟩

def uExtra : Extra U where
  ofRat _ _ := ⟨⟩
  lt _ _ := true
  le _ _ := true
  eqb _ _ := true
  fn _ _ := ⟨⟩

end Ffcx.LNodes
