/-
C09 — the dtype discipline of generated kernels, as a decidable certificate, and the
*truncating* semantics it is sound for.

In a complex kernel (`scalar_type = complex128/complex64`) FFCx declares some names `double`
(`DataType.REAL`: geometry, tables, weights, `Real`/`Imag` temporaries) and others `double _Complex`
(`DataType.SCALAR`), and the C formatter picks the real `<math.h>` function iff NO argument of the call
is SCALAR, the complex `<complex.h>` function otherwise (functions without a complex version are
refused for SCALAR arguments).  C converts `double _Complex → double` implicitly and
silently (the imaginary part is dropped) at
  * an initialisation / assignment / `+=` whose target is `double`,
  * an initialiser of a `double` array,
  * every argument of a function whose parameters are `double` (the real table).

`dtypeCert` (below) checks on a kernel AST that no such conversion can meet a value that is not known
to be real; `execG ρ` is `Sem.exec` with the conversion `ρ` applied at exactly those points
(`execT` = `execG re`).  `FfcxProofs/C09Sound.lean` proves: certificate ⇒ `execG ρ = exec` for every
conversion `ρ` that fixes the real values.

Core Lean only.
-/
import FfcxModel.Base.AList
import FfcxModel.LNodes.Syntax
import FfcxModel.LNodes.Dtypes
import FfcxModel.LNodes.Sem

namespace Ffcx.LNodes

/-! ## dtype order and result types -/

/-- `INT/BOOL ≤ REAL ≤ SCALAR` (the C types `int/bool → double → double _Complex` widen without
    loss); `d.leB t` = a value of dtype `d` may be stored into a target declared `t`. -/
def DType.leB (d t : DType) : Bool :=
  match t with
  | .scalar => d == .scalar || d == .real || d == .int || d == .bool
  | .real => d == .real || d == .int || d == .bool
  | .int | .bool => d == .int || d == .bool
  | .none => false

/-- the dtypes whose C type cannot hold an imaginary part -/
def DType.isRealTy (d : DType) : Bool := d == .real || d == .int || d == .bool

/-- handler names that have a genuinely complex entry in `math_table["complex128"/"complex64"]`
    (`csqrt, cabs, ccos, …, cpow, cexp, clog, creal, cimag, conj`): the C function named there takes
    `double _Complex` parameters.  Every other name has no complex version (`max_value → fmax`,
    `min_value → fmin`, `bessel_y → yn`, `bessel_j → jn` are listed in the complex tables but take
    `double`; names missing from the table are printed bare: `erf`, `atan2`, …): the formatter
    refuses them for SCALAR arguments.  Checked against the real formatter by `harness/dtype_checks.py`. -/
def complexCapable (f : String) : Bool :=
  ["sqrt", "abs", "cos", "sin", "tan", "acos", "asin", "atan", "cosh", "sinh", "tanh",
   "acosh", "asinh", "atanh", "power", "exp", "ln", "real", "imag", "conj"].contains f

/-- `scalar_args = any(arg.dtype == SCALAR for arg in c.args)` of the C formatter's `MathFunction`
    handler (the dtype is the one LNodes computes: `dtypeOf`) -/
def anyScalarArg (args : List Expr) : Bool := args.any (fun a => dtypeOf a == some .scalar)

/-- In a complex kernel the formatter refuses (RuntimeError, no C is emitted) a math function that has
    no complex version as soon as one argument is SCALAR (`erf`, `atan2`, `min_value`, `max_value`,
    `bessel_*`, unknown names). -/
def formatRejects (f : String) (args : List Expr) : Bool := anyScalarArg args && !(complexCapable f)

/-- Does the C function the formatter emits for `MathFunction(f, args)` in a complex kernel take
    `double` parameters?  The real table is used iff NO argument is SCALAR
    (`arg_type = self.scalar_type if scalar_args else self.real_type`); with a SCALAR argument the
    table of the scalar type is used, whose genuinely complex entries take `double _Complex`
    (every other name is rejected: `formatRejects`). -/
def truncatesArgs (f : String) (args : List Expr) : Bool :=
  !(anyScalarArg args) || !(complexCapable f)

/-- the functions whose C result is `double` whatever the argument: `creal`, `cimag`, `cabs` -/
def realValued (f : String) : Bool := f == "real" || f == "imag" || f == "abs"

/-- C result type of the emitted call: `double` for `creal/cimag/cabs` and for every function with
    `double` parameters, `double _Complex` otherwise.  (LNodes itself gives the node the dtype of
    `args[0]` — SCALAR for `real(f)`, REAL for `power(x, 1+2j)` — and the generators override it with
    `extract_dtype`; `tyOf` is the sound version.) -/
def callTy (f : String) (args : List Expr) : DType :=
  if realValued f || truncatesArgs f args then .real else .scalar

mutual
/-- Result dtype used by the certificate: `dtypeOf` with (i) comparisons, logical operators and `Not`
    typed BOOL (C: `int` 0/1) instead of the class default NONE, (ii) calls typed by `callTy`. -/
def tyOf : Expr → Option DType
  | .litF _ _ c => some (if c then .scalar else .real)
  | .litI _ => some .int
  | .sym _ dt => some dt
  | .mi .. => some .int
  | .neg a => tyOf a
  | .not _ => some .bool
  | .bin op a b =>
    if op.isArith then
      match tyOf a, tyOf b with
      | some x, some y => mergeDtypes [x, y]
      | _, _ => none
    else some .bool
  | .sum args | .prod args =>
    match tysOf args with
    | some (d :: ds) => mergeDtypes (d :: ds)
    | _ => none
  | .call f _ args => some (callTy f args)
  | .idx _ dt _ => some dt
  | .cond _ t f =>
    match tyOf t, tyOf f with
    | some x, some y => mergeDtypes [x, y]
    | _, _ => none
def tysOf : List Expr → Option (List DType)
  | [] => some []
  | e :: es =>
    match tyOf e, tysOf es with
    | some d, some ds => some (d :: ds)
    | _, _ => none
end

/-- `tyOf e ≤ t` -/
def tyLe (e : Expr) (t : DType) : Bool :=
  match tyOf e with
  | some d => d.leB t
  | none => false

/-- every expression of the list has a dtype that cannot hold an imaginary part -/
def allRealTy (es : List Expr) : Bool :=
  match tysOf es with
  | some ds => ds.all DType.isRealTy
  | none => false

/-- every expression of the list is INT typed (array subscripts) -/
def allIntTy (es : List Expr) : Bool :=
  match tysOf es with
  | some ds => ds.all (· == .int)
  | none => false

/-- dtype of `args[0]` as LNodes computes it (`MathFunction.__init__`: `self.dtype = self.args[0].dtype`) -/
def headDtype : List Expr → Option DType
  | [] => none
  | a :: _ => dtypeOf a

/-! ## the certificate -/

/-- declared dtype of every name: kernel parameters + declarations of the kernel -/
abbrev DEnv := AList DType

/-- the `tabulate_tensor` parameters (`symbols.py`: `A, w, c` SCALAR; `coordinate_dofs` REAL;
    `entity_local_index`, `quadrature_permutation` INT) -/
def paramEnv : DEnv :=
  [("A", .scalar), ("w", .scalar), ("c", .scalar), ("coordinate_dofs", .real),
   ("entity_local_index", .int), ("quadrature_permutation", .int)]

mutual
/-- Expression part.  `strict = false` (real scalar types, where SCALAR and REAL are the same C type)
    keeps only the agreement checks. -/
def certE (strict : Bool) (Γ : DEnv) : Expr → Bool
  | .litF _ im c => c || im == 0
  | .litI _ => true
  | .sym n dt => Γ.get n == some dt
  | .mi _ _ gi => certE strict Γ gi
  | .neg a => certE strict Γ a
  | .not a => certE strict Γ a
  | .bin _ a b => certE strict Γ a && certE strict Γ b
  | .sum args => certEL strict Γ args
  | .prod args => certEL strict Γ args
  | .call f dt args =>
    certEL strict Γ args && headDtype args == some dt &&
      (!strict || (!(formatRejects f args) && (!(truncatesArgs f args) || allRealTy args)))
  | .idx arr dt ix => Γ.get arr == some dt && certEL strict Γ ix && allIntTy ix
  | .cond c t f => certE strict Γ c && certE strict Γ t && certE strict Γ f
def certEL (strict : Bool) (Γ : DEnv) : List Expr → Bool
  | [] => true
  | e :: es => certE strict Γ e && certEL strict Γ es
end

/-- declared dtype of an lvalue node -/
def lhsDt : Expr → DType
  | .sym _ dt => dt
  | .idx _ dt _ => dt
  | _ => .none

def dtIsLvalue : Expr → Bool
  | .sym .. | .idx .. => true
  | _ => false

/-- every initialiser of an array declared `dt` has dtype ≤ `dt` -/
def initLe (strict : Bool) (dt : DType) : List Expr → Bool
  | [] => true
  | e :: es => (!strict || tyLe e dt) && initLe strict dt es

mutual
def certS (strict : Bool) (Γ : DEnv) : Stmt → Bool
  | .assign lhs rhs =>
    dtIsLvalue lhs && certE strict Γ lhs && certE strict Γ rhs && (!strict || tyLe rhs (lhsDt lhs))
  | .addAssign lhs rhs =>
    dtIsLvalue lhs && certE strict Γ lhs && certE strict Γ rhs && (!strict || tyLe rhs (lhsDt lhs))
  | .vdecl n dt v => Γ.get n == some dt && certE strict Γ v && (!strict || tyLe v dt)
  | .adecl n dt _ _ vals =>
    Γ.get n == some dt && certEL strict Γ (vals.getD []) && initLe strict dt (vals.getD [])
  | .forRange i lo hi body =>
    Γ.get i == some .int && certE strict Γ lo && certE strict Γ hi && certSL strict Γ body
  | .comment _ => true
  | .block ss => certSL strict Γ ss
  | .sect _ decls stmts _ _ _ => certSL strict Γ decls && certSL strict Γ stmts
def certSL (strict : Bool) (Γ : DEnv) : List Stmt → Bool
  | [] => true
  | s :: ss => certS strict Γ s && certSL strict Γ ss
end

mutual
/-- all declarations of a statement, in source order (loop indices are `int`) -/
def dtDeclsS : Stmt → List (String × DType)
  | .vdecl n dt _ => [(n, dt)]
  | .adecl n dt _ _ _ => [(n, dt)]
  | .forRange i _ _ body => (i, .int) :: dtDeclsSL body
  | .block ss => dtDeclsSL ss
  | .sect _ decls stmts _ _ _ => dtDeclsSL decls ++ dtDeclsSL stmts
  | _ => []
def dtDeclsSL : List Stmt → List (String × DType)
  | [] => []
  | s :: ss => dtDeclsS s ++ dtDeclsSL ss
end

/-- environment of a kernel: parameters first, then its declarations.  `AList.get` returns the first
    entry of a name, and `certS` compares *every* declaration with that entry, so a name declared
    with two different dtypes (or re-declaring a parameter with another dtype) fails the certificate. -/
def kernelEnv (k : Stmt) : DEnv := paramEnv ++ dtDeclsS k

/-- **the certificate.** `strict = true` for complex scalar types. -/
def dtypeCert (strict : Bool) (k : Stmt) : Bool := certS strict (kernelEnv k) k

/-! ## semantics with explicit conversions -/

section Sem
variable {R : Type} [Add R] [Sub R] [Mul R] [Div R] [Neg R] [IntCast R]

/-- arguments of a function with `double` parameters are converted -/
def convArgs (ρ : R → R) (b : Bool) (vs : List R) : List R := if b then vs.map ρ else vs

/-- a value stored into a target declared `dt` is converted iff `dt` is REAL -/
def cv (ρ : R → R) (dt : DType) (v : R) : R := if dt == .real then ρ v else v

mutual
/-- `Sem.eval` with the conversion `ρ` applied to the arguments of every call whose C function has
    `double` parameters.  (Arithmetic, conditionals and comparisons never convert complex → real:
    C's usual arithmetic conversions widen.) -/
def evalG (ρ : R → R) (x : Extra R) (σ : St R) : Expr → R
  | .litF re im _ => x.ofRat re im
  | .litI v => IntCast.intCast v
  | .sym n dt =>
    if dt == .int then IntCast.intCast ((σ.iv.get n).getD 0)
    else (σ.sv.get n).getD (IntCast.intCast 0)
  | .mi s z gi => IntCast.intCast ((evalI σ.iv σ.ia (.mi s z gi)).getD 0)
  | .neg a => - evalG ρ x σ a
  | .not a => b2r (!(evalBG ρ x σ a))
  | .bin .add a b => evalG ρ x σ a + evalG ρ x σ b
  | .bin .sub a b => evalG ρ x σ a - evalG ρ x σ b
  | .bin .mul a b => evalG ρ x σ a * evalG ρ x σ b
  | .bin .div a b => evalG ρ x σ a / evalG ρ x σ b
  | .bin .lt a b => b2r (x.lt (evalG ρ x σ a) (evalG ρ x σ b))
  | .bin .le a b => b2r (x.le (evalG ρ x σ a) (evalG ρ x σ b))
  | .bin .gt a b => b2r (x.lt (evalG ρ x σ b) (evalG ρ x σ a))
  | .bin .ge a b => b2r (x.le (evalG ρ x σ b) (evalG ρ x σ a))
  | .bin .eq a b => b2r (x.eqb (evalG ρ x σ a) (evalG ρ x σ b))
  | .bin .ne a b => b2r (!(x.eqb (evalG ρ x σ a) (evalG ρ x σ b)))
  | .bin .and a b => b2r (evalBG ρ x σ a && evalBG ρ x σ b)
  | .bin .or a b => b2r (evalBG ρ x σ a || evalBG ρ x σ b)
  | .sum args => foldOp (· + ·) (IntCast.intCast 0) (evalLG ρ x σ args)
  | .prod args => foldOp (· * ·) (IntCast.intCast 1) (evalLG ρ x σ args)
  | .call f _ args => x.fn f (convArgs ρ (truncatesArgs f args) (evalLG ρ x σ args))
  | .idx arr dt ix =>
    if dt == .int then IntCast.intCast ((evalI σ.iv σ.ia (.idx arr dt ix)).getD 0)
    else readArr σ arr ((evalIs σ.iv σ.ia ix).getD [])
  | .cond c t f => if evalBG ρ x σ c then evalG ρ x σ t else evalG ρ x σ f

def evalBG (ρ : R → R) (x : Extra R) (σ : St R) : Expr → Bool
  | .not a => !(evalBG ρ x σ a)
  | .bin .and a b => evalBG ρ x σ a && evalBG ρ x σ b
  | .bin .or a b => evalBG ρ x σ a || evalBG ρ x σ b
  | .bin .lt a b => x.lt (evalG ρ x σ a) (evalG ρ x σ b)
  | .bin .le a b => x.le (evalG ρ x σ a) (evalG ρ x σ b)
  | .bin .gt a b => x.lt (evalG ρ x σ b) (evalG ρ x σ a)
  | .bin .ge a b => x.le (evalG ρ x σ b) (evalG ρ x σ a)
  | .bin .eq a b => x.eqb (evalG ρ x σ a) (evalG ρ x σ b)
  | .bin .ne a b => !(x.eqb (evalG ρ x σ a) (evalG ρ x σ b))
  | .sym n _ => !(x.eqb ((σ.sv.get n).getD (IntCast.intCast 0)) (IntCast.intCast 0))
  | _ => false

def evalLG (ρ : R → R) (x : Extra R) (σ : St R) : List Expr → List R
  | [] => []
  | e :: es => evalG ρ x σ e :: evalLG ρ x σ es
end

/-- `Sem.initData` with every initialiser converted to the declared dtype -/
def initDataG (ρ : R → R) (x : Extra R) (σ : St R) (dt : DType) (n : Nat) (vals : List Expr) :
    Array R :=
  let vs := ((evalLG ρ x σ vals).map (cv ρ dt)).toArray
  Array.ofFn (n := n) (fun i => vs.getD i.val (IntCast.intCast 0))

mutual
/-- `Sem.exec` with the conversion `ρ` applied wherever C converts to `double`:
    stores (`=`, `+=`, initialisation, array initialisers) into REAL-declared targets, and the
    arguments of functions with `double` parameters (`evalG`). -/
def execG (ρ : R → R) (x : Extra R) : Stmt → St R → Except Err (St R)
  | .assign lhs rhs, σ =>
    if safeE σ rhs then store x σ lhs (fun _ => cv ρ (lhsDt lhs) (evalG ρ x σ rhs))
    else .error (.oob "rhs")
  | .addAssign lhs rhs, σ =>
    if safeE σ rhs then store x σ lhs (fun old => cv ρ (lhsDt lhs) (old + evalG ρ x σ rhs))
    else .error (.oob "rhs")
  | .vdecl n dt v, σ =>
    if dt == .int then
      match evalI σ.iv σ.ia v with
      | some k => .ok (σ.setIV n k)
      | none => .error (.badIndex n)
    else if safeE σ v then
      .ok (σ.setSV n (if dt == .bool then b2r (evalBG ρ x σ v) else cv ρ dt (evalG ρ x σ v)))
    else .error (.oob n)
  | .adecl n dt sizes c vals, σ =>
    if dt == .int then .error (.unsupported "int array decl") else
    let total := sizes.foldr (· * ·) 1
    .ok (σ.setSA n { dims := sizes, data := initDataG ρ x σ dt total (vals.getD []), const := c })
  | .forRange i lo hi body, σ =>
    match evalI σ.iv σ.ia lo, evalI σ.iv σ.ia hi with
    | some l, some h => loopN (fun s => execLG ρ x body s) i l (h - l).toNat σ
    | _, _ => .error (.badIndex i)
  | .comment _, σ => .ok σ
  | .block ss, σ => execLG ρ x ss σ
  | .sect _ decls stmts _ _ _, σ =>
    match execLG ρ x decls σ with
    | .error e => .error e
    | .ok σ' => execLG ρ x stmts σ'

def execLG (ρ : R → R) (x : Extra R) : List Stmt → St R → Except Err (St R)
  | [], σ => .ok σ
  | s :: ss, σ =>
    match execG ρ x s σ with
    | .error e => .error e
    | .ok σ' => execLG ρ x ss σ'
end

end Sem

end Ffcx.LNodes
