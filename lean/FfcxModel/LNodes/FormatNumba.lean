/-
String-exact transcription of `ffcx/codegeneration/numba/formatter.py` (every
`@__call__.register` handler and `build_initializer_lists`), as the code is in the working tree.

Literals are printed with `f"{val.value}"` = `str(float)` / `str(complex)` / `str(int)`
(`reprFloat`, `strComplex`, `fmtInt` of FormatC.lean); array initialisers with `str(v)` of the
NumPy scalars, which for finite binary64 values is the same text.
-/
import FfcxModel.LNodes.FormatC

namespace Ffcx.LNodes.Fmt
open Ffcx.LNodes

/-- is `pat` a contiguous sublist of `s` (Python `pat in s`) -/
def isPrefixL : List Char → List Char → Bool
  | [], _ => true
  | _ :: _, [] => false
  | a :: as, b :: bs => a == b && isPrefixL as bs

def containsL (pat : List Char) : List Char → Bool
  | [] => pat.isEmpty
  | c :: cs => isPrefixL pat (c :: cs) || containsL pat cs

/-- `function_map.get(f, f)` -/
def pyMathName (f : String) : String :=
  (lookup f Generated.Precedence.numbaFunctionMap).getD f

/-- `Formatter._dtype_to_name` of the numba formatter; `none` = `ValueError`.
    -/
def pyTypeName (sc : Scalar) : DType → Option String
  | .scalar => some ("np." ++ sc.name)
  | .real => some ("np." ++ sc.real.name)
  | .int => some "np.int32"
  | .bool => some "np.bool_"
  | .none => none

/-- `str(complex)` as pieces: NUMBER tokens carry the `j` suffix -/
def pyComplexPieces (re im : Rat) : List Piece :=
  if re = 0 then numPieces (reprPart im ++ ['j'])
  else [pp .lpar] ++ numPieces (reprPart re) ++ (if im < 0 then [] else [pp .plus])
    ++ numPieces (reprPart im ++ ['j']) ++ [pp .rpar]

/-- `f"{val.value}"` of a literal -/
def pyNumber (e : Expr) : List Piece :=
  match e with
  | .litF re im true => pyComplexPieces re im
  | .litF re _ false => numPieces (reprFloat re)
  | .litI v => numPieces (fmtInt v)
  | _ => []

/-- a dotted name `np.sqrt` as pieces -/
def dotted (parts : List String) : List Piece :=
  joinP [pp .dot] (parts.map (fun s => [Piece.t (.id s)]))

/-- `isinstance(x, (EQ, NE, LT, GT, LE, GE))` -/
def isCmpNode : Expr → Bool
  | .bin op _ _ => op.isCompare
  | _ => false

def pyOpPieces : BinOp → List Piece
  | .and => [.t (.id "and")]
  | .or => [.t (.id "or")]
  | op => [pp (opTok op)]

mutual
/-- numba `Formatter.__call__` on expressions -/
def piecesPy : Expr → List Piece
  | .litF re im c => pyNumber (.litF re im c)
  | .litI v => pyNumber (.litI v)
  | .sym n _ => [.t (.id n)]
  | .mi _ _ gi => piecesPy gi
  | .neg a => pp .minus :: parenIf (decide (precF a ≥ 3)) (piecesPy a)
  | .not a => [pp .lpar, .t (.id "not"), sp, pp .lpar] ++ piecesPy a ++ [pp .rpar, pp .rpar]
  | .bin op a b =>
    parenIf (decide (precF a ≥ op.prec) || (op.isCompare && isCmpNode a)) (piecesPy a) ++ [sp] ++ pyOpPieces op ++ [sp]
      ++ parenIf (decide (precF b ≥ op.prec) || (op.isCompare && isCmpNode b)) (piecesPy b)
  | .sum args => joinP [sp, pp .plus, sp] (piecesNaryPy 5 args)
  | .prod args => joinP [sp, pp .star, sp] (piecesNaryPy 4 args)
  | .call f _ args =>
    let fn := pyMathName f
    if containsL "bessel_y".toList fn.toList then
      dotted ["scipy", "special", "yn"] ++ [pp .lpar] ++ joinP [pp .comma, sp] (piecesListPy args) ++ [pp .rpar]
    else if containsL "bessel_j".toList fn.toList then
      dotted ["scipy", "special", "jn"] ++ [pp .lpar] ++ joinP [pp .comma, sp] (piecesListPy args) ++ [pp .rpar]
    else if fn = "erf" then
      dotted ["math", "erf"] ++ [pp .lpar] ++ ((piecesListPy args).headD []) ++ [pp .rpar]
    else
      dotted ["np", fn] ++ [pp .lpar] ++ joinP [pp .comma, sp] (piecesListPy args) ++ [pp .rpar]
  | .idx arr _ ix =>
    .t (.id arr) :: pp .lbrack :: joinP [pp .comma, sp] (piecesListPy ix) ++ [pp .rbrack]
  | .cond c t f =>
    [pp .lpar] ++ parenIf (decide (precF t ≥ 13)) (piecesPy t) ++ [sp, .t (.id "if"), sp]
      ++ parenIf (decide (precF c ≥ 13)) (piecesPy c) ++ [sp, .t (.id "else"), sp]
      ++ parenIf (decide (precF f ≥ 13)) (piecesPy f) ++ [pp .rpar]
def piecesNaryPy (p : Nat) : List Expr → List (List Piece)
  | [] => []
  | a :: as => parenIf (decide (precF a ≥ p)) (piecesPy a) :: piecesNaryPy p as
def piecesListPy : List Expr → List (List Piece)
  | [] => []
  | a :: as => piecesPy a :: piecesListPy as
end

def fmtExprPy (e : Expr) : List Char := render (piecesPy e)
def tokExprPy (e : Expr) : List Tok := toks (piecesPy e)

/-- does the real formatter raise on this expression? (`math.erf` with no argument: `args[0]`) -/
def exprRaisesPy : Expr → Bool
  | .call f _ [] => pyMathName f == "erf"
  | _ => false

/-- `build_initializer_lists` -/
def initListPy : List Nat → List Expr → List Char
  | [], _ => ['[', ']']
  | [_], vals => ['['] ++ joinC [',', ' '] (vals.map (fun v => render (pyNumber v))) ++ [']']
  | d :: d' :: ds, vals =>
    let inner := (d' :: ds).foldr (· * ·) 1
    ['['] ++ joinC [',', '\n'] ((chunks inner d vals).map (initListPy (d' :: ds))) ++ [']']

/-- Python `repr` of a tuple of ints -/
def tupleRepr (ns : List Nat) : List Char :=
  match ns with
  | [] => ['(', ')']
  | [n] => ['('] ++ natDigits n ++ [',', ')']
  | _ => ['('] ++ joinC [',', ' '] (ns.map natDigits) ++ [')']

/-- `for line in body.split("\n"): output += f"    {line}\n"` (every line, also empty ones) -/
def indentAllLines (body : List Char) : List Char :=
  (splitLines [] body).flatMap (fun l => ' ' :: ' ' :: ' ' :: ' ' :: l ++ ['\n'])

/-- `_format_comment_str`: every line of the text becomes a comment line -/
def pyComment (t : List Char) : List Char :=
  (splitLines [] t).flatMap (fun l => ['#', ' '] ++ l ++ [' ', '\n'])

mutual
/-- numba `Formatter.__call__` on statements; `none` = the Python raises -/
def fmtStmtPy (sc : Scalar) : Stmt → Option (List Char)
  | .assign l r => some (fmtExprPy l ++ strL " = " ++ fmtExprPy r ++ ['\n'])
  | .addAssign l r => some (fmtExprPy l ++ strL " += " ++ fmtExprPy r ++ ['\n'])
  | .vdecl n _ v => some (strL n ++ strL " = " ++ fmtExprPy v ++ ['\n'])
  | .adecl n dt sizes _ vals =>
    match pyTypeName sc dt with
    | none => none
    | some ty =>
      match vals with
      | none => some (strL n ++ strL " = np.empty(" ++ tupleRepr sizes ++ strL ", dtype=" ++ strL ty ++ strL ")\n")
      | some [v] =>
        some (strL n ++ strL " = np.full(" ++ tupleRepr sizes ++ strL ", " ++ render (pyNumber v)
          ++ strL ", dtype=" ++ strL ty ++ strL ")\n")
      | some vs =>
        some (strL n ++ strL " = np.array(" ++ initListPy (initShape sizes vs) vs ++ strL ", dtype="
          ++ strL ty ++ strL ")\n")
  | .forRange i lo hi body =>
    match fmtStmtsPy sc body with
    | none => none
    | some b =>
      some (strL "for " ++ strL i ++ strL " in range(" ++ fmtExprPy lo ++ strL ", " ++ fmtExprPy hi
        ++ strL "):\n" ++ indentAllLines b
        ++ (if (splitLines [] b).all isBlankLine then strL "    pass\n" else []))
  | .comment t => some (pyComment (strL t))
  | .block ss => fmtStmtsPy sc ss
  | .sect name decls stmts inp out _ =>
    match fmtStmtsPy sc decls, fmtStmtsPy sc stmts with
    | some d, some b =>
      some (pyComment (strL "------------------------") ++ pyComment (strL "Section: " ++ strL name)
        ++ pyComment (strL "Inputs: " ++ commaNames inp) ++ pyComment (strL "Outputs: " ++ commaNames out)
        ++ d ++ b ++ pyComment (strL "------------------------"))
    | _, _ => none
def fmtStmtsPy (sc : Scalar) : List Stmt → Option (List Char)
  | [] => some []
  | s :: ss =>
    match fmtStmtPy sc s, fmtStmtsPy sc ss with
    | some a, some b => some (a ++ b)
    | _, _ => none
end

def initToksPy : List Nat → List Expr → List Tok
  | [], _ => [.p .lbrack, .p .rbrack]
  | [_], vals => [.p .lbrack] ++ joinT [.p .comma] (vals.map (fun v => toks (pyNumber v))) ++ [.p .rbrack]
  | d :: d' :: ds, vals =>
    let inner := (d' :: ds).foldr (· * ·) 1
    [.p .lbrack] ++ joinT [.p .comma] ((chunks inner d vals).map (initToksPy (d' :: ds))) ++ [.p .rbrack]

def tupleToks (ns : List Nat) : List Tok :=
  match ns with
  | [] => [.p .lpar, .p .rpar]
  | [n] => [.p .lpar, .num (String.ofList (natDigits n)), .p .comma, .p .rpar]
  | _ => [.p .lpar] ++ joinT [.p .comma] (ns.map (fun n => [Tok.num (String.ofList (natDigits n))])) ++ [.p .rpar]

/-- `dtype=np.float64` as tokens (valid names only; the INT/BOOL spellings are not Python and are
    lexed from the text instead) -/
def dtypeKwToks (ty : String) : List Tok :=
  [.id "dtype", .p .assign] ++ lexPyFlat ty.toList

mutual
/-- the token stream (with line structure) the numba formatter intends for a statement -/
def tokStmtPy (sc : Scalar) : Stmt → List Tok
  | .assign l r => tokExprPy l ++ [.p .assign] ++ tokExprPy r ++ [.newline]
  | .addAssign l r => tokExprPy l ++ [.p .plusAssign] ++ tokExprPy r ++ [.newline]
  | .vdecl n _ v => [.id n, .p .assign] ++ tokExprPy v ++ [.newline]
  | .adecl n dt sizes _ vals =>
    let ty := (pyTypeName sc dt).getD ""
    let hd := [Tok.id n, .p .assign, .id "np", .p .dot]
    match vals with
    | none => hd ++ [.id "empty", .p .lpar] ++ tupleToks sizes ++ [.p .comma] ++ dtypeKwToks ty ++ [.p .rpar, .newline]
    | some [v] => hd ++ [.id "full", .p .lpar] ++ tupleToks sizes ++ [.p .comma] ++ toks (pyNumber v)
        ++ [.p .comma] ++ dtypeKwToks ty ++ [.p .rpar, .newline]
    | some vs => hd ++ [.id "array", .p .lpar] ++ initToksPy (initShape sizes vs) vs ++ [.p .comma]
        ++ dtypeKwToks ty ++ [.p .rpar, .newline]
  | .forRange i lo hi body =>
    let b := tokStmtsPy sc body
    [.id "for", .id i, .id "in", .id "range", .p .lpar] ++ tokExprPy lo ++ [.p .comma] ++ tokExprPy hi
      ++ [.p .rpar, .p .colon, .newline]
      ++ (if b.isEmpty then [.indent, .id "pass", .newline, .dedent] else [.indent] ++ b ++ [.dedent])
  | .comment _ => []
  | .block ss => tokStmtsPy sc ss
  | .sect _ decls stmts _ _ _ => tokStmtsPy sc decls ++ tokStmtsPy sc stmts
def tokStmtsPy (sc : Scalar) : List Stmt → List Tok
  | [] => []
  | s :: ss => tokStmtPy sc s ++ tokStmtsPy sc ss
end

end Ffcx.LNodes.Fmt
