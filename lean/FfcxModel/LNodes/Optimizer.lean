/-
Transcription of `ffcx/codegeneration/optimizer.py` (optimize, fuse_sections, fuse_loops,
get_statements, check_dependency, licm) over the LNodes syntax, AS THE CODE IS.

Python exceptions are results (`PyErr`), raised in the order Python raises them.  What the
transcription relies on from `lnodes.py`:

* `==` of expression nodes (`pyEq`): structural, but `Symbol.__eq__` compares names only (dtype
  ignored), `ArrayAccess.__eq__` compares the array *symbol* (name) and the index tuple,
  `LiteralFloat.__eq__` compares values (`1.0 == (1+0j)`), `MathFunction.__eq__` ignores dtype.
  `MultiIndex` defines no `__eq__`: Python falls back to object identity.  Identity is not visible in
  the exported tree; the exporter (`harness/export_opt.py`) refuses inputs in which two distinct
  `MultiIndex` objects are structurally equal, so that structural comparison is identity here.
* `__hash__` (`hashable`): classes that define `__eq__` without `__hash__` are unhashable
  (LiteralFloat, Neg, Not, MathFunction, Conditional) — used as (part of) a dict key they raise
  TypeError.  Where `__hash__` exists it is consistent with `__eq__`, so dict grouping is grouping
  by `pyEq` in first-insertion order.
* `as_statement`: a `StatementList` with exactly one statement is replaced by that statement;
  any other `StatementList` is rejected with RuntimeError (it is an `LNode`, not a `Statement`).
  `Section.__init__` applies it to every statement, asserts that declarations are declarations and
  appends the declared symbols missing from `output`.
* `depth`: `max([])` of an empty `StatementList` raises ValueError.
* loop indices are `Symbol(name, INT)` (checked by the exporter), loop bounds used by `licm`
  (`.value`) are Python ints.
-/
import FfcxModel.LNodes.Syntax

namespace Ffcx.LNodes.Opt
open Ffcx.LNodes

inductive PyErr where
  | attributeError | indexError | valueError | assertionError | notImplementedError
  | typeError | runtimeError
  /-- the real result exists but has no representation in `Stmt` (negative array size) -/
  | unrepresentable
  deriving DecidableEq, Repr, Inhabited

def PyErr.name : PyErr → String
  | .attributeError => "AttributeError" | .indexError => "IndexError" | .valueError => "ValueError"
  | .assertionError => "AssertionError" | .notImplementedError => "NotImplementedError"
  | .typeError => "TypeError" | .runtimeError => "RuntimeError" | .unrepresentable => "Unrepresentable"

abbrev M := Except PyErr

/-! ## `__eq__` / `__hash__` of expression nodes -/

mutual
/-- Python `a == b` on LNodes expressions -/
def pyEq : Expr → Expr → Bool
  | .litF r i _, .litF r' i' _ => r == r' && i == i'
  | .litI v, .litI w => v == w
  | .sym n _, .sym m _ => n == m
  | .mi s z g, .mi s' z' g' => pyEqL s s' && z == z' && pyEq g g'
  | .neg a, .neg b => pyEq a b
  | .not a, .not b => pyEq a b
  | .bin o a b, .bin o' a' b' => o == o' && pyEq a a' && pyEq b b'
  | .sum as, .sum bs => pyEqL as bs
  | .prod as, .prod bs => pyEqL as bs
  | .call f _ as, .call g _ bs => f == g && pyEqL as bs
  | .idx a _ ix, .idx b _ jx => a == b && pyEqL ix jx
  | .cond c t f, .cond c' t' f' => pyEq c c' && pyEq t t' && pyEq f f'
  | _, _ => false
def pyEqL : List Expr → List Expr → Bool
  | [], [] => true
  | a :: as, b :: bs => pyEq a b && pyEqL as bs
  | _, _ => false
end

mutual
/-- `hash(e)` does not raise TypeError -/
def hashable : Expr → Bool
  | .litF .. => false
  | .litI _ | .sym .. | .mi .. | .idx .. => true
  | .neg _ | .not _ | .call .. | .cond .. => false
  | .bin _ a b => hashable a && hashable b
  | .sum as | .prod as => hashableL as
def hashableL : List Expr → Bool
  | [] => true
  | a :: as => hashable a && hashableL as
end

/-! ## `as_statement`, `Section.__init__` -/

def asStatement : Stmt → M Stmt
  | .block [s] => .ok s
  | .block _ => .error .runtimeError
  | s => .ok s

def asStatements : List Stmt → M (List Stmt)
  | [] => .ok []
  | s :: ss => do
    let s' ← asStatement s
    let ss' ← asStatements ss
    pure (s' :: ss')

def isDecl : Stmt → Bool
  | .vdecl .. | .adecl .. => true
  | _ => false

def declName : Stmt → String
  | .vdecl n .. => n
  | .adecl n .. => n
  | _ => ""

/-- `for decl in declarations: assert is_declaration(decl); if decl.symbol not in output: append` -/
def addDeclOutputs (out : List String) : List Stmt → M (List String)
  | [] => .ok out
  | d :: ds =>
    if isDecl d then
      addDeclOutputs (if out.contains (declName d) then out else out ++ [declName d]) ds
    else .error .assertionError

/-- `L.Section(name, statements, declarations, input, output, annotations)` -/
def mkSection (name : String) (stmts decls : List Stmt) (inp out ann : List String) : M Stmt := do
  let stmts' ← asStatements stmts
  let out' ← addDeclOutputs out decls
  pure (.sect name decls stmts' inp out' ann)

/-! ## `fuse_sections` -/

def isNamed (name : String) : Stmt → Bool
  | .sect n .. => n == name
  | _ => false

def sDecls : Stmt → List Stmt
  | .sect _ d _ _ _ _ => d
  | _ => []
def sStmts : Stmt → List Stmt
  | .sect _ _ s _ _ _ => s
  | _ => []
def sInp : Stmt → List String
  | .sect _ _ _ i _ _ => i
  | _ => []
def sOut : Stmt → List String
  | .sect _ _ _ _ o _ => o
  | _ => []
def sAnn : Stmt → List String
  | .sect _ _ _ _ _ a => a
  | _ => []

/-- `list(dict.fromkeys(xs))`: first occurrences, in order -/
def dedup : List String → List String
  | [] => []
  | x :: xs => x :: (dedup xs).filter (· != x)

/-- `code[indices[0]] = section; code = [c for i, c in enumerate(code) if i not in indices[1:]]` -/
def replaceFirst (p : Stmt → Bool) (f : Stmt) : List Stmt → List Stmt
  | [] => []
  | s :: r => if p s then f :: r.filter (fun t => !p t) else s :: replaceFirst p f r

def lastAnn : List Stmt → List String
  | [] => []
  | [s] => sAnn s
  | _ :: r => lastAnn r

def fuseSections (code : List Stmt) (name : String) : M (List Stmt) := do
  let secs := code.filter (isNamed name)
  let fused ← mkSection name (secs.flatMap sStmts) (secs.flatMap sDecls)
    (dedup (secs.flatMap sInp)) (dedup (secs.flatMap sOut)) (lastAnn secs)
  pure (replaceFirst (isNamed name) fused code)

/-! ## `fuse_loops` -/

/-- dict key `(statement.index, statement.begin, statement.end)` -/
abbrev LoopKey := String × Expr × Expr

def keyEq (a b : LoopKey) : Bool := a.1 == b.1 && pyEq a.2.1 b.2.1 && pyEq a.2.2 b.2.2

/-- `loops[id].append(body)` on an insertion-ordered dict -/
def insertLoop (k : LoopKey) (body : List Stmt) :
    List (LoopKey × List (List Stmt)) → List (LoopKey × List (List Stmt))
  | [] => [(k, [body])]
  | (k', bs) :: r => if keyEq k' k then (k', bs ++ [body]) :: r else (k', bs) :: insertLoop k body r

/-- first loop of `fuse_loops`: non-loop statements in order, loop bodies grouped by key -/
def splitLoops : List Stmt → List Stmt → List (LoopKey × List (List Stmt)) →
    M (List Stmt × List (LoopKey × List (List Stmt)))
  | [], out, loops => .ok (out, loops)
  | .forRange i lo hi body :: r, out, loops =>
    if hashable lo && hashable hi then splitLoops r out (insertLoop (i, lo, hi) body loops)
    else .error .typeError
  | s :: r, out, loops => splitLoops r (out ++ [s]) loops

/-- `StatementList(bodies)`: every body is itself a `StatementList` and goes through `as_statement` -/
def fuseBodies : List (List Stmt) → M (List Stmt)
  | [] => .ok []
  | b :: bs => do
    let s ← asStatement (.block b)
    let r ← fuseBodies bs
    pure (s :: r)

def buildLoops : List (LoopKey × List (List Stmt)) → M (List Stmt)
  | [] => .ok []
  | ((i, lo, hi), bodies) :: r => do
    let body ← fuseBodies bodies
    let rest ← buildLoops r
    pure (.forRange i lo hi body :: rest)

def fuseLoops : Stmt → M Stmt
  | .sect name decls stmts inp out _ => do
    let (nonloops, loops) ← splitLoops stmts [] []
    let fused ← buildLoops loops
    mkSection name (nonloops ++ fused) decls inp out []
  | _ => .error .attributeError

/-! ## `depth`, `get_statements`, `check_dependency` -/

def maxOrErr : List Nat → M Nat
  | [] => .error .valueError
  | d :: ds => .ok (ds.foldl max d)

mutual
def depth : Stmt → M Nat
  | .forRange _ _ _ body => do
    let ds ← depthL body
    let m ← maxOrErr ds
    pure (1 + m)
  | .block ss => do
    let ds ← depthL ss
    maxOrErr ds
  | _ => .ok 0
def depthL : List Stmt → M (List Nat)
  | [] => .ok []
  | s :: ss => do
    let d ← depth s
    let ds ← depthL ss
    pure (d :: ds)
end

/-- `statement.expr` -/
def exprOf : Stmt → M Stmt
  | .assign l r => .ok (.assign l r)
  | .addAssign l r => .ok (.addAssign l r)
  | _ => .error .attributeError

def exprsOf : List Stmt → M (List Stmt)
  | [] => .ok []
  | s :: ss => do
    let e ← exprOf s
    let es ← exprsOf ss
    pure (e :: es)

def getStatements : Stmt → M (List Stmt)
  | .block ss => exprsOf ss
  | s => do
    let e ← exprOf s
    pure [e]

def isSymNamed (n : String) : Expr → Bool
  | .sym m _ => m == n
  | _ => false

/-- `isinstance(i, Sum | Product) and index in i.args` -/
def naryHas (n : String) : Expr → Bool
  | .sum args | .prod args => args.any (isSymNamed n)
  | _ => false

def checkDependency (e : Expr) (index : String) : M Bool :=
  match e with
  | .idx _ _ ix => .ok (ix.any (isSymNamed index) || ix.any (naryHas index))
  | .sym .. | .litF .. | .litI .. => .ok false
  | _ => .error .notImplementedError

/-! ## `licm` -/

/-- one `lhs += Product(args)` of the inner loop -/
structure Entry where
  lhs : Expr
  args : List Expr
  deriving Inhabited

/-- the three `assert isinstance` of the collection loop -/
def toEntry : Stmt → M Entry
  | .addAssign l (.prod args) =>
    match l with
    | .idx .. => .ok ⟨l, args⟩
    | _ => .error .assertionError
  | _ => .error .assertionError

def toEntries : List Stmt → M (List Entry)
  | [] => .ok []
  | s :: ss => do
    let e ← toEntry s
    let es ← toEntries ss
    pure (e :: es)

/-- `for body in inner_loop.body.statements: …` — all entries in traversal order -/
def collect : List Stmt → M (List Entry)
  | [] => .ok []
  | b :: bs => do
    let sts ← getStatements b
    let es ← toEntries sts
    let rest ← collect bs
    pure (es ++ rest)

/-- keys of `expressions` in insertion order -/
def groupKeys : List Expr → List Expr
  | [] => []
  | k :: ks => k :: (groupKeys ks).filter (fun k' => !pyEq k k')

def number {α} (start : Nat) : List α → List (Nat × α)
  | [] => []
  | a :: as => (start, a) :: number (start + 1) as

/-- iteration order of `for lhs, rhs in expressions.items(): for r in rhs:` over numbered entries -/
def processingOrder (es : List (Nat × Entry)) : List (Nat × Entry) :=
  (groupKeys (es.map (·.2.lhs))).flatMap (fun k => es.filter (fun e => pyEq k e.2.lhs))

/-- `[arg for arg in args if not check_dependency(arg, index)]` -/
def hoistCandidates (index : String) : List Expr → M (List Expr)
  | [] => .ok []
  | a :: as => do
    let d ← checkDependency a index
    let r ← hoistCandidates index as
    pure (if d then r else a :: r)

/-- `args.remove(h)`: drop the first element `== h` -/
def removeFirst (h : Expr) : List Expr → List Expr
  | [] => []
  | a :: as => if pyEq a h then as else a :: removeFirst h as

def removeAll (args : List Expr) : List Expr → List Expr
  | [] => args
  | h :: hs => removeAll (removeFirst h args) hs

/-- `outer_loop.end.value - outer_loop.begin.value` followed by `ArrayDecl(temp, size, [0])` -/
def tempSize (lo hi : Expr) : M Nat :=
  match hi, lo with
  | .litI h, .litI l => if h - l < 0 then .error .unrepresentable else .ok (h - l).toNat
  | .litI _, .litF .. | .litF .., .litI _ | .litF .., .litF .. => .error .typeError
  | _, _ => .error .attributeError

structure HoistState where
  counter : Nat := 0
  pre : List Stmt := []
  /-- entry number ↦ new argument list -/
  upd : List (Nat × List Expr) := []

def tempName (k : Nat) : String := "temp_" ++ toString k

def hoistOne (outerIdx innerIdx : String) (lo hi : Expr) (st : HoistState) (pe : Nat × Entry) :
    M HoistState := do
  let cands ← hoistCandidates innerIdx pe.2.args
  if cands.length > 1 then
    let temp := tempName st.counter
    let access := Expr.idx temp .scalar [.sym outerIdx .int]
    let newArgs := removeAll pe.2.args cands ++ [access]
    let size ← tempSize lo hi
    pure { counter := st.counter + 1
           pre := st.pre ++ [.adecl temp .scalar [size] false (some [.litI 0]),
                             .forRange outerIdx lo hi [.assign access (.prod cands)]]
           upd := st.upd ++ [(pe.1, newArgs)] }
  else pure st

def hoistAll (outerIdx innerIdx : String) (lo hi : Expr) :
    HoistState → List (Nat × Entry) → M HoistState
  | st, [] => .ok st
  | st, pe :: r => do
    let st' ← hoistOne outerIdx innerIdx lo hi st pe
    hoistAll outerIdx innerIdx lo hi st' r

def lookupUpd (upd : List (Nat × List Expr)) (k : Nat) : Option (List Expr) :=
  match upd with
  | [] => none
  | (j, a) :: r => if j == k then some a else lookupUpd r k

/-- the in-place mutation `r.args = …` seen from the statement that owns product number `k` -/
def rebuildOne (upd : List (Nat × List Expr)) (k : Nat) : Stmt → Stmt
  | .addAssign l (.prod args) => .addAssign l (.prod ((lookupUpd upd k).getD args))
  | s => s

def rebuildFlat (upd : List (Nat × List Expr)) : Nat → List Stmt → List Stmt
  | _, [] => []
  | k, s :: ss => rebuildOne upd k s :: rebuildFlat upd (k + 1) ss

def rebuildBody (upd : List (Nat × List Expr)) : Nat → List Stmt → List Stmt
  | _, [] => []
  | k, .block ss :: bs => .block (rebuildFlat upd k ss) :: rebuildBody upd (k + ss.length) bs
  | k, s :: bs => rebuildOne upd k s :: rebuildBody upd (k + 1) bs

def licm : Stmt → M Stmt
  | .sect name decls stmts inp out ann =>
    if !ann.contains "licm" then .error .assertionError else
    match stmts with
    | [] => .error .indexError
    | first :: restStmts => do
      let d ← depth first
      if d != 2 then pure (.sect name decls stmts inp out ann) else
      match first with
      | .forRange o lo hi (inner :: restOuter) =>
        match inner with
        | .forRange n lo2 hi2 body => do
          let es ← collect body
          let st ← hoistAll o n lo hi {} (processingOrder (number 0 es))
          let body' := rebuildBody st.upd 0 body
          pure (.sect name decls
            (st.pre ++ .forRange o lo hi (.forRange n lo2 hi2 body' :: restOuter) :: restStmts)
            inp out ann)
        | _ => .error .attributeError
      | _ => .error .attributeError
  | _ => .error .attributeError

/-! ## `optimize` -/

def optimizeSection : Stmt → M Stmt
  | .sect name decls stmts inp out ann => do
    let s ← if ann.contains "fuse" then fuseLoops (.sect name decls stmts inp out ann)
            else pure (.sect name decls stmts inp out ann)
    if (sAnn s).contains "licm" then licm s else pure s
  | s => .ok s

def optimizeSections : List Stmt → M (List Stmt)
  | [] => .ok []
  | s :: ss => do
    let s' ← optimizeSection s
    let ss' ← optimizeSections ss
    pure (s' :: ss')

def optimize (code : List Stmt) : M (List Stmt) := do
  let code ← fuseSections code "Coefficient"
  let code ← fuseSections code "Jacobian"
  optimizeSections code

end Ffcx.LNodes.Opt
