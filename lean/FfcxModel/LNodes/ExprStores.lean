/-
C04: the subscripts of the stores into `A` of an expression kernel, as emitted by
`ExpressionGenerator.generate_block_parts` (ffcx/codegeneration/expression_generator.py):

    A_shape     = [num_points, components] + tensor_shape
    multi_index = L.MultiIndex([iq, fi_ci[1]] + A_indices[1:], A_shape)      -- fi_ci[1]: a Python int
    L.AssignAdd(A[multi_index], …)

`exprStoreOK shape lhs` (decidable) says that the lvalue `lhs` is `A[MultiIndex(syms, shape)]` with
`syms = [iq, <component literal c, 0 ≤ c < C>]` (rank 0) or `[iq, c, <dof expression not mentioning iq>]`
(rank 1), built exactly as `lnodes.MultiIndex` builds it (`mkMultiIndex`, the model of
`MultiIndex.__init__` incl. its `global_index`).  `exprStoresB shape k`: EVERY store into `A` of kernel
`k` has that form (run by the driver on every expression kernel with `shape = Ffcx.Layout.exprAShape`).

Theorems `Ffcx.LNodes.expr_store_slot`, `expr_store_slot_rank0` (FfcxProofs/C04.lean): such a store
addresses slot `iq·C·D + c·D + dof` of `A` — the layout of `Ffcx.Layout.expr_layout`.  CORE LEAN ONLY.
-/
import FfcxModel.LNodes.Simplify
import FfcxModel.LNodes.Static

namespace Ffcx.LNodes

mutual
/-- structural equality of expression trees (the derived `BEq Expr` comes without a soundness proof;
this one has `eqE_sound` in FfcxProofs/C04.lean) -/
def eqE : Expr → Expr → Bool
  | .litF r i c, .litF r' i' c' => decide (r = r') && decide (i = i') && decide (c = c')
  | .litI v, .litI v' => decide (v = v')
  | .sym n d, .sym n' d' => decide (n = n') && decide (d = d')
  | .mi s z g, .mi s' z' g' => eqL s s' && decide (z = z') && eqE g g'
  | .neg a, .neg b => eqE a b
  | .not a, .not b => eqE a b
  | .bin o a b, .bin o' a' b' => decide (o = o') && eqE a a' && eqE b b'
  | .sum a, .sum b => eqL a b
  | .prod a, .prod b => eqL a b
  | .call f d a, .call f' d' a' => decide (f = f') && decide (d = d') && eqL a a'
  | .idx n d a, .idx n' d' a' => decide (n = n') && decide (d = d') && eqL a a'
  | .cond c t f, .cond c' t' f' => eqE c c' && eqE t t' && eqE f f'
  | _, _ => false
def eqL : List Expr → List Expr → Bool
  | [], [] => true
  | a :: as, b :: bs => eqE a b && eqL as bs
  | _, _ => false
end

/-- the quadrature-point loop index `symbols.quadrature_loop_index` -/
def iqSym : Expr := .sym "iq" .int

/-- one lvalue: `A[MultiIndex([iq, c(, dof)], shape)]` -/
def exprStoreOK (shape : List Nat) (lhs : Expr) : Bool :=
  match lhs with
  | .idx arr _ [.mi [s0, .litI c] sizes gi] =>
    decide (arr = "A") && decide (shape.length = 2)
      && decide (0 ≤ c) && decide (c.toNat < shape.getD 1 0)
      && eqE (.mi [s0, .litI c] sizes gi) (mkMultiIndex [.ex iqSym, .py c] shape)
  | .idx arr _ [.mi [s0, .litI c, dofE] sizes gi] =>
    decide (arr = "A") && decide (shape.length = 3)
      && decide (0 ≤ c) && decide (c.toNat < shape.getD 1 0) && !mentionsE "iq" dofE
      && eqE (.mi [s0, .litI c, dofE] sizes gi) (mkMultiIndex [.ex iqSym, .py c, .ex dofE] shape)
  | _ => false

/-- is `lhs` a store into `A` at all -/
def storesToA : Expr → Bool
  | .idx arr _ _ => arr == "A"
  | .sym n _ => n == "A"
  | _ => false

mutual
/-- every store into `A` has the expression-kernel form -/
def exprStoresB (shape : List Nat) : Stmt → Bool
  | .assign l _ | .addAssign l _ => !storesToA l || exprStoreOK shape l
  | .vdecl m _ _ => m != "A"
  | .adecl m _ _ _ _ => m != "A"
  | .forRange _ _ _ body => exprStoresBL shape body
  | .comment _ => true
  | .block ss => exprStoresBL shape ss
  | .sect _ decls stmts _ _ _ => exprStoresBL shape decls && exprStoresBL shape stmts
def exprStoresBL (shape : List Nat) : List Stmt → Bool
  | [] => true
  | s :: ss => exprStoresB shape s && exprStoresBL shape ss
end

mutual
/-- all lvalues of stores into `A`, in program order -/
def storesA : Stmt → List Expr
  | .assign l _ | .addAssign l _ => if storesToA l then [l] else []
  | .vdecl .. | .adecl .. | .comment _ => []
  | .forRange _ _ _ body => storesAL body
  | .block ss => storesAL ss
  | .sect _ decls stmts _ _ _ => storesAL decls ++ storesAL stmts
def storesAL : List Stmt → List Expr
  | [] => []
  | s :: ss => storesA s ++ storesAL ss
end

end Ffcx.LNodes
