/-
A parser for the fragment of the C17 grammar (§6.5) the C formatter can reach, written from the
standard: primary / postfix (call, one subscript per `[]`), unary `- !`, multiplicative,
additive, relational, equality, `&&`, `||`, conditional `?:` (right associative; the middle
operand is a full expression).  Precedence climbing, fuel-indexed, total.
Statement forms: expression statements `lhs = rhs;` / `lhs += rhs;`, declarations with optional
array dimensions and (nested brace) initialisers, compound statements, and `for` loops of the
shape `for (int i = lo; i < hi; ++i) { … }`.

Also here: the parse-tree type `PT`/`PS` shared with the Python parser, the normal form `norm`
(n-ary Sum/Product → left-nested binary as C evaluates the text left to right; negative literal
→ `Neg` of the positive literal, which is how the lexer sees `-2.0`; complex literal → `re + I*im`;
MultiIndex → its `global_index`), the erasure `eraseC : Expr → PT` (drops dtypes, maps math
function names through `math_table`, prints literals) and the well-formedness predicates.
-/
import FfcxModel.LNodes.FormatC

namespace Ffcx.LNodes.Fmt
open Ffcx.LNodes

inductive UOp where
  | neg | not
  deriving DecidableEq, Repr, Inhabited

/-- parse trees of expressions (C and Python) -/
inductive PT where
  /-- numeric literal token, by its text -/
  | num (s : String)
  /-- identifier (Python: dotted name `np.sqrt`) -/
  | id (s : String)
  | call (f : String) (args : List PT)
  /-- subscription: C one node per `[]` (`ix` a singleton), Python one node with all subscripts -/
  | idx (a : PT) (ix : List PT)
  | un (op : UOp) (a : PT)
  | bin (op : BinOp) (a b : PT)
  | cond (c t f : PT)
  /-- Python comparison chain with at least two operators: `a < b == c` -/
  | chain (first : PT) (rest : List (BinOp × PT))
  /-- Python keyword argument -/
  | kw (name : String) (v : PT)
  | tuple (xs : List PT)
  | list (xs : List PT)
  deriving Repr, Inhabited, BEq

/-- initialisers -/
inductive PInit where
  | e (x : PT)
  | braces (xs : List PInit)
  deriving Repr, Inhabited, BEq

/-- parse trees of statements -/
inductive PS where
  /-- `lhs = rhs` (`add = false`) or `lhs += rhs` -/
  | assign (add : Bool) (lhs rhs : PT)
  /-- declaration: the identifiers before the declared name (`static const double`), the name,
      the array dimensions, the initialiser -/
  | decl (quals : List String) (name : String) (dims : List PT) (init : Option PInit)
  /-- `for (int i = lo; i < hi; ++i) {body}` / `for i in range(lo, hi): body` -/
  | loop (i : String) (lo hi : PT) (body : List PS)
  | block (body : List PS)
  deriving Repr, Inhabited, BEq

/-! ## C expressions -/

/-- binary operators of C with their grammar level (larger binds tighter):
    `||` 2, `&&` 3, equality 7, relational 8, additive 10, multiplicative 11
    (conditional is 1, unary 12, postfix 13, primary 14) -/
def cBinLevel : P → Option (BinOp × Nat)
  | .star => some (.mul, 11) | .slash => some (.div, 11)
  | .plus => some (.add, 10) | .minus => some (.sub, 10)
  | .lt => some (.lt, 8) | .gt => some (.gt, 8) | .le => some (.le, 8) | .ge => some (.ge, 8)
  | .eqeq => some (.eq, 7) | .ne => some (.ne, 7)
  | .andand => some (.and, 3) | .oror => some (.or, 2)
  | _ => none

/-- binary operator token → (operator, level) -/
def binOf : Tok → Option (BinOp × Nat)
  | .p o => cBinLevel o
  | _ => none

/-- primary expressions that are single tokens -/
def atomOf : Tok → Option PT
  | .num s => some (.num s)
  | .id s => some (.id s)
  | _ => none

/-- a function designator: an identifier -/
def nameOf : PT → Option String
  | .id s => some s
  | _ => none

/- The parser functions below are written with non-overlapping matches and `if t = tok` tests
   only, so that they unfold predictably in the proofs of FfcxProofs/Lemmas/FormatParse.lean. -/
mutual
/-- conditional-expression: `logical-OR-expression [? expression : conditional-expression]` -/
def parseCond : Nat → List Tok → Option (PT × List Tok)
  | 0, _ => none
  | f + 1, ts =>
    match parseBin f 2 ts with
    | none => none
    | some (c, r) =>
      match r with
      | [] => some (c, [])
      | t :: r1 =>
        if t = .p .quest then
          match parseCond f r1 with
          | none => none
          | some (tt, r2) =>
            match r2 with
            | [] => none
            | t2 :: r3 =>
              if t2 = .p .colon then
                match parseCond f r3 with
                | none => none
                | some (e, r4) => some (.cond c tt e, r4)
              else none
        else some (c, t :: r1)
/-- binary expression whose operators all have level ≥ `m` -/
def parseBin : Nat → Nat → List Tok → Option (PT × List Tok)
  | 0, _, _ => none
  | f + 1, m, ts =>
    match parseUnary f ts with
    | none => none
    | some (l, r) => loopBin f m l r
/-- continue a binary expression with left operand `l` (left associative: the right operand
    is parsed one level tighter) -/
def loopBin : Nat → Nat → PT → List Tok → Option (PT × List Tok)
  | 0, _, _, _ => none
  | f + 1, m, l, ts =>
    match ts with
    | [] => some (l, [])
    | t :: r =>
      match binOf t with
      | none => some (l, t :: r)
      | some (op, lv) =>
        if m ≤ lv then
          match parseBin f (lv + 1) r with
          | none => none
          | some (rhs, r') => loopBin f m (.bin op l rhs) r'
        else some (l, t :: r)
/-- unary-expression (no casts, no `++ -- & * + ~ sizeof`) over postfix-expression -/
def parseUnary : Nat → List Tok → Option (PT × List Tok)
  | 0, _ => none
  | f + 1, ts =>
    match ts with
    | [] => none
    | t :: r =>
      if t = .p .minus then
        match parseUnary f r with
        | none => none
        | some (a, r') => some (.un .neg a, r')
      else if t = .p .bang then
        match parseUnary f r with
        | none => none
        | some (a, r') => some (.un .not a, r')
      else if t = .p .lpar then
        match parseCond f r with
        | none => none
        | some (e, r1) =>
          match r1 with
          | [] => none
          | t1 :: r2 => if t1 = .p .rpar then parsePost f e r2 else none
      else
        match atomOf t with
        | none => none
        | some b => parsePost f b r
/-- postfix operators applied to `base`: `[expr]`, and `(args)` after an identifier -/
def parsePost : Nat → PT → List Tok → Option (PT × List Tok)
  | 0, _, _ => none
  | f + 1, base, ts =>
    match ts with
    | [] => some (base, [])
    | t :: r =>
      if t = .p .lbrack then
        match parseCond f r with
        | none => none
        | some (i, r1) =>
          match r1 with
          | [] => none
          | t1 :: r2 => if t1 = .p .rbrack then parsePost f (.idx base [i]) r2 else none
      else if t = .p .lpar then
        match nameOf base with
        | none => none
        | some name =>
          match r with
          | [] => none
          | t1 :: r1 =>
            if t1 = .p .rpar then parsePost f (.call name []) r1
            else
              match parseArgs f r with
              | none => none
              | some (args, r') => parsePost f (.call name args) r'
      else some (base, t :: r)
/-- argument-expression-list followed by `)` -/
def parseArgs : Nat → List Tok → Option (List PT × List Tok)
  | 0, _ => none
  | f + 1, ts =>
    match parseCond f ts with
    | none => none
    | some (e, r) =>
      match r with
      | [] => none
      | t :: r1 =>
        if t = .p .comma then
          match parseArgs f r1 with
          | none => none
          | some (es, r') => some (e :: es, r')
        else if t = .p .rpar then some ([e], r1)
        else none
end

/-- fuel that always suffices for the formatter's output (see `roundtrip_C`) -/
def fuelFor (ts : List Tok) : Nat := 8 * ts.length + 8

/-- parse a complete C expression -/
def parseExprC (ts : List Tok) : Option PT :=
  match parseCond (fuelFor ts) ts with
  | some (e, []) => some e
  | _ => none

/-! ## C statements -/

def cTypeWords : List String :=
  ["static", "const", "double", "float", "int", "bool", "long", "_Complex", "unsigned", "signed",
   "short", "char", "void", "_Bool"]

def cKeywords : List String :=
  cTypeWords ++ ["for", "if", "else", "while", "do", "return", "switch", "case", "break",
    "continue", "goto", "sizeof", "struct", "union", "enum", "typedef", "extern", "register",
    "volatile", "restrict", "inline", "auto", "default"]

/-- leading identifiers of a declaration: `quals… name` -/
def takeIds : List Tok → List String × List Tok
  | .id s :: r => let (a, b) := takeIds r; (s :: a, b)
  | ts => ([], ts)

/-- array dimensions `[n][m]…` (constant expressions: number tokens here) -/
def parseDims : List Tok → List PT × List Tok
  | .p .lbrack :: .num s :: .p .rbrack :: r => let (a, b) := parseDims r; (.num s :: a, b)
  | ts => ([], ts)

mutual
def parseInit : Nat → List Tok → Option (PInit × List Tok)
  | 0, _ => none
  | f + 1, ts =>
    if ts.head? = some (.p .lbrace) then
      if ts.tail.head? = some (.p .rbrace) then some (.braces [], ts.tail.tail)
      else
        match parseInits f ts.tail with
        | some (xs, r') => some (.braces xs, r')
        | none => none
    else
      match parseCond (fuelFor ts) ts with
      | some (e, r) => some (.e e, r)
      | none => none
/-- initializer-list followed by `}` -/
def parseInits : Nat → List Tok → Option (List PInit × List Tok)
  | 0, _ => none
  | f + 1, ts =>
    match parseInit f ts with
    | none => none
    | some (x, r) =>
      if r.head? = some (.p .comma) then
        match parseInits f r.tail with
        | some (xs, r') => some (x :: xs, r')
        | none => none
      else if r.head? = some (.p .rbrace) then some ([x], r.tail)
      else none
end

/-- does the token list start a declaration (`specifier… name`)? -/
def isDeclStart : List Tok → Bool
  | .id _ :: .id _ :: _ => true
  | _ => false

/-- expression statement: `unary-expression (= | +=) conditional-expression ;` -/
def parseAssignC (ts : List Tok) : Option (PS × List Tok) :=
  match parseUnary (fuelFor ts) ts with
  | none => none
  | some (lhs, r) =>
    match r with
    | [] => none
    | t :: r1 =>
      if t = .p .assign ∨ t = .p .plusAssign then
        match parseCond (fuelFor r1) r1 with
        | none => none
        | some (rhs, r2) =>
          match r2 with
          | [] => none
          | t2 :: r3 => if t2 = .p .semi then some (.assign (decide (t = .p .plusAssign)) lhs rhs, r3) else none
      else none

/-- declaration: specifiers/qualifiers, declarator with constant dimensions, optional initialiser -/
def parseDeclC (f : Nat) (ts : List Tok) : Option (PS × List Tok) :=
  let names := (takeIds ts).1
  let r1 := (takeIds ts).2
  let name := names.getLast?.getD ""
  let quals := names.dropLast
  if quals.all (fun q => cTypeWords.contains q) && !cKeywords.contains name then
    let dims := (parseDims r1).1
    let r2 := (parseDims r1).2
    if r2.head? = some (.p .semi) then some (.decl quals name dims none, r2.tail)
    else if r2.head? = some (.p .assign) then
      match parseInit f r2.tail with
      | none => none
      | some (x, r4) =>
        if r4.head? = some (.p .semi) then some (.decl quals name dims (some x), r4.tail) else none
    else none
  else none

/-- `( int i = lo ; i < hi ; ++ i ) {` after the keyword `for`: index, bounds, rest -/
def parseForHeadC (ts : List Tok) : Option (String × PT × PT × List Tok) :=
  match ts with
  | .p .lpar :: .id "int" :: .id i :: .p .assign :: r =>
    match parseCond (fuelFor r) r with
    | some (lo, .p .semi :: .id i2 :: .p .lt :: r2) =>
      match parseCond (fuelFor r2) r2 with
      | some (hi, .p .semi :: .p .incr :: .id i3 :: .p .rpar :: .p .lbrace :: r3) =>
        if i2 = i ∧ i3 = i then some (i, lo, hi, r3) else none
      | _ => none
    | _ => none
  | _ => none

mutual
def parseStmtC : Nat → List Tok → Option (PS × List Tok)
  | 0, _ => none
  | f + 1, ts =>
    match ts with
    | [] => none
    | t :: r =>
      if t = .p .lbrace then
        match parseStmtsC f r with
        | some (ss, .p .rbrace :: r') => some (.block ss, r')
        | _ => none
      else if t = .id "for" then
        match parseForHeadC r with
        | none => none
        | some (i, lo, hi, r3) =>
          match parseStmtsC f r3 with
          | some (body, .p .rbrace :: r4) => some (.loop i lo hi body, r4)
          | _ => none
      else if isDeclStart (t :: r) then parseDeclC f (t :: r)
      else parseAssignC (t :: r)
/-- block-item-list up to (not including) `}` or the end -/
def parseStmtsC : Nat → List Tok → Option (List PS × List Tok)
  | 0, _ => none
  | f + 1, ts =>
    match ts with
    | [] => some ([], [])
    | t :: r =>
      if t = .p .rbrace then some ([], t :: r)
      else
        match parseStmtC f (t :: r) with
        | none => none
        | some (s, r') =>
          match parseStmtsC f r' with
          | none => none
          | some (ss, r'') => some (s :: ss, r'')
end

/-- parse a complete C statement sequence -/
def parseStmtsTopC (ts : List Tok) : Option (List PS) :=
  match parseStmtsC (2 * ts.length + 2) ts with
  | some (ss, []) => some ss
  | _ => none

/-! ## normal form and erasure -/

def normReal (re im : Rat) : Expr :=
  if re < 0 then .neg (.litF (-re) (-im) false) else .litF re im false

/-- left-nested binary tree of a non-empty operand list; the empty Sum is 0, the empty Product 1 -/
def leftNest (op : BinOp) (unit : Int) : List Expr → Expr
  | [] => .litI unit
  | a :: as => as.foldl (fun acc b => .bin op acc b) a

mutual
def norm : Expr → Expr
  | .litF re im true => .bin .add (normReal re 0) (.bin .mul (.sym "I" .scalar) (normReal im 0))
  | .litF re im false => normReal re im
  | .litI v => if v < 0 then .neg (.litI (-v)) else .litI v
  | .sym n dt => .sym n dt
  | .mi _ _ gi => norm gi
  | .neg a => .neg (norm a)
  | .not a => .not (norm a)
  | .bin op a b => .bin op (norm a) (norm b)
  | .sum args => leftNest .add 0 (normL args)
  | .prod args => leftNest .mul 1 (normL args)
  | .call f dt args => .call f dt (normL args)
  | .idx arr dt ix => .idx arr dt (normL ix)
  | .cond c t f => .cond (norm c) (norm t) (norm f)
def normL : List Expr → List Expr
  | [] => []
  | a :: as => norm a :: normL as
end

/-- a real literal by its printed text; the sign is a unary minus -/
def eraseReal (re : Rat) : PT :=
  if re < 0 then .un .neg (.num (String.ofList (reprFloat (-re))))
  else .num (String.ofList (reprFloat re))

def leftNestPT (op : BinOp) (unit : String) : List PT → PT
  | [] => .num unit
  | a :: as => as.foldl (fun acc b => .bin op acc b) a

mutual
/-- erase dtypes; literals by their printed text; math function names through `math_table`.
    Defined so that `eraseC sc (norm e) = eraseC sc e`. -/
def eraseC (sc : Scalar) : Expr → PT
  | .litF re _ false => eraseReal re
  | .litF re im true => .bin .add (eraseReal re) (.bin .mul (.id "I") (eraseReal im))
  | .litI v => if v < 0 then .un .neg (.num (String.ofList (fmtInt (-v)))) else .num (String.ofList (fmtInt v))
  | .sym n _ => .id n
  | .mi _ _ gi => eraseC sc gi
  | .neg a => .un .neg (eraseC sc a)
  | .not a => .un .not (eraseC sc a)
  | .bin op a b => .bin op (eraseC sc a) (eraseC sc b)
  | .sum args => leftNestPT .add "0" (eraseLC sc args)
  | .prod args => leftNestPT .mul "1" (eraseLC sc args)
  | .call f _ args => .call (cMathName sc args f) (eraseLC sc args)
  | .idx arr _ ix => (eraseLC sc ix).foldl (fun acc i => .idx acc [i]) (.id arr)
  | .cond c t f => .cond (eraseC sc c) (eraseC sc t) (eraseC sc f)
def eraseLC (sc : Scalar) : List Expr → List PT
  | [] => []
  | a :: as => eraseC sc a :: eraseLC sc as
end


/-! ## statements: erasure -/

def initPT (sc : Scalar) : List Nat → List Expr → PInit
  | [], _ => .braces []
  | [_], vals => .braces (vals.map (fun v => .e (eraseC sc v)))
  | d :: d' :: ds, vals =>
    let inner := (d' :: ds).foldr (· * ·) 1
    .braces ((chunks inner d vals).map (initPT sc (d' :: ds)))

mutual
/-- the statement tree the C text must parse back to: comments vanish, a StatementList splices,
    a Section is its declarations followed by one compound statement -/
def eraseStmtC (sc : Scalar) : Stmt → List PS
  | .assign l r => [.assign false (eraseC sc l) (eraseC sc r)]
  | .addAssign l r => [.assign true (eraseC sc l) (eraseC sc r)]
  | .vdecl n dt v => [.decl (tyWords ((cTypeName sc dt).getD "")) n [] (some (.e (eraseC sc v)))]
  | .adecl n dt sizes c vals =>
    let q := (if c ∧ vals.isSome then ["static", "const"] else []) ++ tyWords ((cTypeName sc dt).getD "")
    [.decl q n (sizes.map (fun i => .num (String.ofList (natDigits i))))
      (vals.map (fun vs => initPT sc (initShape sizes vs) vs))]
  | .forRange i lo hi body => [.loop i (eraseC sc lo) (eraseC sc hi) (eraseStmtsC sc body)]
  | .comment _ => []
  | .block ss => eraseStmtsC sc ss
  | .sect _ decls stmts _ _ _ =>
    eraseStmtsC sc decls ++ (if stmts.isEmpty then [] else [.block (eraseStmtsC sc stmts)])
def eraseStmtsC (sc : Scalar) : List Stmt → List PS
  | [] => []
  | s :: ss => eraseStmtC sc s ++ eraseStmtsC sc ss
end

/-! ## well-formedness -/

/-- a C identifier that is not a keyword -/
def validIdent (s : String) : Bool :=
  match s.toList with
  | [] => false
  | c :: cs => isIdStart c && cs.all isIdChar && !cKeywords.contains s

/-- `cs` (reversed prefix `acc`) is consumed by the pp-number state without leaving it -/
def numContAll : Char → List Char → Bool
  | _, [] => true
  | last, c :: cs => numCont last c && numContAll c cs

/-- the text lexes as exactly one pp-number and its last character is a digit
    (so that nothing the formatter appends can extend it) -/
def numShape (cs : List Char) : Bool :=
  match cs with
  | [] => false
  | c :: r => c.isDigit && numContAll c r && (((c :: r).reverse).headD 'x').isDigit

/-- magnitude texts of a literal are single number tokens -/
def litShapeOK : Expr → Bool
  | .litF re im c =>
    numShape (reprFloat (if re < 0 then -re else re))
      && (if c then numShape (reprFloat (if im < 0 then -im else im)) else decide (im = 0))
  | .litI v => numShape (fmtInt (if v < 0 then -v else v))
  | _ => true

/-- the printed name of a math function is an identifier, the formatter does not raise on the
    call (complex scalar type, a SCALAR argument, no complex version of the function), and the
    normal form of the arguments selects the same math table (`norm` preserves whether an argument
    has dtype SCALAR as long as a MultiIndex has an integer global index; checked per tree) -/
def callOK (sc : Scalar) (f : String) (args : List Expr) : Bool :=
  validIdent (cMathName sc args f) && !callRaisesC sc f args && (scalarArgs (normL args) == scalarArgs args)

mutual
/-- Structural well-formedness for the C round trip: identifiers are identifiers, n-ary nodes and
    subscript/argument lists are non-empty, literal texts are number tokens, a MultiIndex is
    well-formed iff its global index is. No typing is needed for C. -/
def wfC (sc : Scalar) : Expr → Bool
  | .litF re im c => litShapeOK (.litF re im c)
  | .litI v => litShapeOK (.litI v)
  | .sym n _ => validIdent n
  | .mi _ _ gi => wfC sc gi
  | .neg a => wfC sc a
  | .not a => wfC sc a
  | .bin _ a b => wfC sc a && wfC sc b
  | .sum args => !args.isEmpty && wfLC sc args
  | .prod args => !args.isEmpty && wfLC sc args
  | .call f _ args => callOK sc f args && !args.isEmpty && wfLC sc args
  | .idx arr _ ix => validIdent arr && !ix.isEmpty && wfLC sc ix
  | .cond c t f => wfC sc c && wfC sc t && wfC sc f
def wfLC (sc : Scalar) : List Expr → Bool
  | [] => true
  | a :: as => wfC sc a && wfLC sc as
end

mutual
/-- The typing discipline of what `ufl_to_lnodes` and the generators emit: `some false` =
    arithmetic value, `some true` = condition, `none` = ill-typed.  Comparisons take arithmetic
    operands, `&& || !` take conditions, arithmetic takes arithmetic operands, a conditional takes
    a condition and two arithmetic branches.  (`EQ`/`NE` of two *conditions* is ill-typed here,
    although UFL lets one construct it — DESIGN F16.) -/
def kindOf : Expr → Option Bool
  | .litF .. | .litI .. => some false
  | .sym _ dt => some (dt == .bool)
  | .mi _ _ gi => if kindOf gi == some false then some false else none
  | .neg a => if kindOf a == some false then some false else none
  | .not a => if kindOf a == some true then some true else none
  | .bin op a b =>
    if op.isArith then (if kindOf a == some false && kindOf b == some false then some false else none)
    else if op.isCompare then (if kindOf a == some false && kindOf b == some false then some true else none)
    else (if kindOf a == some true && kindOf b == some true then some true else none)
  | .sum args | .prod args | .call _ _ args | .idx _ _ args => if allArith args then some false else none
  | .cond c t f =>
    if kindOf c == some true && kindOf t == some false && kindOf f == some false then some false else none
def allArith : List Expr → Bool
  | [] => true
  | a :: as => kindOf a == some false && allArith as
end

/-- `WT`: well-formed and well-typed -/
def WT (sc : Scalar) (e : Expr) : Bool := wfC sc e && (kindOf e).isSome

/-- the executable round-trip checker behind the `roundtripC` driver command -/
def roundtripExprC (sc : Scalar) (e : Expr) : Bool × Option PT × PT :=
  let got := parseExprC (lexC (fmtExprC sc e))
  let want := eraseC sc (norm e)
  (got == some want, got, want)

/-! ## well-formed statements -/

/-- left-hand sides the generators emit: a symbol or an array access -/
def isLvalue : Expr → Bool
  | .sym .. | .idx .. => true
  | _ => false

/-- numeric literal (the entries of an `ArrayDecl` value table) -/
def isLit : Expr → Bool
  | .litF .. | .litI .. => true
  | _ => false

/-- the text has no line break (it is printed inside a `//` / `#` comment line) -/
def noNL (s : String) : Bool := !s.toList.contains '\n'

mutual
/-- Structural well-formedness of statements for the C round trip: assignments have a symbol or an
    array access on the left; declared names and loop indices are identifiers; declared types are
    not `DataType.NONE` (the formatter raises); array initialisers are numeric literals; section
    names and input/output names contain no line break (they are printed in `//` comments);
    all expressions are well-formed (`wfC`). A comment's text is arbitrary. -/
def wfS (sc : Scalar) : Stmt → Bool
  | .assign l r => isLvalue l && wfC sc l && wfC sc r
  | .addAssign l r => isLvalue l && wfC sc l && wfC sc r
  | .vdecl n dt v => validIdent n && (cTypeName sc dt).isSome && wfC sc v
  | .adecl n dt _ _ vals =>
    validIdent n && (cTypeName sc dt).isSome
      && (match vals with | none => true | some vs => vs.all (fun v => isLit v && wfC sc v))
  | .forRange i lo hi body => validIdent i && wfC sc lo && wfC sc hi && wfSL sc body
  | .comment _ => true
  | .block ss => wfSL sc ss
  | .sect name decls stmts inp out _ =>
    noNL name && inp.all noNL && out.all noNL && wfSL sc decls && wfSL sc stmts
def wfSL (sc : Scalar) : List Stmt → Bool
  | [] => true
  | s :: ss => wfS sc s && wfSL sc ss
end

end Ffcx.LNodes.Fmt
