/-
Block-structured (scope-aware) semantics of LNodes kernels, and the certificates under which the
flat semantics `exec` (Sem.lean: one global store, declarations are never popped) is faithful to it.

`execB` runs a statement over the same `St R` / `Extra R` as `exec`, next to a STACK OF FRAMES that
mirrors the C block structure exactly as the C formatter lays it out (and as `scopedS` walks it):
* `Section`      : declarations in the current block, statements inside a new `{ … }`;
* `ForRange`     : `for (int i = lo; …)` opens a block holding `i`; `{ body }` is one more block,
                   entered and left once per iteration;
* `StatementList`: no braces.
C rules that are modelled:
* a declaration of a name that already exists in the SAME block          → `scope (redeclared n)`;
* any occurrence of an identifier that no enclosing block declares        → `scope (undeclared n)`
  (C resolves names statically: every identifier in an evaluated statement counts, in both
   branches of a conditional);
* a declaration in an inner block SHADOWS an outer one: the frame remembers the bindings the name
  had (`Saved`), the new declaration hides them (C has ONE name space for ordinary identifiers, the
  store has four: the three others are erased), and leaving the block (`leave`) pops the frame and
  RESTORES what was shadowed — for a name that shadowed nothing this erases it, so the variables
  of a block really are gone once the block is left.
Run-time errors of the flat semantics (`Err`) are passed through unchanged as `run e`; static
(scope) errors are raised before anything of the statement is evaluated.

Certificates (decidable, evaluated per kernel by `driver (scopecert …)`):
* `kindsS κ s`   : every declaration of a name `n` in `s` has the kind `κ n` (int scalar, scalar,
                   int array, scalar array) — the flat store keeps stale bindings of sibling blocks,
                   harmless only if a name always lives in the same one of the four name spaces;
* `clobS sc D s` : tracks the set `D` of visible names whose flat value may differ from the
                   block-structured one (an inner declaration of the same name overwrote the flat
                   binding; C restores the outer value at the closing brace, the flat store does
                   not) and fails as soon as such a name is used.  Real kernels DO shadow
                   (`J0_c0 …` of an affine rule re-declared inside the quadrature loop of another
                   rule), so plain "no shadowing" is too strong; "never used again while
                   clobbered" is what holds.
Soundness / faithfulness theorems: FfcxProofs/C19Sound.lean.
-/
import FfcxModel.LNodes.Sem
import FfcxModel.LNodes.Scoped
import FfcxModel.LNodes.Threads

namespace Ffcx.AList

/-- remove every binding of `x` -/
def erase {α} : AList α → String → AList α
  | [], _ => []
  | (k, v) :: m, x => if k = x then erase m x else (k, v) :: erase m x

/-- bind (`some v`) or unbind (`none`) `x` -/
def put {α} (m : AList α) (x : String) : Option α → AList α
  | some v => m.set x v
  | none => m.erase x

end Ffcx.AList

namespace Ffcx.LNodes

/-- the four name spaces of the store -/
inductive Kind where
  | ivar | svar | iarr | sarr
  deriving DecidableEq, Repr, Inhabited

inductive BErr where
  /-- static scoping error (what a C compiler reports) -/
  | scope (e : ScopeErr)
  /-- run-time error of the flat semantics, unchanged -/
  | run (e : Err)
  deriving Repr, DecidableEq

/-- what a declared name shadowed: its bindings in the four name spaces at declaration time -/
structure Saved (R : Type) where
  name : String
  iv : Option Int
  sv : Option R
  ia : Option (Array Int)
  sa : Option (Arr R)

/-- one C block: the names declared in it (newest first) with what each one shadowed -/
abbrev Frame (R : Type) := List (Saved R)

/-- store + block stack (innermost first) -/
structure BSt (R : Type) where
  σ : St R
  st : List (Frame R)

def frameNames {R : Type} (f : Frame R) : List String := f.map (·.name)

/-- the static view of the stack: exactly the `Scopes` the checker works with -/
def stackNames {R : Type} (st : List (Frame R)) : Scopes := st.map frameNames

section
variable {R : Type}

def saveOf (σ : St R) (n : String) : Saved R :=
  { name := n, iv := σ.iv.get n, sv := σ.sv.get n, ia := σ.ia.get n, sa := σ.sa.get n }

/-- keep `n` only in name space `k` (a new C declaration hides every other meaning of `n`) -/
def St.only (σ : St R) (n : String) : Kind → St R
  | .ivar => { σ with sv := σ.sv.erase n, ia := σ.ia.erase n, sa := σ.sa.erase n }
  | .svar => { σ with iv := σ.iv.erase n, ia := σ.ia.erase n, sa := σ.sa.erase n }
  | .iarr => { σ with iv := σ.iv.erase n, sv := σ.sv.erase n, sa := σ.sa.erase n }
  | .sarr => { σ with iv := σ.iv.erase n, sv := σ.sv.erase n, ia := σ.ia.erase n }

/-- give back to `s.name` the bindings it had before the declaration that `s` records -/
def restore1 (σ : St R) (s : Saved R) : St R :=
  { iv := σ.iv.put s.name s.iv, sv := σ.sv.put s.name s.sv,
    ia := σ.ia.put s.name s.ia, sa := σ.sa.put s.name s.sa }

/-- undo the declarations of a block, newest first -/
def restoreFrame (σ : St R) : Frame R → St R
  | [] => σ
  | s :: f => restoreFrame (restore1 σ s) f

/-- `{` -/
def enter (b : BSt R) : BSt R := { b with st := [] :: b.st }

/-- `}`: pop the innermost block; its variables disappear, what they shadowed reappears -/
def leave (b : BSt R) : BSt R :=
  match b.st with
  | [] => b
  | f :: rest => { σ := restoreFrame b.σ f, st := rest }

/-- record a declaration of `n` in the innermost block (mirrors `declare`); `σ` is the store just
    before the declaration, from which the shadowed bindings are saved -/
def declareB (st : List (Frame R)) (σ : St R) (n : String) : Except ScopeErr (List (Frame R)) :=
  match st with
  | [] => .ok [[saveOf σ n]]
  | f :: rest =>
    if (frameNames f).contains n then .error (.redeclared n) else .ok ((saveOf σ n :: f) :: rest)

/-- (re)initialise the loop index: `i` is an `int` and nothing else -/
def BSt.setIdx (b : BSt R) (i : String) (v : Int) : BSt R :=
  { b with σ := (b.σ.setIV i v).only i .ivar }

/-- Run `body` for `i = lo, …, lo+n-1`, each time inside a fresh `{ … }` block. -/
def loopB (body : BSt R → Except BErr (BSt R)) (index : String) (lo : Int) :
    Nat → BSt R → Except BErr (BSt R)
  | 0, b => .ok b
  | n + 1, b =>
    match body (enter (b.setIdx index lo)) with
    | .error e => .error e
    | .ok b' => loopB body index (lo + 1) n (leave b')

end

section Exec
variable {R : Type} [Add R] [Sub R] [Mul R] [Div R] [Neg R] [IntCast R]

mutual
def execB (x : Extra R) : Stmt → BSt R → Except BErr (BSt R)
  | .assign l r, b =>
    match (usesOkE (stackNames b.st) l).orElse (fun _ => usesOkE (stackNames b.st) r) with
    | some n => .error (.scope (.undeclared n))
    | none =>
      match exec x (.assign l r) b.σ with
      | .error e => .error (.run e)
      | .ok σ' => .ok { b with σ := σ' }
  | .addAssign l r, b =>
    match (usesOkE (stackNames b.st) l).orElse (fun _ => usesOkE (stackNames b.st) r) with
    | some n => .error (.scope (.undeclared n))
    | none =>
      match exec x (.addAssign l r) b.σ with
      | .error e => .error (.run e)
      | .ok σ' => .ok { b with σ := σ' }
  | .vdecl n dt v, b =>
    match usesOkE (stackNames b.st) v with
    | some m => .error (.scope (.undeclared m))
    | none =>
      match declareB b.st b.σ n with
      | .error e => .error (.scope e)
      | .ok st' =>
        -- the initialiser is evaluated in the store before the declaration (as `exec` does)
        match exec x (.vdecl n dt v) b.σ with
        | .error e => .error (.run e)
        | .ok σ' => .ok { σ := σ'.only n (if dt == .int then .ivar else .svar), st := st' }
  | .adecl n dt sizes c vals, b =>
    match usesOkL (stackNames b.st) (vals.getD []) with
    | some m => .error (.scope (.undeclared m))
    | none =>
      match declareB b.st b.σ n with
      | .error e => .error (.scope e)
      | .ok st' =>
        match exec x (.adecl n dt sizes c vals) b.σ with
        | .error e => .error (.run e)
        | .ok σ' => .ok { σ := σ'.only n .sarr, st := st' }
  | .forRange i lo hi body, b =>
    match (usesOkE (stackNames b.st) lo).orElse (fun _ => usesOkE (stackNames b.st) hi) with
    | some m => .error (.scope (.undeclared m))
    | none =>
      match evalI b.σ.iv b.σ.ia lo, evalI b.σ.iv b.σ.ia hi with
      | some l, some h =>
        -- `for (int i = lo; …)` opens a block that holds only `i` (it may shadow an outer `i`)
        let b1 : BSt R := BSt.setIdx { σ := b.σ, st := [saveOf b.σ i] :: b.st } i l
        match loopB (fun s => execBL x body s) i l (h - l).toNat b1 with
        | .error e => .error e
        | .ok b2 => .ok (leave b2)
      | _, _ => .error (.run (.badIndex i))
  | .comment _, b => .ok b
  | .block ss, b => execBL x ss b
  | .sect _ decls stmts _ _ _, b =>
    -- declarations OUTSIDE the braces (current block), statements inside `{ … }`
    match execBL x decls b with
    | .error e => .error e
    | .ok b1 =>
      match execBL x stmts (enter b1) with
      | .error e => .error e
      | .ok b2 => .ok (leave b2)

def execBL (x : Extra R) : List Stmt → BSt R → Except BErr (BSt R)
  | [], b => .ok b
  | s :: ss, b =>
    match execB x s b with
    | .error e => .error e
    | .ok b' => execBL x ss b'
end

end Exec

/-! ### The kernel-parameter state -/

/-- the frame of the function parameters (they shadow nothing) -/
def paramFrame (R : Type) : Frame R :=
  ["A", "w", "c", "coordinate_dofs", "entity_local_index", "quadrature_permutation", "custom_data"].map
    (fun n => { name := n, iv := none, sv := none, ia := none, sa := none })

/-- start of a kernel call: the store holds the arguments, the only block is the function body
    with its parameters (`stackNames = kernelScope`) -/
def initB {R : Type} (σ : St R) : BSt R := { σ := σ, st := [paramFrame R] }

/-! ### Certificates for the faithfulness of the flat semantics -/

/-- no name of `D` occurs in `e`; `some n`: the offending name -/
def dirtyE (D : List String) (e : Expr) : Option String := D.find? (fun n => mentionsE n e)
def dirtyL (D : List String) (es : List Expr) : Option String := D.find? (fun n => mentionsL n es)

/-- leaving a block with names `f` above `rest`: the names of `f` that shadowed something visible
    are clobbered in the flat store from now on -/
def popClob (f : List String) (rest : Scopes) (D : List String) : List String :=
  f.filter (declared rest) ++ D

def subsetB (A B : List String) : Bool := A.all (fun n => B.contains n)

mutual
/-- `clobS sc D s = .ok D'`: no name clobbered at that point is used anywhere in `s` (`sc` = scopes
    before `s`, `D` = clobbered names before, `D'` = after).  `.error n`: `n` is used while the flat
    store holds the value of an inner variable of the same name. -/
def clobS (sc : Scopes) (D : List String) : Stmt → Except String (List String)
  | .assign l r | .addAssign l r =>
    match (dirtyE D l).orElse (fun _ => dirtyE D r) with
    | some n => .error n
    | none => .ok D
  | .vdecl n _ v =>
    match dirtyE D v with
    | some m => .error m
    | none => .ok (D.filter (· != n))          -- a fresh `n`: both stores hold the new value
  | .adecl n _ _ _ vals =>
    match dirtyL D (vals.getD []) with
    | some m => .error m
    | none => .ok (D.filter (· != n))
  | .forRange i lo hi body =>
    match (dirtyE D lo).orElse (fun _ => dirtyE D hi) with
    | some n => .error n
    | none =>
      -- invariant between iterations: every outer name that the body re-declares counts as
      -- clobbered from the start (it is, from the second iteration on)
      let Dstar := ((declsSL body).filter (declared ([i] :: sc)) ++ D).filter (· != i)
      match clobL ([] :: [i] :: sc) Dstar body, scopedL ([] :: [i] :: sc) body with
      | .ok D1, .ok (f :: _) =>
        if subsetB (popClob f ([i] :: sc) D1) (i :: Dstar) then .ok (popClob [i] sc Dstar)
        else .error i
      | .error n, _ => .error n
      | _, _ => .error i
  | .comment _ => .ok D
  | .block ss => clobL sc D ss
  | .sect _ decls stmts _ _ _ =>
    match clobL sc D decls, scopedL sc decls with
    | .ok D1, .ok sc1 =>
      match clobL ([] :: sc1) D1 stmts, scopedL ([] :: sc1) stmts with
      | .ok D2, .ok (f :: _) => .ok (popClob f sc1 D2)
      | .error n, _ => .error n
      | _, _ => .error "?"
    | .error n, _ => .error n
    | _, _ => .error "?"
def clobL (sc : Scopes) (D : List String) : List Stmt → Except String (List String)
  | [] => .ok D
  | s :: ss =>
    match clobS sc D s, scopedS sc s with
    | .ok D1, .ok sc1 => clobL sc1 D1 ss
    | .error n, _ => .error n
    | _, _ => .error "?"
end

mutual
/-- every declaration in `s` gives its name the kind `κ` assigns to it -/
def kindsS (κ : String → Kind) : Stmt → Bool
  | .vdecl n dt _ => κ n == (if dt == .int then .ivar else .svar)
  | .adecl n dt _ _ _ => dt == .int || κ n == .sarr      -- an int array declaration is a run error
  | .forRange i _ _ body => κ i == .ivar && kindsL κ body
  | .block ss => kindsL κ ss
  | .sect _ decls stmts _ _ _ => kindsL κ decls && kindsL κ stmts
  | _ => true
def kindsL (κ : String → Kind) : List Stmt → Bool
  | [] => true
  | s :: ss => kindsS κ s && kindsL κ ss
end

mutual
/-- (name, kind) of every declaration, in program order -/
def declKindsS : Stmt → List (String × Kind)
  | .vdecl n dt _ => [(n, if dt == .int then .ivar else .svar)]
  | .adecl n _ _ _ _ => [(n, .sarr)]
  | .forRange i _ _ body => (i, .ivar) :: declKindsL body
  | .block ss => declKindsL ss
  | .sect _ decls stmts _ _ _ => declKindsL decls ++ declKindsL stmts
  | _ => []
def declKindsL : List Stmt → List (String × Kind)
  | [] => []
  | s :: ss => declKindsS s ++ declKindsL ss
end

/-- the kinds of the kernel parameters (UFCx `tabulate_tensor` signature) -/
def paramKinds : List (String × Kind) :=
  [("A", .sarr), ("w", .sarr), ("c", .sarr), ("coordinate_dofs", .sarr),
   ("entity_local_index", .iarr), ("quadrature_permutation", .iarr), ("custom_data", .iarr)]

def lookupKind : List (String × Kind) → String → Kind
  | [], _ => .svar
  | (k, v) :: m, n => if k = n then v else lookupKind m n

/-- the kind assignment of a kernel: parameters, then the first declaration of each name -/
def kindOf (k : Stmt) : String → Kind := lookupKind (paramKinds ++ declKindsS k)

/-- the parameters whose value matters after the call / which are read by the kernel -/
def kernelParams : List String :=
  ["A", "w", "c", "coordinate_dofs", "entity_local_index", "quadrature_permutation"]

/-- per-kernel certificate: uniform kinds, no use of a clobbered name, no parameter clobbered at
    the end -/
def flatCert (k : Stmt) : Bool :=
  kindsS (kindOf k) k &&
  match clobS kernelScope [] k with
  | .ok D' => kernelParams.all (fun p => !D'.contains p)
  | .error _ => false

end Ffcx.LNodes
