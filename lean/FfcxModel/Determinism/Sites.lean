/-
C12 — order/identity-sensitive sites of FFCx, as functions from "what a set iteration yields"
(a list in ARBITRARY order) or from a counter value to the text fragment they influence.

Core Lean only.  The model mirrors the code AS IT IS.  An unsorted iteration over a set is modelled as the
identity on the (arbitrary) iteration order, so that its invariance statement is FALSE and `FfcxProofs/C12.lean`
proves a two-permutation counterexample (today only the two int-keyed sets, canonical by a CPython detail).
History: up to /repo commit 9fb79f1 the sites fuse_sections / generate_block_parts (`list(set(...))`),
build_optimized_tables (`sort_elements(set(...))`), generate_geometry_tables (`for c in cell_list`) and
J_component (`ufl_id()`) were order/counter leaking (DESIGN F9; counterexample theorems then); the fix commits
d2dfc42, 7e76306, e98a00c, 8598377 replaced them by first-occurrence de-duplication of a LIST, `sorted`, and a
per-kernel domain numbering; the model below is the fixed code.

Anchors (pinned tree):
  optimizer.py:62,64            fuse_sections          input/output = list(dict.fromkeys(...))
  integral_generator.py:585     generate_block_parts   input = list(dict.fromkeys(input))
  C/formatter.py:206-207        format_section         "// Inputs: a, b" / "// Outputs: ..."
  lnodes.py:886-889             Section.__init__       declared symbols appended to output
  elementtables.py:393-397      build_optimized_tables sort_elements(list(dict.fromkeys(extract_sub_elements(..))))
  analysis.py:104,105           analyze_ufl_objects    sort_elements(set(elements)); sorted(set(..), key=repr)
  ufl/utils/sorting.py          topological_sorting    (UFL, transcribed below)
  symbols.py:79-80,142-148      J_component            f"J{self.domain_numbers.setdefault(domain, len(self.domain_numbers))}"
  integral_generator.py:217-233 generate_geometry_tables  cells[t] : set of cell names, `for c in sorted(cell_list)`
  representation.py:274, codegeneration.py:59          sets of basix.CellType (int-hashed)
  integral.py:258-261           _argkeys               set of small ints, list(...)
  integral.py:346-375           active_table_names     set of names -> dict -> emitted via sorted(tables)
  factorization.py:76-79,206    argkeys                sorted(set | set)
  access.py:320,354,394         (x,) = set(sub_elements)
  representation.py:522-540,630-638   object_names.get(id(obj), default)
  integral_generator.py:123-137, C/integral.py:49-52   per-instance counters, one generator per kernel
-/
namespace Ffcx.Determinism

/-! ## Python sets and `sorted` -/

/-- `s` is a possible iteration order of the Python `set` built from the elements of `l`:
every distinct element exactly once, in an order the language leaves unspecified (it depends on
the elements' hashes — hence on `PYTHONHASHSEED` for `str`-hashed objects such as `L.Symbol`,
basix elements — on the table size and, on collisions, on insertion history). -/
def IsSetIter {α : Type} (l s : List α) : Prop := s.Nodup ∧ ∀ x, x ∈ s ↔ x ∈ l

/-- Python's `sorted(xs)` for the key order `le` (a stable merge sort, like `list.sort`). -/
def pySorted {α : Type} (le : α → α → Bool) (xs : List α) : List α := xs.mergeSort le

/-- A total order given as a Boolean `≤` (what `sorted` needs in order to be canonical on distinct keys). -/
structure TotalOrder {α : Type} (le : α → α → Bool) : Prop where
  trans : ∀ a b c, le a b = true → le b c = true → le a c = true
  total : ∀ a b, (le a b || le b a) = true
  antisymm : ∀ a b, le a b = true → le b a = true → a = b

def natLe (a b : Nat) : Bool := decide (a ≤ b)

/-- Lexicographic order on tuples of ints (Python tuple comparison), for `argkeys`. -/
def lexLe : List Nat → List Nat → Bool
  | [], _ => true
  | _ :: _, [] => false
  | a :: as, b :: bs => if a < b then true else if b < a then false else lexLe as bs

/-- Python `str` comparison (lexicographic by code point), for `sorted(cell_list)`. -/
def strLe (a b : String) : Bool := decide (a ≤ b)

/-- `list(dict.fromkeys(xs))`: duplicates removed, order of FIRST occurrence kept.  A function of the list:
no hash enters (a dict iterates in insertion order). -/
def dedupFirst {α : Type} [DecidableEq α] : List α → List α
  | [] => []
  | a :: l => a :: (dedupFirst l).filter (fun b => b ≠ a)

/-! ## Text fragments -/

def commaJoin (xs : List String) : String := ", ".intercalate xs

/-- `C/formatter.py:206`  `// Inputs: {', '.join(w.name for w in section.input)}` -/
def inputsComment (input : List String) : String := "// Inputs: " ++ commaJoin input

/-- `C/formatter.py:207` -/
def outputsComment (output : List String) : String := "// Outputs: " ++ commaJoin output

/-- `L.Section.__init__`: every declared symbol not yet in `output` is appended (in declaration order). -/
def sectionOutput (output decls : List String) : List String :=
  decls.foldl (fun out d => if out.contains d then out else out ++ [d]) output

/-! ## De-duplication of symbol lists (was `list(set(...))`, now first occurrence) -/

/-- `fuse_sections`, input list: `input = list(dict.fromkeys(input))` goes unchanged into the fused `Section`
and is printed by the formatter. The argument is the concatenation of the fused sections' input lists. -/
def site_fuse_inputs (input : List String) : String := inputsComment (dedupFirst input)

/-- `fuse_sections`, output list: `output = list(dict.fromkeys(output))`, then `Section.__init__` appends the
declared symbols that are missing, then the formatter prints it. -/
def site_fuse_outputs (decls : List String) (output : List String) : String :=
  outputsComment (sectionOutput (dedupFirst output) decls)

/-- `generate_block_parts`: `input = list(dict.fromkeys([*vars, *tables]))` of the "Tensor Computation" section. -/
def site_block_inputs (input : List String) : String := inputsComment (dedupFirst input)

/-- `generate_geometry_tables`: for one geometry quantity, `for c in sorted(cells[t])` emits one table per cell
name (`geometry.write_table(name, c)` declares `<cell>_<name>`); `it` is the set's iteration order. -/
def site_geometry_tables (tableName : String) (it : List String) : List String :=
  (pySorted strLe it).map (fun c => c ++ "_" ++ tableName)

/-! ### `ufl.algorithms.sort_elements` (UFL `topological_sorting`, transcribed)

Elements are numbers; `subs e` is `e.sub_elements`.  `nodes` is `list(elements)`: the order of the argument is
the ONLY thing that breaks ties between unrelated elements (so it must not be a set's iteration order). -/

abbrev Elem := Nat
abbrev Edges := List (Elem × List Elem)     -- the dict `edges`, in insertion (= nodes) order

def Edges.get (e : Edges) (n : Elem) : List Elem := (e.lookup n).getD []

def Edges.set (e : Edges) (n : Elem) (es : List Elem) : Edges :=
  e.map (fun p => if p.1 = n then (p.1, es) else p)

/-- `any(m in es for es in edges.values())` -/
def Edges.mentions (e : Edges) (m : Elem) : Bool := e.any (fun p => p.2.contains m)

/-- inner `while node_edges:` loop: pop the first sub-element `m`; if no edge list mentions `m` any more,
`S.insert(0, m)`. -/
def drain : Nat → Elem → Edges → List Elem → Edges × List Elem
  | 0, _, e, S => (e, S)
  | fuel + 1, node, e, S =>
    match e.get node with
    | [] => (e, S)
    | m :: rest =>
      let e' := e.set node rest
      let S' := if e'.mentions m then S else m :: S
      drain fuel node e' S'

/-- outer `while S:` loop: `node = S.pop(0); L.append(node)`; drain its edges. -/
def topoLoop : Nat → Nat → Edges → List Elem → List Elem → List Elem
  | 0, _, _, _, L => L
  | fuel + 1, inner, e, S, L =>
    match S with
    | [] => L
    | node :: S₀ =>
      let r := drain inner node e S₀
      topoLoop fuel inner r.1 r.2 (L ++ [node])

/-- `topological_sorting(nodes, edges)`: start from the nodes nobody lists as a sub-element (in `nodes` order). -/
def topologicalSorting (nodes : List Elem) (e : Edges) : List Elem :=
  let S := nodes.filter (fun n => !e.mentions n)
  let fuel := nodes.length + (e.map (fun p => p.2.length)).sum + 1
  topoLoop fuel fuel e S []

/-- `sort_elements(elements)`: `nodes = list(elements)`, `edges[element] = element.sub_elements`, sort, reverse. -/
def sortElements (subs : Elem → List Elem) (it : List Elem) : List Elem :=
  (topologicalSorting it (it.map (fun n => (n, subs n)))).reverse

/-- `generate_psi_table_name`: `FE{element_number}_…` (the rest of the name does not depend on the numbering). -/
def tableName (number : Nat) (suffix : String) : String := "FE" ++ toString number ++ "_" ++ suffix

/-- `build_optimized_tables`: `element_numbers = {e: i for i, e in enumerate(sort_elements(list(dict.fromkeys(
extract_sub_elements(all_elements)))))}`; the table of each modified terminal (element `q`, in the deterministic
terminal order `queries`) is named after the element's number.  `elems` is the LIST `extract_sub_elements(...)`
(elements of the modified terminals in terminal order, then their sub-elements, level by level). -/
def site_table_numbering (subs : Elem → List Elem) (suffix : Elem → String) (queries : List Elem)
    (elems : List Elem) : List String :=
  let order := sortElements subs (dedupFirst elems)
  queries.map (fun q => tableName (order.idxOf q) (suffix q))

/-- the same computation for an ARBITRARY node order (what the code did with a set, and what `analysis.py:104`
still does for a numbering that never reaches the text) -/
def tableNumberingOfOrder (subs : Elem → List Elem) (suffix : Elem → String) (queries : List Elem)
    (it : List Elem) : List String :=
  let order := sortElements subs it
  queries.map (fun q => tableName (order.idxOf q) (suffix q))

/-- `analyze_ufl_objects`: the numbering `sort_elements(set(elements))` is used ONLY as the key set of
`element_dimensions = {e: e.dim for e in unique_elements}` which is then looked up by element. -/
def site_element_dimensions (dim : Elem → Nat) (order : List Elem) (q : Elem) : Option Nat :=
  (order.map (fun e => (e, dim e))).lookup q

/-! ## Counter-reading sites -/

/-- `ufcx_restriction_postfix(r).replace("_", "_r")` -/
def restrictionSuffix : Option Bool → String
  | none => ""
  | some false => "_r0"
  | some true => "_r1"

/-- `self.domain_numbers.setdefault(domain, len(self.domain_numbers))` after the calls for `uses` (the
domains, identified by their `ufl_id()`, in the order in which this kernel's `J_component` calls meet them):
the number of DISTINCT domains met before the first use of `d`. -/
def domainNumber (uses : List Nat) (d : Nat) : Nat := (dedupFirst uses).idxOf d

/-- `J_component`: `format_mt_name(f"J{number}", mt)` with the per-kernel number above.  UFL's global `Mesh`
counter enters only through the identity of the keys of `domain_numbers`. -/
def site_jacobian_symbol (restriction : Option Bool) (component : Nat) (uses : List Nat) (d : Nat) : String :=
  "J" ++ toString (domainNumber uses d) ++ restrictionSuffix restriction ++ "_c" ++ toString component

/-- `fi1.index(i.count())` (indexing.py:59,134; reconstruct.py:118-121): the POSITION of an index count in the
tuple of free-index counts. -/
def site_index_position (freeIndexCounts : List Nat) (count : Nat) : Nat := freeIndexCounts.idxOf count

/-! ## Sets of int-hashed keys (canonical only by a CPython implementation detail) -/

def cellName : Nat → String
  | 0 => "point" | 1 => "interval" | 2 => "triangle" | 3 => "tetrahedron"
  | 4 => "quadrilateral" | 5 => "hexahedron" | 6 => "prism" | 7 => "pyramid" | _ => "unknown"

/-- `representation.py:274` / `codegeneration.py:59`: `set(j[0] for j in integrand.keys())` of `basix.CellType`
(hash = enum value) decides the order of `&integral_<name>_<cell>` in `form_integrals` and of the kernels. -/
def site_integral_domains (name : String) (it : List Nat) : List String :=
  it.map (fun c => name ++ "_" ++ cellName c)

/-- `integral.py:258-261`: `argkeys = list(_argkeys)` of argument positions (small ints). -/
def site_int_argkeys (it : List Nat) : List Nat := it

/-- The CPython behaviour the two sites above rely on: a set of distinct small non-negative ints
(smaller than the table size) iterates in ascending order. -/
def Ascending (it : List Nat) : Prop := it.Pairwise (fun a b => natLe a b = true)

/-! ## Canonicalised and order-oblivious sites -/

/-- `analysis.py:105` `sorted(set(coordinate_elements), key=repr)`; also `factorization.py:206`, `jit.py:182`. -/
def site_sorted_set {α : Type} (le : α → α → Bool) (it : List α) : List α := pySorted le it

/-- `factorization.py:76-79`: `argkeys = set(fac0) | set(fac1)`; `if argkeys: argkeys = sorted(argkeys)`. -/
def site_argkeys (it : List (List Nat)) : List (List Nat) :=
  if it.isEmpty then [] else pySorted lexLe it

/-- `integral.py:346-375`: `for name in active_table_names:` fills the dicts `active_tables` in set order
(dropping "zeros"/"ones" tables); the generators emit `sorted(tables)`. -/
def site_active_tables {α : Type} (le : α → α → Bool) (keep : α → Bool) (it : List α) : List α :=
  pySorted le (it.filter keep)

/-- `access.py:320,354,394`: `(x,) = set(sub_elements)` — `ValueError` unless exactly one element. -/
def site_singleton_unpack {α : Type} (it : List α) : Option α :=
  match it with
  | [x] => some x
  | _ => none

/-- membership / truth tests: `s in handled` (graph.py), `if argkeys:` (factorization.py),
`set(d.keys()) == template_keys(t)` (the callers of `template_keys`). -/
def site_membership {α : Type} [DecidableEq α] (x : α) (it : List α) : Bool := it.contains x

def site_truth {α : Type} (it : List α) : Bool := !it.isEmpty

def site_set_eq {α : Type} [DecidableEq α] (other it : List α) : Bool :=
  it.all (other.contains ·) && other.all (it.contains ·)

/-- `self._ufl_names` (both generators): only ever `.add(...)`ed, never read: no text depends on it. -/
def site_ufl_names (_it : List String) : Unit := ()

/-! ## `id(obj)` as a dictionary key -/

/-- `object_names.get(id(obj), default)`: `named` lists (object number, name); `addr` is where each object
lives in this process.  The dict is built by the caller with the same `id`. -/
def site_object_name (named : List (Nat × String)) (addr : Nat → Nat) (obj : Nat) (default : String) : String :=
  ((named.map (fun p => (addr p.1, p.2))).lookup (addr obj)).getD default

/-! ## Per-instance counters -/

/-- `IntegralGenerator.symbol_counters` (`collections.defaultdict(int)`) of one generator instance. -/
structure GenState where
  counters : List (String × Nat)

/-- `__init__`: `self.symbol_counters = collections.defaultdict(int)`; `self.temp_symbols = {}`. -/
def GenState.fresh : GenState := ⟨[]⟩

def GenState.get (st : GenState) (base : String) : Nat := (st.counters.lookup base).getD 0

def GenState.bump (st : GenState) (base : String) : GenState :=
  if st.counters.any (fun p => p.1 == base) then
    ⟨st.counters.map (fun p => if p.1 == base then (p.1, p.2 + 1) else p)⟩
  else ⟨st.counters ++ [(base, 1)]⟩

/-- `new_temp_symbol(basename)`: `f"{basename}{counter}"`, then `counter += 1`. -/
def newTempSymbol (st : GenState) (base : String) : String × GenState :=
  (base ++ toString (st.get base), st.bump base)

/-- the temp names one generator instance hands out for a sequence of requests -/
def genTemps : GenState → List String → List String
  | _, [] => []
  | st, b :: bs => let r := newTempSymbol st b; r.1 :: genTemps r.2 bs

/-- `generate_code`: `integral_generator(ir, domain, options)` constructs a NEW `FFCXBackend` and a NEW
`IntegralGenerator` for every (integral, domain) (C/integral.py:49-52, numba/integral.py:48-51; likewise for
expressions).  A "kernel" here is the sequence of temp requests its generation makes. -/
def generateAll (kernels : List (List String)) : List (List String) :=
  kernels.map (genTemps GenState.fresh)

/-- the generator instances `generateAll` creates, one per kernel -/
def generatorInstances (kernels : List (List String)) : List GenState :=
  kernels.map (fun _ => GenState.fresh)

/-! ## The table of modelled sites

`key` = (file, enclosing function, hash of the normalised statement) exactly as produced by
`harness/extract_sites.py`.  `cls`:

* `canon`      the set is passed through `sorted` before anything order-sensitive happens
* `oblivious`  only membership / emptiness / equality / singleton unpacking / never read
* `irrelevant` the order (or the state) cannot reach the generated text (reason in `note`)
* `intset`     a set of int-hashed keys, iterated unsorted: canonical only by the CPython detail `Ascending`
* `leak`       order or counter value reaches the text (counterexample theorem + partial theorem) — none today
* `counter`    per-instance state, fresh for every kernel (`counters_fresh`)
* `identity`   `id(obj)` used as a lookup key only
* `hashdef`    a `__hash__` definition: decides WHICH iteration order occurs; every theorem here quantifies over all of them
* `importtime` registry filled while the module is imported, never afterwards
-/

inductive SiteClass where
  | canon | oblivious | irrelevant | intset | leak | counter | identity | hashdef | importtime
deriving DecidableEq, Repr

/-- classes for which the iteration order provably cannot change the text -/
def SiteClass.orderFree : SiteClass → Bool
  | .canon | .oblivious | .irrelevant | .counter | .identity | .importtime => true
  | _ => false

structure Modelled where
  file : String
  func : String
  hash : String
  cls : SiteClass
  model : String            -- the definition above that models it
  theorems : List String    -- theorems of FfcxProofs.C12 that cover it
  note : String
deriving Repr

def Modelled.key (m : Modelled) : String × String × String := (m.file, m.func, m.hash)

open SiteClass in
def modelledSites : List Modelled := [
  -- sites repaired by the fix commits d2dfc42, 7e76306, e98a00c, 8598377 (were `leak`)
  ⟨"ffcx/codegeneration/optimizer.py", "fuse_sections", "340a3597d3e9", canon, "site_fuse_inputs",
   ["site_invariant_fuse_inputs"], "input = list(dict.fromkeys(input)) -> // Inputs:"⟩,
  ⟨"ffcx/codegeneration/optimizer.py", "fuse_sections", "1b174d231d51", canon, "site_fuse_outputs",
   ["site_invariant_fuse_outputs"], "output = list(dict.fromkeys(output)) -> // Outputs:"⟩,
  ⟨"ffcx/codegeneration/integral_generator.py", "IntegralGenerator.generate_block_parts", "340a3597d3e9", canon, "site_block_inputs",
   ["site_invariant_block_inputs"], "input = list(dict.fromkeys(input)) -> // Inputs: of Tensor Computation"⟩,
  ⟨"ffcx/ir/elementtables.py", "build_optimized_tables", "4d4d494dbde5", canon, "site_table_numbering",
   ["site_invariant_table_numbering"], "sort_elements(list(dict.fromkeys(extract_sub_elements(...)))) -> FE<n> names"⟩,
  ⟨"ffcx/codegeneration/integral_generator.py", "IntegralGenerator.generate_geometry_tables", "f1382325d88d", canon, "site_geometry_tables",
   ["site_invariant_geometry_tables"], "cells = {t: set()}: iterated through sorted() below"⟩,
  ⟨"ffcx/codegeneration/integral_generator.py", "IntegralGenerator.generate_geometry_tables", "cfd5e52c98f8", canon, "site_geometry_tables",
   ["site_invariant_geometry_tables"], "for c in sorted(cell_list)"⟩,
  ⟨"ffcx/codegeneration/expression_generator.py", "ExpressionGenerator.generate_geometry_tables", "f1382325d88d", canon, "site_geometry_tables",
   ["site_invariant_geometry_tables"], "cells = {t: set()}"⟩,
  ⟨"ffcx/codegeneration/expression_generator.py", "ExpressionGenerator.generate_geometry_tables", "cfd5e52c98f8", canon, "site_geometry_tables",
   ["site_invariant_geometry_tables"], "for c in sorted(cell_list)"⟩,
  ⟨"ffcx/codegeneration/symbols.py", "FFCXBackendSymbols.__init__", "ad683a959773", counter, "domainNumber",
   ["counters_fresh", "site_invariant_jacobian_symbol"], "self.domain_numbers = {}: per-kernel numbering of domains -> J<n> names"⟩,
  -- ffcx/analysis.py
  ⟨"ffcx/analysis.py", "analyze_ufl_objects", "3dec10c9b5a4", irrelevant, "site_element_dimensions",
   ["site_invariant_element_dimensions"],
   "sort_elements(set(elements)): the resulting numbering is used only as the key set of element_dimensions dicts (lookups by element)"⟩,
  ⟨"ffcx/analysis.py", "analyze_ufl_objects", "e01ba85fb118", canon, "site_sorted_set",
   ["site_invariant_coordinate_elements"], "sorted(set(coordinate_elements), key=repr); the list is not used by code generation"⟩,
  ⟨"ffcx/analysis.py", "_analyze_form", "096b27fa8e7e", irrelevant, "-", [],
   "metadata.update on the dict of a form_data integral: created afresh by ufl compute_form_data (attach_estimated_degrees) for this compilation; exercised by the twice / other-options histories"⟩,
  ⟨"ffcx/analysis.py", "_analyze_form", "6b911549384e", irrelevant, "-", [],
   "as above (custom quadrature branch)"⟩,
  -- ffcx/codegeneration/__init__.py
  ⟨"ffcx/codegeneration/__init__.py", "_compute_signature", "8cb5dc802a5a", irrelevant, "-", [],
   "h.update on a local hashlib object (ufcx.h hash at import)"⟩,
  -- C backend
  ⟨"ffcx/codegeneration/C/formatter.py", "<module>", "e919b8a7ff45", importtime, "-", ["no_written_module_state"],
   "math_table: module constant, never written"⟩,
  ⟨"ffcx/codegeneration/C/formatter.py", "Formatter.__call__", "623229de8463", importtime, "-", [],
   "singledispatchmethod registry, filled at import"⟩,
  ⟨"ffcx/codegeneration/numba/formatter.py", "Formatter.__call__", "623229de8463", importtime, "-", [],
   "singledispatchmethod registry, filled at import"⟩,
  -- access.py
  ⟨"ffcx/codegeneration/access.py", "FFCXBackendAccess.cell_vertices", "aac4ce01a1fe", oblivious, "site_singleton_unpack",
   ["site_invariant_singleton_unpack"], "(x,) = set(sub_elements)"⟩,
  ⟨"ffcx/codegeneration/access.py", "FFCXBackendAccess.cell_edge_vectors", "aac4ce01a1fe", oblivious, "site_singleton_unpack",
   ["site_invariant_singleton_unpack"], "(x,) = set(sub_elements)"⟩,
  ⟨"ffcx/codegeneration/access.py", "FFCXBackendAccess.facet_edge_vectors", "aac4ce01a1fe", oblivious, "site_singleton_unpack",
   ["site_invariant_singleton_unpack"], "(x,) = set(sub_elements)"⟩,
  ⟨"ffcx/codegeneration/access.py", "FFCXBackendAccess.__init__", "1e22ae664e05", counter, "generatorInstances",
   ["counters_fresh"], "self.call_lookup: per-backend dispatch dict, constant after __init__"⟩,
  ⟨"ffcx/codegeneration/definitions.py", "FFCXBackendDefinitions.__init__", "1b4d74773c09", counter, "generatorInstances",
   ["counters_fresh"], "self.handler_lookup: per-backend dispatch dict, constant after __init__"⟩,
  -- codegeneration.py / common.py
  ⟨"ffcx/codegeneration/codegeneration.py", "generate_code", "2da4ee53ceb6", intset, "site_integral_domains",
   ["site_integral_domains_counterexample", "site_integral_domains_partial"],
   "for domain in set(CellType ...): order of the integral code blocks"⟩,
  ⟨"ffcx/codegeneration/common.py", "template_keys", "447f7e74af64", oblivious, "site_set_eq",
   ["site_invariant_membership"], "returned set is only compared with == in asserts"⟩,
  ⟨"ffcx/codegeneration/common.py", "tensor_sizes", "f72a2109b3df", importtime, "-", [], "singledispatch registry"⟩,
  -- expression_generator.py
  ⟨"ffcx/codegeneration/expression_generator.py", "ExpressionGenerator.__init__", "7d3d2c5f4449", oblivious, "site_ufl_names",
   ["site_invariant_ufl_names"], "self._ufl_names: only .add, never read"⟩,
  ⟨"ffcx/codegeneration/expression_generator.py", "ExpressionGenerator.__init__", "7091b5f102e3", counter, "generatorInstances",
   ["counters_fresh"], "self._ufl_names = set()"⟩,
  ⟨"ffcx/codegeneration/expression_generator.py", "ExpressionGenerator.__init__", "f3a347e8b813", counter, "generatorInstances",
   ["counters_fresh"], "self.scope"⟩,
  ⟨"ffcx/codegeneration/expression_generator.py", "ExpressionGenerator.__init__", "442bd5089240", counter, "GenState.fresh",
   ["counters_fresh", "site_invariant_temp_symbols"], "self.symbol_counters = defaultdict(int)"⟩,
  ⟨"ffcx/codegeneration/expression_generator.py", "ExpressionGenerator.__init__", "7dde9c93bb12", counter, "generatorInstances",
   ["counters_fresh"], "self.shared_symbols"⟩,
  -- integral_generator.py
  ⟨"ffcx/codegeneration/integral_generator.py", "IntegralGenerator.__init__", "af1b7e237096", oblivious, "site_ufl_names",
   ["site_invariant_ufl_names"], "self._ufl_names: only .add, never read"⟩,
  ⟨"ffcx/codegeneration/integral_generator.py", "IntegralGenerator.__init__", "7091b5f102e3", counter, "generatorInstances",
   ["counters_fresh"], "self._ufl_names = set()"⟩,
  ⟨"ffcx/codegeneration/integral_generator.py", "IntegralGenerator.__init__", "88ed2d85aefb", counter, "GenState.fresh",
   ["counters_fresh", "site_invariant_temp_symbols"], "self.temp_symbols"⟩,
  ⟨"ffcx/codegeneration/integral_generator.py", "IntegralGenerator.__init__", "442bd5089240", counter, "GenState.fresh",
   ["counters_fresh", "site_invariant_temp_symbols"], "self.symbol_counters = defaultdict(int)"⟩,
  ⟨"ffcx/codegeneration/integral_generator.py", "IntegralGenerator.init_scopes", "830c02370e20", counter, "generatorInstances",
   ["counters_fresh"], "self.scopes"⟩,
  -- jit.py
  ⟨"ffcx/codegeneration/jit.py", "compile_forms", "9589fd358acc", canon, "site_sorted_set",
   ["site_invariant_jit_argument_numbers"], "tuple(sorted(set(a.number() ...)))"⟩,
  ⟨"ffcx/codegeneration/jit.py", "compile_forms", "c01d2a7ef2a6", irrelevant, "-", [],
   "forms[i] = diagonal_form: replaces entries of the caller's list (part=diagonal); outside compile_ufl_objects (C13)"⟩,
  -- lnodes.py
  ⟨"ffcx/codegeneration/lnodes.py", "LiteralInt.__hash__", "565cc0256a63", hashdef, "IsSetIter", ["hash_irrelevant_of_perm_invariant"], "int hash"⟩,
  ⟨"ffcx/codegeneration/lnodes.py", "Symbol.__hash__", "0b32d9f04207", hashdef, "IsSetIter", ["hash_irrelevant_of_perm_invariant"],
   "hash(self.name): str hash, PYTHONHASHSEED dependent -- the source of the three `leak` comment sites"⟩,
  ⟨"ffcx/codegeneration/lnodes.py", "MultiIndex.__hash__", "e88b728dd742", hashdef, "IsSetIter", ["hash_irrelevant_of_perm_invariant"],
   "hash of a bound method object (address dependent); MultiIndex is never put in a set/dict key"⟩,
  ⟨"ffcx/codegeneration/lnodes.py", "BinOp.__hash__", "9f58ad3ddb60", hashdef, "IsSetIter", ["hash_irrelevant_of_perm_invariant"], ""⟩,
  ⟨"ffcx/codegeneration/lnodes.py", "NaryOp.__hash__", "bc25c58ce2ac", hashdef, "IsSetIter", ["hash_irrelevant_of_perm_invariant"], ""⟩,
  ⟨"ffcx/codegeneration/lnodes.py", "ArrayAccess.__hash__", "174fc346187b", hashdef, "IsSetIter", ["hash_irrelevant_of_perm_invariant"],
   "dict keys in licm (`expressions[lhs]`): dict iteration is insertion ordered"⟩,
  ⟨"ffcx/codegeneration/lnodes.py", "Statement.__hash__", "b1c4a0c5603e", hashdef, "IsSetIter", ["hash_irrelevant_of_perm_invariant"], ""⟩,
  ⟨"ffcx/codegeneration/lnodes.py", "StatementList.__hash__", "1678af7e1d4a", hashdef, "IsSetIter", ["hash_irrelevant_of_perm_invariant"], ""⟩,
  ⟨"ffcx/codegeneration/lnodes.py", "ArrayDecl.__hash__", "760884627944", hashdef, "IsSetIter", ["hash_irrelevant_of_perm_invariant"], ""⟩,
  ⟨"ffcx/codegeneration/lnodes.py", "ForRange.__hash__", "51a0eee0241c", hashdef, "IsSetIter", ["hash_irrelevant_of_perm_invariant"], ""⟩,
  ⟨"ffcx/codegeneration/lnodes.py", "<module>", "d700511f4c38", importtime, "-", ["no_written_module_state"], "_ufl_call_lookup: constant"⟩,
  ⟨"ffcx/codegeneration/lnodes.py", "MultiIndex.__init__", "2236cae2b1a2", counter, "generatorInstances", ["counters_fresh"], "node-local list"⟩,
  ⟨"ffcx/codegeneration/lnodes.py", "NaryOp.__init__", "1677bbe941ea", counter, "generatorInstances", ["counters_fresh"], "node-local list"⟩,
  ⟨"ffcx/codegeneration/lnodes.py", "MathFunction.__init__", "1677bbe941ea", counter, "generatorInstances", ["counters_fresh"], "node-local list"⟩,
  ⟨"ffcx/codegeneration/lnodes.py", "Section.__init__", "4428e5e1ae9b", counter, "generatorInstances", ["counters_fresh"], "node-local list"⟩,
  ⟨"ffcx/codegeneration/lnodes.py", "StatementList.__init__", "4428e5e1ae9b", counter, "generatorInstances", ["counters_fresh"], "node-local list"⟩,
  -- optimizer.py
  ⟨"ffcx/codegeneration/optimizer.py", "optimize", "9016ff363311", irrelevant, "-", [],
   "code[i] = section on the list passed by the generator (built for this call)"⟩,
  -- symbols.py
  ⟨"ffcx/codegeneration/symbols.py", "FFCXBackendSymbols.__init__", "8a81f7c616c0", counter, "generatorInstances", ["counters_fresh"], "per-backend cache"⟩,
  ⟨"ffcx/codegeneration/symbols.py", "FFCXBackendSymbols.__init__", "e49442a9ee5e", counter, "generatorInstances", ["counters_fresh"], "per-backend cache"⟩,
  -- ir/analysis
  ⟨"ffcx/ir/analysis/factorization.py", "<module>", "af672743933f", importtime, "-", ["no_written_module_state"], "noargs = {}: never written"⟩,
  ⟨"ffcx/ir/analysis/factorization.py", "handler", "8f3bddf9132d", importtime, "-", [], "singledispatch registry"⟩,
  ⟨"ffcx/ir/analysis/factorization.py", "handle_sum", "26e3fc4d1b3b", canon, "site_argkeys", ["site_invariant_argkeys_sum"], "set | set, sorted two lines below"⟩,
  ⟨"ffcx/ir/analysis/factorization.py", "handle_sum", "76258d062d6d", oblivious, "site_truth", ["site_invariant_membership"], "if argkeys"⟩,
  ⟨"ffcx/ir/analysis/factorization.py", "handle_sum", "dc319cbe3afd", canon, "site_argkeys", ["site_invariant_argkeys_sum"], "argkeys = sorted(argkeys)"⟩,
  ⟨"ffcx/ir/analysis/factorization.py", "handle_conditional", "e49d7d181eec", canon, "site_sorted_set",
   ["site_invariant_argkeys_conditional"], "sorted(set | set)"⟩,
  ⟨"ffcx/ir/analysis/graph.py", "rebuild_with_scalar_subexpressions", "0845bc956caa", oblivious, "site_membership",
   ["site_invariant_membership"], "handled: .add and `in` only"⟩,
  ⟨"ffcx/ir/analysis/graph.py", "ExpressionGraph.__init__", "bdb39d5e147f", counter, "generatorInstances", ["counters_fresh"], "graph-local dict"⟩,
  ⟨"ffcx/ir/analysis/graph.py", "ExpressionGraph.__init__", "2a1fdec39cfc", counter, "generatorInstances", ["counters_fresh"], "graph-local dict"⟩,
  ⟨"ffcx/ir/analysis/graph.py", "ExpressionGraph.__init__", "983e785d0ae1", counter, "generatorInstances", ["counters_fresh"], "graph-local dict"⟩,
  ⟨"ffcx/ir/analysis/graph.py", "ExpressionGraph.__init__", "a5b4af8cb0cc", counter, "generatorInstances", ["counters_fresh"], "graph-local dict"⟩,
  ⟨"ffcx/ir/analysis/indexing.py", "map_indexed_arg_components", "10282c2cbf54", canon, "site_index_position",
   ["site_invariant_index_position"], "fi1.index(i.count()): position only"⟩,
  ⟨"ffcx/ir/analysis/indexing.py", "map_component_tensor_arg_components", "272c524804ad", canon, "site_index_position",
   ["site_invariant_index_position"], "fi1.index(mi[k].count())"⟩,
  ⟨"ffcx/ir/analysis/modified_terminals.py", "ModifiedTerminal.__hash__", "51a0eee0241c", hashdef, "IsSetIter",
   ["hash_irrelevant_of_perm_invariant"], "dict keys only (insertion ordered)"⟩,
  ⟨"ffcx/ir/analysis/reconstruct.py", "handle_index_sum", "42862ad7eae2", canon, "site_index_position",
   ["site_invariant_index_position"], "ic = mi[0].count(); fi.index(ic)"⟩,
  ⟨"ffcx/ir/analysis/reconstruct.py", "<module>", "6da7f80890ad", importtime, "-", ["no_written_module_state"], "_reconstruct_call_lookup: constant"⟩,
  ⟨"ffcx/ir/analysis/valuenumbering.py", "ValueNumberer.__init__", "74003fd263a9", counter, "generatorInstances", ["counters_fresh"], "per-numberer list"⟩,
  ⟨"ffcx/ir/analysis/valuenumbering.py", "ValueNumberer.__init__", "1e22ae664e05", counter, "generatorInstances", ["counters_fresh"], "per-numberer dispatch dict"⟩,
  -- ir/elementtables.py
  ⟨"ffcx/ir/elementtables.py", "build_optimized_tables", "1c31ed48cc2f", irrelevant, "-", [],
   "t['array'] = ... on the dict just returned by get_ffcx_table_values"⟩,
  -- ir/integral.py
  ⟨"ffcx/ir/integral.py", "_compute_integral_ir", "a50fd9a8650c", intset, "site_int_argkeys",
   ["site_int_argkeys_counterexample", "site_int_argkeys_partial"], "_argkeys: set[int] = set()"⟩,
  ⟨"ffcx/ir/integral.py", "_compute_integral_ir", "49ce49cfb69e", intset, "site_int_argkeys",
   ["site_int_argkeys_counterexample", "site_int_argkeys_partial"], "_argkeys = _argkeys | set(w)"⟩,
  ⟨"ffcx/ir/integral.py", "_compute_integral_ir", "85ee2ee9bfa7", intset, "site_int_argkeys",
   ["site_int_argkeys_counterexample", "site_int_argkeys_partial"], "argkeys = list(_argkeys)"⟩,
  ⟨"ffcx/ir/integral.py", "_compute_integral_ir", "32546e8f87a6", canon, "site_active_tables",
   ["site_invariant_active_tables"], "active_table_names = set()"⟩,
  ⟨"ffcx/ir/integral.py", "_compute_integral_ir", "2b81650669ec", canon, "site_active_tables",
   ["site_invariant_active_tables"], "for name in active_table_names: dict insertion order; emitted through sorted(tables)"⟩,
  -- ir/representation.py
  ⟨"ffcx/ir/representation.py", "compute_ir", "ff0208b6416e", intset, "site_integral_domains",
   ["site_integral_domains_counterexample", "site_integral_domains_partial"], "integral_domains: sets of CellType -> form_integrals order"⟩,
  ⟨"ffcx/ir/representation.py", "_compute_form_ir", "243e27ec5893", identity, "site_object_name", ["site_invariant_object_names"], "object_names.get(id(obj), ...)"⟩,
  ⟨"ffcx/ir/representation.py", "_compute_form_ir", "2713f4c593da", identity, "site_object_name", ["site_invariant_object_names"], ""⟩,
  ⟨"ffcx/ir/representation.py", "_compute_form_ir", "b1342fd2f096", identity, "site_object_name", ["site_invariant_object_names"], ""⟩,
  ⟨"ffcx/ir/representation.py", "_compute_expression_ir", "1da7f46d0c67", identity, "site_object_name", ["site_invariant_object_names"], ""⟩,
  ⟨"ffcx/ir/representation.py", "_compute_expression_ir", "2514999ae870", identity, "site_object_name", ["site_invariant_object_names"], ""⟩,
  ⟨"ffcx/ir/representation.py", "_compute_expression_ir", "c408712d1135", identity, "site_object_name", ["site_invariant_object_names"], ""⟩,
  ⟨"ffcx/ir/representationutils.py", "QuadratureRule.__hash__", "5438a17889c8", hashdef, "IsSetIter",
   ["hash_irrelevant_of_perm_invariant"], "SHA-1 of the point bytes: seed and history independent; dict keys only"⟩,
  -- options.py
  ⟨"ffcx/options.py", "<module>", "a17a4faa98f3", importtime, "-", ["no_written_module_state"], "FFCX_DEFAULT_OPTIONS: constant"⟩,
  ⟨"ffcx/options.py", "_load_options", "79859401c82f", irrelevant, "-", [],
   "functools.cache of the option FILES (first cwd wins): feeds get_options(), not compile_ufl_objects(objects, options); modelled in C20"⟩
]

end Ffcx.Determinism
