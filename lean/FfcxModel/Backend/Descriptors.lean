/-
FfcxModel/Backend/Descriptors.lean — the descriptor generators of the two backends of FFCx
(property C18, "descriptors carry the same metadata").  CORE LEAN ONLY.

For each object kind there are TWO independent transcriptions, one per Python generator, of the code
AS IT IS:

  ffcx/codegeneration/C/form.py            generator  ->  `C.form`          (+ `C.formDecls`, `C.storeForm`)
  ffcx/codegeneration/numba/form.py        generator  ->  `Numba.form`
  ffcx/codegeneration/C/integral.py        generator  ->  `C.integral`
  ffcx/codegeneration/numba/integral.py    generator  ->  `Numba.integral`
  ffcx/codegeneration/C/expression.py      generator  ->  `C.expression`
  ffcx/codegeneration/numba/expression.py  generator  ->  `Numba.expression`
  ffcx/codegeneration/common.py            integral_data  ->  `integralData`  (shared by both form generators,
                                                               exactly as in the Python code)
  ffcx/codegeneration/numba/file_template.py  the constants of the module prelude  ->  `Numba.preludeConstants`
  ffcx/ir/representation.py                _compute_form_ir (the loop that fills subdomain_ids / integral_names /
                                           integral_domains, with its two guards)  ->  `formIRIntegrals`, `idsFit`

The two transcriptions of one object kind deliberately share NO helper that mirrors generator code
(only the encodings below and `integralData`, which the Python generators share too): a change of one
Python generator must be mirrored in one Lean function only, and the agreement theorems
(FfcxProofs/C18Descr.lean) then break.

What is modelled is the VALUE every descriptor field is initialised with (the template slot after
`format_map`), not the program text; `harness/descr_checks.py` ties each function to the real generator by
reading the values back (C: parsed initialisers of the generated text and the struct read through cffi;
numba: class attributes of the exec'ed module).

Modelling decisions
* IR records hold exactly the fields the generators read, with the Python types of the IR
  (`int` -> `Int`, `len(...)`-valued quantities -> `Nat`, `basix_hash()` -> `Option Nat`).
* a list-valued descriptor field is an `Enc α`: `absent` is C `NULL` / Python `None`, `arr xs` a pointer to a
  static array initialised with `xs` / a Python list.  The backends choose differently for EMPTY lists
  (`C/integral.py`: NULL, `numba/integral.py`: `[]`), which is why `descrEq` compares `Enc.toList`.
* `np.argsort` is a parameter (`argsort : List Int → List Nat`, any function): both generators call the
  same `integral_data`, the harness passes NumPy's actual permutations.
* Python exceptions (`IndexError` in `integral_data`, failed `assert`s) and generated modules that cannot
  be compiled/imported because they mention an undefined name or `UINT64_C(None)` are `Except.error`.
* C storage (`C.storeForm`): the fields of `ufcx_form` are `int` / `uint64_t`; an initialiser outside the
  range is converted by the C compiler (gcc/clang: modulo 2^32 resp. 2^64).  The numba module keeps the
  Python integer.  This is level 2 of the comparison (the struct a consumer reads through cffi).
-/
namespace Ffcx.Backend

/-! ## Encodings shared by the descriptor records -/

/-- A pointer/list valued descriptor field. `absent` = C `NULL` / Python `None`. -/
inductive Enc (α : Type) where
  | absent
  | arr (xs : List α)
  deriving Repr, DecidableEq

/-- What a consumer can read of the field: `NULL`/`None` offers no entries. -/
def Enc.toList {α} : Enc α → List α
  | .absent => []
  | .arr xs => xs

def Enc.map {α β} (f : α → β) : Enc α → Enc β
  | .absent => .absent
  | .arr xs => .arr (xs.map f)

/-- A `basix.CellType` value as the generators use it: `domain.name` and `int(domain)`. -/
structure Domain where
  name : String
  tag : Nat
  deriving Repr, DecidableEq

/-- A kernel-pointer slot of `ufcx_integral` / `ufcx_expression`. -/
inductive Slot where
  | omitted              -- the initialiser line is not emitted (`""` on win32); the member is zero-initialised
  | null                 -- `.tabulate_tensor_X = NULL,`
  | fn (name : String)   -- `.tabulate_tensor_X = tabulate_tensor_<factory>,` / `tabulate_tensor = tabulate_tensor_<factory>`
  deriving Repr, DecidableEq

/-- `options["scalar_type"]`: the four values `ffcx.options.FFCX_DEFAULT_OPTIONS` admits. -/
inductive ScalarType where
  | float32 | float64 | complex64 | complex128
  deriving Repr, DecidableEq

/-- `np.dtype(options["scalar_type"]).name` -/
def ScalarType.npName : ScalarType → String
  | .float32 => "float32"
  | .float64 => "float64"
  | .complex64 => "complex64"
  | .complex128 => "complex128"

/-- What the generators read of `options` and of the interpreter. -/
structure Options where
  scalarType : ScalarType
  /-- `sys.platform.startswith("win32")` (read by `C/integral.py` only) -/
  win32 : Bool := false
  deriving Repr, DecidableEq

/-- `xs[i]` of a Python list for a non-negative index. -/
def pyIndex {α} (xs : List α) (i : Nat) : Except String α :=
  match xs[i]? with
  | some x => .ok x
  | none => .error "IndexError: list index out of range"

/-! ## FormIR and `common.integral_data` -/

/-- `ir.subdomain_ids[t]`, `ir.integral_names[t]`, `ir.integral_domains[t]` of ONE integral type `t`
(three parallel lists; `integral_domains[t][i]` is a set of cell types, here in iteration order). -/
structure TypeIntegrals where
  ids : List Int
  names : List String
  domains : List (List Domain)
  deriving Repr, DecidableEq

/-- The fields of `ffcx.ir.representation.FormIR` the form generators read.  `integrals` lists the
per-type dictionaries' values in the order of the tuple `integral_data` iterates over
(`("cell", "exterior_facet", "interior_facet", "vertex", "ridge")`; any number of types here). -/
structure FormIR where
  name : String
  nameFromUflfile : String
  signature : String
  rank : Int
  numCoefficients : Int
  originalCoefficientPositions : List Int
  coefficientNames : List String
  numConstants : Int
  constantRanks : List Int
  constantShapes : List (List Int)
  constantNames : List String
  /-- `e.basix_hash()`: `None` for non-Basix elements -/
  finiteElementHashes : List (Option Nat)
  integrals : List TypeIntegrals
  deriving Repr, DecidableEq

/-- `common.IntegralData`. -/
structure IntegralData where
  names : List String
  ids : List Int
  offsets : List Nat
  domains : List (List Domain)
  deriving Repr, DecidableEq

/-- One iteration of `for itg_type in (...)` of `integral_data`:

    _ids = ir.subdomain_ids[itg_type]; id_sort = np.argsort(_ids)
    ids += [_ids[i] for i in id_sort]
    names += [ir.integral_names[itg_type][i] for i in id_sort]
    domains += [ir.integral_domains[itg_type][i] for i in id_sort]
    offsets.append(offsets[-1] + sum(len(ir.integral_domains[itg_type][i]) for i in id_sort)) -/
def integralDataStep (argsort : List Int → List Nat) (acc : IntegralData) (t : TypeIntegrals) :
    Except String IntegralData := do
  let idSort := argsort t.ids
  let ids ← idSort.mapM (pyIndex t.ids)
  let names ← idSort.mapM (pyIndex t.names)
  let doms ← idSort.mapM (pyIndex t.domains)
  pure { names := acc.names ++ names, ids := acc.ids ++ ids, domains := acc.domains ++ doms,
         offsets := acc.offsets ++ [acc.offsets.getLast?.getD 0 + (doms.map List.length).sum] }

/-- `common.integral_data(ir)` (`names, ids, domains = [], [], []; offsets = [0]`). -/
def integralData (argsort : List Int → List Nat) (ir : FormIR) : Except String IntegralData :=
  ir.integrals.foldlM (integralDataStep argsort) { names := [], ids := [], offsets := [0], domains := [] }


/-! ## `_compute_form_ir`: construction of the per-type id / name / domain lists, with its guards

    for itg_index, itg_data in enumerate(form_data.integral_data):
        integral_type = itg_data.integral_type
        if any(sid != "otherwise" and sid < 0 for sid in itg_data.subdomain_id): raise ValueError(…non-negative.)
        if any(sid != "otherwise" and sid > 2**31 - 1 for sid in itg_data.subdomain_id): raise ValueError(…32-bit…)
        subdomain_ids = [sid if sid != "otherwise" else -1 for sid in itg_data.subdomain_id]
        ir["subdomain_ids"][integral_type] += subdomain_ids
        for _ in range(len(subdomain_ids)):
            ir["integral_names"][integral_type] += [iname]; ir["integral_domains"][integral_type] += [integral_domains[iname]]
-/

/-- An element of UFL's `itg_data.subdomain_id` tuple. -/
inductive SubId where
  | otherwise
  | num (i : Int)
  deriving Repr, DecidableEq

/-- `sid if sid != "otherwise" else -1` -/
def SubId.toInt : SubId → Int
  | .otherwise => -1
  | .num i => i

/-- `sid != "otherwise" and sid < 0` -/
def SubId.isNegative : SubId → Bool
  | .otherwise => false
  | .num i => decide (i < 0)

/-- `sid != "otherwise" and sid > 2**31 - 1` -/
def SubId.tooLarge : SubId → Bool
  | .otherwise => false
  | .num i => decide (i > 2147483647)

/-- What the loop reads of one `itg_data`: the integral type as its position in
`ufcx_integral_types` (a type that is not a key raises KeyError), the id tuple, and
`integral_names[(form_id, itg_index)]`, `integral_domains[iname]`. -/
structure ItgData where
  itype : Nat
  subdomainId : List SubId
  name : String
  domains : List Domain
  deriving Repr, DecidableEq

def modifyAt {α} (f : α → α) : Nat → List α → List α
  | _, [] => []
  | 0, a :: l => f a :: l
  | n + 1, a :: l => a :: modifyAt f n l

/-- `+=` of the three dictionaries for one `itg_data` -/
def TypeIntegrals.extend (d : ItgData) (t : TypeIntegrals) : TypeIntegrals :=
  { ids := t.ids ++ d.subdomainId.map SubId.toInt,
    names := t.names ++ d.subdomainId.map (fun _ => d.name),
    domains := t.domains ++ d.subdomainId.map (fun _ => d.domains) }

/-- one iteration of the loop -/
def formIRIntegralsStep (groups : List TypeIntegrals) (d : ItgData) : Except String (List TypeIntegrals) :=
  if d.subdomainId.any SubId.isNegative then .error "Integral subdomain IDs must be non-negative."
  else if d.subdomainId.any SubId.tooLarge then .error "Integral subdomain IDs must fit a 32-bit signed integer."
  else if d.itype < groups.length then .ok (modifyAt (TypeIntegrals.extend d) d.itype groups)
  else .error "KeyError: integral type"

/-- the integral part of `_compute_form_ir` for `ntypes` integral types (5 in the code) -/
def formIRIntegrals (ntypes : Nat) (itgs : List ItgData) : Except String (List TypeIntegrals) :=
  itgs.foldlM formIRIntegralsStep (List.replicate ntypes { ids := [], names := [], domains := [] })

/-- The range of ids `_compute_form_ir` lets through: `-1` ('otherwise') up to `2^31 - 1`. -/
def idFits (i : Int) : Prop := -1 ≤ i ∧ i ≤ 2147483647

instance (i : Int) : Decidable (idFits i) := by unfold idFits; exact inferInstance

/-- every subdomain id of the FormIR passed the guards of `_compute_form_ir` -/
def idsFit (ir : FormIR) : Prop := ∀ t ∈ ir.integrals, ∀ i ∈ t.ids, idFits i

instance (ir : FormIR) : Decidable (idsFit ir) := by unfold idsFit; exact inferInstance

/-- a Python integer that an `int` member holds unchanged -/
def FitsInt32 (x : Int) : Prop := -2147483648 ≤ x ∧ x < 2147483648

instance (x : Int) : Decidable (FitsInt32 x) := by unfold FitsInt32; exact inferInstance

/-- The remaining representability conditions on the fields of a FormIR that are written into `int` /
`uint64_t` members.  Not guarded by FFCx: by construction they are lengths of in-memory sequences
(`rank`, `num_coefficients`, `num_constants`, `constant_ranks`), indices into such a sequence
(`original_coefficient_positions`), UFL shape extents (`constant_shapes`) and Basix `uint64` hashes. -/
structure FormIR.FieldsFit (ir : FormIR) : Prop where
  rank : FitsInt32 ir.rank
  numCoefficients : FitsInt32 ir.numCoefficients
  numConstants : FitsInt32 ir.numConstants
  positions : ∀ x ∈ ir.originalCoefficientPositions, FitsInt32 x
  ranks : ∀ x ∈ ir.constantRanks, FitsInt32 x
  shapes : ∀ s ∈ ir.constantShapes, ∀ x ∈ s, FitsInt32 x
  hashes : ∀ h ∈ ir.finiteElementHashes, ∀ v, h = some v → v < 18446744073709551616

def FormIR.fieldsFitB (ir : FormIR) : Bool :=
  decide (FitsInt32 ir.rank) && decide (FitsInt32 ir.numCoefficients) && decide (FitsInt32 ir.numConstants)
  && ir.originalCoefficientPositions.all (fun x => decide (FitsInt32 x))
  && ir.constantRanks.all (fun x => decide (FitsInt32 x))
  && ir.constantShapes.all (fun s => s.all (fun x => decide (FitsInt32 x)))
  && ir.finiteElementHashes.all (fun h => match h with | none => true | some v => decide (v < 18446744073709551616))

/-! ## Form descriptors -/

/-- The fields of `ufcx_form` / of the numba form class, as initialised by the generators. -/
structure FormDescr where
  factoryName : String
  /-- the alias `ufcx_form* <name_from_uflfile> = &<factory>` / `<name_from_uflfile> = <factory>` -/
  nameFromUflfile : String
  signature : String
  rank : Int
  numCoefficients : Int
  originalCoefficientPositions : Enc Int
  coefficientNameMap : Enc String
  numConstants : Int
  constantRanks : Enc Int
  /-- per constant: `NULL`/`None` or the extents -/
  constantShapes : Enc (Enc Int)
  constantNameMap : Enc String
  finiteElementHashes : Enc Nat
  /-- names of the integral objects the table points to (`&<name>_<domain.name>` / the class of that name) -/
  formIntegrals : Enc String
  formIntegralIds : Enc Int
  /-- always present (no NULL branch in either generator) -/
  formIntegralOffsets : List Int
  deriving Repr, DecidableEq

/-- A C array definition `T name[size] = {v_1, …, v_count};` of the generated form code. -/
structure ArrayDecl where
  name : String
  size : Int
  count : Nat
  deriving Repr, DecidableEq

namespace C

/-- The `constant_shapes` member as `C/form.py` builds it:

    names = [constant_shapes_<name>_<i> for i in range(ir.num_constants)]
    for rank, name in zip(ir.constant_ranks, names): name if rank > 0 else NULL

`constant_shapes_<name>_<i>` is DEFINED only by the comprehension
`for i, shape in enumerate(ir.constant_shapes) if len(shape) > 0` but REFERENCED `if rank > 0`; a
reference to an undefined array is a C compile error (`.error`). -/
def formConstantShapes (ir : FormIR) : Except String (Enc (Enc Int)) :=
  if ir.numConstants > 0 then do
    let rows ← (ir.constantRanks.zip (List.range ir.numConstants.toNat)).mapM (fun (p : Int × Nat) =>
      if p.1 > 0 then
        match ir.constantShapes[p.2]? with
        | some shape => if shape.length > 0 then Except.ok (Enc.arr shape)
                        else .error s!"C: constant_shapes_{ir.name}_{p.2} undeclared"
        | none => .error s!"C: constant_shapes_{ir.name}_{p.2} undeclared"
      else Except.ok Enc.absent)
    pure (Enc.arr rows)
  else pure Enc.absent

/-- `ffcx/codegeneration/C/form.py generator`: the values the members of `ufcx_form` are initialised with. -/
def form (argsort : List Int → List Nat) (ir : FormIR) : Except String FormDescr := do
  -- if len(ir.original_coefficient_positions) > 0: … else: "NULL"
  let origPos : Enc Int :=
    if ir.originalCoefficientPositions.length > 0 then .arr ir.originalCoefficientPositions else .absent
  -- if len(ir.coefficient_names) > 0: … else: "NULL"
  let coefNames : Enc String :=
    if ir.coefficientNames.length > 0 then .arr ir.coefficientNames else .absent
  -- if ir.num_constants > 0: constant_ranks = {str(ir.constant_ranks)[1:-1]} … else NULL, NULL
  let constRanks : Enc Int := if ir.numConstants > 0 then .arr ir.constantRanks else .absent
  let constShapes ← formConstantShapes ir
  -- if len(ir.constant_names) > 0: … else: "NULL"
  let constNames : Enc String :=
    if ir.constantNames.length > 0 then .arr ir.constantNames else .absent
  -- if len(ir.finite_element_hashes) > 0: UINT64_C({0 if el is None else el}) … else NULL
  let hashes : Enc Nat :=
    if ir.finiteElementHashes.length > 0 then
      .arr (ir.finiteElementHashes.map (fun el => match el with | none => 0 | some h => h))
    else .absent
  let integrals ← integralData argsort ir
  -- if len(integrals.names) > 0:
  --   [f"&{name}_{domain.name}" for name, domains in zip(integrals.names, integrals.domains) for domain in domains]
  --   [f"{i}" for i, domains in zip(integrals.ids, integrals.domains) for _ in domains]
  let formIntegrals : Enc String :=
    if integrals.names.length > 0 then
      .arr ((integrals.names.zip integrals.domains).flatMap
              (fun (p : String × List Domain) => p.2.map (fun domain => p.1 ++ "_" ++ domain.name)))
    else .absent
  let formIntegralIds : Enc Int :=
    if integrals.names.length > 0 then
      .arr ((integrals.ids.zip integrals.domains).flatMap
              (fun (p : Int × List Domain) => p.2.map (fun _ => p.1)))
    else .absent
  pure { factoryName := ir.name, nameFromUflfile := ir.nameFromUflfile, signature := ir.signature,
         rank := ir.rank, numCoefficients := ir.numCoefficients,
         originalCoefficientPositions := origPos, coefficientNameMap := coefNames,
         numConstants := ir.numConstants, constantRanks := constRanks, constantShapes := constShapes,
         constantNameMap := constNames, finiteElementHashes := hashes,
         formIntegrals := formIntegrals, formIntegralIds := formIntegralIds,
         -- values = ", ".join(str(i) for i in integrals.offsets)
         formIntegralOffsets := integrals.offsets.map Int.ofNat }

/-- The array definitions `C/form.py` emits, with the DECLARED size (`[{sizes}]`) and the number of
initialisers.  C pads missing initialisers with zeros and rejects (gcc: warns about) excess ones, so
the values of `C.form` are what the struct holds only if `size = count` for every definition. -/
def formDecls (argsort : List Int → List Nat) (ir : FormIR) : Except String (List ArrayDecl) := do
  let integrals ← integralData argsort ir
  let n := ir.name
  let pos := if ir.originalCoefficientPositions.length > 0 then
    [{ name := s!"original_coefficient_position_{n}", size := ir.originalCoefficientPositions.length,
       count := ir.originalCoefficientPositions.length : ArrayDecl }] else []
  let hashes := if ir.finiteElementHashes.length > 0 then
    [{ name := s!"finite_element_hashes_{n}", size := ir.finiteElementHashes.length,
       count := ir.finiteElementHashes.length : ArrayDecl }] else []
  let offs := [{ name := s!"form_integral_offsets_{n}", size := integrals.offsets.length,
                 count := integrals.offsets.length : ArrayDecl }]
  -- sizes = sum(len(domains) for domains in integrals.domains)
  let sizes : Nat := (integrals.domains.map List.length).sum
  let tab := if integrals.names.length > 0 then
    [{ name := s!"form_integrals_{n}", size := sizes,
       count := ((integrals.names.zip integrals.domains).flatMap (fun p => p.2.map (fun _ => p.1))).length : ArrayDecl },
     { name := s!"form_integral_ids_{n}", size := sizes,
       count := ((integrals.ids.zip integrals.domains).flatMap (fun p => p.2.map (fun _ => p.1))).length : ArrayDecl }]
    else []
  let cnames := if ir.coefficientNames.length > 0 then
    [{ name := s!"coefficient_names_{n}", size := ir.coefficientNames.length,
       count := ir.coefficientNames.length : ArrayDecl }] else []
  let knames := if ir.constantNames.length > 0 then
    [{ name := s!"constant_names_{n}", size := ir.constantNames.length,
       count := ir.constantNames.length : ArrayDecl }] else []
  let consts := if ir.numConstants > 0 then
    [{ name := s!"constant_ranks_{n}", size := ir.numConstants, count := ir.constantRanks.length : ArrayDecl }]
    ++ ((ir.constantShapes.zipIdx.filter (fun p => p.1.length > 0)).map (fun p =>
          { name := s!"constant_shapes_{n}_{p.2}", size := p.1.length, count := p.1.length : ArrayDecl }))
    ++ [{ name := s!"constant_shapes_{n}", size := ir.numConstants,
          count := (ir.constantRanks.zip (List.range ir.numConstants.toNat)).length : ArrayDecl }]
    else []
  pure (pos ++ hashes ++ offs ++ tab ++ cnames ++ knames ++ consts)

/-- Conversion of an integer constant to a 32-bit `int` (gcc/clang: modulo 2^32). -/
def wrap32 (x : Int) : Int := (x + 2147483648) % 4294967296 - 2147483648

/-- Conversion to `uint64_t`. -/
def wrap64 (x : Nat) : Nat := x % 18446744073709551616

/-- Level 2: what the members of the compiled `ufcx_form` hold (`int`, `int*`, `const int*`,
`uint64_t*` members), given the initialiser values. -/
def storeForm (d : FormDescr) : FormDescr :=
  { d with
    rank := wrap32 d.rank, numCoefficients := wrap32 d.numCoefficients, numConstants := wrap32 d.numConstants,
    originalCoefficientPositions := d.originalCoefficientPositions.map wrap32,
    constantRanks := d.constantRanks.map wrap32,
    constantShapes := d.constantShapes.map (Enc.map wrap32),
    finiteElementHashes := d.finiteElementHashes.map wrap64,
    formIntegralIds := d.formIntegralIds.map wrap32,
    formIntegralOffsets := d.formIntegralOffsets.map wrap32 }

end C

namespace Numba

/-- The `constant_shapes` attribute as `numba/form.py` builds it (same loop as the C generator with
`None` for `NULL`); `constant_shapes_<name>_<i>` is assigned only `if len(shape) > 0` but referenced
`if rank > 0`: the generated module then raises `NameError` when imported (`.error`). -/
def formConstantShapes (ir : FormIR) : Except String (Enc (Enc Int)) :=
  if ir.numConstants > 0 then do
    let rows ← (ir.constantRanks.zip (List.range ir.numConstants.toNat)).mapM (fun (p : Int × Nat) =>
      if p.1 > 0 then
        match ir.constantShapes[p.2]? with
        | some shape => if shape.length > 0 then Except.ok (Enc.arr shape)
                        else .error s!"numba: NameError constant_shapes_{ir.name}_{p.2}"
        | none => .error s!"numba: NameError constant_shapes_{ir.name}_{p.2}"
      else Except.ok Enc.absent)
    pure (Enc.arr rows)
  else pure Enc.absent

/-- `ffcx/codegeneration/numba/form.py generator`: the class attributes of the generated form class. -/
def form (argsort : List Int → List Nat) (ir : FormIR) : Except String FormDescr := do
  -- if len(ir.original_coefficient_positions) > 0: [values] else: "None"
  let origPos : Enc Int :=
    if ir.originalCoefficientPositions.length > 0 then .arr ir.originalCoefficientPositions else .absent
  -- if len(ir.coefficient_names) > 0: [values] else: "None"
  let coefNames : Enc String :=
    if ir.coefficientNames.length > 0 then .arr ir.coefficientNames else .absent
  -- if ir.num_constants > 0: constant_ranks = [str(ir.constant_ranks)[1:-1]] … else None, None
  let constRanks : Enc Int := if ir.numConstants > 0 then .arr ir.constantRanks else .absent
  let constShapes ← formConstantShapes ir
  -- if len(ir.constant_names) > 0: [values] else: "None"
  let constNames : Enc String :=
    if ir.constantNames.length > 0 then .arr ir.constantNames else .absent
  -- if len(ir.finite_element_hashes) > 0: [{0 if el is None else el} …] else None
  let hashes : Enc Nat :=
    if ir.finiteElementHashes.length > 0 then
      .arr (ir.finiteElementHashes.map (fun el => match el with | none => 0 | some h => h))
    else .absent
  let integrals ← integralData argsort ir
  -- if len(integrals.names) > 0:
  --   [f"{name}_{domain.name}" for name, domains in zip(integrals.names, integrals.domains) for domain in domains]
  --   [f"{i}" for i, domains in zip(integrals.ids, integrals.domains) for _ in domains]
  let formIntegrals : Enc String :=
    if integrals.names.length > 0 then
      .arr ((integrals.names.zip integrals.domains).flatMap
              (fun (p : String × List Domain) => p.2.map (fun domain => p.1 ++ "_" ++ domain.name)))
    else .absent
  let formIntegralIds : Enc Int :=
    if integrals.names.length > 0 then
      .arr ((integrals.ids.zip integrals.domains).flatMap
              (fun (p : Int × List Domain) => p.2.map (fun _ => p.1)))
    else .absent
  pure { factoryName := ir.name, nameFromUflfile := ir.nameFromUflfile, signature := ir.signature,
         rank := ir.rank, numCoefficients := ir.numCoefficients,
         originalCoefficientPositions := origPos, coefficientNameMap := coefNames,
         numConstants := ir.numConstants, constantRanks := constRanks, constantShapes := constShapes,
         constantNameMap := constNames, finiteElementHashes := hashes,
         formIntegrals := formIntegrals, formIntegralIds := formIntegralIds,
         formIntegralOffsets := integrals.offsets.map Int.ofNat }

/-- The seeded change C18_m2 (`form_integral_ids` not repeated per domain:
`[f"{i}" for i in integrals.ids]`), kept as a model so that the agreement theorem can be shown to
separate it (FfcxProofs/C18Descr.lean `seeded_m2_detected`). -/
def formSeededM2 (argsort : List Int → List Nat) (ir : FormIR) : Except String FormDescr := do
  let d ← form argsort ir
  let integrals ← integralData argsort ir
  pure { d with formIntegralIds := if integrals.names.length > 0 then .arr integrals.ids else .absent }

end Numba

/-! ## Integral descriptors -/

/-- What the integral generators read of an `IntegralIR` for the descriptor (the kernel body and
`tensor_sizes` are the subject of C16/C18 `same_ast` and `tensor_sizes_*`). -/
structure IntegralIR where
  /-- `ir.expression.name` -/
  name : String
  enabledCoefficients : List Bool
  /-- `ir.expression.needs_facet_permutations` -/
  needsFacetPermutations : Bool
  /-- `ir.expression.coordinate_element_hash` -/
  coordinateElementHash : Option Nat
  deriving Repr, DecidableEq

structure IntegralDescr where
  factoryName : String
  enabledCoefficients : Enc Bool
  needsFacetPermutations : Bool
  coordinateElementHash : Nat
  domain : Nat
  /-- kernel slots in template order: C `tabulate_tensor_float32 … complex128`, numba `tabulate_tensor` -/
  kernels : List (String × Slot)
  deriving Repr, DecidableEq

/-- Names of the functions a consumer can call through the descriptor. -/
def IntegralDescr.fnNames (d : IntegralDescr) : List String :=
  d.kernels.filterMap (fun p => match p.2 with | .fn f => some f | _ => none)

namespace C

/-- `code["tabulate_tensor_<k>"]` after the four defaults and the assignment
`code[f"tabulate_tensor_{np_scalar_type}"] = ".tabulate_tensor_… = tabulate_tensor_<factory>,"`. -/
def integralSlot (o : Options) (factory : String) (k : String) (isComplex : Bool) : String × Slot :=
  ("tabulate_tensor_" ++ k,
   if k = o.scalarType.npName then .fn ("tabulate_tensor_" ++ factory)
   else if isComplex && o.win32 then .omitted else .null)

/-- `ffcx/codegeneration/C/integral.py generator` (descriptor part). -/
def integral (ir : IntegralIR) (domain : Domain) (o : Options) : Except String IntegralDescr := do
  -- factory_name = f"{ir.expression.name}_{domain.name}"
  let factory := ir.name ++ "_" ++ domain.name
  -- if len(ir.enabled_coefficients) > 0: {"1" if i else "0" …} else NULL
  let enabled : Enc Bool :=
    if ir.enabledCoefficients.length > 0 then .arr ir.enabledCoefficients else .absent
  let kernels := [integralSlot o factory "float32" false, integralSlot o factory "float64" false,
                  integralSlot o factory "complex64" true, integralSlot o factory "complex128" true]
  -- assert ir.expression.coordinate_element_hash is not None
  match ir.coordinateElementHash with
  | none => .error "AssertionError"
  | some h =>
    pure { factoryName := factory, enabledCoefficients := enabled,
           needsFacetPermutations := ir.needsFacetPermutations,
           coordinateElementHash := h, domain := domain.tag, kernels := kernels }

end C

namespace Numba

/-- `ffcx/codegeneration/numba/integral.py generator` (descriptor part). -/
def integral (ir : IntegralIR) (domain : Domain) (_o : Options) : Except String IntegralDescr := do
  let factory := ir.name ++ "_" ++ domain.name
  -- vals = ", ".join("1" if i else "0" for i in ir.enabled_coefficients); d["enabled_coefficients"] = f"[{vals}]"
  let enabled : Enc Bool := .arr ir.enabledCoefficients
  -- assert ir.expression.coordinate_element_hash is not None
  match ir.coordinateElementHash with
  | none => .error "AssertionError"
  | some h =>
    pure { factoryName := factory, enabledCoefficients := enabled,
           needsFacetPermutations := ir.needsFacetPermutations,
           coordinateElementHash := h, domain := domain.tag,
           -- tabulate_tensor = tabulate_tensor_{factory_name}   (one attribute, no scalar type in its name)
           kernels := [("tabulate_tensor", .fn ("tabulate_tensor_" ++ factory))] }

end Numba

/-! ## Expression descriptors -/

/-- A NumPy point array: `points.shape[0]`, `points.shape[1]`, and `str(p) for p in points.flatten()`
(the decimal literals both generators print; `points.size = len(points.flatten())`). -/
structure Points where
  shape0 : Nat
  shape1 : Nat
  flat : List String
  deriving Repr, DecidableEq

/-- What the expression generators read of an `ExpressionIR` for the descriptor. -/
structure ExpressionIR where
  /-- `ir.expression.name` -/
  name : String
  nameFromUflfile : String
  /-- `[key[1].points for key in ir.expression.integrand]` (asserted to have one entry) -/
  integrandPoints : List Points
  originalCoefficientPositions : List Int
  /-- `ir.expression.shape` -/
  shape : List Int
  /-- `len(ir.expression.coefficient_numbering)` -/
  numCoefficientNumbering : Nat
  coefficientNames : List String
  constantNames : List String
  /-- `ir.expression.tensor_shape` -/
  tensorShape : List Int
  /-- `ir.expression.coordinate_element_hash` -/
  coordinateElementHash : Option Nat
  deriving Repr, DecidableEq

structure ExprDescr where
  factoryName : String
  nameFromUflfile : String
  kernels : List (String × Slot)
  numCoefficients : Nat
  numConstants : Nat
  originalCoefficientPositions : Enc Int
  coefficientNames : Enc String
  constantNames : Enc String
  numPoints : Nat
  entityDimension : Nat
  points : Enc String
  valueShape : Enc Int
  numComponents : Nat
  rank : Nat
  /-- numba may carry `None` here -/
  coordinateElementHash : Option Nat
  deriving Repr, DecidableEq

def ExprDescr.fnNames (d : ExprDescr) : List String :=
  d.kernels.filterMap (fun p => match p.2 with | .fn f => some f | _ => none)

namespace C

/-- `ffcx/codegeneration/C/expression.py generator` (descriptor part).  The template initialises only
`.tabulate_tensor_{np_scalar_type}`; the other kernel members of the struct are zero (`null`).
`UINT64_C(None)` (a `None` hash) is not C. -/
def expression (ir : ExpressionIR) (o : Options) : Except String ExprDescr := do
  -- assert len(ir.expression.integrand) == 1; points = next(iter(ir.expression.integrand))[1].points
  let points ← match ir.integrandPoints with
    | [p] => Except.ok p
    | _ => .error "AssertionError: Expressions only support single quadrature rule"
  let factory := ir.name
  -- if len(ir.original_coefficient_positions) > 0: … else NULL
  let origPos : Enc Int :=
    if ir.originalCoefficientPositions.length > 0 then .arr ir.originalCoefficientPositions else .absent
  -- points_init: static double points_<factory>[points.size] = {…}; always a pointer
  let pts : Enc String := .arr points.flat
  -- if len(ir.expression.shape) > 0: … else NULL
  let valueShape : Enc Int := if ir.shape.length > 0 then .arr ir.shape else .absent
  let coefNames : Enc String :=
    if ir.coefficientNames.length > 0 then .arr ir.coefficientNames else .absent
  let constNames : Enc String :=
    if ir.constantNames.length > 0 then .arr ir.constantNames else .absent
  let kernels := ["float32", "float64", "complex64", "complex128"].map (fun k =>
    ("tabulate_tensor_" ++ k,
     if k = o.scalarType.npName then Slot.fn ("tabulate_tensor_" ++ factory) else Slot.null))
  -- d["coordinate_element_hash"] = f"UINT64_C({ir.expression.coordinate_element_hash})"
  match ir.coordinateElementHash with
  | none => .error "C: UINT64_C(None) does not compile"
  | some h =>
    pure { factoryName := factory, nameFromUflfile := ir.nameFromUflfile, kernels := kernels,
           numCoefficients := ir.numCoefficientNumbering, numConstants := ir.constantNames.length,
           originalCoefficientPositions := origPos, coefficientNames := coefNames, constantNames := constNames,
           numPoints := points.shape0, entityDimension := points.shape1, points := pts,
           valueShape := valueShape, numComponents := ir.shape.length, rank := ir.tensorShape.length,
           coordinateElementHash := some h }

end C

namespace Numba

/-- `ffcx/codegeneration/numba/expression.py generator` (descriptor part): every list-valued
attribute is a list literal (also when empty); `coordinate_element_hash` is printed as is. -/
def expression (ir : ExpressionIR) (_o : Options) : Except String ExprDescr := do
  let points ← match ir.integrandPoints with
    | [p] => Except.ok p
    | _ => .error "AssertionError: Expressions only support single quadrature rule"
  let factory := ir.name
  pure { factoryName := factory, nameFromUflfile := ir.nameFromUflfile,
         kernels := [("tabulate_tensor", .fn ("tabulate_tensor_" ++ factory))],
         numCoefficients := ir.numCoefficientNumbering, numConstants := ir.constantNames.length,
         originalCoefficientPositions := .arr ir.originalCoefficientPositions,
         coefficientNames := .arr ir.coefficientNames, constantNames := .arr ir.constantNames,
         numPoints := points.shape0, entityDimension := points.shape1, points := .arr points.flat,
         valueShape := .arr ir.shape, numComponents := ir.shape.length, rank := ir.tensorShape.length,
         coordinateElementHash := ir.coordinateElementHash }

end Numba

/-! ## Comparison of descriptors

`descrEq c n`: a consumer reading the C struct `c` and the numba class `n` sees the same metadata.
List-valued fields are compared through `Enc.toList` (`NULL`, `None` and `[]` all offer no entries);
kernel slots through the list of callable function names (the numba class has one `tabulate_tensor`
attribute, the C struct one non-NULL member among four). -/

def FormDescr.descrEq (c n : FormDescr) : Prop :=
  c.factoryName = n.factoryName ∧ c.nameFromUflfile = n.nameFromUflfile ∧ c.signature = n.signature
  ∧ c.rank = n.rank ∧ c.numCoefficients = n.numCoefficients
  ∧ c.originalCoefficientPositions.toList = n.originalCoefficientPositions.toList
  ∧ c.coefficientNameMap.toList = n.coefficientNameMap.toList
  ∧ c.numConstants = n.numConstants
  ∧ c.constantRanks.toList = n.constantRanks.toList
  ∧ c.constantShapes.toList.map Enc.toList = n.constantShapes.toList.map Enc.toList
  ∧ c.constantNameMap.toList = n.constantNameMap.toList
  ∧ c.finiteElementHashes.toList = n.finiteElementHashes.toList
  ∧ c.formIntegrals.toList = n.formIntegrals.toList
  ∧ c.formIntegralIds.toList = n.formIntegralIds.toList
  ∧ c.formIntegralOffsets = n.formIntegralOffsets

instance (c n : FormDescr) : Decidable (c.descrEq n) := by unfold FormDescr.descrEq; exact inferInstance

def IntegralDescr.descrEq (c n : IntegralDescr) : Prop :=
  c.factoryName = n.factoryName
  ∧ c.enabledCoefficients.toList = n.enabledCoefficients.toList
  ∧ c.needsFacetPermutations = n.needsFacetPermutations
  ∧ c.coordinateElementHash = n.coordinateElementHash
  ∧ c.domain = n.domain
  ∧ c.fnNames = n.fnNames

instance (c n : IntegralDescr) : Decidable (c.descrEq n) := by unfold IntegralDescr.descrEq; exact inferInstance

def ExprDescr.descrEq (c n : ExprDescr) : Prop :=
  c.factoryName = n.factoryName ∧ c.nameFromUflfile = n.nameFromUflfile
  ∧ c.fnNames = n.fnNames
  ∧ c.numCoefficients = n.numCoefficients ∧ c.numConstants = n.numConstants
  ∧ c.originalCoefficientPositions.toList = n.originalCoefficientPositions.toList
  ∧ c.coefficientNames.toList = n.coefficientNames.toList
  ∧ c.constantNames.toList = n.constantNames.toList
  ∧ c.numPoints = n.numPoints ∧ c.entityDimension = n.entityDimension
  ∧ c.points.toList = n.points.toList
  ∧ c.valueShape.toList = n.valueShape.toList
  ∧ c.numComponents = n.numComponents ∧ c.rank = n.rank
  ∧ c.coordinateElementHash = n.coordinateElementHash

instance (c n : ExprDescr) : Decidable (c.descrEq n) := by unfold ExprDescr.descrEq; exact inferInstance

/-- Agreement of two generator runs: both fail, or both succeed with `eq`-related descriptors. -/
def resEq {δ : Type} (eq : δ → δ → Prop) : Except String δ → Except String δ → Prop
  | .ok c, .ok n => eq c n
  | .error _, .error _ => True
  | _, _ => False

/-! ## Module-level constants

`numba/file_template.py` binds a block of names ("ufcx enums") at module level; the C side has the
`ufcx_integral_type` enum of ufcx.h (index into `form_integral_offsets`) and `int(basix.CellType)` (the
`domain` member).  Transcribed here as association lists; the harness compares them with the exec'ed
prelude / `ufcx.h` / basix. -/

namespace Numba
/-- integer names bound by the module prelude, in source order -/
def preludeConstants : List (String × Nat) :=
  [("interval", 10), ("triangle", 20), ("quadrilateral", 30), ("tetrahedron", 40), ("hexahedron", 50),
   ("vertex", 60), ("prism", 70), ("pyramid", 80),
   ("cell", 0), ("exterior_facet", 1), ("interior_facet", 2),
   ("ufcx_basix_element", 0), ("ufcx_mixed_element", 1), ("ufcx_quadrature_element", 2),
   ("ufcx_basix_custom_element", 3)]
end Numba

namespace C
/-- `enum ufcx_integral_type` of ufcx.h -/
def integralTypeEnum : List (String × Nat) :=
  [("cell", 0), ("exterior_facet", 1), ("interior_facet", 2), ("vertex", 3), ("ridge", 4)]

/-- `int(basix.CellType.<name>)`: the values of the `domain` member in BOTH backends -/
def cellTypeTags : List (String × Nat) :=
  [("point", 0), ("interval", 1), ("triangle", 2), ("tetrahedron", 3), ("quadrilateral", 4),
   ("hexahedron", 5), ("prism", 6), ("pyramid", 7)]
end C

/-! ## A concrete stable argsort (for examples and as the driver's default) -/

def insertIdx (ids : List Int) (i : Nat) : List Nat → List Nat
  | [] => [i]
  | j :: js => if ids.getD j 0 ≤ ids.getD i 0 then j :: insertIdx ids i js else i :: j :: js

/-- insertion sort of `range n` by `ids`, stable -/
def argsortIns (ids : List Int) : List Nat :=
  (List.range ids.length).foldl (fun acc i => insertIdx ids i acc) []

end Ffcx.Backend
