/-
Quadrature rules as data: tensor-product construction (`create_quadrature_points_and_weights`),
the `vertex` scheme, moments, and the grouping of integrands by rule
(`_group_integrands_by_quadrature_rule`).
-/
namespace Ffcx.Quad

/-- a rule: list of (point coordinates, weight) -/
abbrev Rule (R : Type) := List (List R × R)

section
variable {R : Type} [Mul R] [Add R] [OfNat R 0] [OfNat R 1] [HPow R Nat R]

/-- Π p_i ^ e_i -/
def monomial : List R → List Nat → R
  | p :: ps, e :: es => p ^ e * monomial ps es
  | _, _ => 1

/-- Σ_q w_q · X_q^exps : the rule applied to a monomial -/
def moment (r : Rule R) (exps : List Nat) : R :=
  r.foldr (fun (pw : List R × R) (acc : R) => pw.2 * monomial (R := R) pw.1 exps + acc) (0 : R)

/-- `itertools.product` of two factor rules: points concatenated, weights multiplied -/
def tensor2 (r1 r2 : Rule R) : Rule R :=
  r1.flatMap (fun a => r2.map (fun b => (a.1 ++ b.1, a.2 * b.2)))

def tensor3 (r1 r2 r3 : Rule R) : Rule R := tensor2 r1 (tensor2 r2 r3)
end

/-- the `vertex` scheme: the cell's vertices, each with weight volume / #vertices -/
def vertexRule (verts : List (List Rat)) (vol : Rat) : Rule Rat :=
  verts.map (fun v => (v, vol / (verts.length : Rat)))

/-- grouping of (rule key, integrand) pairs: first occurrence order of keys, integrands appended -/
def groupInsert {κ α : Type} [BEq κ] (k : κ) (v : α) : List (κ × List α) → List (κ × List α)
  | [] => [(k, [v])]
  | (k', vs) :: rest => if k' == k then (k', vs ++ [v]) :: rest else (k', vs) :: groupInsert k v rest

def groupBy {κ α : Type} [BEq κ] (l : List (κ × α)) : List (κ × List α) :=
  l.foldl (fun acc kv => groupInsert kv.1 kv.2 acc) []

end Ffcx.Quad
