/-
Reference-cell geometry, entity selection and interior-facet macro layout (C02).

Mirrors (as coded):
* `ffcx/element_interface.py`: `map_facet_points`, `map_edge_points`, `reference_cell_vertices`
* `ffcx/ir/representationutils.py`: `map_integral_points` (dispatch on the entity dimension)
* `ffcx/codegeneration/symbols.py`: `FFCXBackendSymbols.entity`, `domain_dof_access`,
  `coefficient_dof_access`
* `ffcx/ir/elementtables.py` (`cell_offset = element.dim` for '-'), `ffcx/ir/representation.py`
  (coefficient offsets `width * dim`), `ffcx/codegeneration/definitions.py`
  (`coordinate_dofs[3*ic + begin + 3*num_scalar_dofs]`)

Core Lean only.  The schema `RefCellData` of the regenerated file
`FfcxModel/Generated/RefCells.lean` lives here (the generated file contains data only).
-/
namespace Ffcx.Geometry

/-! ## Schema of the extracted reference cells -/

/-- How `access.py` reads one geometry table for one cell type (extracted by calling the real
handler on a probe terminal restricted to '-'). -/
structure AccessInfo where
  table : String
  /-- the handler accepts this cell name (does not raise) -/
  accepted : Bool
  /-- the returned `ArrayAccess` has `entity_local_index[...]` among its indices -/
  usesEntity : Bool
  /-- number of subscripts of the returned access -/
  rank : Nat
  deriving Repr, DecidableEq

/-- One reference cell: Basix geometry/topology and the *actual outputs* of every table writer of
`ffcx/codegeneration/geometry.py` (`none`: the writer raises for this cell type).
Reals are the exact rational values of the emitted binary64 numbers. -/
structure RefCellData where
  name : String
  tdim : Nat
  /-- `basix.geometry`: vertex coordinates -/
  geometry : List (List Rat)
  /-- `basix.topology`: `topology[d][i]` = vertices of sub-entity `i` of dimension `d` -/
  topology : List (List (List Nat))
  /-- cell name of each facet (`basix.cell.sub_entity_type`) -/
  facetTypes : List String
  /-- `basix.cell.volume` -/
  volume : Rat
  referenceNormals : Option (List (List Rat))
  cellFacetJacobian : Option (List (List (List Rat)))
  cellRidgeJacobian : Option (List (List (List Rat)))
  referenceCellVolume : Option Rat
  referenceFacetVolume : Option Rat
  referenceCellEdgeVectors : Option (List (List Rat))
  /-- flat: the edge vectors of all facets, facet by facet (`[Σ edges][component]`) -/
  referenceFacetEdgeVectors : Option (List (List Rat))
  facetEdgeVertices : Option (List (List (List Nat)))
  facetOrientation : Option (List Int)
  access : List AccessInfo
  deriving Repr

namespace RefCellData

/-- sub-entities of dimension `d` (vertex lists) -/
def entities (c : RefCellData) (d : Nat) : List (List Nat) := c.topology.getD d []

/-- facets = sub-entities of dimension `tdim - 1` (Python: `topology[-2]`) -/
def facets (c : RefCellData) : List (List Nat) := c.entities (c.tdim - 1)

/-- Python `topology[-3]`: sub-entities of dimension `tdim - 2` (edges of a 3D cell). -/
def ridges (c : RefCellData) : List (List Nat) := c.entities (c.tdim - 2)

def edges (c : RefCellData) : List (List Nat) := c.entities 1

def vertex (c : RefCellData) (i : Nat) : List Rat := c.geometry.getD i []

end RefCellData

/-! ## Vectors as lists, componentwise -/

section Vec
variable {R : Type} [Add R] [Sub R] [Mul R] [OfNat R 0]

/-- component `c` of a vector given as a list (missing components read as 0) -/
def comp (v : List R) (c : Nat) : R := v.getD c 0

/-- `Σ_j (v_j - v0) * p_j` over `zip(vs, p)` (Python: `sum((i - v0) * j for i, j in zip(vs, p))`;
`zip` truncates to the shorter list, so a quadrilateral facet's 4th vertex is not used). -/
def dotEdges (v0 : R) : List R → List R → R
  | v :: vs, x :: xs => (v - v0) * x + dotEdges v0 vs xs
  | _, _ => 0

/-- One component of `facet_vertices[0] + sum((i - facet_vertices[0]) * j for i, j in
zip(facet_vertices[1:], p))`; `vc` = that component of the entity's vertices, in entity order. -/
def mapComp (vc : List R) (p : List R) : R :=
  match vc with
  | [] => 0
  | v0 :: vs => v0 + dotEdges v0 vs p

/-- `element_interface.map_facet_points` / `map_edge_points` for one point: `verts` are the
coordinates of the entity's vertices (in the order of `basix.topology`), `gdim` the number of
components of the parent reference cell. -/
def mapEntityPoint (gdim : Nat) (verts : List (List R)) (p : List R) : List R :=
  (List.range gdim).map (fun c => mapComp (verts.map (fun v => comp v c)) p)

end Vec

/-- vertex coordinates of sub-entity `e` of dimension `d` of cell `c` -/
def entityVerts (c : RefCellData) (d e : Nat) : List (List Rat) :=
  ((c.entities d).getD e []).map c.vertex

/-- `map_facet_points(points, facet, cellname)` (entity dimension `tdim-1`). -/
def mapFacetPoints (c : RefCellData) (facet : Nat) (pts : List (List Rat)) : List (List Rat) :=
  pts.map (mapEntityPoint c.tdim (entityVerts c (c.tdim - 1) facet))

/-- `map_edge_points(points, edge, cellname)` (entity dimension `tdim-2`, Python `topology[-3]`). -/
def mapEdgePoints (c : RefCellData) (edge : Nat) (pts : List (List Rat)) : List (List Rat) :=
  pts.map (mapEntityPoint c.tdim (entityVerts c (c.tdim - 2) edge))

/-- Integral types as far as `integral_type_to_entity_dim` distinguishes them. -/
inductive IntegralKind where
  | cell | facet | ridge | vertex
  deriving DecidableEq, Repr

def entityDim (k : IntegralKind) (tdim : Nat) : Nat :=
  match k with
  | .cell => tdim
  | .facet => tdim - 1
  | .ridge => tdim - 2
  | .vertex => 0

/-- `representationutils.map_integral_points`: the chain of `if/elif` on `entity_dim` is kept in
the order of the source (so e.g. a vertex integral on an interval goes through the *facet* branch
and a ridge integral on a triangle goes through `map_edge_points` with the single point `[0]`). -/
def mapIntegralPoints (c : RefCellData) (k : IntegralKind) (entity : Nat)
    (pts : List (List Rat)) : List (List Rat) :=
  let ed := entityDim k c.tdim
  if ed = c.tdim then pts
  else if ed = c.tdim - 1 then mapFacetPoints c entity pts
  else if ed = c.tdim - 2 then
    mapEdgePoints c entity (if ed = 0 then [[0]] else pts)
  else if ed = 0 then [c.vertex entity]
  else []

/-! ## Entity selection (`FFCXBackendSymbols.entity`) -/

inductive Restriction where
  | plus | minus | none
  deriving DecidableEq, Repr

inductive EntityType where
  | cell | facet | vertex | ridge
  deriving DecidableEq, Repr

/-- The index expression returned by `symbols.entity`: the literal 0 or `entity_local_index[k]`. -/
inductive EntityIndex where
  | lit0
  | eli (k : Nat)
  deriving DecidableEq, Repr

def entity : EntityType → Restriction → EntityIndex
  | .cell, _ => .lit0
  | .facet, .minus => .eli 1
  | .facet, _ => .eli 0
  | .vertex, _ => .eli 0
  | .ridge, _ => .eli 0

/-- Value of the index expression for a concrete `entity_local_index` array. -/
def EntityIndex.value (e : EntityIndex) (entityLocalIndex : List Nat) : Nat :=
  match e with
  | .lit0 => 0
  | .eli k => entityLocalIndex.getD k 0

/-- The row of a per-entity table a kernel reads. -/
def entityRow (t : EntityType) (r : Restriction) (entityLocalIndex : List Nat) : Nat :=
  (entity t r).value entityLocalIndex

/-! ## Interior-facet macro layout -/

/-- restriction index: '+' and unrestricted ↦ 0, '-' ↦ 1 -/
def Restriction.idx : Restriction → Nat
  | .minus => 1
  | _ => 0

/-- Flat index into `A` of entry (i of side `ri`, j of side `rj`) for argument dimensions
`n`, `m`: the '-' dofs are offset by the element dimension (`cell_offset = element.dim`), and the
macro tensor is row-major `[2n][2m]`. -/
def aIndex (n m ri rj i j : Nat) : Nat := (ri * n + i) * (2 * m) + (rj * m + j)

/-- rank-1 macro vector -/
def aIndex1 (n ri i : Nat) : Nat := ri * n + i

/-- Offset of coefficient `k` in `w` for an integral of macro width `width` (2 on interior
facets, 1 otherwise): `Σ_{j<k} width * dim_j` (`ir/representation.py`). -/
def wOffset (width : Nat) : List Nat → Nat → Nat
  | _, 0 => 0
  | [], _ + 1 => 0
  | d :: ds, k + 1 => width * d + wOffset width ds k

/-- `w[coefficient k][restriction r][dof i]` ↦ `off_k + r*dim_k + i`. -/
def wIndex (dims : List Nat) (k r i : Nat) : Nat := wOffset 2 dims k + r * dims.getD k 0 + i

/-- `coordinate_dofs[restriction r][node][component c]` ↦ `3*nodes*r + 3*node + c`
(`domain_dof_access`, `_define_coordinate_dofs_lincomb`: `3*dof + component + 3*num_scalar_dofs`). -/
def xIndex (nodes r node c : Nat) : Nat := 3 * nodes * r + 3 * node + c

def sumDims : List Nat → Nat
  | [] => 0
  | d :: ds => d + sumDims ds

end Ffcx.Geometry
