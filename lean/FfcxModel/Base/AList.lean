/-
A tiny association list keyed by strings, with the two lemmas the frame
theorems need.  Hand-rolled (rather than `Std.HashMap`) so that it can be used
in structural proofs without extra machinery; kernels have < 200 names.
-/
namespace Ffcx

abbrev AList (α : Type) := List (String × α)

namespace AList

def get {α} : AList α → String → Option α
  | [], _ => none
  | (k, v) :: m, x => if k = x then some v else get m x

def set {α} : AList α → String → α → AList α
  | [], x, v => [(x, v)]
  | (k, w) :: m, x, v => if k = x then (k, v) :: m else (k, w) :: set m x v

def keys {α} (m : AList α) : List String := m.map (·.1)

@[simp] theorem get_set_self {α} (m : AList α) (x : String) (v : α) :
    get (set m x v) x = some v := by
  induction m with
  | nil => simp [set, get]
  | cons p m ih =>
    obtain ⟨k, w⟩ := p
    by_cases h : k = x <;> simp [set, get, h, ih]

theorem get_set_ne {α} (m : AList α) (x y : String) (v : α) (h : x ≠ y) :
    get (set m x v) y = get m y := by
  induction m with
  | nil => simp [set, get, h]
  | cons p m ih =>
    obtain ⟨k, w⟩ := p
    by_cases hk : k = x
    · subst hk; simp [set, get, h]
    · by_cases hy : k = y
      · subst hy; simp [set, get, hk]
      · simp [set, get, hk, hy, ih]

theorem get_set {α} (m : AList α) (x y : String) (v : α) :
    get (set m x v) y = if x = y then some v else get m y := by
  by_cases h : x = y
  · subst h; simp
  · simp [h, get_set_ne m x y v h]

end AList
end Ffcx
