/-
S-expressions: the wire format between the Python harness and the Lean models.
One request per line, one reply per line.  Atoms are bare tokens or
double-quoted strings (with \" \\ \n escapes).
-/
namespace Ffcx

inductive Sexp where
  | atom (s : String)
  | list (xs : List Sexp)
  deriving Repr, Inhabited, BEq

namespace Sexp

private def needsQuote (s : String) : Bool :=
  s.isEmpty || s.any (fun c => c == ' ' || c == '(' || c == ')' || c == '"' || c == '\n' || c == '\\')

private def quote (s : String) : String :=
  "\"" ++ (s.foldl (fun acc c =>
    if c == '"' then acc ++ "\\\"" else if c == '\\' then acc ++ "\\\\"
    else if c == '\n' then acc ++ "\\n" else acc.push c) "") ++ "\""

partial def toStr : Sexp → String
  | atom s => if needsQuote s then quote s else s
  | list xs => "(" ++ " ".intercalate (xs.map toStr) ++ ")"

instance : ToString Sexp := ⟨toStr⟩

/-- Parser over an array of characters; iterative with an explicit stack so that
very long lines (tables with 10^5 entries) do not overflow the native stack. -/
partial def parse (input : String) : Except String Sexp := Id.run do
  let cs := input.toList.toArray
  let n := cs.size
  let mut i := 0
  -- stack of partially built lists (reversed)
  let mut stack : Array (Array Sexp) := #[]
  let mut cur : Array Sexp := #[]
  let mut err : Option String := none
  while i < n do
    let c := cs[i]!
    if c == ' ' || c == '\n' || c == '\t' || c == '\r' then
      i := i + 1
    else if c == '(' then
      stack := stack.push cur
      cur := #[]
      i := i + 1
    else if c == ')' then
      if stack.isEmpty then
        err := some "unbalanced )"
        i := n
      else
        let parent := stack.back!
        stack := stack.pop
        cur := parent.push (Sexp.list cur.toList)
        i := i + 1
    else if c == '"' then
      let mut j := i + 1
      let mut s := ""
      let mut fin := false
      while j < n && !fin do
        let d := cs[j]!
        if d == '\\' && j + 1 < n then
          let e := cs[j+1]!
          s := s.push (if e == 'n' then '\n' else e)
          j := j + 2
        else if d == '"' then
          fin := true
          j := j + 1
        else
          s := s.push d
          j := j + 1
      cur := cur.push (Sexp.atom s)
      i := j
    else
      let mut j := i
      let mut s := ""
      while j < n && !(cs[j]! == ' ' || cs[j]! == '(' || cs[j]! == ')' || cs[j]! == '\n') do
        s := s.push cs[j]!
        j := j + 1
      cur := cur.push (Sexp.atom s)
      i := j
  match err with
  | some e => return .error e
  | none =>
    if !stack.isEmpty then return .error "unbalanced ("
    else if cur.size == 1 then return .ok cur[0]!
    else return .error s!"expected one s-expression, got {cur.size}"

def asAtom : Sexp → Except String String
  | atom s => .ok s
  | list _ => .error "expected atom"

def asList : Sexp → Except String (List Sexp)
  | list xs => .ok xs
  | atom a => .error s!"expected list, got atom {a}"

def asInt (s : Sexp) : Except String Int := do
  let a ← s.asAtom
  match a.toInt? with
  | some v => .ok v
  | none => .error s!"expected int, got {a}"

def asNat (s : Sexp) : Except String Nat := do
  let v ← s.asInt
  if v < 0 then .error "expected nat" else .ok v.toNat

/-- Rational atoms: `n` or `n/d`. -/
def asRat (s : Sexp) : Except String Rat := do
  let a ← s.asAtom
  match a.splitOn "/" with
  | [n] => match n.toInt? with
    | some v => .ok (v : Rat)
    | none => .error s!"bad rational {a}"
  | [n, d] => match n.toInt?, d.toNat? with
    | some v, some w => if w == 0 then .error "zero denominator" else .ok ((v : Rat) / (w : Rat))
    | _, _ => .error s!"bad rational {a}"
  | _ => .error s!"bad rational {a}"

def ofRat (r : Rat) : Sexp :=
  if r.den == 1 then atom (toString r.num) else atom s!"{r.num}/{r.den}"

def ofInt (i : Int) : Sexp := atom (toString i)
def ofNat (i : Nat) : Sexp := atom (toString i)
def ofBool (b : Bool) : Sexp := atom (if b then "true" else "false")

def asBool (s : Sexp) : Except String Bool := do
  let a ← s.asAtom
  if a == "true" then .ok true else if a == "false" then .ok false else .error s!"bad bool {a}"

end Sexp
end Ffcx
