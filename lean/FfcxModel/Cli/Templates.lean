/-
Model of FFCx's C code templates as data (C20): literal characters and `{name}` holes, Python's
`template.format_map(d)`, and the lexical reading of an instantiated template that the
header/source consistency theorem (`decl_defined_templates`, FfcxProofs/C20.lean) speaks about.

Anchors in /repo:
  ffcx/codegeneration/C/{form,integral,expression,file}_template.py   the template strings
  ffcx/codegeneration/C/{form,integral,expression,file}.py            `.format(...)` / `.format_map(d)`
  ffcx/codegeneration/common.py template_keys                         `string.Formatter().parse`

The tables `FfcxModel/Generated/TemplatePieces.lean` are regenerated from the real strings by
harness/extract_templates.py (`string.Formatter().parse`; the reassembled pieces are compared with
the template byte by byte, and the instance computed here is compared with what the real
generators emit on every real run).

The lexical machine (`gstep`) is the part of C's lexical structure that FFCx's own output can
exercise: `//` and `/* */` comments, string and character literals, `#` lines (read as comments:
no conditional is evaluated), brace depth, and the HEAD of every top-level item — the maximal run
of identifier characters, blanks and `*` with which a top-level declaration starts, together with
the character that ends it:
    extern ufcx_form form_x;        head "extern ufcx_form form_x"      terminator ';'
    ufcx_form form_x =              head "ufcx_form form_x "            terminator '='
    void tabulate_tensor_x(         head "void tabulate_tensor_x"       terminator '('
It is generic in the type of head elements so that the same function runs on characters (`run`)
and on template symbols (`symRun`, holes kept opaque).
-/
import FfcxModel.Jit.Naming

namespace Ffcx.Cli.Tpl
open Ffcx.Naming

/-! ## Templates and `format_map` -/

inductive Sym where
  /-- one literal character of the template (`{{` / `}}` already unescaped) -/
  | ch (c : Char)
  /-- a replacement field `{name}` -/
  | hole (name : String)
  /-- a replacement field `{name}` followed by a newline, for the fields that hold whole comment /
  preprocessor lines (`holeClass name = lines`); instantiates to the filling plus `\n` -/
  | holeNL (name : String)
  deriving DecidableEq, Repr, Inhabited

abbrev Template := List Sym

/-- Literal text as template symbols. -/
def lits (s : Str) : Template := s.map Sym.ch

/-- A filling of the holes: `d[name]` converted with `str()` (what `format_map(d)` inserts for a
plain `{name}` field). -/
abbrev Filling := String → Str

/-- `template.format_map(d)`. -/
def inst (σ : Filling) : Template → Str
  | [] => []
  | .ch c :: t => c :: inst σ t
  | .hole h :: t => σ h ++ inst σ t
  | .holeNL h :: t => σ h ++ '\n' :: inst σ t

/-- The field names of a template, in order of appearance (`common.template_keys` is the set). -/
def holes : Template → List String
  | [] => []
  | .ch _ :: t => holes t
  | .hole h :: t => h :: holes t
  | .holeNL h :: t => h :: holes t

/-! ## The lexical machine -/

inductive Mode where
  | code | slash | line | block | blockStar | str | strEsc | chr | chrEsc
  deriving DecidableEq, Repr, Inhabited

/-- Character classes the machine distinguishes. -/
inductive CC where
  | slash | star | dq | sq | bs | lb | rb | semi | hash | nl | ws | alpha | digit | other
  deriving DecidableEq, Repr

def classify (c : Char) : CC :=
  if c = '/' then .slash
  else if c = '*' then .star
  else if c = '"' then .dq
  else if c = '\'' then .sq
  else if c = '\\' then .bs
  else if c = '{' then .lb
  else if c = '}' then .rb
  else if c = ';' then .semi
  else if c = '#' then .hash
  else if c = '\n' then .nl
  else if c = ' ' ∨ c = '\t' ∨ c = '\r' then .ws
  else if isIdentStart c then .alpha
  else if isDigitC c then .digit
  else .other

/-- Control state: lexical mode, brace depth, `fresh` = a new top-level item may start here
(start of text, after a `;` at depth 0, after a `}` that returns to depth 0), `head` = the head
being collected. -/
structure Ctl (α : Type) where
  mode : Mode
  depth : Nat
  fresh : Bool
  head : Option (List α)
  deriving DecidableEq, Repr

/-- A finished head and the character that ended it. -/
abbrev Item (α : Type) := List α × Char

def Ctl.init {α : Type} : Ctl α := ⟨.code, 0, true, none⟩

/-- Code mode, no head being collected. -/
def plain {α : Type} (inj : Char → α) (k : Ctl α) (c : Char) : Ctl α :=
  match classify c with
  | .slash => { k with mode := .slash }
  | .dq => { k with mode := .str, fresh := false }
  | .sq => { k with mode := .chr, fresh := false }
  | .lb => { k with depth := k.depth + 1, fresh := false }
  | .rb => { k with depth := k.depth - 1, fresh := decide (k.depth - 1 = 0) }
  | .semi => { k with fresh := decide (k.depth = 0) }
  | .hash => { k with mode := .line }
  | .nl => k
  | .ws => k
  | .alpha =>
    if k.depth = 0 ∧ k.fresh = true then { k with fresh := false, head := some [inj c] }
    else { k with fresh := false }
  | _ => { k with fresh := false }

/-- Code mode. -/
def codeStep {α : Type} (inj : Char → α) (k : Ctl α) (c : Char) : Ctl α × Option (Item α) :=
  match k.head with
  | some h =>
    match classify c with
    | .alpha | .digit | .ws | .star => ({ k with head := some (h ++ [inj c]) }, none)
    | _ => (plain inj { k with head := none } c, some (h, c))
  | none => (plain inj k c, none)

/-- One character. -/
def gstep {α : Type} (inj : Char → α) (k : Ctl α) (c : Char) : Ctl α × Option (Item α) :=
  match k.mode with
  | .code => codeStep inj k c
  | .slash =>
    match classify c with
    | .slash => ({ k with mode := .line }, none)
    | .star => ({ k with mode := .block }, none)
    | _ => codeStep inj { k with mode := .code, fresh := false } c
  | .line => (match classify c with | .nl => { k with mode := .code } | _ => k, none)
  | .block => (match classify c with | .star => { k with mode := .blockStar } | _ => k, none)
  | .blockStar =>
    (match classify c with
      | .slash => { k with mode := .code }
      | .star => k
      | _ => { k with mode := .block }, none)
  | .str =>
    (match classify c with
      | .bs => { k with mode := .strEsc }
      | .dq => { k with mode := .code }
      | _ => k, none)
  | .strEsc => ({ k with mode := .str }, none)
  | .chr =>
    (match classify c with
      | .bs => { k with mode := .chrEsc }
      | .sq => { k with mode := .code }
      | _ => k, none)
  | .chrEsc => ({ k with mode := .chr }, none)

/-- Run over a text: final control state and the items found, in order. -/
def grun {α : Type} (inj : Char → α) : Str → Ctl α → Ctl α × List (Item α)
  | [], k => (k, [])
  | c :: t, k =>
    let r := gstep inj k c
    let r' := grun inj t r.1
    (r'.1, r.2.toList ++ r'.2)

/-- Tail-recursive accumulation (what the compiled driver runs; equal to `grun` by `grun_eq_grunTR`). -/
def gacc {α : Type} (inj : Char → α) (st : Ctl α × List (Item α)) (c : Char) : Ctl α × List (Item α) :=
  match gstep inj st.1 c with
  | (k, some it) => (k, st.2 ++ [it])
  | (k, none) => (k, st.2)

def grunTR {α : Type} (inj : Char → α) (s : Str) (k : Ctl α) : Ctl α × List (Item α) :=
  s.foldl (gacc inj) (k, [])

theorem foldl_gacc {α : Type} (inj : Char → α) : ∀ (s : Str) (k : Ctl α) (acc : List (Item α)),
    s.foldl (gacc inj) (k, acc) = ((grun inj s k).1, acc ++ (grun inj s k).2)
  | [], k, acc => by simp [grun]
  | c :: t, k, acc => by
    simp only [List.foldl_cons, gacc, grun]
    rcases hg : gstep inj k c with ⟨k', _ | it⟩ <;> simp only [] <;> rw [foldl_gacc inj t] <;> simp

@[csimp] theorem grun_eq_grunTR : @grun = @grunTR := by
  funext α inj s k
  simp [grunTR, foldl_gacc]

/-- The machine on characters. -/
def run (s : Str) (k : Ctl Char) : Ctl Char × List (Item Char) := grun id s k

/-- The top-level items of a text. -/
def items (s : Str) : List (Item Char) := (run s Ctl.init).2

/-- `extern ty name;` occurs as a top-level item of `text`. -/
def DeclaredIn (text ty name : Str) : Prop :=
  (cs! "extern " ++ ty ++ ' ' :: name, ';') ∈ items text

/-- `ty name = …` occurs as a top-level item of `text` (external linkage: the item starts with
the type, not with `static`). -/
def DefinedIn (text ty name : Str) : Prop :=
  (ty ++ ' ' :: name ++ [' '], '=') ∈ items text

instance (text ty name : Str) : Decidable (DeclaredIn text ty name) := by
  unfold DeclaredIn; infer_instance
instance (text ty name : Str) : Decidable (DefinedIn text ty name) := by
  unfold DefinedIn; infer_instance

/-! ## The machine on templates (holes opaque) -/

inductive HoleClass where
  /-- filled with a C identifier (object names) -/
  | ident
  /-- filled with whole comment / preprocessor lines, the last one without its newline -/
  | lines
  /-- anything else: lexically self-contained C text (code mode) or text without newline (inside
  a `//` comment) -/
  | free
  deriving DecidableEq, Repr

/-- Which holes hold what (hand-written; the conditions this imposes on the fillings are the
obligations below, evaluated on the real fillings of every real run). -/
def holeClass (h : String) : HoleClass :=
  if h = "factory_name" ∨ h = "name_from_uflfile" then .ident
  else if h = "options" ∨ h = "extra_c_includes" then .lines
  else .free

/-- What the theorem assumes about a filling, per hole occurrence. -/
inductive Ob where
  /-- non-empty, identifier characters only -/
  | ident (h : String)
  /-- no newline (the hole sits inside a `//` comment) -/
  | noNewline (h : String)
  /-- scanned from code mode at this depth / freshness the filling comes back to the same state
  (balanced braces, closed comments and literals, complete top-level items) -/
  | neutral (h : String) (depth : Nat) (fresh : Bool)
  /-- the filling followed by a newline is scanned like a newline alone and yields no item
  (comment lines, `#include` lines, or nothing) -/
  | lines (h : String) (depth : Nat) (fresh : Bool)
  deriving DecidableEq, Repr

def Ob.check (σ : Filling) : Ob → Bool
  | .ident h => (σ h != []) && (σ h).all isIdentChar
  | .noNewline h => (σ h).all (fun c => c != '\n')
  | .neutral h d f => (run (σ h) ⟨.code, d, f, none⟩).1 == ⟨.code, d, f, none⟩
  | .lines h d f => run (σ h ++ ['\n']) ⟨.code, d, f, none⟩ == (⟨.code, d, f, none⟩, [])

/-- Result of the symbolic run: final state, items known from the literal text (heads may contain
holes), `exact` = no `free` hole in code mode was met (such a filling may contribute items of its
own), and the obligations collected. -/
structure SymRes where
  ctl : Ctl Sym
  items : List (Item Sym)
  exact : Bool
  obs : List Ob
  deriving Repr

/-- The machine on a template. `none`: a hole sits where its class cannot be handled (inside a
literal, at the start of an item, …) — the theorems do not apply to such a template. -/
def symRun : Template → Ctl Sym → Option SymRes
  | [], k => some ⟨k, [], true, []⟩
  | .ch c :: t, k =>
    let r := gstep Sym.ch k c
    (symRun t r.1).map fun s => { s with items := r.2.toList ++ s.items }
  | .hole h :: t, k =>
    match holeClass h with
    | .ident =>
      match k.mode, k.head with
      | .code, some hd =>
        (symRun t { k with head := some (hd ++ [.hole h]) }).map fun s => { s with obs := .ident h :: s.obs }
      | .code, none =>
        if k.depth = 0 ∧ k.fresh = true then none
        else (symRun t { k with fresh := false }).map fun s => { s with obs := .ident h :: s.obs }
      | .line, _ | .block, _ | .str, _ =>
        (symRun t k).map fun s => { s with obs := .ident h :: s.obs }
      | _, _ => none
    | .free =>
      match k.mode, k.head with
      | .code, none =>
        (symRun t k).map fun s => { s with exact := false, obs := .neutral h k.depth k.fresh :: s.obs }
      | .line, _ => (symRun t k).map fun s => { s with obs := .noNewline h :: s.obs }
      | _, _ => none
    | .lines => none
  | .holeNL h :: t, k =>
    match holeClass h, k.mode, k.head with
    | .lines, .code, none =>
      (symRun t k).map fun s => { s with obs := .lines h k.depth k.fresh :: s.obs }
    | _, _, _ => none

/-- Expansion of a head with holes. -/
def expand (σ : Filling) (l : List Sym) : Str := inst σ l

def expandItem (σ : Filling) (it : Item Sym) : Item Char := (expand σ it.1, it.2)

/-- The symbolic check behind `decl_defined_templates`: the declaration template is read exactly
(no `free` hole in code mode), every `;`-terminated item of it is `extern <rest>` written in
literal characters, and the implementation template has the item `<rest> =`; the implementation
template ends where it started (code mode, depth 0, fresh), so that instances can be
concatenated. -/
def pairOk (decl impl : Template) : Bool :=
  match symRun decl Ctl.init, symRun impl Ctl.init with
  | some d, some i =>
    d.exact &&
    d.items.all (fun it =>
      it.2 != ';' ||
        (it.1.take 7 == lits (cs! "extern ") &&
          i.items.contains (it.1.drop 7 ++ [Sym.ch ' '], '='))) &&
    (i.ctl == Ctl.init)
  | _, _ => false

/-- Obligations of a template (empty if the symbolic run fails). -/
def obligations (t : Template) : List Ob :=
  match symRun t Ctl.init with
  | some r => r.obs
  | none => []

/-- The holes of a declaration `extern ty {hole};` of a template, with the literal type text. -/
def externHoles (t : Template) : List (List Sym) :=
  match symRun t Ctl.init with
  | some r => (r.items.filter fun it => it.2 == ';' && it.1.take 7 == lits (cs! "extern ")).map fun it => it.1.drop 7
  | none => []

end Ffcx.Cli.Tpl
