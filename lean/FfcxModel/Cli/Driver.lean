/-
Driver commands of the CLI cluster (C20) that are not in DriverNames.lean itself
(`NamesDriver.dispatch` falls through to `cliDispatch`).

  (formatcode (block (tuple <string>…)…)…)        (ok <string>…) | (indexerror)     formatting.format_code
  (tpl <lang> <kind> <attr> ((<hole> <string>)…))  ((inst <string>) (failed <ob>…) (items (<head> <term>)…)
                                                    (end <mode> <depth> <fresh>)) | (unknown)
        instance of a template of Generated/TemplatePieces for a filling, the obligations of the
        symbolic run that the filling violates, and the lexical items / final state of the instance
  (citems <string>)                                ((items (<head> <term>)…) (end <mode> <depth> <fresh>))
  (tplholes <lang> <kind> <attr>)                  (<hole>…)
  (tplobs <lang> <kind> <attr>)                    (<ob>…) | (stuck)
-/
import FfcxModel.Base.Sexp
import FfcxModel.Cli.Options
import FfcxModel.Cli.Templates
import FfcxModel.Generated.TemplatePieces

namespace Ffcx.Cli
open Ffcx Ffcx.Naming Ffcx.Cli.Tpl

namespace Drv

def ofStr (s : Str) : Sexp := .list (.atom "u" :: s.map (fun c => Sexp.ofNat c.toNat))

def asStr : Sexp → Except String Str
  | .atom s => .ok s.toList
  | .list (.atom "u" :: cs) => cs.mapM fun c => do
      let n ← c.asNat
      pure (Char.ofNat n)
  | _ => .error "expected string"

def asAtomStr (s : Sexp) : Except String String := do
  pure (String.ofList (← asStr s))

def lookup (lang kind attr : String) : Option Template :=
  (Ffcx.Generated.TemplatePieces.table.find? fun e => e.1 == lang && e.2.1 == kind && e.2.2.1 == attr).map (·.2.2.2)

def asFilling (s : Sexp) : Except String Filling := do
  let l ← (← s.asList).mapM fun x => match x with
    | .list [k, v] => do pure (← asAtomStr k, ← asStr v)
    | _ => .error "bad filling item"
  pure fun h => ((l.find? fun kv => kv.1 == h).map (·.2)).getD []

def ofMode : Mode → Sexp
  | .code => .atom "code" | .slash => .atom "slash" | .line => .atom "line" | .block => .atom "block"
  | .blockStar => .atom "blockStar" | .str => .atom "str" | .strEsc => .atom "strEsc"
  | .chr => .atom "chr" | .chrEsc => .atom "chrEsc"

def ofOb : Ob → Sexp
  | .ident h => .list [.atom "ident", ofStr h.toList]
  | .noNewline h => .list [.atom "noNewline", ofStr h.toList]
  | .neutral h d f => .list [.atom "neutral", ofStr h.toList, Sexp.ofNat d, Sexp.ofBool f]
  | .lines h d f => .list [.atom "lines", ofStr h.toList, Sexp.ofNat d, Sexp.ofBool f]

def ofRun (r : Ctl Char × List (Item Char)) : List Sexp :=
  [.list (.atom "items" :: r.2.map fun it => .list [ofStr it.1, Sexp.ofNat it.2.toNat]),
   .list [.atom "end", ofMode r.1.mode, Sexp.ofNat r.1.depth, Sexp.ofBool r.1.fresh]]

end Drv

open Drv in
def cliDispatch (cmd : String) (args : List Sexp) : Except String Sexp :=
  match cmd, args with
  | "formatcode", blocks => do
      let bs ← blocks.mapM fun b => do
        (← b.asList).mapM fun t => do (← t.asList).mapM asStr
      match formatCodeE bs with
      | some r => pure (.list (.atom "ok" :: r.map ofStr))
      | none => pure (.list [.atom "indexerror"])
  | "tpl", [lang, kind, attr, fill] => do
      match lookup (← asAtomStr lang) (← asAtomStr kind) (← asAtomStr attr) with
      | none => pure (.list [.atom "unknown"])
      | some t =>
        let σ ← asFilling fill
        let text := inst σ t
        let failed := (obligations t).filter fun ob => !ob.check σ
        pure (.list ([.list [.atom "inst", ofStr text], .list (.atom "failed" :: failed.map ofOb)]
          ++ ofRun (run text Ctl.init)))
  | "citems", [s] => do pure (.list (ofRun (run (← asStr s) Ctl.init)))
  | "tplholes", [lang, kind, attr] => do
      match lookup (← asAtomStr lang) (← asAtomStr kind) (← asAtomStr attr) with
      | none => pure (.list [.atom "unknown"])
      | some t => pure (.list ((holes t).map fun h => ofStr h.toList))
  | "tplobs", [lang, kind, attr] => do
      match lookup (← asAtomStr lang) (← asAtomStr kind) (← asAtomStr attr) with
      | none => pure (.list [.atom "unknown"])
      | some t => match symRun t Ctl.init with
        | some r => pure (.list (r.obs.map ofOb))
        | none => pure (.list [.atom "stuck"])
  | _, _ => .error s!"unknown command or bad arity: {cmd}"

end Ffcx.Cli
