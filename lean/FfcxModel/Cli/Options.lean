/-
Model of FFCx's option handling and of the command-line front end (C20).

Anchors in /repo:
  ffcx/options.py     get_options (defaults < user json < pwd json < priority_options)
  ffcx/main.py        parser (argparse), priority_options = {k: v for k, v in xargs.__dict__.items()
                      if v is not None}, sanitise_filename
  ffcx/formatting.py  format_code

Python dicts are insertion-ordered association lists with `d[k] = v` semantics (`Dict.set`:
overwrite in place, append when new).  Values are `Naming.Scalar`s (str/int/bool/float/None or an
opaque repr).
-/
import FfcxModel.Jit.Naming

namespace Ffcx.Cli
open Ffcx.Naming

abbrev Dict (κ ν : Type) := List (κ × ν)

namespace Dict
variable {κ ν : Type} [DecidableEq κ]

/-- `d.get(k)` -/
def get : Dict κ ν → κ → Option ν
  | [], _ => none
  | (k, v) :: m, x => if k = x then some v else get m x

/-- `d[x] = v` -/
def set : Dict κ ν → κ → ν → Dict κ ν
  | [], x, v => [(x, v)]
  | (k, w) :: m, x, v => if k = x then (k, v) :: m else (k, w) :: set m x v

/-- `d.update(e)` (items of `e` in order). -/
def update (d e : Dict κ ν) : Dict κ ν := e.foldl (fun acc kv => set acc kv.1 kv.2) d

/-- The binding of `k` that survives when a list of items is turned into a dict: the LAST one. -/
def rlookup : Dict κ ν → κ → Option ν
  | [], _ => none
  | (k, v) :: m, x => match rlookup m x with
    | some w => some w
    | none => if k = x then some v else none

def keys (d : Dict κ ν) : List κ := d.map (·.1)

end Dict

/-! ## options.get_options -/

section GetOptions
variable {κ ν : Type} [DecidableEq κ]

/-- The loop `for opt, (_, value, _, _) in FFCX_DEFAULT_OPTIONS.items(): options[opt] = value`,
then the three `update`s; `prio = none` is `priority_options is None`. -/
def getOptions (defaults user pwd : Dict κ ν) (prio : Option (Dict κ ν)) : Dict κ ν :=
  let o := Dict.update [] defaults
  let o := Dict.update o user
  let o := Dict.update o pwd
  match prio with
  | some p => Dict.update o p
  | none => o

end GetOptions

/-! ## main.py: argparse namespace → priority_options -/

inductive ActionKind where
  | store | storeTrue | storeFalse | help | version | other
  deriving Repr, DecidableEq, Inhabited

/-- One `parser._actions` entry as far as the defaults mechanism of `parse_args` uses it. -/
structure Action where
  dest : String
  kind : ActionKind
  /-- `action.default` (`Scalar.none` for `None`) -/
  default : Scalar
  /-- `action.default is argparse.SUPPRESS` or `dest is SUPPRESS`: no attribute is created -/
  suppressed : Bool
  /-- `dest` is a key of `FFCX_DEFAULT_OPTIONS` -/
  ffcxOption : Bool
  deriving Repr, DecidableEq, Inhabited

/-- What the command line supplied: `(dest, converted value)` in order of appearance
(`store_true` flags supply `True`). Token-level parsing and `type=` conversion are argparse's. -/
abbrev Given := Dict String Scalar

/-- `parser.parse_args(args).__dict__`: first every non-suppressed action's default is set
(`if not hasattr(namespace, dest)`), then the supplied values overwrite. -/
def parseNamespace (acts : List Action) (given : Given) : Dict String Scalar :=
  let ns := acts.foldl (fun ns a =>
    if a.suppressed then ns
    else match Dict.get ns a.dest with
      | some _ => ns
      | none => Dict.set ns a.dest a.default) ([] : Dict String Scalar)
  Dict.update ns given

/-- `{k: v for k, v in xargs.__dict__.items() if v is not None}` -/
def priorityOptions (acts : List Action) (given : Given) : Dict String Scalar :=
  (parseNamespace acts given).filter (fun kv => kv.2 ≠ Scalar.none)

/-- The options `main` compiles with. -/
def mainOptions (acts : List Action) (defaults user pwd : Dict String Scalar) (given : Given) :
    Dict String Scalar :=
  getOptions defaults user pwd (some (priorityOptions acts given))

/-! ## main.sanitise_filename -/

/-- `pathlib.PurePosixPath(name).name` for paths that do not end in `/`, `/.` or `/..`. -/
def pathName (p : Str) : Str :=
  (p.reverse.takeWhile (· ≠ '/')).reverse

/-- `PurePath.stem`: `name[:i]` with `i = name.rfind('.')` if `0 < i < len(name) - 1`. -/
def stem (p : Str) : Str :=
  let name := pathName p
  let afterDot := (name.reverse.takeWhile (· ≠ '.')).length   -- chars after the last '.'
  if name.contains '.' then
    let i := name.length - afterDot - 1
    if 0 < i ∧ i < name.length - 1 then name.take i else name
  else name

/-- `re.subn("!+", "_", s)`: `inRun` says the previous character was a `!`. -/
def collapseAux : Bool → Str → Str
  | _, [] => []
  | inRun, c :: rest =>
    if c = '!' then (if inRun then collapseAux true rest else '_' :: collapseAux true rest)
    else c :: collapseAux false rest

def collapseBang (s : Str) : Str := collapseAux false s

/-- main.sanitise_filename -/
def sanitiseFilename (name : Str) : Str :=
  collapseBang ((stem name).map (fun c => if isIdentChar c then c else '!'))

/-! ## formatting.format_code -/

/-- `code_blocks`: a list of blocks, each a list of tuples, each tuple a list of `n` strings.
`format_code` returns, for every output file `i`, the concatenation over blocks and tuples. -/
def formatCode (blocks : List (List (List Str))) : List Str :=
  match blocks with
  | [] => []      -- real code: IndexError on code_blocks[0]
  | b0 :: _ =>
    match b0 with
    | [] => []    -- real code: IndexError on code_blocks[0][0]
    | t0 :: _ =>
      (List.range t0.length).map fun i =>
        (blocks.map fun b => (b.map fun t => t.getD i []).flatten).flatten

/-- `format_code` with its failure: `code = [""] * len(code_blocks[0][0])` raises IndexError when
there is no first block or the first block is empty; `c[i] for c in block` with `i < len(code)`
raises IndexError exactly when some tuple of some block is SHORTER than the first tuple of the
first block (longer tuples are silently truncated). `none` = IndexError. -/
def formatCodeE (blocks : List (List (List Str))) : Option (List Str) :=
  match blocks with
  | [] => none
  | b0 :: _ =>
    match b0 with
    | [] => none
    | t0 :: _ =>
      if blocks.all (fun b => b.all (fun t => decide (t0.length ≤ t.length))) then some (formatCode blocks)
      else none

/-- The `CodeBlocks` named tuple of codegeneration.generate_code. -/
structure CodeBlocks where
  filePre : List (List Str)
  integrals : List (List Str)
  forms : List (List Str)
  expressions : List (List Str)
  filePost : List (List Str)

def CodeBlocks.toList (c : CodeBlocks) : List (List (List Str)) :=
  [c.filePre, c.integrals, c.forms, c.expressions, c.filePost]

end Ffcx.Cli
