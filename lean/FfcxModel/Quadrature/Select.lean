/-
Quadrature-rule SELECTION (C11): which rule does every integral of a form get, and how are the
integrals of one subdomain grouped by rule.  Executable transcription, AS THE CODE IS, of

* `ffcx/analysis.py::_analyze_form`            (the loop over `integral_data.integrals`)      -> `analyze`, `analyzeAll`
* `ffcx/ir/representation.py::_group_integrands_by_quadrature_rule`                            -> `selectStep`, `selectSeq`, `groupRules`
* `ffcx/ir/representationutils.py::create_quadrature_points_and_weights`                       -> `createRules`
* `ffcx/element_interface.py::create_quadrature`                                               -> `createQuadrature`
* `basix.quadrature.string_to_type`, the acceptance table of `basix.make_quadrature`,
  `basix.cell.{subentity_types, geometry, volume}`, `ufl.Cell.{facet_types, ridge_types}`      -> data tables below
  (compared entry by entry with the installed Basix / UFL by `harness/quadsel_checks.py`).

Inputs are abstract: the points/weights arrays of Basix never enter; a rule is the DESCRIPTION
`Rule` of the call that produces the arrays (`basix.make_quadrature(cell, degree, type, polyset)`, the
tensor product of interval rules, the `vertex` scheme of a reference cell, the arrays of a quadrature
element, the one-point rule of a vertex).  The grouping key of the real code is the array content
(`QuadratureRule.__hash__` = sha1 of the points, `__eq__` = allclose of points and weights); in the model it
is a parameter `key : Rule → Nat` (harness: the identity of the arrays an independent Basix call returns).

Things the transcription keeps on purpose (they are what the code does):
* the cell type of the integration domain is ONE value for the whole group (`g.cell`); the `vertex` branch
  derives a local entity type from it and the loop over `rules.items()` uses its own variable (repaired in
  c4a6950: before, a shared local variable `cell_type` was overwritten by both);
* a vertex integral (`dP`) never takes the `vertex` branch (605b08f) and its scheme string is never looked at;
* `tensor_factors` are not part of the grouping key; when an integrand WITHOUT tensor factors joins a group whose
  rule object has them, the key object is replaced by the new one (556c39a): `mergeStep`, `mergedRule`.

Core Lean only.
-/
import FfcxModel.Geometry.Quad

namespace Ffcx.QuadSel

/-! ## Reference cells (Basix / UFL data) -/

/-- `basix.CellType` -/
inductive Cell where
  | point | interval | triangle | tetrahedron | quadrilateral | hexahedron | prism | pyramid
  deriving DecidableEq, Repr, Inhabited

namespace Cell

def name : Cell → String
  | point => "point" | interval => "interval" | triangle => "triangle" | tetrahedron => "tetrahedron"
  | quadrilateral => "quadrilateral" | hexahedron => "hexahedron" | prism => "prism" | pyramid => "pyramid"

def all : List Cell := [point, interval, triangle, tetrahedron, quadrilateral, hexahedron, prism, pyramid]

/-- `basix_cell_from_string` (accepts the UFL name "vertex" for a point) -/
def ofName? (s : String) : Option Cell :=
  if s == "vertex" then some point else all.find? (fun c => c.name == s)

def tdim : Cell → Nat
  | point => 0 | interval => 1 | triangle => 2 | quadrilateral => 2 | _ => 3

end Cell

open Cell in
/-- `basix.cell.subentity_types(c)`: for every dimension the cell types of the sub-entities -/
def subentityTypes : Cell → List (List Cell)
  | point => [[point]]
  | interval => [[point, point], [interval]]
  | triangle => [[point, point, point], [interval, interval, interval], [triangle]]
  | tetrahedron => [List.replicate 4 point, List.replicate 6 interval, List.replicate 4 triangle, [tetrahedron]]
  | quadrilateral => [List.replicate 4 point, List.replicate 4 interval, [quadrilateral]]
  | hexahedron => [List.replicate 8 point, List.replicate 12 interval, List.replicate 6 quadrilateral, [hexahedron]]
  | prism => [List.replicate 6 point, List.replicate 9 interval,
      [triangle, quadrilateral, quadrilateral, quadrilateral, triangle], [prism]]
  | pyramid => [List.replicate 5 point, List.replicate 8 interval,
      [quadrilateral, triangle, triangle, triangle, triangle], [pyramid]]

open Cell in
/-- `basix.cell.geometry(c)`: the vertices (a point has NO row: shape (0, 1)) -/
def geometry : Cell → List (List Rat)
  | point => []
  | interval => [[0], [1]]
  | triangle => [[0, 0], [1, 0], [0, 1]]
  | tetrahedron => [[0, 0, 0], [1, 0, 0], [0, 1, 0], [0, 0, 1]]
  | quadrilateral => [[0, 0], [1, 0], [0, 1], [1, 1]]
  | hexahedron => [[0, 0, 0], [1, 0, 0], [0, 1, 0], [1, 1, 0], [0, 0, 1], [1, 0, 1], [0, 1, 1], [1, 1, 1]]
  | prism => [[0, 0, 0], [1, 0, 0], [0, 1, 0], [0, 0, 1], [1, 0, 1], [0, 1, 1]]
  | pyramid => [[0, 0, 0], [1, 0, 0], [0, 1, 0], [1, 1, 0], [0, 0, 1]]

open Cell in
/-- `basix.cell.volume(c)` -/
def volume : Cell → Rat
  | point => 0 | interval => 1 | triangle => 1 / 2 | tetrahedron => 1 / 6
  | quadrilateral => 1 | hexahedron => 1 | prism => 1 / 2 | pyramid => 1 / 3

open Cell in
/-- `[basix_cell_from_string(ft.cellname) for ft in ufl.Cell(c).facet_types]`.  UFL builds the tuple from a
`set`: for prism and pyramid the ORDER depends on the process (hash seed); the order actually used is an
input of every group (`GroupIn.facetTypes`), this table is the default and the reference as a set. -/
def uflFacetTypes : Cell → List Cell
  | point => []
  | interval => [point]
  | triangle => [interval] | quadrilateral => [interval]
  | tetrahedron => [triangle] | hexahedron => [quadrilateral]
  | prism => [quadrilateral, triangle] | pyramid => [quadrilateral, triangle]

open Cell in
/-- `[basix_cell_from_string(rt.cellname) for rt in ufl.Cell(c).ridge_types]` -/
def uflRidgeTypes : Cell → List Cell
  | point => [] | interval => []
  | triangle => [point] | quadrilateral => [point]
  | _ => [interval]

/-- Python `l[-k]` (k ≥ 1): `none` = IndexError -/
def negIdx {α : Type} (l : List α) (k : Nat) : Option α :=
  if k = 0 ∨ l.length < k then none else l[l.length - k]?

/-! ## Integral types, schemes, Basix quadrature types -/

/-- `ffcx.definitions.supported_integral_types` -/
inductive IType where
  | cell | exteriorFacet | interiorFacet | vertex | ridge
  deriving DecidableEq, Repr, Inhabited

namespace IType
def name : IType → String
  | cell => "cell" | exteriorFacet => "exterior_facet" | interiorFacet => "interior_facet"
  | vertex => "vertex" | ridge => "ridge"
def all : List IType := [cell, exteriorFacet, interiorFacet, vertex, ridge]
def ofName? (s : String) : Option IType := all.find? (fun t => t.name == s)
/-- `"facet" in integral_type` -/
def isFacet : IType → Bool
  | exteriorFacet => true | interiorFacet => true | _ => false
end IType

/-- `basix.PolysetType` -/
inductive Polyset where
  | standard | macroedge
  deriving DecidableEq, Repr, Inhabited

namespace Polyset
def name : Polyset → String
  | standard => "standard" | macroedge => "macroedge"
def ofName? (s : String) : Option Polyset :=
  if s == "standard" then some standard else if s == "macroedge" then some macroedge else none
/-- `basix.polyset_superset(celltype, a, b)` (does not depend on the cell type for these two kinds) -/
def superset : Polyset → Polyset → Polyset
  | standard, standard => standard
  | _, _ => macroedge
end Polyset

/-- `basix.QuadratureType` -/
inductive QType where
  | default | gaussJacobi | gll | xiaoGimbutas
  deriving DecidableEq, Repr, Inhabited

namespace QType
/-- the enum member names -/
def name : QType → String
  | default => "default" | gaussJacobi => "gauss_jacobi" | gll => "gll" | xiaoGimbutas => "xiao_gimbutas"
def all : List QType := [default, gaussJacobi, gll, xiaoGimbutas]
end QType

/-- `basix.quadrature.string_to_type`; `none` = KeyError -/
def stringToType (s : String) : Option QType :=
  if s == "default" then some .default
  else if s == "Gauss-Lobatto-Legendre" || s == "GLL" then some .gll
  else if s == "Gauss-Legendre" || s == "GL" || s == "Gauss-Jacobi" then some .gaussJacobi
  else if s == "Xiao-Gimbutas" then some .xiaoGimbutas
  else QType.all.find? (fun t => t.name == s)

open Cell QType in
/-- does `basix.make_quadrature(cell, degree, rule=qt, polyset_type=ps)` return (instead of raising
RuntimeError)?  (degree ≥ 0; complete for degree ≤ 36 by comparison with the installed Basix) -/
def basixAccepts (c : Cell) (qt : QType) (ps : Polyset) (degree : Nat) : Bool :=
  match qt with
  | .default | gaussJacobi =>
    match c with
    | point => false
    | prism | pyramid => ps == .standard || degree == 0
    | _ => true
  | gll => c == interval || c == quadrilateral || c == hexahedron
  | xiaoGimbutas =>
    match c with
    | triangle => 1 ≤ degree && degree ≤ 30
    | tetrahedron => 1 ≤ degree && degree ≤ 15
    | _ => false

/-! ## Inputs -/

/-- one element of `ufl.algorithms.extract_elements(integral)` -/
structure ElemIn where
  /-- `e.has_custom_quadrature` -/
  hasCustom : Bool := false
  /-- identity of `e.custom_quadrature()[0]` (equal ids ⇔ equal shape and `np.allclose`) -/
  customPts : Nat := 0
  /-- identity of `e.custom_quadrature()[1]` -/
  customWts : Nat := 0
  /-- number of points of the custom rule (decides NumPy broadcasting) -/
  customN : Nat := 0
  /-- `e.polyset_type` (informative; the rule's polyset is decided by the ARGUMENT elements only) -/
  polyset : Polyset := .standard
  /-- `e.discontinuous` -/
  discontinuous : Bool := false
  /-- `e.has_tensor_product_factorisation` -/
  tpFactor : Bool := false
  deriving DecidableEq, Repr, Inhabited

/-- one integral of `integral_data.integrals` as UFL hands it to FFCx -/
structure IntegralIn where
  /-- identifies the integrand -/
  tag : Nat
  /-- `metadata["quadrature_degree"]` if present -/
  mdDegree : Option Int := none
  /-- `metadata["quadrature_rule"]` if present -/
  mdScheme : Option String := none
  /-- `metadata["estimated_polynomial_degree"]` (a number or a tuple) -/
  estDegrees : List Int := [0]
  /-- `ufl.algorithms.extract_elements(integral)` in order -/
  elements : List ElemIn := []
  /-- `integral.ufl_domain().ufl_coordinate_element().has_tensor_product_factorisation` -/
  coordTP : Bool := false
  deriving DecidableEq, Repr, Inhabited

/-- one `integral_data` (domain, integral type, subdomain id) -/
structure GroupIn where
  itype : IType
  /-- `itg_data.domain.ufl_cell()` -/
  cell : Cell
  /-- `e.polyset_type for e in form_data.argument_elements` -/
  argPolysets : List Polyset := []
  /-- `ufl_cell.facet_types` in the order UFL returns them in this process -/
  facetTypes : List Cell := uflFacetTypes cell
  /-- `ufl_cell.ridge_types` in the order UFL returns them in this process -/
  ridgeTypes : List Cell := uflRidgeTypes cell
  integrals : List IntegralIn
  deriving DecidableEq, Repr, Inhabited

structure Options where
  sumFactorization : Bool := false
  deriving DecidableEq, Repr, Inhabited

/-- every way the selection can raise -/
inductive SelError where
  /-- TypeError("Vertex integrals not supported for discontinuous elements.") -/
  | vertexDiscontinuous
  /-- `assert np.allclose(p, custom_q[0])` / `assert np.allclose(w, custom_q[1])` -/
  | customMismatch
  /-- the same comparison for arrays NumPy cannot broadcast: ValueError -/
  | customShape
  /-- `np.max` of an empty estimate (not reachable through UFL) -/
  | noEstimate
  /-- scheme "custom" requested by the user without a quadrature element: KeyError 'quadrature_points' -/
  | customNoPoints
  /-- `basix.quadrature.string_to_type`: KeyError -/
  | unknownScheme
  /-- a negative degree would reach `basix.make_quadrature` (not reachable: estimates are ≥ 0) -/
  | negativeDegree
  /-- `basix.make_quadrature` raises RuntimeError (scheme / cell / polyset / degree not supported) -/
  | basixRejects
  /-- `basix.cell.subentity_types(cell_type)[-2]` / `[-3]`: IndexError -/
  | noSubentity
  /-- `assert len(set(facet_types)) == 1` -/
  | subentityNotUnique
  /-- `cell_volume / points.shape[0]` with no vertex: ZeroDivisionError -/
  | zeroVertices
  deriving DecidableEq, Repr, Inhabited

namespace SelError
def name : SelError → String
  | vertexDiscontinuous => "vertexDiscontinuous" | customMismatch => "customMismatch"
  | customShape => "customShape" | noEstimate => "noEstimate" | customNoPoints => "customNoPoints"
  | unknownScheme => "unknownScheme" | negativeDegree => "negativeDegree" | basixRejects => "basixRejects"
  | noSubentity => "noSubentity" | subentityNotUnique => "subentityNotUnique" | zeroVertices => "zeroVertices"
/-- the Python exception class -/
def pyClass : SelError → String
  | vertexDiscontinuous => "TypeError" | customMismatch => "AssertionError" | customShape => "ValueError"
  | noEstimate => "ValueError" | customNoPoints => "KeyError" | unknownScheme => "KeyError"
  | negativeDegree => "RuntimeError" | basixRejects => "RuntimeError" | noSubentity => "IndexError"
  | subentityNotUnique => "AssertionError" | zeroVertices => "ZeroDivisionError"
end SelError

/-! ## Stage 1: `_analyze_form` -/

/-- the custom quadrature found so far in one integral (`custom_q`) -/
structure CustomQ where
  pts : Nat
  wts : Nat
  n : Nat
  deriving DecidableEq, Repr, Inhabited

/-- NumPy broadcasting of (n, d) against (m, d) -/
def broadcastable (n m : Nat) : Bool := n == m || n == 1 || m == 1

/-- body of `for e in ufl.algorithms.extract_elements(integral)` -/
def customStep (acc : Option CustomQ) (e : ElemIn) : Except SelError (Option CustomQ) :=
  if e.hasCustom then
    match acc with
    | none => .ok (some ⟨e.customPts, e.customWts, e.customN⟩)
    | some q =>
      if !broadcastable e.customN q.n then .error .customShape
      else if e.customPts != q.pts then .error .customMismatch
      else if e.customWts != q.wts then .error .customMismatch
      else .ok (some q)
  else .ok acc

def customScan : Option CustomQ → List ElemIn → Except SelError (Option CustomQ)
  | acc, [] => .ok acc
  | acc, e :: es =>
    match customStep acc e with
    | .error err => .error err
    | .ok acc' => customScan acc' es

/-- Python `max` of a non-empty list -/
def maxList : List Int → Option Int
  | [] => none
  | x :: xs => some (xs.foldl max x)

/-- what `_analyze_form` writes into the metadata of one integral -/
inductive Analysed where
  /-- `{"quadrature_degree": qd, "quadrature_rule": qr}` -/
  | std (degree : Int) (scheme : String)
  /-- `{"quadrature_points", "quadrature_weights", "quadrature_rule": "custom"}` -/
  | custom (pts wts : Nat)
  deriving DecidableEq, Repr, Inhabited

/-- the body of `for i, integral in enumerate(integral_data.integrals)`.  `custom_q` starts at `None`
for EVERY integral (the scan starts from `none` here). -/
def analyze (itype : IType) (it : IntegralIn) : Except SelError Analysed :=
  if itype == .vertex && it.elements.any (·.discontinuous) then .error .vertexDiscontinuous
  else
    match customScan none it.elements with
    | .error e => .error e
    | .ok (some q) => .ok (.custom q.pts q.wts)
    | .ok none =>
      let qd := it.mdDegree.getD (-1)
      let qr := it.mdScheme.getD "default"
      if qd < 0 then
        match maxList it.estDegrees with
        | none => .error .noEstimate
        | some m => .ok (.std m qr)
      else .ok (.std qd qr)

/-- the loop over the integrals of one `integral_data` (first exception wins) -/
def analyzeAll (itype : IType) : List IntegralIn → Except SelError (List Analysed)
  | [] => .ok []
  | x :: xs =>
    match analyze itype x with
    | .error e => .error e
    | .ok a =>
      match analyzeAll itype xs with
      | .error e => .error e
      | .ok as => .ok (a :: as)

/-! ## Stage 2: `_group_integrands_by_quadrature_rule` -/

/-- the call that produces the points and weights -/
inductive Rule where
  /-- `basix.make_quadrature(cell, degree, rule=qt, polyset_type=ps)` -/
  | basix (cell : Cell) (qt : QType) (degree : Nat) (ps : Polyset)
  /-- `itertools.product` of `factors` copies of the interval rule (sum factorisation) -/
  | tensor (factors : Nat) (qt : QType) (degree : Nat) (ps : Polyset)
  /-- the `vertex` scheme of a reference cell: `geometry(cell)`, weights `volume(cell)/#vertices` -/
  | vertexScheme (cell : Cell)
  /-- arrays of a quadrature element -/
  | custom (pts wts : Nat)
  /-- `create_quadrature("vertex", …)`: one point in R⁰ with weight 1 -/
  | point
  deriving DecidableEq, Repr, Inhabited

/-- one entry of the dictionary `rules` of one integral: the reference cell type the rule is filed
under (key of `grouped_integrands`) and the rule -/
structure Sel where
  cell : Cell
  rule : Rule
  deriving DecidableEq, Repr, Inhabited

/-- `ffcx.element_interface.create_quadrature(cellname, degree, rule, elements)`; the UFL cell name
"vertex" is `Cell.point` here -/
def createQuadrature (c : Cell) (degree : Int) (scheme : String) (argPolysets : List Polyset) :
    Except SelError Rule :=
  if c == .point then .ok .point
  else
    let ps := argPolysets.foldl Polyset.superset .standard
    match stringToType scheme with
    | none => .error .unknownScheme
    | some qt =>
      if degree < 0 then .error .negativeDegree
      else if basixAccepts c qt ps degree.toNat then .ok (.basix c qt degree.toNat ps)
      else .error .basixRejects

/-- `create_quadrature` for every entity type of a list (facet / ridge types), first exception wins -/
def createEach (degree : Int) (scheme : String) (argPolysets : List Polyset) :
    List Cell → Except SelError (List Sel)
  | [] => .ok []
  | c :: cs =>
    match createQuadrature c degree scheme argPolysets with
    | .error e => .error e
    | .ok r =>
      match createEach degree scheme argPolysets cs with
      | .error e => .error e
      | .ok rs => .ok (⟨c, r⟩ :: rs)

/-- `create_quadrature_points_and_weights(integral_type, cell, degree, rule, elements, use_tensor_product)`
followed by the dictionary comprehension `rules = {basix_cell_from_string(i): …}` -/
def createRules (itype : IType) (cell : Cell) (facetTypes ridgeTypes : List Cell) (degree : Int) (scheme : String)
    (argPolysets : List Polyset) (useTP : Bool) : Except SelError (List Sel) :=
  match itype with
  | .cell =>
    if (cell == .quadrilateral || cell == .hexahedron) && useTP then
      match createQuadrature .interval degree scheme argPolysets with
      | .error e => .error e
      | .ok (.basix _ qt d ps) => .ok [⟨cell, .tensor (if cell == .quadrilateral then 2 else 3) qt d ps⟩]
      | .ok r => .ok [⟨cell, r⟩]
    else
      match createQuadrature cell degree scheme argPolysets with
      | .error e => .error e
      | .ok r => .ok [⟨cell, r⟩]
  | .exteriorFacet | .interiorFacet => createEach degree scheme argPolysets facetTypes
  | .ridge => createEach degree scheme argPolysets ridgeTypes
  | .vertex => .ok [⟨.point, .point⟩]

/-- `ts = basix.cell.subentity_types(st)[-k]; assert len(set(ts)) == 1; ts[0]` -/
def uniqueSubentity (st : Cell) (k : Nat) : Except SelError Cell :=
  match negIdx (subentityTypes st) k with
  | none => .error .noSubentity
  | some [] => .error .subentityNotUnique
  | some (t :: ts) => if ts.all (· == t) then .ok t else .error .subentityNotUnique

/-- the `vertex` branch (`scheme == "vertex" and integral_type != "vertex"`): the rule lives on the LOCAL
`entity_type` derived from the group's cell type -/
def selectVertex (itype : IType) (cell : Cell) : Except SelError (List Sel) :=
  let ent : Except SelError Cell :=
    if itype.isFacet then uniqueSubentity cell 2
    else if itype == .ridge then uniqueSubentity cell 3
    else .ok cell
  match ent with
  | .error e => .error e
  | .ok c =>
    if (geometry c).length == 0 then .error .zeroVertices
    else .ok [⟨c, .vertexScheme c⟩]

/-- Sum factorisation is used for this integral -/
def useTP (o : Options) (g : GroupIn) (it : IntegralIn) : Bool :=
  (o.sumFactorization && g.itype == .cell) && (it.elements.all (·.tpFactor) && it.coordTP)

/-- body of `for integral in integrals` for one integral: the dictionary `rules`.  Nothing is carried from
one integral to the next. -/
def selectStep (o : Options) (g : GroupIn) (it : IntegralIn) (a : Analysed) : Except SelError (List Sel) :=
  match a with
  | .custom p w => .ok [⟨g.cell, .custom p w⟩]
  | .std d s =>
    if s == "custom" then .error .customNoPoints
    else if s == "vertex" && g.itype != .vertex then selectVertex g.itype g.cell
    else createRules g.itype g.cell g.facetTypes g.ridgeTypes d s g.argPolysets (useTP o g it)

/-- rules of one integral -/
structure IntegralOut where
  tag : Nat
  sels : List Sel
  deriving DecidableEq, Repr, Inhabited

/-- the loop over the integrals (first exception wins) -/
def selectSeq (o : Options) (g : GroupIn) : List (IntegralIn × Analysed) → Except SelError (List IntegralOut)
  | [] => .ok []
  | (it, a) :: rest =>
    match selectStep o g it a with
    | .error e => .error e
    | .ok sels =>
      match selectSeq o g rest with
      | .error e => .error e
      | .ok outs => .ok (⟨it.tag, sels⟩ :: outs)

/-- analysis + selection of one group -/
def selectGroup (o : Options) (g : GroupIn) : Except SelError (List IntegralOut) :=
  match analyzeAll g.itype g.integrals with
  | .error e => .error e
  | .ok as => selectSeq o g (g.integrals.zip as)

/-! ## Grouping -/

/-- a member of a group: the rule object that was built for it and the integrand -/
abbrev Member := Rule × Nat

/-- the (cell, (key, member)) stream in the order `grouped_integrands[cell_type][rule].append(…)` runs -/
def entries (key : Rule → Nat) : List IntegralOut → List (Cell × (Nat × Member))
  | [] => []
  | o :: os => o.sels.map (fun s => (s.cell, (key s.rule, (s.rule, o.tag)))) ++ entries key os

/-- `grouped_integrands`: outer dictionary by cell type, inner dictionary by rule, both in first-insertion
order; members in insertion order -/
def groupRules (key : Rule → Nat) (outs : List IntegralOut) : List (Cell × List (Nat × List Member)) :=
  (Quad.groupBy (entries key outs)).map (fun cg => (cg.1, Quad.groupBy cg.2))

/-- `QuadratureRule.has_tensor_factors` -/
def Rule.hasTensor : Rule → Bool
  | .tensor _ _ _ _ => true
  | _ => false

/-- which rule OBJECT is the dictionary key after one more integrand with rule `r` joined the entry whose key
object is `cur` (`none`: the entry is new):
`if rule not in group: group[rule] = []  elif not rule.has_tensor_factors and merged.has_tensor_factors: <key := rule>` -/
def mergeStep (cur : Option Rule) (r : Rule) : Rule :=
  match cur with
  | none => r
  | some m => if !r.hasTensor && m.hasTensor then r else m

/-- the key object of an entry after all its members (in insertion order) joined -/
def mergedRule (ms : List Member) : Option Rule :=
  ms.foldl (fun cur m => some (mergeStep cur m.1)) none

/-- one summed integral of `sorted_integrals`: the cell type, the array identity, the rule OBJECT that is the
dictionary key in the end and the tags of the integrands that are summed -/
structure Summed where
  cell : Cell
  key : Nat
  rule : Option Rule
  tags : List Nat
  deriving DecidableEq, Repr, Inhabited

/-- `sorted_integrals` / the keys of `IntegralIR.expression.integrand`, flattened in iteration order (replacing
a key object keeps the position of the entry) -/
def summed (key : Rule → Nat) (outs : List IntegralOut) : List Summed :=
  (groupRules key outs).flatMap (fun cg =>
    cg.2.map (fun kg => ⟨cg.1, kg.1, mergedRule kg.2, kg.2.map (·.2)⟩))

/-! ## Whole form -/

def analyzeForm : List GroupIn → Except SelError (List (List Analysed))
  | [] => .ok []
  | g :: gs =>
    match analyzeAll g.itype g.integrals with
    | .error e => .error e
    | .ok a =>
      match analyzeForm gs with
      | .error e => .error e
      | .ok as => .ok (a :: as)

/-- `compute_ir` runs after the analysis of ALL groups succeeded; group by group, first exception wins -/
def selectForm (o : Options) : List GroupIn → Except SelError (List (List IntegralOut))
  | [] => .ok []
  | g :: gs =>
    match selectGroup o g with
    | .error e => .error e
    | .ok r =>
      match selectForm o gs with
      | .error e => .error e
      | .ok rs => .ok (r :: rs)

def runForm (o : Options) (gs : List GroupIn) : Except SelError (List (List IntegralOut)) :=
  match analyzeForm gs with
  | .error e => .error e
  | .ok _ => selectForm o gs

/-! ## What the symbolic rules denote where FFCx itself defines the numbers -/

/-- points and weights of the rules FFCx computes itself (Basix rules and quadrature elements are data) -/
def ruleData : Rule → Option (Quad.Rule Rat)
  | .vertexScheme c => some (Quad.vertexRule (geometry c) (volume c))
  | .point => some [([], 1)]
  | _ => none

/-- the reference cell type(s) of the integration entity of an integral type on a cell, as the default
branch files its rules -/
def entityCells (g : GroupIn) : List Cell :=
  match g.itype with
  | .cell => [g.cell]
  | .exteriorFacet | .interiorFacet => g.facetTypes
  | .ridge => g.ridgeTypes
  | .vertex => [.point]

/-- the group's facet / ridge type lists are what UFL can return: the distinct types, in some order -/
def GroupIn.wf (g : GroupIn) : Prop :=
  g.facetTypes.Perm (uflFacetTypes g.cell) ∧ g.ridgeTypes.Perm (uflRidgeTypes g.cell)

end Ffcx.QuadSel
