/- Line-protocol driver of the quadrature-selection cluster (C11; see lakefile.toml and
FfcxModel/Driver/Quadsel.lean for the request grammar). -/
import FfcxModel.Driver.Loop
import FfcxModel.Driver.Quadsel

open Ffcx

def dispatch (req : Sexp) : Except String Sexp :=
  match req with
  | .list (.atom "ping" :: _) => .ok (.atom "pong")
  | .list (.atom cmd :: args) => Driver.handleQuadsel cmd args
  | _ => .error "request must be a list"

def main : IO Unit := Driver.run dispatch
