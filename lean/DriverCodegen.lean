/- Line-protocol driver of the codegen cluster (see lakefile.toml). -/
import FfcxModel.Driver.Loop
import FfcxModel.Driver.Codegen

open Ffcx

def dispatch (req : Sexp) : Except String Sexp :=
  match req with
  | .list (.atom cmd :: args) =>
    match cmd with
    | "ping" => .ok (.atom "pong")
    | "codegen_ping" => .ok (.atom "pong-codegen")
    | "gen_block_parts" => Driver.handleGenBlockParts args
    | "gen_groups" => Driver.handleGenGroups args
    | "quad_loop" => Driver.handleQuadLoop args
    | "wrap_loop" => Driver.handleWrapLoop args
    | "gen_expr_block" => Driver.handleGenExprBlock args
    | "prefix_wf" => Driver.handlePrefixWf args
    | "gen_access" => Driver.handleGenAccess args
    | "gen_definition" => Driver.handleGenDefinition args
    | "ssa_ok" => Driver.handleSsaOk args
    | "gen_partition" => Driver.handleGenPartition args
    | "loop_wf" => Driver.handleLoopWf args
    | "block_wf" => Driver.handleBlockWf args
    | _ => .error s!"unknown command {cmd}"
  | _ => .error "request must be a list"

def main : IO Unit := Driver.run dispatch
