/- Line-protocol driver of the codegen cluster (see lakefile.toml). -/
import FfcxModel.Driver.Loop
import FfcxModel.Driver.Codegen
import FfcxModel.LNodes.Scalars
import FfcxProofs.C10Codegen

open Ffcx Ffcx.LNodes Ffcx.Codegen

/-! ## Tie (iv): exact execution of the REAL block statements vs the closed-form specification
    (`blockSum` / `diagSum` / `tensorSum…` of `FfcxProofs`), over `Rat`, on seeded dyadic data -/

namespace ExecTie

def lcg (s : Nat) : Nat := (s * 1103515245 + 12345) % 2147483648

/-- `n` seeded dyadic rationals in `[-2, 2]` (multiples of 1/8) and the next seed -/
def dyadics : Nat → Nat → List Rat × Nat
  | 0, s => ([], s)
  | n + 1, s =>
    let s' := lcg s
    let (r, s'') := dyadics n s'
    let v : Rat := ((((s' / 65536) % 33 : Nat) : Int) - 16 : Int)
    (v / 8 :: r, s'')

/-- tables a group reads: name ↦ (points, dofs) extents needed -/
def tablesOf (g : GroupDesc) : List (String × Nat × Nat) :=
  let raw : List (String × Nat × Nat) := (g.blocks.map (fun b => (b.args.map (fun a =>
    match a.table.factors, g.rule.factors with
    | some fs, some ms => (fs.zip ms).map (fun (f, m) => (f.1, m, f.2))
    | some fs, none => fs.map (fun f => (f.1, g.rule.nweights, f.2))
    | none, _ => [(a.table.name, g.rule.nweights, a.table.ndofs)])).flatten)).flatten
  raw.foldl (fun acc (n, qn, dn) =>
    match acc.find? (fun e => e.1 == n) with
    | some e => acc.map (fun e' => if e'.1 == n then (n, max e.2.1 qn, max e.2.2 dn) else e')
    | none => acc ++ [(n, qn, dn)]) []

def mkState (g : GroupDesc) (st : GenState) (seed : Nat) : St Rat × List Int :=
  let N := (g.aShape.foldr (· * ·) 1)
  let s0 := lcg (seed + 17)
  -- quadrature point
  let (iqs, qvs, s1) : List (String × Int) × List Int × Nat :=
    match g.rule.factors with
    | none =>
      let q := if g.rule.nweights == 0 then 0 else (s0 / 7) % g.rule.nweights
      ([("iq", (q : Int))], [(q : Int)], lcg s0)
    | some ms =>
      let qs : List Nat := (List.range ms.length).map (fun d => (s0 / (7 + d)) % (max 1 (ms.getD d 1)))
      ((List.range ms.length).map (fun d => (s!"iq{d}", ((qs.getD d 0 : Nat) : Int))),
        qs.map (fun q => ((q : Nat) : Int)), lcg s0)
  -- tables [2][3][Q][D]
  let (sa, s2) := (tablesOf g).foldl (fun (acc : AList (Arr Rat) × Nat) (n, qn, dn) =>
    let (vals, s') := dyadics (2 * 3 * (max 1 qn) * (max 1 dn)) acc.2
    (acc.1 ++ [(n, { dims := [2, 3, max 1 qn, max 1 dn], data := vals.toArray })], s')) ([], s1)
  let wname := if g.custom then "weights_chunk" else s!"weights_{g.rule.id}"
  let (wv, s3) := dyadics (max 1 g.rule.nweights) s2
  let sa := sa ++ [(wname, { dims := [max 1 g.rule.nweights], data := wv.toArray }),
                   (aName, { dims := [N], data := (List.replicate N (0 : Rat)).toArray })]
  -- the fw temporaries (and any other scalar symbol the fw expressions read)
  let (sv, s4) := (fwExprs g st g.blocks).foldl (fun (acc : AList Rat × Nat) e =>
    match e with
    | .sym n _ =>
      if (acc.1.find? (fun p => p.1 == n)).isSome then acc
      else let (v, s') := dyadics 1 acc.2; (acc.1 ++ [(n, v.headD 1)], s')
    | _ => acc) ([], s3)
  let e0 := (s4 / 3) % 3
  let e1 := (s4 / 11) % 3
  let p0 := (s4 / 5) % 2
  let p1 := (s4 / 13) % 2
  ({ iv := iqs, sv := sv, sa := sa,
     ia := [("entity_local_index", #[(e0 : Int), (e1 : Int)]), ("quadrature_permutation", #[(p0 : Int), (p1 : Int)])] },
   qvs)

def tfDimsOf (a : ArgDesc) : List Nat := (a.table.factors.getD []).map (·.2)

/-- the closed form for the kind of group, entry by entry; `none`: no closed form proved for it -/
def closedForm (g : GroupDesc) (st : GenState) (σ : St Rat) (qvs : List Int) : Option (String × List Rat) :=
  let N := (g.aShape.foldr (· * ·) 1)
  let fws := fwExprs g st g.blocks
  let q := qvs.headD 0
  if regularGroup g && coversA g then
    some ("blockSum", (List.range N).map (blockSum ratExtra g fws σ q))
  else if diagonalGroup g then
    some ("diagSum", (List.range N).map (diagSum ratExtra g fws σ q))
  else if tensorGroupB g st then
    match g.rule.factors, g.blocks.head? with
    | some ms, some b0 =>
      (match b0.args with
       | [a0] => some ("tensorSum1", (List.range N).map (tensorSum1 ratExtra g (tfDimsOf a0) fws σ qvs))
       | [a0, a1] => some ("tensorSum2", (List.range N).map
           (tensorSum2 ratExtra g ms.length (tfDimsOf a0) (tfDimsOf a1) fws σ qvs))
       | _ => none)
    | _, _ => none
  else none

/-- `(block_exec group state (quadpart…) seed)` → `(ok equal|differ form (exec…) (spec…))` | `(skip why)` -/
def handle (args : List Sexp) : Except String Sexp := do
  match args with
  | [g, st, qp, seed] =>
    let g ← Driver.CG.readGroup g
    let st ← Driver.CG.readState st
    let qp ← (← qp.asList).mapM readStmt
    let (σ, qvs) := mkState g st (← seed.asNat)
    match closedForm g st σ qvs with
    | none => return .list [.atom "skip", .atom "no-closed-form"]
    | some (form, spec) =>
      match execL ratExtra qp σ with
      | .error e => return .list [.atom "ok", .atom "exec-error", .atom form, .atom (reprStr e)]
      | .ok σ' =>
        let got := ((σ'.sa.get aName).map (·.data.toList)).getD []
        let same := got == spec
        return .list [.atom "ok", .atom (if same then "equal" else "differ"), .atom form,
          .list (got.map Sexp.ofRat), .list (spec.map Sexp.ofRat)]
  | _ => throw "block_exec: expected (block_exec group state (quadpart…) seed)"

end ExecTie

def dispatch (req : Sexp) : Except String Sexp :=
  match req with
  | .list (.atom cmd :: args) =>
    match cmd with
    | "ping" => .ok (.atom "pong")
    | "codegen_ping" => .ok (.atom "pong-codegen")
    | "gen_block_parts" => Driver.handleGenBlockParts args
    | "gen_groups" => Driver.handleGenGroups args
    | "quad_loop" => Driver.handleQuadLoop args
    | "wrap_loop" => Driver.handleWrapLoop args
    | "gen_expr_block" => Driver.handleGenExprBlock args
    | "prefix_wf" => Driver.handlePrefixWf args
    | "gen_access" => Driver.handleGenAccess args
    | "gen_definition" => Driver.handleGenDefinition args
    | "ssa_ok" => Driver.handleSsaOk args
    | "gen_partition" => Driver.handleGenPartition args
    | "loop_wf" => Driver.handleLoopWf args
    | "block_wf" => Driver.handleBlockWf args
    | "spec_link" => Driver.handleSpecLink args
    | "blockmap_check" => Driver.handleBlockmapCheck args
    | "values_link" => Driver.handleValuesLink args
    | "diag_pair" => Driver.handleDiagPair args
    | "tensor_rule" => Driver.handleTensorRule args
    | "block_exec" => ExecTie.handle args
    | _ => .error s!"unknown command {cmd}"
  | _ => .error "request must be a list"

def main : IO Unit := Driver.run dispatch
