/- Line-protocol driver of the Names cluster (C13, C20): signatures / names / options / CLI.

Strings travel either as plain atoms or as code-point lists `(u 97 98 …)` (always the latter in
replies, so that control characters never meet the line protocol).

Scalars:  (none) | (bool true) | (int -3) | (float fin <neg> (d1 d2 …) <decpt>) | (float inf <neg>)
          | (float nan) | (str <string>) | (raw <string>)
Points:   (pts <dtype.str> (<dim>…) <hex sha1 of tobytes()>)   -- the digest is supplied: `digest` is a parameter

Commands (replies):
  (ping)                                             pong
  (reprscalar <scalar>) / (strscalar <scalar>)       string
  (tuple <string>…) / (list <string>…)               string
  (optsig (<key> <scalar>)…)                         string      _compute_option_signature
  (compsig (<arg>…) <debug> <cflags> <soabi>)        string      _compilation_signature
  (pointskey <points>)                               string
  (encode (env <version> <hash>) (forms <sig>…)|(exprs (<sig> <points>)…) <tag>)   string | (unbound)
  (request (env …) (forms|exprs …) (opts (<key> <scalar>)…) (comp (<arg>…) <debug> <cflags> <soabi>))
  (formtag <prefix> <id>)  (integraltag <prefix> <type> <id> (<scalar>…))  (exprtag <prefix> <id>|none)
  (alias <kind> <prefix> <name>)
  (factory <name> <cell>)                            string      integral factory name
  (validident <string>)                              true|false
  (merge (<k> <scalar>)… four lists: defaults user pwd, then (some (…)) | (none))   ((k reprstring)…)
  (cli (<dest> <scalar>)…)                           ((k reprstring)…)  priority_options of main
  (namespace (<dest> <scalar>)…)                     ((k reprstring)…)  parse_args(...).__dict__
  (mainopts (user…) (pwd…) (given…))                 ((k reprstring)…)  options main compiles with
  (sanitise <string>)                                string
  (compsigwin (<arg>…) <debug> <ext_suffix>)         string      _compilation_signature, win32 branch
  (renumber (terms <term>…) (coeffs <term>…) (consts <term>…) (args <term>…))
        naming.py:41-64 for an expression with these terminals (traversal order) and these set-iteration orders; terms are
        (coeff <count> <space> <meshid> <cel>) | (const <count> <shape> <meshid> <cel>) |
        (arg <number> <part> <space> <meshid> <cel>) | (geo <cls> <meshid> <cel>) | (other <data>)
        reply ((valid <bool>) (distinctkeys <bool>) (geonew <n>) (coeffs <term>…) (consts <term>…) (args <term>…)
               (domains (<meshid> <cel>)…) (data (<kind> <nat>…)…))   -- data: `termData` per terminal, in order
  formatcode, tpl, citems, tplholes, tplobs          see FfcxModel/Cli/Driver.lean (`cliDispatch`, fall-through arm)
-/
import FfcxModel.Driver.Loop
import FfcxModel.Jit.Naming
import FfcxModel.Jit.Renumber
import FfcxModel.Cli.Options
import FfcxModel.Generated.Options
import FfcxModel.Cli.Driver

open Ffcx Ffcx.Naming Ffcx.Cli

namespace NamesDriver

def ofStr (s : Str) : Sexp := .list (.atom "u" :: s.map (fun c => Sexp.ofNat c.toNat))

def asStr : Sexp → Except String Str
  | .atom s => .ok s.toList
  | .list (.atom "u" :: cs) => cs.mapM fun c => do
      let n ← c.asNat
      pure (Char.ofNat n)
  | _ => .error "expected string"

def asNatList (s : Sexp) : Except String (List Nat) := do
  (← s.asList).mapM Sexp.asNat

def asScalar : Sexp → Except String Scalar
  | .list [.atom "none"] => .ok .none
  | .list [.atom "bool", b] => do pure (.bool (← b.asBool))
  | .list [.atom "int", i] => do pure (.int (← i.asInt))
  | .list [.atom "float", .atom "nan"] => .ok (.float .nan)
  | .list [.atom "float", .atom "inf", n] => do pure (.float (.inf (← n.asBool)))
  | .list [.atom "float", .atom "fin", n, ds, e] => do
      pure (.float (.fin (← n.asBool) (← asNatList ds) (← e.asInt)))
  | .list [.atom "str", s] => do pure (.str (← asStr s))
  | .list [.atom "raw", s] => do pure (.raw (← asStr s))
  | s => .error s!"bad scalar {s}"

def asItems (xs : List Sexp) : Except String (List (Str × Scalar)) :=
  xs.mapM fun x => match x with
    | .list [k, v] => do pure (← asStr k, ← asScalar v)
    | _ => .error "bad item"

def asSItems (xs : List Sexp) : Except String (Dict String Scalar) :=
  xs.mapM fun x => match x with
    | .list [k, v] => do pure (String.ofList (← asStr k), ← asScalar v)
    | _ => .error "bad item"

/-- Points with the digest of their bytes supplied by the harness (`digest := id`). -/
abbrev DPts := Pts Str

def asPts : Sexp → Except String DPts
  | .list [.atom "pts", dt, sh, dg] => do
      pure ⟨← asStr dt, ← asNatList sh, ← asStr dg⟩
  | _ => .error "bad points"

def reprPts : DPts → Str := pointsKey id

def asObjs : Sexp → Except String (Objs DPts)
  | .list (.atom "forms" :: sigs) => do pure (.forms (← sigs.mapM asStr))
  | .list (.atom "exprs" :: es) => do
      let l ← es.mapM fun e => match e with
        | .list [s, p] => do pure (← asStr s, ← asPts p)
        | _ => .error "bad expr"
      pure (.exprs l)
  | _ => .error "bad objs"

def asEnv : Sexp → Except String Env
  | .list [.atom "env", v, h] => do pure ⟨← asStr v, ← asStr h⟩
  | _ => .error "bad env"

def asComp : List Sexp → Except String CompileArgs
  | [args, dbg, cf, so] => do
      pure ⟨← (← args.asList).mapM asStr, ← asScalar dbg, ← asScalar cf, ← asScalar so⟩
  | _ => .error "bad compile args"

def ofDict (d : Dict String Scalar) : Sexp :=
  .list (d.map fun kv => .list [ofStr kv.1.toList, ofStr (reprScalar kv.2)])

/-! ### renumbering (C13) -/
open Ffcx.Naming.Rn in
def asTerm : Sexp → Except String Term
  | .list [.atom "coeff", c, s, i, e] => do pure (.coeff (← c.asNat) (← s.asNat) ⟨← i.asNat, ← e.asNat⟩)
  | .list [.atom "const", c, s, i, e] => do pure (.const (← c.asNat) (← s.asNat) ⟨← i.asNat, ← e.asNat⟩)
  | .list [.atom "arg", n, p, s, i, e] => do
      pure (.arg (← n.asNat) (← p.asNat) (← s.asNat) ⟨← i.asNat, ← e.asNat⟩)
  | .list [.atom "geo", k, i, e] => do pure (.geo (← k.asNat) ⟨← i.asNat, ← e.asNat⟩)
  | .list [.atom "other", d] => do pure (.other (← d.asNat))
  | s => .error s!"bad term {s}"

open Ffcx.Naming.Rn in
def ofTerm : Term → Sexp
  | .coeff c s m => .list [.atom "coeff", .ofNat c, .ofNat s, .ofNat m.id, .ofNat m.cel]
  | .const c s m => .list [.atom "const", .ofNat c, .ofNat s, .ofNat m.id, .ofNat m.cel]
  | .arg n p s m => .list [.atom "arg", .ofNat n, .ofNat p, .ofNat s, .ofNat m.id, .ofNat m.cel]
  | .geo k m => .list [.atom "geo", .ofNat k, .ofNat m.id, .ofNat m.cel]
  | .other d => .list [.atom "other", .ofNat d]

open Ffcx.Naming.Rn in
def ofTermData : TermData → Sexp
  | .coeff n s mn e => .list [.atom "coeff", .ofNat n, .ofNat s, .ofNat mn, .ofNat e]
  | .const mn e s n => .list [.atom "const", .ofNat mn, .ofNat e, .ofNat s, .ofNat n]
  | .arg n p s mn e => .list [.atom "arg", .ofNat n, .ofNat p, .ofNat s, .ofNat mn, .ofNat e]
  | .geo k mn e => .list [.atom "geo", .ofNat k, .ofNat mn, .ofNat e]
  | .other d => .list [.atom "other", .ofNat d]

def asTagged (tag : String) : Sexp → Except String (List Sexp)
  | .list (.atom t :: xs) => if t = tag then .ok xs else .error s!"expected ({tag} …)"
  | _ => .error s!"expected ({tag} …)"

open Ffcx.Naming.Rn in
def renumberCmd (ts cs ks as : Sexp) : Except String Sexp := do
  let terms ← (← asTagged "terms" ts).mapM asTerm
  let o : SetOrders := ⟨← (← asTagged "coeffs" cs).mapM asTerm, ← (← asTagged "consts" ks).mapM asTerm,
    ← (← asTagged "args" as).mapM asTerm⟩
  let rn := renumber terms o
  pure (.list [
    .list [.atom "valid", Sexp.ofBool (o.validB terms)],
    .list [.atom "distinctkeys", Sexp.ofBool (decide (DistinctKeys terms))],
    .list [.atom "geonew", .ofNat (geoNew terms).length],
    .list (.atom "coeffs" :: rn.coeffs.map ofTerm),
    .list (.atom "consts" :: rn.consts.map ofTerm),
    .list (.atom "args" :: rn.args.map ofTerm),
    .list (.atom "domains" :: rn.domains.map fun m => .list [.ofNat m.id, .ofNat m.cel]),
    .list (.atom "data" :: (leafData terms o).map ofTermData)])

def generatedActions : List Action := Ffcx.Generated.Options.actions
def generatedDefaults : Dict String Scalar := Ffcx.Generated.Options.defaultDict

def dispatch (req : Sexp) : Except String Sexp :=
  match req with
  | .list (.atom cmd :: args) =>
    match cmd, args with
    | "ping", _ => .ok (.atom "pong")
    | "reprscalar", [v] => do pure (ofStr (reprScalar (← asScalar v)))
    | "strscalar", [v] => do pure (ofStr (strScalar (← asScalar v)))
    | "tuple", parts => do pure (ofStr (tupleOf (← parts.mapM asStr)))
    | "list", parts => do pure (ofStr (listOf (← parts.mapM asStr)))
    | "optsig", items => do pure (ofStr (optionSignature (← asItems items)))
    | "compsig", c => do pure (ofStr (compilationSignature (← asComp c)))
    | "compsigwin", [args, dbg, ext] => do
        pure (ofStr (compilationSignatureWin32 (← (← args.asList).mapM asStr) (← asScalar dbg) (← asScalar ext)))
    | "renumber", [ts, cs, ks, as] => renumberCmd ts cs ks as
    | "pointskey", [p] => do pure (ofStr (reprPts (← asPts p)))
    | "encode", [env, objs, tag] => do
        match encode reprPts (← asEnv env) (← asObjs objs) (← asStr tag) with
        | some s => pure (ofStr s)
        | none => pure (.list [.atom "unbound"])
    | "request", [env, objs, .list (.atom "opts" :: items), .list (.atom "comp" :: c)] => do
        let r : Request DPts := ⟨← asObjs objs, ← asItems items, ← asComp c⟩
        match encodeRequest reprPts (← asEnv env) r with
        | some s => pure (ofStr s)
        | none => pure (.list [.atom "unbound"])
    | "formtag", [p, i] => do pure (ofStr (formTag (← asStr p) (← i.asInt)))
    | "integraltag", [p, t, i, sub] => do
        pure (ofStr (integralTag (← asStr p) (← asStr t) (← i.asInt) (← (← sub.asList).mapM asScalar)))
    | "exprtag", [p, i] => do
        let id ← match i with
          | .atom "none" => pure none
          | x => do pure (some (← x.asInt))
        pure (ofStr (expressionTag (← asStr p) id))
    | "alias", [k, p, n] => do pure (ofStr (aliasName (← asStr k) (← asStr p) (← asStr n)))
    | "factory", [n, c] => do pure (ofStr ((← asStr n) ++ '_' :: (← asStr c)))
    | "validident", [s] => do pure (Sexp.ofBool (validIdent (← asStr s)))
    | "merge", [d, u, p, q] => do
        let prio ← match q with
          | .list [.atom "none"] => pure none
          | .list [.atom "some", .list items] => do pure (some (← asSItems items))
          | _ => .error "bad priority"
        pure (ofDict (getOptions (← asSItems (← d.asList)) (← asSItems (← u.asList))
          (← asSItems (← p.asList)) prio))
    | "cli", given => do pure (ofDict (priorityOptions generatedActions (← asSItems given)))
    | "namespace", given => do pure (ofDict (parseNamespace generatedActions (← asSItems given)))
    | "mainopts", [u, p, g] => do
        pure (ofDict (mainOptions generatedActions generatedDefaults (← asSItems (← u.asList))
          (← asSItems (← p.asList)) (← asSItems (← g.asList))))
    | "sanitise", [s] => do pure (ofStr (sanitiseFilename (← asStr s)))
    | _, _ => Ffcx.Cli.cliDispatch cmd args
  | _ => .error "request must be a list"

end NamesDriver

def main : IO Unit := Driver.run NamesDriver.dispatch
