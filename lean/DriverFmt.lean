/- Line-protocol driver of the formatter cluster (see lakefile.toml). -/
import FfcxModel.Driver.Loop
import FfcxModel.LNodes.Wire
import FfcxModel.LNodes.FormatC
import FfcxModel.LNodes.FormatNumba
import FfcxModel.LNodes.Lex
import FfcxModel.LNodes.ParseC
import FfcxModel.LNodes.ParsePy

open Ffcx Ffcx.LNodes Ffcx.LNodes.Fmt

namespace FmtDriver

def S (cs : List Char) : Sexp := .atom (String.ofList cs)
def B (b : Bool) : Sexp := Sexp.ofBool b

def tokSexp : Tok → Sexp
  | .id s => .list [.atom "id", .atom s]
  | .num s => .list [.atom "num", .atom s]
  | .p q => .list [.atom "p", S q.text]
  | .bad c => .list [.atom "bad", S [c]]
  | .newline => .atom "NEWLINE"
  | .indent => .atom "INDENT"
  | .dedent => .atom "DEDENT"

def uopName : UOp → String
  | .neg => "neg" | .not => "not"

partial def ptSexp : PT → Sexp
  | .num s => .list [.atom "num", .atom s]
  | .id s => .list [.atom "id", .atom s]
  | .call f args => .list (.atom "call" :: .atom f :: args.map ptSexp)
  | .idx a ix => .list (.atom "idx" :: ptSexp a :: ix.map ptSexp)
  | .un op a => .list [.atom (uopName op), ptSexp a]
  | .bin op a b => .list [.atom op.toString, ptSexp a, ptSexp b]
  | .cond c t f => .list [.atom "cond", ptSexp c, ptSexp t, ptSexp f]
  | .chain a rest => .list (.atom "chain" :: ptSexp a :: rest.map (fun (op, x) => .list [.atom op.toString, ptSexp x]))
  | .kw k v => .list [.atom "kw", .atom k, ptSexp v]
  | .tuple xs => .list (.atom "tuple" :: xs.map ptSexp)
  | .list xs => .list (.atom "list" :: xs.map ptSexp)

partial def initSexp : PInit → Sexp
  | .e x => ptSexp x
  | .braces xs => .list (.atom "braces" :: xs.map initSexp)

partial def psSexp : PS → Sexp
  | .assign add l r => .list [.atom (if add then "addassign" else "assign"), ptSexp l, ptSexp r]
  | .decl q n dims init => .list [.atom "decl", .list (q.map .atom), .atom n, .list (dims.map ptSexp),
      match init with | none => .atom "none" | some x => initSexp x]
  | .loop i lo hi body => .list (.atom "for" :: .atom i :: ptSexp lo :: ptSexp hi :: body.map psSexp)
  | .block body => .list (.atom "block" :: body.map psSexp)

def isStmtHead (h : String) : Bool :=
  ["assign", "addassign", "vdecl", "adecl", "for", "comment", "block", "section"].contains h

def scalarOf (s : Sexp) : Except String Scalar := do
  let a ← s.asAtom
  match Scalar.ofString a with
  | some sc => pure sc
  | none => throw s!"bad scalar type {a}"

def optText : Option (List Char) → Sexp
  | some t => .list [.atom "ok", S t]
  | none => .list [.atom "raise"]

def optPT : Option PT → Sexp
  | some t => .list [.atom "ok", ptSexp t]
  | none => .list [.atom "fail"]

def optPSs : Option (List PS) → Sexp
  | some t => .list (.atom "ok" :: t.map psSexp)
  | none => .list [.atom "fail"]

def kindSexp : Option Bool → Sexp
  | some true => .atom "cond" | some false => .atom "arith" | none => .atom "illtyped"

/-- everything the harness wants to know about one expression under the C formatter -/
def exprC (sc : Scalar) (e : Expr) : Sexp :=
  let ps := piecesC sc e
  let text := render ps
  let lexed := lexC text
  let (ok, _, _) := roundtripExprC sc e
  .list [.atom "res", S text, B (lexed == toks ps), B ok, B (wfC sc e), kindSexp (kindOf e), B (raisesC sc e)]

def exprPy (e : Expr) : Sexp :=
  let ps := piecesPy e
  let text := render ps
  let lexed := lexPyExpr text
  let (ok, _, _) := roundtripExprPy e
  .list [.atom "res", S text, B (lexed == toks ps), B ok, B (wfC .f64 e), kindSexp (kindOf e), B (exprRaisesPy e),
    B (wfPy e)]

def stmtC (sc : Scalar) (s : Stmt) : Sexp :=
  match formatStmtC sc s with
  | none => .list [.atom "raise"]
  | some text =>
    let lexed := lexC text
    let want := tokStmtC sc s
    let parsed := parseStmtsTopC lexed
    .list [.atom "res", S text, B (lexed == want), B (parsed == some (eraseStmtC sc s)), B (wfS sc s)]

def stmtPy (sc : Scalar) (s : Stmt) : Sexp :=
  match fmtStmtPy sc s with
  | none => .list [.atom "raise"]
  | some text =>
    let lexed := lexPy text
    let want := tokStmtPy sc s
    let parsed := lexed.bind parseStmtsTopPy
    .list [.atom "res", S text, B (lexed == some want), B (parsed == some (eraseStmtPy sc s)), B (wfSPy sc s)]

def dispatch (req : Sexp) : Except String Sexp :=
  match req with
  | .list (.atom cmd :: args) =>
    match cmd, args with
    | "ping", _ => .ok (.atom "pong")
    | "fmtC", [dt, x] => do
      let sc ← scalarOf dt
      match x with
      | .list (.atom h :: _) =>
        if isStmtHead h then return optText (formatStmtC sc (← readStmt x))
        else return optText (formatExprC sc (← readExpr x))
      | _ => throw "bad tree"
    | "fmtPy", [dt, x] => do
      let sc ← scalarOf dt
      match x with
      | .list (.atom h :: _) =>
        if isStmtHead h then return optText (fmtStmtPy sc (← readStmt x))
        else
          let e ← readExpr x
          return (if exprRaisesPy e then .list [.atom "raise"] else optText (some (fmtExprPy e)))
      | _ => throw "bad tree"
    | "exprC", [dt, x] => do return exprC (← scalarOf dt) (← readExpr x)
    | "exprPy", [x] => do return exprPy (← readExpr x)
    | "stmtC", [dt, x] => do return stmtC (← scalarOf dt) (← readStmt x)
    | "stmtPy", [dt, x] => do return stmtPy (← scalarOf dt) (← readStmt x)
    | "tokensC", [t] => do return .list ((lexC (← t.asAtom).toList).map tokSexp)
    | "tokensPy", [t] => do
      match lexPy (← t.asAtom).toList with
      | some ts => return .list (ts.map tokSexp)
      | none => return .list [.atom "fail"]
    | "toksC", [dt, x] => do return .list ((tokExprC (← scalarOf dt) (← readExpr x)).map tokSexp)
    | "toksPy", [x] => do return .list ((tokExprPy (← readExpr x)).map tokSexp)
    | "parseC", [t] => do return optPT (parseExprC (lexC (← t.asAtom).toList))
    | "parsePy", [t] => do return optPT (parseExprPy (lexPyExpr (← t.asAtom).toList))
    | "parseStmtC", [t] => do return optPSs (parseStmtsTopC (lexC (← t.asAtom).toList))
    | "parseStmtPy", [t] => do return optPSs ((lexPy (← t.asAtom).toList).bind parseStmtsTopPy)
    | "fmtnum", [p, x] => do
      let v ← x.asRat
      match ← p.asAtom with
      | "16" => return S (fmtFloat16 v)
      | "r" => return S (reprFloat v)
      | "int" => return S (fmtInt v.num)
      | q => throw s!"bad precision {q}"
    | "numcheck", [x] => do
      let v ← x.asRat
      return .list [S (fmtFloat16 v), S (reprFloat v), Sexp.ofRat (litValue 16 v), Sexp.ofRat (litValueR v)]
    | "readcheck", [t] => do
      match readNum (← t.asAtom).toList with
      | some v => return .list [.atom "ok", Sexp.ofRat v, Sexp.ofRat (round64 v)]
      | none => return .list [.atom "fail"]
    | "fmtcomplex", [re, im] => do return S (strComplex (← re.asRat) (← im.asRat))
    | "litvalue", [p, x] => do
      match ← p.asAtom with
      | "r" => return Sexp.ofRat (litValueR (← x.asRat))
      | q => match q.toNat? with
        | some n => return Sexp.ofRat (litValue n (← x.asRat))
        | none => throw s!"bad precision {q}"
    | "readnum", [t] => do
      match readNum (← t.asAtom).toList with
      | some v => return .list [.atom "ok", Sexp.ofRat v]
      | none => return .list [.atom "fail"]
    | "round64", [x] => do return Sexp.ofRat (round64 (← x.asRat))
    | "ulp64", [x] => do return Sexp.ofRat (ulp64 (← x.asRat))
    | "roundtripC", [dt, x] => do
      let sc ← scalarOf dt
      let (ok, got, want) := roundtripExprC sc (← readExpr x)
      if ok then return .list [.atom "ok"] else return .list [.atom "mismatch", optPT got, ptSexp want]
    | "roundtripC", [x] => do
      let (ok, got, want) := roundtripExprC .f64 (← readExpr x)
      if ok then return .list [.atom "ok"] else return .list [.atom "mismatch", optPT got, ptSexp want]
    | "roundtripPy", [x] => do
      let (ok, got, want) := roundtripExprPy (← readExpr x)
      if ok then return .list [.atom "ok"] else return .list [.atom "mismatch", optPT got, ptSexp want]
    | "eraseStmtC", [dt, x] => do return .list ((eraseStmtC (← scalarOf dt) (← readStmt x)).map psSexp)
    | "eraseStmtPy", [dt, x] => do return .list ((eraseStmtPy (← scalarOf dt) (← readStmt x)).map psSexp)
    | "norm", [x] => do return writeExpr (norm (← readExpr x))
    | "wt", [dt, x] => do
      let sc ← scalarOf dt
      let e ← readExpr x
      return .list [B (wfC sc e), kindSexp (kindOf e)]
    | _, _ => .error s!"unknown command or bad arity: {cmd}"
  | _ => .error "request must be a list"

end FmtDriver

def main : IO Unit := Driver.run FmtDriver.dispatch
