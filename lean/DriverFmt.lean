/- Line-protocol driver of the formatter cluster (see lakefile.toml). -/
import FfcxModel.Driver.Loop

open Ffcx

def dispatch (req : Sexp) : Except String Sexp :=
  match req with
  | .list (.atom cmd :: _args) =>
    match cmd with
    | "ping" => .ok (.atom "pong")
    | _ => .error s!"unknown command {cmd}"
  | _ => .error "request must be a list"

def main : IO Unit := Driver.run dispatch
