/-
C09 — soundness of the dtype discipline ("geometry always taken in the matching real type";
"on complex data the complex kernels equal the form evaluated in complex arithmetic").

In a complex kernel FFCx declares some names `double` (REAL) and others `double _Complex` (SCALAR)
and chooses `pow` iff no argument of the call is SCALAR, `cpow` otherwise (functions without a complex
version are refused for SCALAR arguments).  C converts complex → double silently.
`dtypeCert` (FfcxModel/LNodes/DtypeCert.lean) is evaluated on every generated kernel by
`harness/dtype_checks.py`; the theorems here say what a passed certificate means:

* `dtype_sound`        certificate ⇒ for EVERY conversion `ρ` that leaves real values alone, the semantics
                       with conversions `execG ρ` equals the exact semantics `exec`, and the invariant
                       `RealStore` (REAL/INT/BOOL-declared names hold real values) is preserved;
* `dtype_sound_execT`  the instance `ρ = re`: C's truncating semantics `execT` equals `exec`;
* `truncation_free`    the `double` temporaries of the truncating run carry exactly the values of the exact
                       (complex) evaluation, and `re` leaves each of them unchanged;
* `real_targets_receive_reals`  the literal statement along the exact run: every value stored into a
                       REAL-declared target is real and every call of a function with `double`
                       parameters receives only real arguments (`ConvRealS`);
* `truncation_counterexample`, `nested_call_counterexample`  kernels violating the certificate on which
                       `execT ≠ exec`; `real_pow_complex_exponent_certified`: the tree of `x[0]**(1+2j)`
                       (formerly emitted as real `pow`, now `cpow`) is certified; `rejected_call_example`;
* `gauss_lawful`, `dtypeCert_example`  the hypotheses are satisfiable (Gaussian rationals) and the certificate
                       accepts a kernel with real geometry, `creal`, real `pow` and complex `cpow`.

Carrier: any `ComplexLike R` (conjugation commuting with the operations; no ring axioms needed).
Floating-point rounding and NaN are outside the statement (DESIGN.md §5): `fn_real_closed` is the
assumption "a `double → double` function returns a `double`".
-/
import FfcxProofs.Lemmas.DtypeExec
import FfcxProofs.Lemmas.DtypeGauss
import FfcxProofs.C09

set_option linter.unusedSectionVars false

namespace Ffcx.LNodes

section
variable {R : Type} [Add R] [Sub R] [Mul R] [Div R] [Neg R] [IntCast R]

/-- **C's truncating semantics**: `exec` with `re` applied wherever C converts to `double`. -/
def execT (C : ComplexLike R) (x : Extra R) : Stmt → St R → Except Err (St R) := execG C.re x

/-- **dtype_sound** (full strength).  For every environment `Γ` under which the kernel passes the strict
    certificate, every store `σ` in which the REAL/INT/BOOL-declared names hold real values (inputs:
    `coordinate_dofs` real; tables are declared inside the kernel), and every conversion `ρ` that fixes
    the real values: running with conversions gives exactly the result of the exact semantics
    (same error or same final store), and the final store again satisfies the invariant. -/
theorem dtype_sound (C : ComplexLike R) (x : Extra R) (hx : LawfulComplexExtra C x)
    {Γ : DEnv} (k : Stmt) (σ : St R) (hc : certS true Γ k = true) (hσ : RealStore C Γ σ)
    (ρ : R → R) (hρ : FixesReals C ρ) :
    execG ρ x k σ = exec x k σ ∧ ∀ σ', exec x k σ = .ok σ' → RealStore C Γ σ' :=
  dtype_sound_stmt C x hx hρ k σ hc hσ

/-- **dtype_sound** in the form "certificate ⇒ execT = exec", for the kernel's own environment. -/
theorem dtype_sound_execT (C : ComplexLike R) (x : Extra R) (hx : LawfulComplexExtra C x)
    (k : Stmt) (σ : St R) (hc : dtypeCert true k = true) (hσ : RealStore C (kernelEnv k) σ) :
    execT C x k σ = exec x k σ :=
  (dtype_sound C x hx k σ hc hσ C.re C.fixesReals_re).1

/-- **truncation_free**: if the truncating run of a certified kernel ends in `σ'`, the exact run ends in
    the same `σ'` — so every `double`-typed temporary and every cell of a `double` array carries exactly
    the value the exact (complex) evaluation assigns — and applying the conversion once more changes
    none of them. -/
theorem truncation_free (C : ComplexLike R) (x : Extra R) (hx : LawfulComplexExtra C x)
    (k : Stmt) (σ σ' : St R) (hc : dtypeCert true k = true) (hσ : RealStore C (kernelEnv k) σ)
    (hrun : execT C x k σ = .ok σ') :
    exec x k σ = .ok σ' ∧
    (∀ n d v, (kernelEnv k).get n = some d → d.isRealTy = true → σ'.sv.get n = some v →
      C.re v = v) ∧
    (∀ n d a, (kernelEnv k).get n = some d → d.isRealTy = true → σ'.sa.get n = some a →
      ∀ j, C.re (a.data.getD j (IntCast.intCast 0)) = a.data.getD j (IntCast.intCast 0)) := by
  obtain ⟨h1, h2⟩ := dtype_sound C x hx k σ hc hσ C.re C.fixesReals_re
  have hex : exec x k σ = .ok σ' := by rw [← h1]; exact hrun
  have hσ' := h2 σ' hex
  exact ⟨hex, fun n d v hn hd hv => C.re_of_real v (hσ'.sv n d v hn hd hv),
    fun n d a hn hd ha j => C.re_of_real _ (hσ'.sa n d a hn hd ha j)⟩

mutual
/-- the semantics with the identity conversion is the exact semantics (so `execG` really is `exec`
    plus conversions) — no certificate needed -/
theorem evalG_id (x : Extra R) (σ : St R) : ∀ (e : Expr), evalG id x σ e = eval x σ e
  | .litF .. => by simp [evalG, eval]
  | .litI .. => by simp [evalG, eval]
  | .sym .. => by simp [evalG, eval]
  | .mi .. => by simp [evalG, eval]
  | .neg a => by simp only [evalG, eval, evalG_id x σ a]
  | .not a => by simp only [evalG, eval, evalBG_id x σ a]
  | .bin op a b => by
    have ha := evalG_id x σ a
    have hb := evalG_id x σ b
    have hba := evalBG_id x σ a
    have hbb := evalBG_id x σ b
    cases op <;> simp [evalG, eval, ha, hb, hba, hbb]
  | .sum args => by simp only [evalG, eval, evalLG_id x σ args]
  | .prod args => by simp only [evalG, eval, evalLG_id x σ args]
  | .call f dt args => by
    simp only [evalG, eval, evalLG_id x σ args, convArgs]
    split <;> simp
  | .idx .. => by simp [evalG, eval]
  | .cond c t f => by
    simp only [evalG, eval, evalBG_id x σ c, evalG_id x σ t, evalG_id x σ f]
theorem evalBG_id (x : Extra R) (σ : St R) : ∀ (e : Expr), evalBG id x σ e = evalB x σ e
  | .litF .. => by simp [evalBG, evalB]
  | .litI .. => by simp [evalBG, evalB]
  | .sym .. => by simp [evalBG, evalB]
  | .mi .. => by simp [evalBG, evalB]
  | .neg _ => by simp [evalBG, evalB]
  | .not a => by simp only [evalBG, evalB, evalBG_id x σ a]
  | .bin op a b => by
    have ha := evalG_id x σ a
    have hb := evalG_id x σ b
    have hba := evalBG_id x σ a
    have hbb := evalBG_id x σ b
    cases op <;> simp [evalBG, evalB, ha, hb, hba, hbb]
  | .sum .. => by simp [evalBG, evalB]
  | .prod .. => by simp [evalBG, evalB]
  | .call .. => by simp [evalBG, evalB]
  | .idx .. => by simp [evalBG, evalB]
  | .cond .. => by simp [evalBG, evalB]
theorem evalLG_id (x : Extra R) (σ : St R) : ∀ (es : List Expr), evalLG id x σ es = evalL x σ es
  | [] => by simp [evalLG, evalL]
  | e :: es => by simp only [evalLG, evalL, evalG_id x σ e, evalLG_id x σ es]
end

theorem loopN_congr (b1 b2 : St R → Except Err (St R)) (h : ∀ σ, b1 σ = b2 σ) (i : String) :
    ∀ (n : Nat) (lo : Int) (σ : St R), loopN b1 i lo n σ = loopN b2 i lo n σ
  | 0, _, _ => rfl
  | n + 1, lo, σ => by
    simp only [loopN, h]
    cases b2 (σ.setIV i lo) with
    | error e => rfl
    | ok σ1 => exact loopN_congr b1 b2 h i n (lo + 1) σ1

mutual
/-- **execG_id**: with the identity conversion `execG` is `exec`, for every statement and store. -/
theorem execG_id (x : Extra R) : ∀ (s : Stmt) (σ : St R), execG id x s σ = exec x s σ
  | .assign lhs rhs, σ => by simp [execG, exec, evalG_id x σ, cv]
  | .addAssign lhs rhs, σ => by simp [execG, exec, evalG_id x σ, cv]
  | .vdecl n dt v, σ => by
    have hcv : ∀ w : R, cv id dt w = w := by intro w; simp [cv]
    simp only [execG, exec, evalG_id x σ, evalBG_id x σ, hcv]
    try rfl
  | .adecl n dt sizes c vals, σ => by
    have : ∀ vs : List R, vs.map (cv id dt) = vs := by
      intro vs; apply map_fixes; intro v _; simp [cv]
    simp [execG, exec, initDataG, initData, evalLG_id x σ, this]
  | .forRange i lo hi body, σ => by
    simp only [execG, exec]
    cases evalI σ.iv σ.ia lo with
    | none => rfl
    | some l =>
      cases evalI σ.iv σ.ia hi with
      | none => rfl
      | some h => exact loopN_congr _ _ (fun τ => execLG_id x body τ) i _ _ σ
  | .comment _, σ => by simp [execG, exec]
  | .block ss, σ => by simpa [execG, exec] using execLG_id x ss σ
  | .sect _ decls stmts _ _ _, σ => by
    simp only [execG, exec, execLG_id x decls σ]
    cases execL x decls σ with
    | error e => rfl
    | ok σ1 => exact execLG_id x stmts σ1

theorem execLG_id (x : Extra R) : ∀ (ss : List Stmt) (σ : St R), execLG id x ss σ = execL x ss σ
  | [], σ => by simp [execLG, execL]
  | s :: ss, σ => by
    simp only [execLG, execL, execG_id x s σ]
    cases exec x s σ with
    | error e => rfl
    | ok σ1 => exact execLG_id x ss σ1
end

/-- real scalar types: over a carrier in which every value is real (`float64/float32` kernels: the
    conjugation is the identity) no conversion can change anything — no certificate needed. -/
theorem dtype_sound_real_carrier (C : ComplexLike R) (x : Extra R) (hall : ∀ a, C.IsReal a)
    (k : Stmt) (σ : St R) : execT C x k σ = exec x k σ := by
  have : C.re = id := funext (fun a => C.re_of_real a (hall a))
  unfold execT
  rw [this]
  exact execG_id x k σ

/-! ## the literal statement: what reaches a conversion point is real -/

mutual
/-- every call of a function with `double` parameters inside `e` receives only real arguments
    (values of the exact semantics in store `σ`) -/
def ConvRealE (C : ComplexLike R) (x : Extra R) (σ : St R) : Expr → Prop
  | .neg a | .not a => ConvRealE C x σ a
  | .bin _ a b => ConvRealE C x σ a ∧ ConvRealE C x σ b
  | .sum args | .prod args => ConvRealL C x σ args
  | .call f _ args =>
    (truncatesArgs f args = true → ∀ v, v ∈ evalL x σ args → C.IsReal v) ∧ ConvRealL C x σ args
  | .cond c t f => ConvRealE C x σ c ∧ ConvRealE C x σ t ∧ ConvRealE C x σ f
  | _ => True
def ConvRealL (C : ComplexLike R) (x : Extra R) (σ : St R) : List Expr → Prop
  | [] => True
  | e :: es => ConvRealE C x σ e ∧ ConvRealL C x σ es
end

/-- `P` holds before every iteration of the loop (along the exact run) -/
def LoopAll (P : St R → Prop) (body : St R → Except Err (St R)) (i : String) :
    Int → Nat → St R → Prop
  | _, 0, _ => True
  | lo, n + 1, σ =>
    P (σ.setIV i lo) ∧ ∀ σ', body (σ.setIV i lo) = .ok σ' → LoopAll P body i (lo + 1) n σ'

mutual
/-- Along the exact run of `s` from `σ`: every value stored into a REAL-declared target (`=`, `+=`
    increment, initialisation, array initialiser) is real, and every call of a function with
    `double` parameters receives only real arguments. -/
def ConvRealS (C : ComplexLike R) (x : Extra R) : Stmt → St R → Prop
  | .assign lhs rhs, σ =>
    ConvRealE C x σ rhs ∧ (lhsDt lhs = .real → C.IsReal (eval x σ rhs))
  | .addAssign lhs rhs, σ =>
    ConvRealE C x σ rhs ∧ (lhsDt lhs = .real → C.IsReal (eval x σ rhs))
  | .vdecl _ dt v, σ => ConvRealE C x σ v ∧ (dt = .real → C.IsReal (eval x σ v))
  | .adecl _ dt _ _ vals, σ =>
    ConvRealL C x σ (vals.getD []) ∧
      (dt = .real → ∀ v, v ∈ evalL x σ (vals.getD []) → C.IsReal v)
  | .forRange i lo hi body, σ =>
    match evalI σ.iv σ.ia lo, evalI σ.iv σ.ia hi with
    | some l, some h =>
      LoopAll (fun τ => ConvRealSL C x body τ) (fun τ => execL x body τ) i l (h - l).toNat σ
    | _, _ => True
  | .comment _, _ => True
  | .block ss, σ => ConvRealSL C x ss σ
  | .sect _ decls stmts _ _ _, σ =>
    ConvRealSL C x decls σ ∧ ∀ σ', execL x decls σ = .ok σ' → ConvRealSL C x stmts σ'
def ConvRealSL (C : ComplexLike R) (x : Extra R) : List Stmt → St R → Prop
  | [], _ => True
  | s :: ss, σ => ConvRealS C x s σ ∧ ∀ σ', exec x s σ = .ok σ' → ConvRealSL C x ss σ'
end

variable (C : ComplexLike R) (x : Extra R) (hx : LawfulComplexExtra C x) {Γ : DEnv}
include hx

mutual
theorem convRealE_of_cert {σ : St R} (hσ : RealStore C Γ σ) :
    ∀ (e : Expr), certE true Γ e = true → ConvRealE C x σ e
  | .litF .., _ => by simp [ConvRealE]
  | .litI .., _ => by simp [ConvRealE]
  | .sym .., _ => by simp [ConvRealE]
  | .mi .., _ => by simp [ConvRealE]
  | .idx .., _ => by simp [ConvRealE]
  | .neg a, hc => by
    simp only [certE] at hc
    simpa only [ConvRealE] using convRealE_of_cert hσ a hc
  | .not a, hc => by
    simp only [certE] at hc
    simpa only [ConvRealE] using convRealE_of_cert hσ a hc
  | .bin _ a b, hc => by
    simp only [certE, Bool.and_eq_true] at hc
    simp only [ConvRealE]
    exact ⟨convRealE_of_cert hσ a hc.1, convRealE_of_cert hσ b hc.2⟩
  | .sum args, hc => by
    simp only [certE] at hc
    simpa only [ConvRealE] using convRealL_of_cert hσ args hc
  | .prod args, hc => by
    simp only [certE] at hc
    simpa only [ConvRealE] using convRealL_of_cert hσ args hc
  | .call f dt args, hc => by
    obtain ⟨hargs, hflow⟩ := certE_call_spec hc
    simp only [ConvRealE]
    refine ⟨fun htr => ?_, convRealL_of_cert hσ args hargs⟩
    obtain ⟨ds, hds, hall⟩ := allRealTy_spec (hflow htr)
    exact tysOf_real C x hx hσ args ds hargs hds hall
  | .cond c t f, hc => by
    simp only [certE, Bool.and_eq_true] at hc
    simp only [ConvRealE]
    exact ⟨convRealE_of_cert hσ c hc.1.1, convRealE_of_cert hσ t hc.1.2,
      convRealE_of_cert hσ f hc.2⟩
theorem convRealL_of_cert {σ : St R} (hσ : RealStore C Γ σ) :
    ∀ (es : List Expr), certEL true Γ es = true → ConvRealL C x σ es
  | [], _ => by simp [ConvRealL]
  | e :: es, hc => by
    simp only [certEL, Bool.and_eq_true] at hc
    simp only [ConvRealL]
    exact ⟨convRealE_of_cert hσ e hc.1, convRealL_of_cert hσ es hc.2⟩
end

theorem loopAll_of (P : St R → Prop) (body : St R → Except Err (St R)) (i : String)
    (hP : ∀ τ, RealStore C Γ τ → P τ)
    (hpres : ∀ τ τ', RealStore C Γ τ → body τ = .ok τ' → RealStore C Γ τ') :
    ∀ (n : Nat) (lo : Int) (σ : St R), RealStore C Γ σ → LoopAll P body i lo n σ
  | 0, _, _, _ => by simp [LoopAll]
  | n + 1, lo, σ, hσ => by
    simp only [LoopAll]
    refine ⟨hP _ (hσ.setIV i lo), fun σ' h => ?_⟩
    exact loopAll_of P body i hP hpres n (lo + 1) σ' (hpres _ _ (hσ.setIV i lo) h)

mutual
/-- **real_targets_receive_reals** (statement level) -/
theorem convRealS_of_cert : ∀ (s : Stmt) (σ : St R), certS true Γ s = true → RealStore C Γ σ →
    ConvRealS C x s σ
  | .assign lhs rhs, σ, hc, hσ => by
    simp only [certS, Bool.and_eq_true, Bool.not_true, Bool.false_or] at hc
    obtain ⟨⟨⟨_, _⟩, hr⟩, hle⟩ := hc
    simp only [ConvRealS]
    exact ⟨convRealE_of_cert C x hx hσ rhs hr,
      fun hd => tyLe_real C x hx hσ hr hle (by rw [hd]; rfl)⟩
  | .addAssign lhs rhs, σ, hc, hσ => by
    simp only [certS, Bool.and_eq_true, Bool.not_true, Bool.false_or] at hc
    obtain ⟨⟨⟨_, _⟩, hr⟩, hle⟩ := hc
    simp only [ConvRealS]
    exact ⟨convRealE_of_cert C x hx hσ rhs hr,
      fun hd => tyLe_real C x hx hσ hr hle (by rw [hd]; rfl)⟩
  | .vdecl n dt v, σ, hc, hσ => by
    simp only [certS, Bool.and_eq_true, Bool.not_true, Bool.false_or] at hc
    obtain ⟨⟨_, hv⟩, hle⟩ := hc
    simp only [ConvRealS]
    exact ⟨convRealE_of_cert C x hx hσ v hv,
      fun hd => tyLe_real C x hx hσ hv hle (by rw [hd]; rfl)⟩
  | .adecl n dt sizes c vals, σ, hc, hσ => by
    simp only [certS, Bool.and_eq_true] at hc
    obtain ⟨⟨_, hv⟩, hle⟩ := hc
    simp only [ConvRealS]
    exact ⟨convRealL_of_cert C x hx hσ _ hv,
      fun hd => initLe_real C x hx hσ (by rw [hd]; rfl) _ hv hle⟩
  | .forRange i lo hi body, σ, hc, hσ => by
    simp only [certS, Bool.and_eq_true] at hc
    simp only [ConvRealS]
    cases evalI σ.iv σ.ia lo with
    | none => simp
    | some l =>
      cases evalI σ.iv σ.ia hi with
      | none => simp
      | some h =>
        simp only []
        exact loopAll_of C x hx _ _ i (fun τ hτ => convRealSL_of_cert body τ hc.2 hτ)
          (fun τ τ' hτ hrun =>
            (dtype_sound_stmts C x hx C.fixesReals_id body τ hc.2 hτ).2 τ' hrun) _ _ σ hσ
  | .comment _, _, _, _ => by simp [ConvRealS]
  | .block ss, σ, hc, hσ => by
    simp only [certS] at hc
    simpa only [ConvRealS] using convRealSL_of_cert ss σ hc hσ
  | .sect _ decls stmts _ _ _, σ, hc, hσ => by
    simp only [certS, Bool.and_eq_true] at hc
    simp only [ConvRealS]
    exact ⟨convRealSL_of_cert decls σ hc.1 hσ, fun σ' hrun =>
      convRealSL_of_cert stmts σ' hc.2
        ((dtype_sound_stmts C x hx C.fixesReals_id decls σ hc.1 hσ).2 σ' hrun)⟩
theorem convRealSL_of_cert : ∀ (ss : List Stmt) (σ : St R), certSL true Γ ss = true →
    RealStore C Γ σ → ConvRealSL C x ss σ
  | [], _, _, _ => by simp [ConvRealSL]
  | s :: ss, σ, hc, hσ => by
    simp only [certSL, Bool.and_eq_true] at hc
    simp only [ConvRealSL]
    exact ⟨convRealS_of_cert s σ hc.1 hσ, fun σ' hrun =>
      convRealSL_of_cert ss σ' hc.2
        ((dtype_sound_stmt C x hx C.fixesReals_id s σ hc.1 hσ).2 σ' hrun)⟩
end

/-- **real_targets_receive_reals**: along the exact run of a certified kernel no store into a
    REAL-typed target ever receives a non-real value and every call of a function with `double`
    parameters (the real table, `fmax/fmin/jn/yn`, bare names) receives only real arguments —
    the implicit C conversions complex → double are never taken on a value they would change. -/
theorem real_targets_receive_reals (k : Stmt) (σ : St R) (hc : dtypeCert true k = true)
    (hσ : RealStore C (kernelEnv k) σ) : ConvRealS C x k σ :=
  convRealS_of_cert C x hx k σ hc hσ

omit hx in
/-- link to `FfcxProofs.C09.RealVal` (the hypothesis of `mathfn_fold_sound`): if `conj/real/imag` are
    interpreted by the structure, real values are exactly the values on which FFCx's folding of
    `conj/real/imag` on REAL operands is justified. -/
theorem isReal_realVal (hconj : ∀ a, x.fn "conj" [a] = C.conj a) (hre : ∀ a, x.fn "real" [a] = C.re a)
    (him : ∀ a, C.IsReal a → x.fn "imag" [a] = x.ofRat 0 0) (v : R) (hv : C.IsReal v) :
    RealVal x v :=
  ⟨by rw [hconj]; exact hv, by rw [hre]; exact C.re_of_real v hv, him v hv⟩

end

/-! ## counterexamples and non-vacuity (Gaussian rationals) -/

/-- a store with a one-cell tensor `A`, one coefficient `w[0] = 3 + 4i` and `x0 = 2` -/
def gaussStore : St GRat :=
  { sv := [("x0", ⟨2, 0⟩)],
    sa := [("A", { dims := [1], data := #[⟨0, 0⟩] }), ("w", { dims := [1], data := #[⟨3, 4⟩] }),
           ("coordinate_dofs", { dims := [6], data := #[⟨0, 0⟩, ⟨0, 0⟩, ⟨0, 0⟩, ⟨2, 0⟩, ⟨0, 0⟩, ⟨0, 0⟩] })] }

/-- value of `A[0]` after a run -/
def readA0 (r : Except Err (St GRat)) : Option GRat :=
  match r with
  | .ok σ => (σ.sa.get "A").bind (fun a => a.data[0]?)
  | .error _ => none

/-- `double t = 1.0 + 2.0 I;  A[0] = t;` — a SCALAR value stored into a REAL variable -/
def kTrunc : Stmt :=
  .block [.vdecl "t" .real (.litF 1 2 true), .assign (.idx "A" .scalar [.litI 0]) (.sym "t" .real)]

/-- **truncation_counterexample**: the certificate rejects `kTrunc`, and on it the truncating semantics
    and the exact semantics differ (`A[0] = 1` vs `A[0] = 1 + 2i`): the certificate is needed. -/
theorem truncation_counterexample :
    dtypeCert true kTrunc = false ∧ dtypeCert false kTrunc = true ∧
    readA0 (exec gaussExtra kTrunc gaussStore) = some ⟨1, 2⟩ ∧
    readA0 (execT gaussC gaussExtra kTrunc gaussStore) = some ⟨1, 0⟩ := by
  refine ⟨by decide +kernel, by decide +kernel, by decide +kernel, by decide +kernel⟩

theorem gaussStore_real (Γ : DEnv) (hx0 : ∀ d, Γ.get "A" = some d → d.isRealTy = false)
    (hw : ∀ d, Γ.get "w" = some d → d.isRealTy = false) : RealStore gaussC Γ gaussStore := by
  constructor
  · intro n d v hn hd hv
    simp only [gaussStore, AList.get] at hv
    split at hv
    · cases hv; exact (gauss_isReal_iff _).2 rfl
    · cases hv
  · intro n d a hn hd ha k
    simp only [gaussStore, AList.get] at ha
    split at ha
    · rename_i h; subst h; rw [hx0 d hn] at hd; cases hd
    · split at ha
      · rename_i h; subst h; rw [hw d hn] at hd; cases hd
      · split at ha
        · cases ha
          refine (gauss_isReal_iff _).2 ?_
          simp only [Array.getD_eq_getD_getElem?]
          match k with
          | 0 | 1 | 2 | 3 | 4 | 5 => rfl
          | k + 6 => rfl
        · cases ha

/-- `sv = power(x0, 1.0 + 2.0 I);  A[0] = sv;` — the tree FFCx builds for `x[0]**(1+2j)` in complex
    mode.  The node's LNodes dtype is REAL (= dtype of `args[0]`); until /repo 656b74c the formatter
    chose the table from `args[0]` only and emitted real `pow` (imaginary part of the exponent dropped).
    Now one SCALAR argument selects the complex table: `cpow(x0, (1.0+I*2.0))`. -/
def kRealPow : Stmt :=
  .block [.vdecl "x0" .real (.idx "coordinate_dofs" .real [.litI 3]),
          .vdecl "sv" .scalar (.call "power" .real [.sym "x0" .real, .litF 1 2 true]),
          .assign (.idx "A" .scalar [.litI 0]) (.sym "sv" .scalar)]

/-- **regression** (was `real_pow_complex_exponent_counterexample` for the formatter that looked at
    `args[0]` only): under the current selection rule the tree is certified, its arguments are not
    converted (`truncatesArgs = false`, result typed SCALAR), and the truncating run equals the exact
    run, which keeps the imaginary part (stand-in `power ↦ product`: `2·(1+2i)`). -/
theorem real_pow_complex_exponent_certified :
    dtypeCert true kRealPow = true ∧
    truncatesArgs "power" [.sym "x0" .real, .litF 1 2 true] = false ∧
    callTy "power" [.sym "x0" .real, .litF 1 2 true] = .scalar ∧
    execT gaussC gaussExtra kRealPow gaussStore = exec gaussExtra kRealPow gaussStore ∧
    readA0 (exec gaussExtra kRealPow gaussStore) = some ⟨2, 4⟩ := by
  have hc : dtypeCert true kRealPow = true := by decide +kernel
  have hx0 : (kernelEnv kRealPow).get "A" = some .scalar := by decide +kernel
  have hw : (kernelEnv kRealPow).get "w" = some .scalar := by decide +kernel
  have hσ : RealStore gaussC (kernelEnv kRealPow) gaussStore := by
    refine gaussStore_real _ ?_ ?_
    · intro d h; rw [hx0] at h; cases h; rfl
    · intro d h; rw [hw] at h; cases h; rfl
  exact ⟨hc, by decide +kernel, by decide +kernel,
    dtype_sound_execT gaussC gaussExtra gauss_lawful kRealPow gaussStore hc hσ, by decide +kernel⟩

/-- `sv = erf(power(x0, 1+2i))` as ONE tree: LNodes types the inner call REAL (dtype of its `args[0]`),
    so the formatter sees no SCALAR argument of `erf` and emits the real `erf(cpow(x0, …))`. -/
def kNested : Stmt :=
  .block [.vdecl "x0" .real (.idx "coordinate_dofs" .real [.litI 3]),
          .vdecl "sv" .scalar
            (.call "erf" .real [.call "power" .real [.sym "x0" .real, .litF 1 2 true]]),
          .assign (.idx "A" .scalar [.litI 0]) (.sym "sv" .scalar)]

/-- **nested_call_counterexample**: the clause "a function with `double` parameters gets only
    REAL/INT/BOOL-*typed* arguments (by the sound `tyOf`, not by the LNodes dtype)" is still needed under
    the new selection rule: the formatter accepts `kNested` with the real table
    (`anyScalarArg = false`), the certificate rejects it, and the two semantics differ.
    (The generators never build such a tree: every operator gets its own temporary, whose dtype
    `extract_dtype` merges from all operands — checked per kernel by the certificate.) -/
theorem nested_call_counterexample :
    dtypeCert true kNested = false ∧ dtypeCert false kNested = true ∧
    formatRejects "erf" [.call "power" .real [.sym "x0" .real, .litF 1 2 true]] = false ∧
    truncatesArgs "erf" [.call "power" .real [.sym "x0" .real, .litF 1 2 true]] = true ∧
    readA0 (exec gaussExtra kNested gaussStore) = some ⟨2, 4⟩ ∧
    readA0 (execT gaussC gaussExtra kNested gaussStore) = some ⟨2, 0⟩ := by
  refine ⟨by decide +kernel, by decide +kernel, by decide +kernel, by decide +kernel,
    by decide +kernel, by decide +kernel⟩

/-- a function without a complex version on a SCALAR operand (`erf(w[0])`): refused by the formatter
    in a complex kernel, and by the certificate -/
theorem rejected_call_example :
    formatRejects "erf" [.idx "w" .scalar [.litI 0]] = true ∧
    dtypeCert true (.vdecl "sv" .scalar (.call "erf" .scalar [.idx "w" .scalar [.litI 0]])) = false := by
  refine ⟨by decide +kernel, by decide +kernel⟩

/-- a kernel in the shape of a real complex-mode kernel: a REAL table, REAL geometry computed from
    `coordinate_dofs`, `creal` into a `double`, complex `cpow`, real `pow` of geometry, `+=` into `A` -/
def kGood : Stmt :=
  .block [
    .adecl "weights" .real [1] true (some [.litF (1/2) 0 false]),
    .vdecl "J" .real (.bin .sub (.idx "coordinate_dofs" .real [.litI 3]) (.idx "coordinate_dofs" .real [.litI 0])),
    .vdecl "sv0" .real (.call "real" .scalar [.idx "w" .scalar [.litI 0]]),
    .vdecl "sv1" .scalar (.call "power" .scalar [.idx "w" .scalar [.litI 0], .litF (3/2) 0 false]),
    .vdecl "sv2" .real (.call "power" .real [.sym "J" .real, .litF (3/2) 0 false]),
    .forRange "i" (.litI 0) (.litI 1) [
      .addAssign (.idx "A" .scalar [.sym "i" .int])
        (.prod [.sym "sv0" .real, .sym "sv1" .scalar, .sym "sv2" .real, .idx "weights" .real [.litI 0]])]]

/-- **non-vacuity**: the certificate accepts `kGood`, the Gaussian-rational store satisfies the
    invariant for its environment, so `dtype_sound_execT` applies: the truncating and the exact run
    agree — and the run really computes a non-real `A[0]` through `double` temporaries. -/
theorem dtypeCert_example :
    dtypeCert true kGood = true ∧
    RealStore gaussC (kernelEnv kGood) gaussStore ∧
    execT gaussC gaussExtra kGood gaussStore = exec gaussExtra kGood gaussStore ∧
    readA0 (exec gaussExtra kGood gaussStore) = some ⟨81/4, 27⟩ := by
  have hc : dtypeCert true kGood = true := by decide +kernel
  have hA : (kernelEnv kGood).get "A" = some .scalar := by decide +kernel
  have hw : (kernelEnv kGood).get "w" = some .scalar := by decide +kernel
  have hσ : RealStore gaussC (kernelEnv kGood) gaussStore := by
    refine gaussStore_real _ ?_ ?_
    · intro d h; rw [hA] at h; cases h; rfl
    · intro d h; rw [hw] at h; cases h; rfl
  exact ⟨hc, hσ, dtype_sound_execT gaussC gaussExtra gauss_lawful kGood gaussStore hc hσ,
    by decide +kernel⟩

end Ffcx.LNodes
