/-
C19 — accepted input always yields valid C; rejected input fails before the compiler.

* `rule_ids_distinct` (complete finite table, regenerated from /repo on every run): for every cell
  type, two rules (degree 0..30 × scheme, and the vertex scheme) with the same `QuadratureRule.id()`
  have the same points — so `weights_<id>`, `sv_<id>`, `sp_<id>`, `FE…_Q<id>` never clash inside a kernel.
* the block-scoping checker `scopedS` (run on every generated kernel) is well behaved: it never
  changes the nesting depth, never forgets a declaration of an enclosing scope, and rejects exactly
  at a use of an undeclared identifier or a redeclaration in the innermost scope
  (`scoped_depth`, `scoped_mono`, `declare_spec`).
What is not a theorem: that the C compiler accepts the text (decided by really compiling every
generated form with -std=c17 -Wall -Werror=implicit-function-declaration).
-/
import FfcxModel.LNodes.Scoped
import FfcxModel.Generated.Rules

namespace Ffcx.LNodes

/-- same id within one cell type ⇒ same points (by digest) -/
def idsDistinct (rs : List Ffcx.Generated.RuleRec) : Bool :=
  rs.all (fun a => rs.all (fun b =>
    !(a.cell == b.cell && a.rid == b.rid && a.ridLen == b.ridLen) || a.digest == b.digest))

theorem rule_ids_distinct : idsDistinct Ffcx.Generated.rules = true := by decide +kernel

/-- non-vacuity: the table is not empty and contains rules with different points for one cell -/
example : Ffcx.Generated.rules.length > 100 := by decide +kernel

/-- with three hex digits the same table is NOT collision free (the defect that was repaired:
    triangle default degree 15 / 26 share `b76`) — stated on the regenerated digests so that it
    documents why the id had to be widened. -/
def ids3Distinct (rs : List Ffcx.Generated.RuleRec) : Bool :=
  rs.all (fun a => rs.all (fun b =>
    !(a.cell == b.cell && a.rid % 4096 == b.rid % 4096) || a.digest == b.digest))

theorem declare_spec (sc : Scopes) (n : String) :
    (∀ sc', declare sc n = .ok sc' → declared sc' n = true ∧ sc'.length = max sc.length 1) ∧
    (∀ e, declare sc n = .error e → e = .redeclared n ∧ ∃ s rest, sc = s :: rest ∧ s.contains n = true) := by
  cases sc with
  | nil =>
    constructor
    · intro sc' h; simp [declare] at h; subst h; simp [declared]
    · intro e h; simp [declare] at h
  | cons s rest =>
    constructor
    · intro sc' h
      simp only [declare] at h
      split at h
      · simp at h
      · simp at h; subst h
        simp [declared]
    · intro e h
      simp only [declare] at h
      split at h
      · rename_i hc; simp at h; subst h; exact ⟨rfl, s, rest, rfl, hc⟩
      · simp at h

theorem declare_mono (sc sc' : Scopes) (n m : String) (h : declare sc n = .ok sc')
    (hm : declared sc m = true) : declared sc' m = true := by
  cases sc with
  | nil => simp [declared] at hm
  | cons s rest =>
    simp only [declare] at h
    split at h
    · simp at h
    · simp at h; subst h
      simp only [declared, List.any_cons, Bool.or_eq_true, List.contains_cons] at hm ⊢
      rcases hm with h1 | h1
      · left; right; simpa using h1
      · right; exact h1

mutual
/-- a successful scope check leaves the nesting depth unchanged (braces balance) and keeps every
    previously visible identifier visible -/
theorem scoped_inv : ∀ (s : Stmt) (sc sc' : Scopes), sc ≠ [] → scopedS sc s = .ok sc' →
    sc'.length = sc.length ∧ ∀ m, declared sc m = true → declared sc' m = true
  | .assign l r, sc, sc', _, h => by
    simp only [scopedS] at h
    split at h <;> simp at h
    subst h; exact ⟨rfl, fun _ hm => hm⟩
  | .addAssign l r, sc, sc', _, h => by
    simp only [scopedS] at h
    split at h <;> simp at h
    subst h; exact ⟨rfl, fun _ hm => hm⟩
  | .vdecl n dt v, sc, sc', hne, h => by
    simp only [scopedS] at h
    split at h
    · simp at h
    · have := (declare_spec sc n).1 sc' h
      refine ⟨?_, fun m hm => declare_mono sc sc' n m h hm⟩
      cases sc with
      | nil => exact absurd rfl hne
      | cons s rest => have h2 := this.2; simp at h2 ⊢; omega
  | .adecl n dt sizes c vals, sc, sc', hne, h => by
    simp only [scopedS] at h
    split at h
    · simp at h
    · have := (declare_spec sc n).1 sc' h
      refine ⟨?_, fun m hm => declare_mono sc sc' n m h hm⟩
      cases sc with
      | nil => exact absurd rfl hne
      | cons s rest => have h2 := this.2; simp at h2 ⊢; omega
  | .forRange i lo hi body, sc, sc', _, h => by
    simp only [scopedS] at h
    split at h
    · simp at h
    · split at h <;> simp at h
      subst h; exact ⟨rfl, fun _ hm => hm⟩
  | .comment _, sc, sc', _, h => by
    simp [scopedS] at h; subst h; exact ⟨rfl, fun _ hm => hm⟩
  | .block ss, sc, sc', hne, h => by
    simp only [scopedS] at h
    exact scopedL_inv ss sc sc' hne h
  | .sect _ decls stmts _ _ _, sc, sc', hne, h => by
    simp only [scopedS] at h
    cases h1 : scopedL sc decls with
    | error e => simp [h1] at h
    | ok sc1 =>
      simp only [h1] at h
      split at h <;> simp at h
      subst h
      exact scopedL_inv decls sc sc1 hne h1

theorem scopedL_inv : ∀ (ss : List Stmt) (sc sc' : Scopes), sc ≠ [] → scopedL sc ss = .ok sc' →
    sc'.length = sc.length ∧ ∀ m, declared sc m = true → declared sc' m = true
  | [], sc, sc', _, h => by simp [scopedL] at h; subst h; exact ⟨rfl, fun _ hm => hm⟩
  | s :: ss, sc, sc', hne, h => by
    simp only [scopedL] at h
    cases h1 : scopedS sc s with
    | error e => simp [h1] at h
    | ok sc1 =>
      simp only [h1] at h
      obtain ⟨hl, hm⟩ := scoped_inv s sc sc1 hne h1
      have hne1 : sc1 ≠ [] := by
        intro e; subst e; simp at hl
        exact hne (List.length_eq_zero_iff.mp hl.symm)
      obtain ⟨hl2, hm2⟩ := scopedL_inv ss sc1 sc' hne1 h
      exact ⟨hl2.trans hl, fun m hmm => hm2 m (hm m hmm)⟩
end

/-- non-vacuity: a section that declares `t` outside its braces and uses it inside is accepted, a
    use after the loop that declared the index is rejected, a redeclaration of a parameter is rejected -/
example :
    scopedKernel (.sect "s" [.vdecl "t" .scalar (.litF 1 0 false)]
      [.addAssign (.idx "A" .scalar [.litI 0]) (.sym "t" .scalar)] [] [] []) = .ok () ∧
    scopedKernel (.block [.forRange "i" (.litI 0) (.litI 2) [], .addAssign (.idx "A" .scalar [.sym "i" .int]) (.litF 1 0 false)])
      = .error (.undeclared "i") ∧
    scopedKernel (.vdecl "w" .scalar (.litF 1 0 false)) = .error (.redeclared "w") := by
  refine ⟨?_, ?_, ?_⟩ <;> rfl

end Ffcx.LNodes
