/-
C05 — coefficient/constant packing contract and enabled_coefficients are truthful.

Layout theorems (blocks tile `w` and `c`, original positions) are in
`FfcxProofs.Lemmas.Layout` (`Ffcx.Layout.coeff_blocks_tile`, `const_blocks_tile`, `orig_positions`).
This file: the kernel-side half.  For a kernel that only *reads* the input array `W`
(`readOnly W k`, decidable, checked on every generated kernel):

* `reads_data_independent`: the list of indices of `W` read by a run is the same for every scalar
  domain and all scalar data (same integer state, same array shapes) — so it can be computed once
  over the one-point domain `U` for each entity/permutation tuple.
* `unread_irrelevant`: if no read of `W` hits an index in `D`, then changing `W` arbitrarily inside
  `D` (e.g. NaN-like garbage in the storage of a disabled coefficient, modelled as an arbitrary
  element of `R`) changes nothing: the run succeeds identically and every array other than `W`
  — in particular `A` — ends with identical contents.
-/
import FfcxProofs.Lemmas.Reads
import FfcxProofs.Lemmas.ReadsShape
import FfcxModel.LNodes.ShapeDomain

namespace Ffcx.LNodes
open Lean.Grind
attribute [local instance] Lean.Grind.Ring.intCast

theorem reads_data_independent {R : Type} [Add R] [Sub R] [Mul R] [Div R] [Neg R] [IntCast R]
    (x : Extra R) (W : String) (k : Stmt) (σ : St R) (υ : St U) (h : SameShape σ υ) :
    match execReads x W k σ, execReads uExtra W k υ with
    | .ok (_, rs), .ok (_, rs') => rs = rs'
    | .error e, .error e' => e = e'
    | _, _ => False := by
  have := execReads_sameShape x uExtra W k σ υ h
  cases h1 : execReads x W k σ with
  | error e =>
    cases h2 : execReads uExtra W k υ with
    | error e' => simpa [h1, h2, RelReads] using this
    | ok q => simp [h1, h2, RelReads] at this
  | ok p =>
    cases h2 : execReads uExtra W k υ with
    | error e' => simp [h1, h2, RelReads] at this
    | ok q =>
      obtain ⟨a, r⟩ := p
      obtain ⟨b, r'⟩ := q
      simp [h1, h2, RelReads] at this
      exact this.2

variable {R : Type} [Field R] (x : Extra R)

/-- **unread_irrelevant** -/
theorem unread_irrelevant (W : String) (D : Nat → Prop) (d : Nat → R) (hd : ∀ k, ¬ D k → d k = 0)
    (k : Stmt) (hk : readOnly W k = true) (σ τ σ' : St R) (rs : List (Option Int))
    (h : AgreeW W d σ τ)
    (hrun : execReads x W k σ = .ok (σ', rs))
    (hreads : ∀ i : Int, some i ∈ rs → 0 ≤ i → ¬ D i.toNat) :
    ∃ τ', exec x k τ = .ok τ' ∧
      (∀ n, n ≠ W → σ'.sa.get n = τ'.sa.get n) ∧ σ'.sv = τ'.sv ∧ σ'.iv = τ'.iv := by
  obtain ⟨τ', ht, ha⟩ := exec_agree x hd k σ τ σ' rs hk h hrun hreads
  exact ⟨τ', ht, ha.other, ha.sv, ha.iv⟩

/-- non-vacuity: `A[0] += w[1]` reads index 1 only, so `w[0]` and `w[2]` are irrelevant -/
example : readOnly "w" (.addAssign (.idx "A" .scalar [.litI 0]) (.idx "w" .scalar [.litI 1])) = true ∧
    readsE "w" [] [] (.idx "w" .scalar [.litI 1]) = [some 1] := by decide

end Ffcx.LNodes
