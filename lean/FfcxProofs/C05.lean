/-
C05 — coefficient/constant packing contract and enabled_coefficients are truthful.

Layout theorems (blocks tile `w` and `c`, original positions) are in
`FfcxProofs.Lemmas.Layout` (`Ffcx.Layout.coeff_blocks_tile`, `const_blocks_tile`, `orig_positions`).
This file: the kernel-side half.  For a kernel that only *reads* the input array `W`
(`readOnly W k`, decidable; evaluated on every kernel of the corpus by `harness/props/c05.py` through
the driver command `(readonly …)` for `W` = `w`, `c`, `coordinate_dofs`, `entity_local_index`,
`quadrature_permutation`):

* `reads_data_independent`: the list of indices of `W` read by a run is the same for every scalar
  domain and all scalar data (same integer state, same array shapes) — so it can be computed once
  over the one-point domain `U` for each entity/permutation tuple.
* `unread_irrelevant`: if no read of `W` hits an index in `D`, then changing `W` arbitrarily inside
  `D` (e.g. NaN-like garbage in the storage of a disabled coefficient, modelled as an arbitrary
  element of `R`) changes nothing: the run succeeds identically and every array other than `W`
  — in particular `A` — ends with identical contents.
* `disabled_irrelevant`: the composition with the packing contract.  `readsAvoidB` (decidable, evaluated
  per kernel and per (entity, permutation) tuple by the driver command `(coefreads …)`) says that the
  reads of `w` recorded by `execReads` avoid the blocks `[offset_j, offset_j + width·dim_j)` of every
  coefficient whose `enabled_coefficients` flag is false (blocks = `Ffcx.Layout.coeffOffsets/blockSizes`,
  the model of `_compute_integral_ir`).  Then for ALL scalar data of that shape the run succeeds and its
  result does not depend on what is stored in the blocks of the disabled coefficients.
* `reads_in_blocks`: per-read block attribution — every read index of `w` accepted by `readsInBlocksB`
  lies in the block of exactly one coefficient of the contract, the one `blockOf` computes.
* `coeffAccess_reads`: `w[coeffAccess …]` (the model of `symbols.coefficient_dof_access`) is a read that
  `reads_in_blocks` attributes to coefficient `k`.
-/
import FfcxProofs.Lemmas.Reads
import FfcxProofs.Lemmas.ReadsShape
import FfcxModel.LNodes.ShapeDomain
import FfcxModel.LNodes.ReadBlocks
import FfcxProofs.Lemmas.Layout

namespace Ffcx.LNodes
open Lean.Grind
attribute [local instance] Lean.Grind.Ring.intCast

theorem reads_data_independent {R : Type} [Add R] [Sub R] [Mul R] [Div R] [Neg R] [IntCast R]
    (x : Extra R) (W : String) (k : Stmt) (σ : St R) (υ : St U) (h : SameShape σ υ) :
    match execReads x W k σ, execReads uExtra W k υ with
    | .ok (_, rs), .ok (_, rs') => rs = rs'
    | .error e, .error e' => e = e'
    | _, _ => False := by
  have := execReads_sameShape x uExtra W k σ υ h
  cases h1 : execReads x W k σ with
  | error e =>
    cases h2 : execReads uExtra W k υ with
    | error e' => simpa [h1, h2, RelReads] using this
    | ok q => simp [h1, h2, RelReads] at this
  | ok p =>
    cases h2 : execReads uExtra W k υ with
    | error e' => simp [h1, h2, RelReads] at this
    | ok q =>
      obtain ⟨a, r⟩ := p
      obtain ⟨b, r'⟩ := q
      simp [h1, h2, RelReads] at this
      exact this.2

variable {R : Type} [Field R] (x : Extra R)

/-- **unread_irrelevant** -/
theorem unread_irrelevant (W : String) (D : Nat → Prop) (d : Nat → R) (hd : ∀ k, ¬ D k → d k = 0)
    (k : Stmt) (hk : readOnly W k = true) (σ τ σ' : St R) (rs : List (Option Int))
    (h : AgreeW W d σ τ)
    (hrun : execReads x W k σ = .ok (σ', rs))
    (hreads : ∀ i : Int, some i ∈ rs → 0 ≤ i → ¬ D i.toNat) :
    ∃ τ', exec x k τ = .ok τ' ∧
      (∀ n, n ≠ W → σ'.sa.get n = τ'.sa.get n) ∧ σ'.sv = τ'.sv ∧ σ'.iv = τ'.iv := by
  obtain ⟨τ', ht, ha⟩ := exec_agree x hd k σ τ σ' rs hk h hrun hreads
  exact ⟨τ', ht, ha.other, ha.sv, ha.iv⟩

/-! ### enabled_coefficients: reads avoid the blocks of disabled coefficients -/

open Ffcx.Layout in
/-- `τ` is `σ` with the contents of `w` changed arbitrarily INSIDE the blocks of the coefficients whose
`enabled_coefficients` flag is false (everything else — other arrays, scalars, integers, the shape of
`w` — is the same). -/
structure DiffersInDisabled (width : Nat) (dims : List Nat) (enabled : List Bool) (σ τ : St R) : Prop where
  iv : σ.iv = τ.iv
  ia : σ.ia = τ.ia
  sv : σ.sv = τ.sv
  other : ∀ n, n ≠ "w" → σ.sa.get n = τ.sa.get n
  w : ∃ a b n, σ.sa.get "w" = some a ∧ τ.sa.get "w" = some b ∧ a.dims = [n] ∧ b.dims = [n]
      ∧ a.const = b.const ∧ a.data.size = b.data.size
      ∧ ∀ k, k < a.data.size → ¬ InDisabled width dims enabled k → b.data.getD k 0 = a.data.getD k 0

theorem avoidsB_spec (blocks : List (Nat × Nat)) (rs : List (Option Int)) (h : avoidsB blocks rs = true)
    (i : Int) (hi : some i ∈ rs) (h0 : 0 ≤ i) :
    ¬ ∃ b ∈ blocks, b.1 ≤ i.toNat ∧ i.toNat < b.1 + b.2 := by
  rintro ⟨b, hb, h1, h2⟩
  have := List.all_eq_true.mp h (some i) hi
  simp only at this
  have := List.all_eq_true.mp this b hb
  simp [inBlock, h0, h1, h2] at this

/-- **disabled_irrelevant.**  If the kernel only reads `w` and, over the shape domain, the recorded reads of
`w` avoid the blocks of the disabled coefficients (`readsAvoidB`, evaluated by the driver), then for every
scalar field `R`, all data `σ` of that shape and every `τ` that differs from `σ` only inside the blocks of
disabled coefficients: both runs succeed and end with identical contents of every array other than `w`
(in particular `A`), identical scalars and integers.  The values stored for a coefficient whose
`enabled_coefficients` flag is false are irrelevant — NaN-like garbage included (an arbitrary element
of `R`). -/
theorem disabled_irrelevant (width : Nat) (dims : List Nat) (enabled : List Bool)
    (k : Stmt) (hk : readOnly "w" k = true)
    (υ : St U) (hav : readsAvoidB uExtra k υ width dims enabled = true)
    (σ τ : St R) (hσ : SameShape σ υ) (hτ : DiffersInDisabled width dims enabled σ τ) :
    ∃ σ' τ', exec x k σ = .ok σ' ∧ exec x k τ = .ok τ' ∧
      (∀ n, n ≠ "w" → σ'.sa.get n = τ'.sa.get n) ∧ σ'.sv = τ'.sv ∧ σ'.iv = τ'.iv := by
  -- the reads over `U`
  simp only [readsAvoidB, Bool.and_eq_true, decide_eq_true_eq] at hav
  obtain ⟨_, hav⟩ := hav
  cases hu : execReads uExtra "w" k υ with
  | error e => simp [hu] at hav
  | ok pu =>
    obtain ⟨υ', rs⟩ := pu
    simp only [hu] at hav
    -- the same reads over `R`
    have hdi := reads_data_independent x "w" k σ υ hσ
    cases hr : execReads x "w" k σ with
    | error e => simp [hr, hu] at hdi
    | ok pr =>
      obtain ⟨σ', rs'⟩ := pr
      simp only [hr, hu] at hdi
      subst hdi
      obtain ⟨a, b, n, ha, hb, hda, hdb, hc, hsz, hdata⟩ := hτ.w
      let d : Nat → R := fun j => b.data.getD j 0 - a.data.getD j 0
      have hd : ∀ j, ¬ InDisabled width dims enabled j → d j = 0 := by
        intro j hj
        by_cases hjs : j < a.data.size
        · have := hdata j hjs hj
          simp only [d, this]
          grind
        · have h1 : a.data.getD j 0 = 0 := by simp [Array.getD, hjs]
          have h2 : b.data.getD j 0 = 0 := by simp [Array.getD, ← hsz, hjs]
          simp only [d, h1, h2]
          grind
      have hagree : AgreeW "w" d σ τ :=
        { iv := hτ.iv, ia := hτ.ia, sv := hτ.sv, other := hτ.other,
          arrA := ⟨a, b, ha, hb, by rw [hda, hdb], hc, hsz, fun j _ => by simp only [d]; grind⟩,
          oneD := ⟨a, n, ha, hda⟩ }
      have hreads : ∀ i : Int, some i ∈ rs' → 0 ≤ i → ¬ InDisabled width dims enabled i.toNat :=
        fun i hi h0 => avoidsB_spec _ _ hav i hi h0
      obtain ⟨τ', ht, h1, h2, h3⟩ :=
        unread_irrelevant x "w" (InDisabled width dims enabled) d hd k hk σ τ σ' rs' hagree hr hreads
      exact ⟨σ', τ', execReads_fst x k σ σ' rs' hr, ht, h1, h2, h3⟩

open Ffcx.Layout in
/-- what the driver command `(coefreads …)` evaluates: `readsAvoidB` / `readsInBlocksB` with the result of
the (shared) `execReads` run substituted -/
theorem readsAvoidB_eq {S : Type} [Add S] [Sub S] [Mul S] [Div S] [Neg S] [IntCast S]
    (y : Extra S) (k : Stmt) (σ σ' : St S) (rs : List (Option Int)) (width : Nat) (dims : List Nat)
    (enabled : List Bool) (h : execReads y "w" k σ = .ok (σ', rs)) :
    readsAvoidB y k σ width dims enabled
        = (decide (enabled.length = dims.length) && avoidsB (disabledBlocks width dims enabled) rs)
    ∧ readsInBlocksB y k σ width dims = inRangeB (coeffTotal width dims) rs := by
  simp [readsAvoidB, readsInBlocksB, h]

/-! ### per-read block attribution -/

open Ffcx.Layout in
theorem coeffBlocks_getElem (width : Nat) (dims : List Nat) (j : Nat) (hj : j < dims.length) :
    ∃ h : j < (coeffBlocks width dims).length,
      (coeffBlocks width dims)[j] = ((coeffOffsets width dims).getD j 0, width * dims.getD j 0) := by
  have hl1 : (coeffOffsets width dims).length = dims.length := by simp [coeffOffsets, blockSizes]
  have hl2 : (blockSizes width dims).length = dims.length := by simp [blockSizes]
  have h : j < (coeffBlocks width dims).length := by
    simp only [coeffBlocks, List.length_zip, hl1, hl2]; omega
  refine ⟨h, ?_⟩
  simp only [coeffBlocks, List.getElem_zip]
  rw [← blockSizes_getD, getD_eq_getElem' _ _ _ (by omega), getD_eq_getElem' _ _ _ (by omega)]

open Ffcx.Layout in
/-- a position of `w` below `width·Σdim` lies in the block of exactly one coefficient, and `blockOf`
finds it -/
theorem blockOf_spec (width : Nat) (dims : List Nat) (i : Int) (h0 : 0 ≤ i)
    (hlt : i.toNat < coeffTotal width dims) :
    ∃ j, j < dims.length ∧ blockOf (coeffBlocks width dims) i = some j
      ∧ (coeffOffsets width dims).getD j 0 ≤ i.toNat
      ∧ i.toNat < (coeffOffsets width dims).getD j 0 + width * dims.getD j 0
      ∧ ∀ j', j' < dims.length → (coeffOffsets width dims).getD j' 0 ≤ i.toNat →
          i.toNat < (coeffOffsets width dims).getD j' 0 + width * dims.getD j' 0 → j' = j := by
  obtain ⟨T, hl, hs, htot⟩ := coeff_blocks_tile width dims
  rw [htot] at hlt
  obtain ⟨j, hj, h1, h2⟩ := T.cover i.toNat hlt
  rw [hl] at hj
  rw [hs j] at h2
  have uniq : ∀ j', j' < dims.length → (coeffOffsets width dims).getD j' 0 ≤ i.toNat →
      i.toNat < (coeffOffsets width dims).getD j' 0 + width * dims.getD j' 0 → j' = j := by
    intro j' hj' g1 g2
    exact T.disjoint j' j i.toNat (by omega) (by omega) ⟨g1, by rw [hs j']; exact g2⟩
      ⟨h1, by rw [hs j]; exact h2⟩
  refine ⟨j, hj, ?_, h1, h2, uniq⟩
  obtain ⟨hjl, hget⟩ := coeffBlocks_getElem width dims j hj
  simp only [blockOf]
  rw [List.findIdx?_eq_some_iff_getElem]
  refine ⟨hjl, ?_, ?_⟩
  · rw [hget]
    show (decide (0 ≤ i) && decide (_ ≤ i.toNat) && decide (i.toNat < _ + _)) = true
    rw [decide_eq_true h0, decide_eq_true h1, decide_eq_true h2]; rfl
  · intro j' hj'j hp
    have hj'd : j' < dims.length := by omega
    obtain ⟨_, hget'⟩ := coeffBlocks_getElem width dims j' hj'd
    rw [hget'] at hp
    simp only [inBlock, Bool.and_eq_true, decide_eq_true_eq] at hp
    have := uniq j' hj'd hp.1.2 hp.2
    omega

open Ffcx.Layout in
/-- **reads_in_blocks** (per-read block attribution).  If `readsInBlocksB` holds (decidable; evaluated by the
driver for every kernel and (entity, permutation) tuple), the run succeeds and every recorded read of `w`
is an evaluable index `i` that lies in the block `[offset_j, offset_j + width·dim_j)` of EXACTLY ONE
coefficient `j` of the contract — the one `blockOf` returns. -/
theorem reads_in_blocks {S : Type} [Add S] [Sub S] [Mul S] [Div S] [Neg S] [IntCast S]
    (y : Extra S) (width : Nat) (dims : List Nat) (k : Stmt) (σ : St S)
    (h : readsInBlocksB y k σ width dims = true) :
    ∃ σ' rs, execReads y "w" k σ = .ok (σ', rs) ∧ ∀ r ∈ rs, ∃ i : Int, r = some i ∧ 0 ≤ i ∧
      ∃ j, j < dims.length ∧ blockOf (coeffBlocks width dims) i = some j
        ∧ (coeffOffsets width dims).getD j 0 ≤ i.toNat
        ∧ i.toNat < (coeffOffsets width dims).getD j 0 + width * dims.getD j 0
        ∧ ∀ j', j' < dims.length → (coeffOffsets width dims).getD j' 0 ≤ i.toNat →
            i.toNat < (coeffOffsets width dims).getD j' 0 + width * dims.getD j' 0 → j' = j := by
  simp only [readsInBlocksB] at h
  cases hr : execReads y "w" k σ with
  | error e => simp [hr] at h
  | ok p =>
    obtain ⟨σ', rs⟩ := p
    simp only [hr, inRangeB] at h
    refine ⟨σ', rs, rfl, ?_⟩
    intro r hrm
    have := List.all_eq_true.mp h r hrm
    cases r with
    | none => simp at this
    | some i =>
      simp only [Bool.and_eq_true, decide_eq_true_eq] at this
      exact ⟨i, rfl, this.1, blockOf_spec width dims i this.1 this.2⟩

open Ffcx.Layout in
/-- the model of `symbols.coefficient_dof_access` (`w[offset_k + dof]`, `dof < width·dim_k`) is attributed
to coefficient `k` -/
theorem coeffAccess_reads (width : Nat) (dims : List Nat) (k dof : Nat)
    (hk : k < dims.length) (hd : dof < width * dims.getD k 0) :
    blockOf (coeffBlocks width dims) (coeffAccess width dims k dof : Nat) = some k := by
  obtain ⟨h1, h2, h3⟩ := coeffAccess_in_block width dims k dof hk hd
  have htot := (coeff_blocks_tile width dims).2.2.2
  obtain ⟨j, _, hb, _, _, uniq⟩ := blockOf_spec width dims (coeffAccess width dims k dof : Nat)
    (by omega) (by simpa [htot] using h3)
  rw [hb, uniq k hk (by simpa using h1) (by simpa using h2)]

/-- non-vacuity: `A[0] += w[1]` reads index 1 only, so `w[0]` and `w[2]` are irrelevant -/
example : readOnly "w" (.addAssign (.idx "A" .scalar [.litI 0]) (.idx "w" .scalar [.litI 1])) = true ∧
    readsE "w" [] [] (.idx "w" .scalar [.litI 1]) = [some 1] := by decide

/-- the kernel `A[0] += w[1]` and a shape-domain state with `A[1]`, `w[2]` -/
def demoK : Stmt := .addAssign (.idx "A" .scalar [.litI 0]) (.idx "w" .scalar [.litI 1])
def demoU : St U :=
  { sa := [("A", { dims := [1], data := #[⟨⟩] }), ("w", { dims := [2], data := #[⟨⟩, ⟨⟩] })] }

/-- non-vacuity of the hypotheses of `disabled_irrelevant` / `reads_in_blocks`: two coefficients of dimension 1;
with coefficient 0 disabled the obligation holds (the kernel reads `w[1]` only), with coefficient 1 disabled it fails -/
example : readOnly "w" demoK = true ∧ readsAvoidB uExtra demoK demoU 1 [1, 1] [false, true] = true
    ∧ readsAvoidB uExtra demoK demoU 1 [1, 1] [true, false] = false
    ∧ readsInBlocksB uExtra demoK demoU 1 [1, 1] = true := by decide

/-- non-vacuity of the flag obligation: three coefficients of dimensions 2, 3, 1 (interior facet: width 2),
the middle one disabled: its block is `[4, 10)`; reads at 1 and 10 avoid it, a read at 7 does not, and the
reads are attributed to coefficients 0 and 2 -/
example : disabledBlocks 2 [2, 3, 1] [true, false, true] = [(4, 6)]
    ∧ avoidsB (disabledBlocks 2 [2, 3, 1] [true, false, true]) [some 1, some 10] = true
    ∧ avoidsB (disabledBlocks 2 [2, 3, 1] [true, false, true]) [some 1, some 7] = false
    ∧ blockOf (coeffBlocks 2 [2, 3, 1]) 1 = some 0 ∧ blockOf (coeffBlocks 2 [2, 3, 1]) 10 = some 2 := by
  decide

end Ffcx.LNodes
