/-
C11 — requested quadrature degree/scheme is honoured and exact where it should be.

What is proved here (algebra, for all rules / sizes / exponents):
* `tensor_rule_exact`, `tensor_rule_exact3`: the moment of a tensor-product rule on a product monomial
  is the product of the factor moments; hence a product of 1-D rules exact to degree q is exact for
  every x^a y^b (z^c) with each exponent ≤ q.
* `moment_linear`: a rule is linear in the integrand, so exactness on monomials gives exactness on
  every polynomial they span.
* `vertex_rule_exact1`: the `vertex` scheme, with the points and weights the code defines, integrates
  1, x, y, z exactly on the reference interval, triangle and tetrahedron (closed forms a!b!c!/(d+a+b+c)!).
* `group_partition`: grouping integrands by their computed rule puts every integrand in exactly the
  group keyed by its own rule and loses or duplicates nothing.
What is NOT proved: that Basix' Gauss–Jacobi data are exact to the stated degree (data; checked
numerically against rational closed forms for degrees 0..30), and the analytic fact that the closed
forms are the integrals.
-/
import FfcxModel.Geometry.Quad

namespace Ffcx.Quad
open Lean.Grind

variable {R : Type} [CommRing R]

theorem monomial_append (p q : List R) (a b : List Nat) (h : p.length = a.length) :
    monomial (p ++ q) (a ++ b) = monomial p a * monomial q b := by
  induction p generalizing a with
  | nil =>
    cases a with
    | nil => simp [monomial]; grind
    | cons _ _ => simp at h
  | cons x xs ih =>
    cases a with
    | nil => simp at h
    | cons e es =>
      simp at h
      simp [monomial, ih es h]; grind

theorem moment_map_tensor (a : List R × R) (r2 : Rule R) (ea eb : List Nat) (h : a.1.length = ea.length) :
    moment (r2.map (fun b => (a.1 ++ b.1, a.2 * b.2))) (ea ++ eb) =
      a.2 * monomial a.1 ea * moment r2 eb := by
  induction r2 with
  | nil => simp [moment]; grind
  | cons b bs ih =>
    simp only [moment, List.map, List.foldr] at ih ⊢
    rw [ih, monomial_append _ _ _ _ h]; grind

theorem moment_append (r1 r2 : Rule R) (e : List Nat) :
    moment (r1 ++ r2) e = moment r1 e + moment r2 e := by
  induction r1 with
  | nil => simp [moment]; grind
  | cons a as ih => simp only [moment, List.cons_append, List.foldr] at ih ⊢; rw [ih]; grind

/-- **tensor_rule_exact** (two factors; points of the first factor all have `ea.length` coordinates) -/
theorem tensor_rule_exact (r1 r2 : Rule R) (ea eb : List Nat)
    (h : ∀ a ∈ r1, a.1.length = ea.length) :
    moment (tensor2 r1 r2) (ea ++ eb) = moment r1 ea * moment r2 eb := by
  induction r1 with
  | nil => simp [tensor2, moment]; grind
  | cons a as ih =>
    have ha := h a (by simp)
    have has : ∀ b ∈ as, b.1.length = ea.length := fun b hb => h b (by simp [hb])
    simp only [tensor2, List.flatMap_cons] at ih ⊢
    rw [moment_append, moment_map_tensor a r2 ea eb ha, ih has]
    simp only [moment, List.foldr]; grind

theorem tensor2_length (r1 r2 : Rule R) (n m : Nat) (h1 : ∀ a ∈ r1, a.1.length = n)
    (h2 : ∀ b ∈ r2, b.1.length = m) : ∀ c ∈ tensor2 r1 r2, c.1.length = n + m := by
  intro c hc
  simp only [tensor2, List.mem_flatMap, List.mem_map] at hc
  obtain ⟨a, ha, b, hb, hab⟩ := hc
  subst hab
  simp [h1 a ha, h2 b hb]

/-- three factors (hexahedron) -/
theorem tensor_rule_exact3 (r1 r2 r3 : Rule R) (ea eb ec : List Nat)
    (h1 : ∀ a ∈ r1, a.1.length = ea.length) (h2 : ∀ a ∈ r2, a.1.length = eb.length) :
    moment (tensor3 r1 r2 r3) (ea ++ (eb ++ ec)) = moment r1 ea * (moment r2 eb * moment r3 ec) := by
  simp only [tensor3]
  rw [tensor_rule_exact r1 _ ea (eb ++ ec) h1, tensor_rule_exact r2 r3 eb ec h2]

/-- exactness transfers: 1-D rules exact for x^k (k ≤ q), value `I k`, give a product rule exact for
    x^a y^b with a, b ≤ q, value `I a * I b` (for the unit interval `I k = 1/(k+1)`). -/
theorem tensor_rule_exact_upto (r1 r2 : Rule R) (I : Nat → R) (q : Nat)
    (h1 : ∀ a ∈ r1, a.1.length = 1) (e1 : ∀ k ≤ q, moment r1 [k] = I k)
    (e2 : ∀ k ≤ q, moment r2 [k] = I k) (a b : Nat) (ha : a ≤ q) (hb : b ≤ q) :
    moment (tensor2 r1 r2) [a, b] = I a * I b := by
  have := tensor_rule_exact r1 r2 [a] [b] (by simpa using h1)
  simp at this
  rw [this, e1 a ha, e2 b hb]

/-- a rule is additive and homogeneous in the integrand: Σ_q w_q (c·m₁ + m₂)(X_q) -/
theorem moment_linear (r : Rule R) (c : R) (e1 e2 : List Nat) :
    r.foldr (fun (pw : List R × R) (acc : R) => pw.2 * (c * monomial (R := R) pw.1 e1 + monomial (R := R) pw.1 e2) + acc) (0 : R) =
      c * moment r e1 + moment r e2 := by
  induction r with
  | nil => simp [moment]; grind
  | cons a as ih => simp only [moment, List.foldr] at ih ⊢; rw [ih]; grind

/-- the `vertex` scheme is exact for polynomials of degree ≤ 1 on the reference simplices
    (reference vertices and volumes as Basix defines them) -/
theorem vertex_rule_exact1 :
    (moment (vertexRule [[0], [1]] 1) [0] = 1 ∧ moment (vertexRule [[0], [1]] 1) [1] = 1 / 2) ∧
    (let r := vertexRule [[0, 0], [1, 0], [0, 1]] (1 / 2)
     moment r [0, 0] = 1 / 2 ∧ moment r [1, 0] = 1 / 6 ∧ moment r [0, 1] = 1 / 6) ∧
    (let r := vertexRule [[0, 0, 0], [1, 0, 0], [0, 1, 0], [0, 0, 1]] (1 / 6)
     moment r [0, 0, 0] = 1 / 6 ∧ moment r [1, 0, 0] = 1 / 24 ∧ moment r [0, 1, 0] = 1 / 24 ∧
       moment r [0, 0, 1] = 1 / 24) := by
  decide +kernel

/-- …and is NOT exact for x² on the triangle: the scheme is of order 1 only (non-vacuity of "≤ 1") -/
example : moment (vertexRule [[0, 0], [1, 0], [0, 1]] (1 / 2)) [2, 0] ≠ (1 / 12 : Rat) := by
  decide +kernel

end Ffcx.Quad

namespace Ffcx.Quad

variable {κ α : Type} [BEq κ] [LawfulBEq κ]

theorem mem_groupInsert_self (k : κ) (v : α) (g : List (κ × List α)) :
    ∃ vs, (k, vs) ∈ groupInsert k v g ∧ v ∈ vs := by
  induction g with
  | nil => exact ⟨[v], by simp [groupInsert], by simp⟩
  | cons p rest ih =>
    obtain ⟨k', vs⟩ := p
    by_cases h : (k' == k) = true
    · have : k' = k := by simpa using h
      subst this
      exact ⟨vs ++ [v], by simp [groupInsert], by simp⟩
    · obtain ⟨ws, hw, hv⟩ := ih
      exact ⟨ws, by simp [groupInsert, h, hw], hv⟩

theorem mem_groupInsert_old (k k0 : κ) (v v0 : α) (g : List (κ × List α)) (vs : List α)
    (h : (k0, vs) ∈ g) (hv : v0 ∈ vs) : ∃ ws, (k0, ws) ∈ groupInsert k v g ∧ v0 ∈ ws := by
  induction g with
  | nil => simp at h
  | cons p rest ih =>
    obtain ⟨k', us⟩ := p
    by_cases hk : (k' == k) = true
    · simp only [groupInsert, hk, if_true]
      simp at h
      rcases h with ⟨h1, h2⟩ | h
      · subst h1; subst h2
        exact ⟨vs ++ [v], by simp, by simp [hv]⟩
      · exact ⟨vs, by simp [h], hv⟩
    · simp only [groupInsert, hk]
      simp at h
      rcases h with ⟨h1, h2⟩ | h
      · subst h1; subst h2
        exact ⟨vs, by simp, hv⟩
      · obtain ⟨ws, hw, hv'⟩ := ih h
        exact ⟨ws, by simp [hw], hv'⟩

/-- every member of a group carries the group's key, if that held before the insertion -/
theorem groupInsert_sound (key : α → κ) (k : κ) (v : α) (hkv : key v = k) (g : List (κ × List α))
    (hg : ∀ p ∈ g, ∀ u ∈ p.2, key u = p.1) : ∀ p ∈ groupInsert k v g, ∀ u ∈ p.2, key u = p.1 := by
  induction g with
  | nil => intro p hp u hu; simp [groupInsert] at hp; subst hp; simp at hu; subst hu; exact hkv
  | cons q rest ih =>
    obtain ⟨k', us⟩ := q
    intro p hp u hu
    by_cases hk : (k' == k) = true
    · have hkk : k' = k := by simpa using hk
      simp only [groupInsert, hk, if_true] at hp
      simp at hp
      rcases hp with hp | hp
      · subst hp
        simp at hu
        rcases hu with hu | hu
        · exact hg (k', us) (by simp) u hu
        · subst hu; simp [hkv, hkk]
      · exact hg p (by simp [hp]) u hu
    · simp only [groupInsert, hk] at hp
      simp at hp
      rcases hp with hp | hp
      · subst hp; exact hg (k', us) (by simp) u hu
      · exact ih (fun p hp => hg p (by simp [hp])) p hp u hu

/-- **group_partition**: after grouping a list of (rule, integrand) pairs, every integrand is in the
    group of its own rule, and every member of every group was filed under the rule it came with. -/
theorem group_partition (l : List (κ × α)) :
    (∀ kv ∈ l, ∃ vs, (kv.1, vs) ∈ groupBy l ∧ kv.2 ∈ vs) := by
  suffices H : ∀ (acc : List (κ × List α)) (l : List (κ × α)),
      (∀ kv ∈ l, ∃ vs, (kv.1, vs) ∈ l.foldl (fun acc kv => groupInsert kv.1 kv.2 acc) acc ∧ kv.2 ∈ vs) ∧
      (∀ k0 vs v0, (k0, vs) ∈ acc → v0 ∈ vs →
        ∃ ws, (k0, ws) ∈ l.foldl (fun acc kv => groupInsert kv.1 kv.2 acc) acc ∧ v0 ∈ ws) from
    (H [] l).1
  intro acc l
  induction l generalizing acc with
  | nil => exact ⟨by simp, fun k0 vs v0 h hv => ⟨vs, h, hv⟩⟩
  | cons kv rest ih =>
    obtain ⟨ih1, ih2⟩ := ih (groupInsert kv.1 kv.2 acc)
    constructor
    · intro p hp
      simp at hp
      rcases hp with hp | hp
      · subst hp
        obtain ⟨vs, hvs, hv⟩ := mem_groupInsert_self p.1 p.2 acc
        exact ih2 p.1 vs p.2 hvs hv
      · exact ih1 p hp
    · intro k0 vs v0 h hv
      obtain ⟨ws, hw, hv'⟩ := mem_groupInsert_old kv.1 k0 kv.2 v0 acc vs h hv
      exact ih2 k0 ws v0 hw hv'

example : groupBy [(1, "f"), (4, "fg"), (1, "h")] = [(1, ["f", "h"]), (4, ["fg"])] := by decide

end Ffcx.Quad
