/-
C01 (codegen cluster) — what the emitted dof-block loop nests compute.

`FfcxModel/Codegen/Block.lean` is a transcription of `IntegralGenerator.generate_block_parts` /
`generate_quadrature_loop` (checked against the real functions, statement by statement, on every
kernel of the corpus and on seeded synthetic descriptions: `harness/codegen_checks.py`).  The theorems
below are about the statements that transcription produces, for ALL block dimensions, numbers of
quadrature points, table contents, offsets and strides, over any field `R`:

* `forRange_accumulate`, `nest_accumulate` (Lemmas/CodegenAcc, CodegenNest): the reusable loop rules.
* `genBlock_nest`: the "Tensor Computation" section of ANY successfully generated block group
  (any rank, tensor factors, diagonal) is a nest of `A[…] += …` and adds the sum over all index tuples
  of its right-hand sides.
* `genBlock_spec`: for full-tensor blocks without sum factorisation and rank ≤ 2 the section adds
  `Σ_j Σ_i Σ_b [flat(bs·(i,j)+off) = k] · fw_b · T_b0[…][q][i] · T_b1[…][q][j]` to `A[k]`.
* `quadLoop_spec`: the quadrature loop assembled by `generate_quadrature_loop` (before `optimize`) adds
  `Σ_q Σ_groups Σ_(i,j) Σ_b [flat = k] · (f_b(q)·w_q) · Π_r T_br[…][q][d_r]`.
* `genBlock_entry_spec`: one rank-2 block with injective blockmap — entry by entry.
-/
import FfcxProofs.Lemmas.CodegenGroup
import FfcxModel.LNodes.Scalars

set_option linter.unusedSectionVars false

namespace Ffcx.Codegen
open Ffcx Ffcx.LNodes Lean.Grind
attribute [local instance] Lean.Grind.Ring.intCast
variable {R : Type} [Field R] (x : Extra R)

/-! ## The shape of what `genBlockParts` returns -/

theorem genBlockParts_inv (g : GroupDesc) (st st' : GenState) (qp inter : List Stmt)
    (h : genBlockParts g st = .ok (qp, inter, st')) :
    ∃ outs last, genBlocks g st g.blocks = .ok (outs, st') ∧ outs.getLast? = some last ∧
      qp = [.sect "Tensor Computation" []
              [nestStmt (loopsOf last.bIdx) (asStmt ((emittedTerms outs).map (termStmt g.aShape)))]
              (dedup (outs.map (·.var) ++ (outs.map (·.tables)).flatten)) [aName]
              (if last.bIdx.length > 1 then ["licm"] else [])] ∧
      inter = (outs.map (·.decl)).flatten := by
  unfold genBlockParts at h
  simp only [bind, Except.bind] at h
  cases h1 : genBlocks g st g.blocks with
  | error e => simp [h1] at h
  | ok p =>
    obtain ⟨outs, st1⟩ := p
    simp only [h1] at h
    cases h2 : outs.getLast? with
    | none => simp [h2] at h
    | some last =>
      simp only [h2, Except.ok.injEq, Prod.mk.injEq] at h
      obtain ⟨rfl, rfl, rfl⟩ := h
      exact ⟨outs, last, rfl, h2, rfl, rfl⟩

theorem exec_tensorSection (s : Stmt) (inp out ann : List String) (σ : St R) :
    execL x [.sect "Tensor Computation" [] [s] inp out ann] σ = exec x s σ := by
  rw [execL_singleton]
  simp only [exec, execL]
  cases exec x s σ <;> rfl

/-- **genBlock_nest.** Whatever the block description (any rank, tensor-factorised rule or tables,
    `diagonal`, several blocks sharing a subscript): if `generate_block_parts` succeeds, its `quadparts`
    are ONE section holding a loop nest `ls` around `A[idx_t] += rhs_t`, and — provided no term
    mentions `A` and every subscript/right-hand side is well defined at every index tuple — executing
    them adds `Σ_{index tuples} Σ_t [idx_t = k]·rhs_t` to `A[k]`, overwrites only the loop indices and
    changes nothing else. -/
theorem genBlock_nest (g : GroupDesc) (st st' : GenState) (qp inter : List Stmt)
    (h : genBlockParts g st = .ok (qp, inter, st')) :
    ∃ (ls : List (String × Nat)) (terms : List ATerm),
      (∃ inp ann, qp = [.sect "Tensor Computation" []
          [nestStmt ls (asStmt (terms.map (ATerm.stmt aName)))] inp [aName] ann]) ∧
      ∀ (N : Nat) (σ : St R), (∀ t ∈ terms, t.noA aName = true) → AOk aName N σ →
        nestPre N terms ls σ →
        ∃ σ', execL x qp σ = .ok σ' ∧
          Acc aName (fun n => n ∈ loopNames ls) (fun _ => False) (nestSum x terms ls σ) σ σ' := by
  obtain ⟨outs, last, _, _, rfl, _⟩ := genBlockParts_inv g st st' qp inter h
  have hmap : (emittedTerms outs).map (termStmt g.aShape) =
      ((emittedTerms outs).map (Term.aterm g.aShape)).map (ATerm.stmt aName) := by
    simp only [List.map_map, Function.comp_def]
    exact List.map_congr_left (fun t _ => termStmt_eq g.aShape t)
  refine ⟨loopsOf last.bIdx, (emittedTerms outs).map (Term.aterm g.aShape),
    ⟨dedup (outs.map (·.var) ++ (outs.map (·.tables)).flatten),
      (if last.bIdx.length > 1 then ["licm"] else []), ?_⟩, ?_⟩
  · rw [hmap]
  · intro N σ hnoA hA hpre
    obtain ⟨σ', he, hacc⟩ := nest_accumulate x _ hnoA N (loopsOf last.bIdx) σ hA hpre
    refine ⟨σ', ?_, hacc⟩
    rw [exec_tensorSection, hmap]
    exact he

/-! ## Closed form for rank ≤ 2 -/

/-- Σ over the dof index tuples of a block of rank ≤ 2, in the order the generated nest runs
    (`for j: for i:`); `ds` is in argument order `[i, j]`. -/
def dofSum : List Nat → (List Int → R) → R
  | [], f => f []
  | [n0], f => isum 0 n0 (fun i => f [i])
  | [n0, n1], f => isum 0 n1 (fun j => isum 0 n0 (fun i => f [i, j]))
  | _, _ => 0

/-- the dof index values are natural numbers below the block dimensions -/
def InRangeL : List Nat → List Int → Prop
  | n :: ns, d :: ds => (∃ dn : Nat, d = dn ∧ dn < n) ∧ InRangeL ns ds
  | [], [] => True
  | _, _ => False

theorem inRange_of_map : ∀ (args : List ArgDesc) (lens : List Nat) (ds : List Int),
    args.map (·.table.ndofs) = lens → InRangeL lens ds → ds.length = args.length ∧ InRange args ds
  | [], [], [], _, _ => by simp [InRange]
  | [], [], _ :: _, _, h => by simp [InRangeL] at h
  | [], _ :: _, _, h, _ => by simp at h
  | _ :: _, [], _, h, _ => by simp at h
  | _ :: _, _ :: _, [], _, h => by simp [InRangeL] at h
  | a :: as, n :: ns, d :: ds, hm, h => by
    simp only [List.map_cons, List.cons.injEq] at hm
    simp only [InRangeL] at h
    obtain ⟨i1, i2⟩ := inRange_of_map as ns ds hm.2 h.2
    refine ⟨by simp [i1], ?_⟩
    simp only [InRange]
    exact ⟨by rw [hm.1]; exact h.1, i2⟩

theorem loopsOf_bIndices (args : List ArgDesc) (lens : List Nat)
    (hnf : ∀ a ∈ args, a.table.factors = none) (hmap : args.map (·.table.ndofs) = lens)
    (hl : lens.length ≤ 2) : loopsOf (bIndices args dofNames) = (dofNames.zip lens).reverse := by
  subst hmap
  match args, hnf, hl with
  | [], _, _ => simp [loopsOf, bIndices]
  | [a], hnf, _ =>
    simp [loopsOf, bIndices, dofNames, dofIndex_noTF _ _ (hnf a (by simp))]
  | [a, b], hnf, _ =>
    simp [loopsOf, bIndices, dofNames, dofIndex_noTF _ _ (hnf a (by simp)),
      dofIndex_noTF _ _ (hnf b (by simp))]
  | _ :: _ :: _ :: _, _, hl => simp at hl

theorem mem_zip_of_mem_right {α β} : ∀ (bs : List α) (os : List β) (o : β), os.length = bs.length →
    o ∈ os → ∃ b, (b, o) ∈ bs.zip os
  | [], [], _, _, h => by simp at h
  | [], _ :: _, _, h, _ => by simp at h
  | _ :: _, [], _, h, _ => by simp at h
  | b :: bs, o' :: os, o, hl, h => by
    rcases List.mem_cons.mp h with rfl | h
    · exact ⟨b, by simp⟩
    · obtain ⟨b', hb'⟩ := mem_zip_of_mem_right bs os o (by simpa using hl) h
      exact ⟨b', by simp [hb']⟩

theorem agree_setIV_dof {A : String} {L : List String} {Ps : String → Prop} {σ τ : St R}
    (h : Agree A (fun n => n ∉ L) Ps σ τ) (i : String) (v : Int) (hi : i ∈ L) :
    Agree A (fun n => n ∉ L) Ps σ (τ.setIV i v) := by
  refine ⟨h.ia, ?_, h.sv, h.sa⟩
  intro n hn
  have : i ≠ n := fun e => hn (e ▸ hi)
  simp only [St.setIV, AList.get_set_ne _ _ _ _ this]
  exact h.iv n hn

/-- Everything `genBlock_spec` needs from the description and the state, gathered once. -/
theorem genBlock_pairs (g : GroupDesc) (st st' : GenState) (outs : List BlockOut)
    (hgen : genBlocks g st g.blocks = .ok (outs, st'))
    (hreg : regularGroup g = true) (hcov : coversA g = true) (hnames : namesOk g st = true)
    (σ : St R) (q : Int)
    (htab : ∀ b ∈ g.blocks, ∀ a ∈ b.args, ArgOk σ g.entityType q a)
    (hfw : ∀ fw ∈ fwExprs g st g.blocks, safeE σ fw = true) :
    g.rule.factors = none ∧ g.bmLens.length ≤ 2 ∧ outs.length = g.blocks.length ∧
    outs.map (·.fw) = fwExprs g st g.blocks ∧ st' = fwState g st g.blocks ∧
    (∀ p ∈ g.blocks.zip outs, PairOk g σ q p.1 p.2) ∧
    (∀ b ∈ g.blocks, (∀ a ∈ b.args, a.table.factors = none) ∧ b.args.map (·.table.ndofs) = g.bmLens) := by
  simp only [regularGroup, Bool.and_eq_true, Bool.not_eq_true', List.all_eq_true,
    Option.isNone_iff_eq_none, GroupDesc.rank] at hreg
  obtain ⟨⟨⟨hdiag, hrule⟩, hnf⟩, hrank⟩ := hreg
  simp only [coversA, List.all_eq_true] at hcov
  simp only [namesOk, Bool.and_eq_true, List.all_eq_true, bne_iff_ne, ne_eq, Bool.not_eq_true'] at hnames
  obtain ⟨hn1, hn2⟩ := hnames
  have hlens : ∀ b ∈ g.blocks, b.args.length = g.bmLens.length :=
    fun b hb => (coversB_lens _ _ _ (hcov b hb)).1.symm
  obtain ⟨i1, i2, i4, i3⟩ := genBlocks_inv g hdiag g.blocks st st' outs hgen hlens
  refine ⟨hrule, of_decide_eq_true hrank, i1, i2, i4, ?_, fun b hb => ⟨hnf b hb, (coversB_lens _ _ _ (hcov b hb)).2.2⟩⟩
  intro p hp
  have hb : p.1 ∈ g.blocks := (List.of_mem_zip hp).1
  have ho : p.2.fw ∈ fwExprs g st g.blocks := by
    rw [← i2]; exact List.mem_map_of_mem (List.of_mem_zip hp).2
  obtain ⟨j1, j2, j3, j4⟩ := i3 p hp
  exact ⟨⟨j1, j2, j3, j4⟩, hnf p.1 hb, hcov p.1 hb, hn1 p.1 hb, (hn2 _ ho).1, (hn2 _ ho).2,
    htab p.1 hb, hfw _ ho⟩

/-- **What a block group adds to `A[k]` at quadrature point `q`**:
    `Σ_j Σ_i Σ_b [flat_{A_shape}(bs_b0·i+off_b0, bs_b1·j+off_b1) = k] · fw_b · T_b0[…][q][i] · T_b1[…][q][j]`
    (rank 2; analogously rank 1 and 0), `fw_b` being the value of the block's `fw` expression. -/
def blockSum (g : GroupDesc) (fws : List Expr) (σ : St R) (q : Int) (k : Nat) : R :=
  dofSum g.bmLens (fun ds => blockLeafL x σ g.entityType g.aShape g.bmLens q ds k g.blocks fws)

/-- **genBlock_spec.** Let `g` describe a call of `generate_block_parts` for a full-tensor block group
    of rank ≤ 2 without sum factorisation (`regularGroup`), with `A` covering the blockmap (`coversA`)
    and no aliasing (`namesOk`) — three decidable predicates on the description — and let the call
    succeed with `quadparts = qp`.  In every state `σ` where `iq = q`, `A` is a writable flat array of
    `prod A_shape` scalars, the argument tables are declared with extents covering the accesses
    (`ArgOk`) and the `fw` expressions are defined, executing `qp` succeeds and yields `σ` with
    `A[k]` increased by `blockSum … k` for every `k`; the dof loop indices are overwritten, nothing
    else changes (integer arrays, all other arrays, all scalars, the shape of `A`). -/
theorem genBlock_spec (hlaw : LawfulExtra x) (g : GroupDesc) (st st' : GenState) (qp inter : List Stmt)
    (hgen : genBlockParts g st = .ok (qp, inter, st'))
    (hreg : regularGroup g = true) (hcov : coversA g = true) (hnames : namesOk g st = true)
    (σ : St R) (q : Int) (hq : σ.iv.get "iq" = some q)
    (hA : AOk aName (sizeProd g.aShape) σ)
    (htab : ∀ b ∈ g.blocks, ∀ a ∈ b.args, ArgOk σ g.entityType q a)
    (hfw : ∀ fw ∈ fwExprs g st g.blocks, safeE σ fw = true) :
    ∃ σ', execL x qp σ = .ok σ' ∧
      Acc aName (fun n => n ∈ dofNames) (fun _ => False)
        (blockSum x g (fwExprs g st g.blocks) σ q) σ σ' := by
  obtain ⟨outs, last, hgb, hlast, rfl, _⟩ := genBlockParts_inv g st st' qp inter hgen
  obtain ⟨hrule, hrank, hlenO, hfwmap, _, hpair, hblk⟩ :=
    genBlock_pairs g st st' outs hgb hreg hcov hnames σ q htab hfw
  obtain ⟨bl, hbl⟩ := mem_zip_of_mem_right g.blocks outs last hlenO (List.mem_of_getLast? hlast)
  have hblm : bl ∈ g.blocks := (List.of_mem_zip hbl).1
  have hls : loopsOf last.bIdx = (dofNames.zip g.bmLens).reverse := by
    rw [(hpair _ hbl).inv.1]
    exact loopsOf_bIndices bl.args g.bmLens (hblk bl hblm).1 (hblk bl hblm).2 hrank
  have hpos : ∀ n ∈ g.bmLens, 1 ≤ n := coversB_pos _ _ _ (hpair _ hbl).cov
  have hmap : (emittedTerms outs).map (termStmt g.aShape) =
      ((emittedTerms outs).map (Term.aterm g.aShape)).map (ATerm.stmt aName) := by
    simp only [List.map_map, Function.comp_def]
    exact List.map_congr_left (fun t _ => termStmt_eq g.aShape t)
  -- the closed form of the innermost statement list at an index tuple
  have key : ∀ (τ : St R) (ds : List Int),
      Agree aName (fun n => n ∉ dofNames) (fun _ => True) σ τ → τ.iv.get "iq" = some q →
      Bound τ dofNames ds → InRangeL g.bmLens ds →
      (∀ t ∈ (emittedTerms outs).map (Term.aterm g.aShape), ATerm.noA aName t = true) ∧
      leafPre (sizeProd g.aShape) ((emittedTerms outs).map (Term.aterm g.aShape)) τ ∧
      ∀ k, leafSum x ((emittedTerms outs).map (Term.aterm g.aShape)) τ k =
        blockLeafL x σ g.entityType g.aShape g.bmLens q ds k g.blocks (fwExprs g st g.blocks) := by
    intro τ ds h1 h2 h3 h4
    rw [← hfwmap]
    exact leaf_closed x hlaw g hrule σ τ q ds h1 h2 h3 outs hlenO hpair
      (fun b hb => inRange_of_map b.args g.bmLens ds (hblk b hb).2 h4)
  rw [exec_tensorSection, hls, hmap]
  have hσ : Agree aName (fun n => n ∉ dofNames) (fun _ => True) σ σ := Agree.refl σ
  match hL : g.bmLens, hrank with
  | [], _ =>
    obtain ⟨k1, k2, k3⟩ := key σ [] hσ hq (by simp [Bound]) (by simp [hL, InRangeL])
    obtain ⟨σ', he, hacc⟩ := nest_accumulate x _ k1 (sizeProd g.aShape) [] σ hA (by simpa [nestPre] using k2)
    refine ⟨σ', by simpa [dofNames] using he, (hacc.mono (by simp [loopNames]) (fun _ h => h)).congr ?_⟩
    intro k
    simp only [nestSum, blockSum, hL, dofSum, k3 k]
  | [n0], _ =>
    have hn0 : 1 ≤ n0 := hpos n0 (by simp [hL])
    simp only [hL] at key
    have ht : ∀ t : Nat, t < n0 →
        Agree aName (fun n => n ∉ dofNames) (fun _ => True) σ (σ.setIV "i" t) ∧
        (σ.setIV "i" (t : Int)).iv.get "iq" = some q ∧ Bound (σ.setIV "i" (t : Int)) dofNames [(t : Int)] ∧
        InRangeL [n0] [(t : Int)] := by
      intro t ht
      refine ⟨agree_setIV_dof hσ "i" t (by decide), ?_, ?_, ?_⟩
      · simp only [St.setIV]; rw [AList.get_set_ne _ _ _ _ (by decide)]; exact hq
      · simp [Bound, dofNames, St.setIV]
      · simp only [InRangeL, and_true]; exact ⟨t, rfl, ht⟩
    obtain ⟨k1, _, _⟩ := key _ _ (ht 0 (by omega)).1 (ht 0 (by omega)).2.1 (ht 0 (by omega)).2.2.1
      (ht 0 (by omega)).2.2.2
    have hpre : nestPre (sizeProd g.aShape) ((emittedTerms outs).map (Term.aterm g.aShape))
        [("i", n0)] σ := by
      intro t htn
      exact (key _ _ (ht t htn).1 (ht t htn).2.1 (ht t htn).2.2.1 (ht t htn).2.2.2).2.1
    obtain ⟨σ', he, hacc⟩ := nest_accumulate x _ k1 (sizeProd g.aShape) [("i", n0)] σ hA hpre
    refine ⟨σ', by simpa [dofNames] using he, (hacc.mono ?_ (fun _ h => h)).congr ?_⟩
    · intro n hn; simp [loopNames] at hn; subst hn; decide
    · intro k
      simp only [nestSum, blockSum, hL, dofSum]
      apply isum_congr
      intro v hv0 hv1
      obtain ⟨t, rfl⟩ : ∃ t : Nat, v = t := ⟨v.toNat, by omega⟩
      have htn : t < n0 := by omega
      exact (key _ _ (ht t htn).1 (ht t htn).2.1 (ht t htn).2.2.1 (ht t htn).2.2.2).2.2 k
  | [n0, n1], _ =>
    simp only [hL] at key
    have hn0 : 1 ≤ n0 := hpos n0 (by simp [hL])
    have hn1 : 1 ≤ n1 := hpos n1 (by simp [hL])
    have ht : ∀ tj ti : Nat, tj < n1 → ti < n0 →
        Agree aName (fun n => n ∉ dofNames) (fun _ => True) σ ((σ.setIV "j" tj).setIV "i" ti) ∧
        ((σ.setIV "j" (tj : Int)).setIV "i" (ti : Int)).iv.get "iq" = some q ∧
        Bound ((σ.setIV "j" (tj : Int)).setIV "i" (ti : Int)) dofNames [(ti : Int), (tj : Int)] ∧
        InRangeL [n0, n1] [(ti : Int), (tj : Int)] := by
      intro tj ti htj hti
      refine ⟨agree_setIV_dof (agree_setIV_dof hσ "j" tj (by decide)) "i" ti (by decide), ?_, ?_, ?_⟩
      · simp only [St.setIV]
        rw [AList.get_set_ne _ _ _ _ (by decide), AList.get_set_ne _ _ _ _ (by decide)]; exact hq
      · simp only [Bound, dofNames, St.setIV, AList.get_set_self, true_and, and_true]
        rw [AList.get_set_ne _ _ _ _ (by decide)]; simp
      · simp only [InRangeL, and_true]; exact ⟨⟨ti, rfl, hti⟩, ⟨tj, rfl, htj⟩⟩
    have hk := fun tj ti htj hti => key _ _ (ht tj ti htj hti).1 (ht tj ti htj hti).2.1
      (ht tj ti htj hti).2.2.1 (ht tj ti htj hti).2.2.2
    have k1 := (hk 0 0 (by omega) (by omega)).1
    have hpre : nestPre (sizeProd g.aShape) ((emittedTerms outs).map (Term.aterm g.aShape))
        [("j", n1), ("i", n0)] σ := by
      intro tj htj ti hti
      exact (hk tj ti htj hti).2.1
    obtain ⟨σ', he, hacc⟩ := nest_accumulate x _ k1 (sizeProd g.aShape) [("j", n1), ("i", n0)] σ hA hpre
    refine ⟨σ', by simpa [dofNames] using he, (hacc.mono ?_ (fun _ h => h)).congr ?_⟩
    · intro n hn; simp [loopNames] at hn; rcases hn with rfl | rfl <;> decide
    · intro k
      simp only [nestSum, blockSum, hL, dofSum]
      apply isum_congr
      intro vj hj0 hj1
      apply isum_congr
      intro vi hi0 hi1
      obtain ⟨tj, rfl⟩ : ∃ t : Nat, vj = t := ⟨vj.toNat, by omega⟩
      obtain ⟨ti, rfl⟩ : ∃ t : Nat, vi = t := ⟨vi.toNat, by omega⟩
      exact (hk tj ti (by omega) (by omega)).2.2 k
  | _ :: _ :: _ :: _, h => simp at h

/-! ## The quadrature loop -/

theorem execL_append' (l₁ l₂ : List Stmt) (σ : St R) :
    execL x (l₁ ++ l₂) σ = (match execL x l₁ σ with
      | .error e => .error e
      | .ok σ' => execL x l₂ σ') := by
  induction l₁ generalizing σ with
  | nil => simp [execL]
  | cons s ss ih =>
    simp only [List.cons_append, execL]
    cases exec x s σ with
    | error e => rfl
    | ok σ' => exact ih σ'

/-- the statements of one quadrature-loop iteration that precede the tensor computation, in
    execution order: definitions, `fw = 0` declarations, partition intermediates, `fw = f·w[iq]` -/
def preCode (defs i0 fw : List Stmt) : List Stmt := defs ++ fwDecls fw ++ i0 ++ fwAssigns fw

/-- the code `generate_quadrature_loop` hands to `optimize` runs as `preCode` followed by the
    tensor computation sections -/
theorem execL_quadLoopCode (defs i0 tc fw : List Stmt) (σ : St R) :
    execL x (quadLoopCode defs i0 tc fw) σ = execL x (preCode defs i0 fw ++ tc) σ := by
  simp only [quadLoopCode, preCode, execL_append', execL, exec]
  cases execL x defs σ with
  | error e => rfl
  | ok σ₁ =>
    simp only []
    cases execL x (fwDecls fw) σ₁ with
    | error e => rfl
    | ok σ₂ =>
      simp only []
      cases execL x i0 σ₂ with
      | error e => rfl
      | ok σ₃ =>
        simp only []
        cases execL x (fwAssigns fw) σ₃ <;> rfl

/-- the closed form of a group with the `fw` values given by `Φ` and the tables read in `σ` -/
def blockLeafΦ (Φ : Expr → R) (σ : St R) (et : String) (aShape lens : List Nat) (q : Int)
    (ds : List Int) (k : Nat) : List BlockData → List Expr → R
  | b :: bs, fw :: fws =>
    (if flatIdx aShape (aCoords b.args lens ds) = some k
      then Φ fw * prodR (argVals σ et q b.args ds) else 0) +
    blockLeafΦ Φ σ et aShape lens q ds k bs fws
  | _, _ => 0

theorem blockLeafL_eq (Φ : Expr → R) (σ τ : St R) (et : String) (aShape lens : List Nat) (q : Int)
    (ds : List Int) (k : Nat) : ∀ (bs : List BlockData) (fws : List Expr),
    (∀ fw ∈ fws, eval x τ fw = Φ fw) →
    (∀ b ∈ bs, argVals τ et q b.args ds = argVals σ et q b.args ds) →
    blockLeafL x τ et aShape lens q ds k bs fws = blockLeafΦ Φ σ et aShape lens q ds k bs fws
  | [], _, _, _ => by simp [blockLeafL, blockLeafΦ]
  | _ :: _, [], _, _ => by simp [blockLeafL, blockLeafΦ]
  | b :: bs, fw :: fws, h1, h2 => by
    simp only [blockLeafL, blockLeafΦ, h1 fw (by simp), h2 b (by simp),
      blockLeafL_eq Φ σ τ et aShape lens q ds k bs fws (fun f hf => h1 f (by simp [hf]))
        (fun b' hb' => h2 b' (by simp [hb']))]

theorem dofSum_congr (lens : List Nat) (f f' : List Int → R) (h : ∀ ds, f ds = f' ds) :
    dofSum lens f = dofSum lens f' := by
  have : f = f' := funext h
  rw [this]

/-- **What the tensor computation of one quadrature point adds to `A[k]`**: the sum over the block
    groups of the rule (cache threaded) of `Σ_(i,j) Σ_b [flat = k] · Φ(fw_b) · Π_r T_br[…][q][d_r]`. -/
def groupsSum (Φ : Expr → R) (σ : St R) (q : Int) (k : Nat) : GenState → List GroupDesc → R
  | _, [] => 0
  | st, g :: gs =>
    dofSum g.bmLens (fun ds => blockLeafΦ Φ σ g.entityType g.aShape g.bmLens q ds k g.blocks
      (fwExprs g st g.blocks)) +
    groupsSum Φ σ q k (fwState g st g.blocks) gs

/-- the decidable side conditions of all groups of a rule, cache threaded -/
def GroupsOk (rule : QRule) (aShape : List Nat) : GenState → List GroupDesc → Prop
  | _, [] => True
  | st, g :: gs => (g.rule = rule ∧ g.aShape = aShape ∧ regularGroup g = true ∧ coversA g = true ∧
      namesOk g st = true) ∧ GroupsOk rule aShape (fwState g st g.blocks) gs

theorem namesOk_inv (g : GroupDesc) (st : GenState) (h : namesOk g st = true) :
    (∀ b ∈ g.blocks, ∀ a ∈ b.args, a.table.name ≠ aName) ∧
    ∀ fwe ∈ fwExprs g st g.blocks, mentionsE aName fwe = false ∧ ∀ n ∈ dofNames, mentionsE n fwe = false := by
  simp only [namesOk, Bool.and_eq_true, List.all_eq_true, bne_iff_ne, ne_eq, Bool.not_eq_true'] at h
  exact h

theorem allFw_names (rule : QRule) (aShape : List Nat) : ∀ (gs : List GroupDesc) (st : GenState),
    GroupsOk rule aShape st gs →
    ∀ fwe ∈ allFw st gs, mentionsE aName fwe = false ∧ ∀ n ∈ dofNames, mentionsE n fwe = false
  | [], _, _ => by simp [allFw]
  | g :: gs, st, hok => by
    simp only [GroupsOk] at hok
    intro fwe hf
    simp only [allFw, List.mem_append] at hf
    rcases hf with hf | hf
    · exact (namesOk_inv g st hok.1.2.2.2.2).2 fwe hf
    · exact allFw_names rule aShape gs _ hok.2 fwe hf

/-- **All tensor-computation sections of one quadrature point.** -/
theorem groups_spec (hlaw : LawfulExtra x) (rule : QRule) (aShape : List Nat) (σ : St R) (q : Int)
    (Φ : Expr → R) :
    ∀ (gs : List GroupDesc) (st st' : GenState) (tc fw : List Stmt),
      genGroups st gs = .ok (tc, fw, st') → GroupsOk rule aShape st gs →
      (∀ g ∈ gs, ∀ b ∈ g.blocks, ∀ a ∈ b.args, ArgOk σ g.entityType q a) →
      ∀ τ : St R, Agree aName (fun _ => False) (fun _ => False) σ τ → τ.iv.get "iq" = some q →
        AOk aName (sizeProd aShape) τ →
        (∀ fwe ∈ allFw st gs, safeE τ fwe = true ∧ eval x τ fwe = Φ fwe) →
        ∃ τ', execL x tc τ = .ok τ' ∧
          Acc aName (fun n => n ∈ dofNames) (fun _ => False) (fun k => groupsSum Φ σ q k st gs) τ τ'
  | [], st, st', tc, fw, h, _, _, τ, _, _, hA, _ => by
    simp only [genGroups, Except.ok.injEq, Prod.mk.injEq] at h
    obtain ⟨rfl, _, _⟩ := h
    obtain ⟨a, ha, _⟩ := hA
    exact ⟨τ, rfl, (Acc.refl ha).congr (fun _ => rfl)⟩
  | g :: gs, st, st', tc, fw, h, hok, htab, τ, hag, hq, hA, hfw => by
    simp only [genGroups, bind, Except.bind] at h
    cases h1 : genBlockParts g st with
    | error e => simp [h1] at h
    | ok p =>
      obtain ⟨qp, inter, st1⟩ := p
      simp only [h1] at h
      cases h2 : genGroups st1 gs with
      | error e => simp [h2] at h
      | ok p2 =>
        obtain ⟨qs, is, st2⟩ := p2
        simp only [h2, Except.ok.injEq, Prod.mk.injEq] at h
        obtain ⟨rfl, _, _⟩ := h
        simp only [GroupsOk] at hok
        obtain ⟨⟨_, hsh, hreg, hcov, hnm⟩, hok'⟩ := hok
        obtain ⟨hnA, _⟩ := namesOk_inv g st hnm
        have htabτ : ∀ b ∈ g.blocks, ∀ a ∈ b.args, ArgOk τ g.entityType q a :=
          fun b hb a ha => ArgOk_agree hag g.entityType q a (hnA b hb a ha) (htab g (by simp) b hb a ha)
        have hfwτ : ∀ fwe ∈ fwExprs g st g.blocks, safeE τ fwe = true :=
          fun f hf => (hfw f (by simp [allFw, hf])).1
        obtain ⟨outs, last, hgb, _, _, _⟩ := genBlockParts_inv g st st1 qp inter h1
        have hst1 := (genBlock_pairs g st st1 outs hgb hreg hcov hnm τ q htabτ hfwτ).2.2.2.2.1
        subst hst1
        have hA' : AOk aName (sizeProd g.aShape) τ := by rw [hsh]; exact hA
        obtain ⟨τ₁, he1, hacc1⟩ := genBlock_spec x hlaw g st _ qp inter h1 hreg hcov hnm τ q hq hA'
          htabτ hfwτ
        have hag1 : Agree aName (fun _ => False) (fun _ => False) σ τ₁ :=
          ⟨hacc1.ia.trans hag.ia, fun _ h => h.elim, fun _ h => h.elim,
            fun n hn => (hacc1.sa n hn).trans (hag.sa n hn)⟩
        have hq1 : τ₁.iv.get "iq" = some q := by
          rw [hacc1.iv "iq" (by decide)]; exact hq
        have hfw1 : ∀ fwe ∈ allFw (fwState g st g.blocks) gs,
            safeE τ₁ fwe = true ∧ eval x τ₁ fwe = Φ fwe := by
          intro fwe hf
          obtain ⟨m1, m2⟩ := allFw_names rule aShape gs _ hok' fwe hf
          have hP : ∀ n, mentionsE n fwe = true → n ≠ aName ∧ ¬ n ∈ dofNames ∧ ¬ False := by
            intro n hn
            refine ⟨?_, ?_, fun h => h⟩
            · intro e; subst e; simp [m1] at hn
            · intro hmem; simp [m2 n hmem] at hn
          have hagτ := hacc1.agree.agreeOn
          obtain ⟨s1, s2⟩ := hfw fwe (by simp [allFw, hf])
          exact ⟨by rw [← safeE_agreeOn hagτ fwe hP]; exact s1,
            by rw [← eval_agreeOn x hagτ fwe hP]; exact s2⟩
        obtain ⟨τ', he2, hacc2⟩ := groups_spec hlaw rule aShape σ q Φ gs _ st2 qs is h2 hok'
          (fun g' hg' => htab g' (by simp [hg'])) τ₁ hag1 hq1 (AOk.of_acc hacc1 hA) hfw1
        refine ⟨τ', by rw [execL_append', he1]; exact he2, (hacc1.trans hacc2).congr ?_⟩
        intro k
        simp only [groupsSum, blockSum]
        congr 1
        apply dofSum_congr
        intro ds
        exact blockLeafL_eq x Φ σ τ g.entityType g.aShape g.bmLens q ds k g.blocks _
          (fun f hf => (hfw f (by simp [allFw, hf])).2)
          (fun b hb => argVals_agree hag g.entityType q b.args ds (hnA b hb))

theorem alist_set_set {α} (m : AList α) (k : String) (v : α) :
    AList.set (AList.set m k v) k v = AList.set m k v := by
  induction m with
  | nil => simp [AList.set]
  | cons p m ih =>
    obtain ⟨k', w⟩ := p
    by_cases h : k' = k <;> simp [AList.set, h, ih]

/-- **quadLoop_spec.** The quadrature loop `generate_quadrature_loop` assembles for a rule without
    tensor factors (`for iq { definitions; Intermediates{fw=0; …; fw=f·w[iq]}; Tensor Computation… }`, as
    handed to `optimize`), for block groups satisfying the decidable side conditions (`GroupsOk`).

    Assumption on the partition code (`hpre`, the part of the kernel this cluster does not model): in
    every iteration `q`, from any state reached so far, the statements before the tensor computation
    succeed, add nothing to `A`, write only integer variables in `Wi` / scalars in `Ws`, leave `iq = q`,
    and afterwards every `fw` expression is defined and has the value `Φ q fw` (`= f_b(q)·w_q`).

    Conclusion: the loop succeeds and yields `σ` with
      `A[k] += Σ_{q<nq} Σ_groups Σ_(i,j) Σ_b [flat_{A_shape}(bs·(i,j)+off) = k] · Φ q fw_b · Π_r T_br[perm][entity][q][d_r]`,
    integer variables in `Wi` and scalars in `Ws` overwritten, everything else unchanged. -/
theorem quadLoop_spec (hlaw : LawfulExtra x) (rule : QRule) (hrule : rule.factors = none)
    (aShape : List Nat) (gs : List GroupDesc) (st st' : GenState) (tc fw : List Stmt)
    (hgen : genGroups st gs = .ok (tc, fw, st')) (hok : GroupsOk rule aShape st gs)
    (defs i0 : List Stmt) (Wi Ws : String → Prop) (hiq : Wi "iq") (hdof : ∀ n ∈ dofNames, Wi n)
    (σ : St R) (hA : AOk aName (sizeProd aShape) σ)
    (htab : ∀ q : Nat, q < rule.nweights → ∀ g ∈ gs, ∀ b ∈ g.blocks, ∀ a ∈ b.args,
      ArgOk σ g.entityType q a)
    (Φ : Nat → Expr → R)
    (hpre : ∀ q : Nat, q < rule.nweights → ∀ (τ : St R) (d : Nat → R), Acc aName Wi Ws d σ τ →
      ∃ τ', execL x (preCode defs i0 fw) (τ.setIV "iq" q) = .ok τ' ∧
        Acc aName Wi Ws (fun _ => 0) τ τ' ∧ τ'.iv.get "iq" = some (q : Int) ∧
        ∀ fwe ∈ allFw st gs, safeE τ' fwe = true ∧ eval x τ' fwe = Φ q fwe) :
    ∃ σ', exec x (genQuadLoop rule (quadLoopCode defs i0 tc fw)) σ = .ok σ' ∧
      Acc aName Wi Ws
        (fun k => isum 0 rule.nweights (fun q => groupsSum (Φ q.toNat) σ q k st gs)) σ σ' := by
  have hloop : genQuadLoop rule (quadLoopCode defs i0 tc fw) =
      .forRange "iq" (.litI 0) (.litI rule.nweights) [asStmt (quadLoopCode defs i0 tc fw)] := by
    simp [genQuadLoop, quadIndex_noTF rule hrule, nestStmt]
  rw [hloop]
  -- invariant: reachable from σ, with `iq` a valid point; increment: a function of `iq` only
  let Pre : St R → Prop := fun υ => ∃ (q : Nat) (τ : St R) (d : Nat → R), q < rule.nweights ∧
    Acc aName Wi Ws d σ τ ∧ υ = τ.setIV "iq" q
  let δ : St R → Nat → R := fun υ k =>
    groupsSum (Φ ((υ.iv.get "iq").getD 0).toNat) σ ((υ.iv.get "iq").getD 0) k st gs
  have hbody : ∀ υ, Pre υ → ∃ υ', execL x [asStmt (quadLoopCode defs i0 tc fw)] υ = .ok υ' ∧
      Acc aName Wi Ws (δ υ) υ υ' := by
    rintro υ ⟨q, τ, d, hq, hτ, rfl⟩
    obtain ⟨τ₁, he1, hacc1, hq1, hfw1⟩ := hpre q hq τ d hτ
    have hreach : Acc aName Wi Ws (fun k => d k + 0) σ τ₁ := hτ.trans hacc1
    have hag : Agree aName (fun _ => False) (fun _ => False) σ τ₁ :=
      ⟨hreach.ia, fun _ h => h.elim, fun _ h => h.elim, hreach.sa⟩
    obtain ⟨τ₂, he2, hacc2⟩ := groups_spec x hlaw rule aShape σ q (Φ q) gs st st' tc fw hgen hok
      (htab q hq) τ₁ hag hq1 (AOk.of_acc hreach hA) hfw1
    have hacc2' : Acc aName Wi Ws (fun k => groupsSum (Φ q) σ q k st gs) τ₁ τ₂ :=
      hacc2.mono (fun n hn => hdof n hn) (fun _ h => h.elim)
    have hfrom : Acc aName Wi Ws (fun _ => 0) (τ.setIV "iq" q) τ₁ := by
      refine ⟨hacc1.ia, ?_, hacc1.sv, hacc1.sa, hacc1.arr⟩
      intro n hn
      have hne : "iq" ≠ n := fun e => hn (e ▸ hiq)
      rw [hacc1.iv n hn]
      simp [St.setIV, AList.get_set_ne _ _ _ _ hne]
    refine ⟨τ₂, ?_, (hfrom.trans hacc2').congr ?_⟩
    · rw [execL_singleton, exec_asStmt, execL_quadLoopCode, execL_append', he1]
      exact he2
    · intro k
      simp only [δ, St.setIV, AList.get_set_self, Option.getD_some, Int.toNat_natCast]
      grind
  have hstab : ∀ (v : Int) (τ τ' : St R) (d : Nat → R), Acc aName Wi Ws d τ τ' →
      (Pre (τ.setIV "iq" v) → Pre (τ'.setIV "iq" v)) ∧
        ∀ k, δ (τ'.setIV "iq" v) k = δ (τ.setIV "iq" v) k := by
    intro v τ τ' d hacc
    refine ⟨?_, fun k => by simp [δ, St.setIV]⟩
    rintro ⟨q, τ₀, d₀, hq, hτ₀, he⟩
    have hv : v = q := by
      have := congrArg (fun s : St R => s.iv.get "iq") he
      simpa [St.setIV] using this
    subst hv
    -- τ.setIV iq q = τ₀.setIV iq q, hence τ is reachable up to `iq`
    have hτ : Acc aName Wi Ws d₀ σ (τ.setIV "iq" (q : Int)) := by
      rw [he]
      refine ⟨hτ₀.ia, ?_, hτ₀.sv, hτ₀.sa, hτ₀.arr⟩
      intro n hn
      have hne : "iq" ≠ n := fun e => hn (e ▸ hiq)
      simp only [St.setIV, AList.get_set_ne _ _ _ _ hne]
      exact hτ₀.iv n hn
    have hstep : Acc aName Wi Ws d (τ.setIV "iq" (q : Int)) (τ'.setIV "iq" (q : Int)) := by
      refine ⟨hacc.ia, ?_, hacc.sv, hacc.sa, hacc.arr⟩
      intro n hn
      have hne : "iq" ≠ n := fun e => hn (e ▸ hiq)
      simp only [St.setIV, AList.get_set_ne _ _ _ _ hne]
      exact hacc.iv n hn
    refine ⟨q, τ'.setIV "iq" (q : Int), _, hq, hτ.trans hstep, ?_⟩
    simp [St.setIV, alist_set_set]
  obtain ⟨a, ha, _⟩ := hA
  have := forRange_accumulate x [asStmt (quadLoopCode defs i0 tc fw)] "iq" rule.nweights hiq Pre δ
    hbody hstab σ ⟨a, ha⟩ (fun t ht => ⟨t, σ, fun _ => 0, ht, Acc.refl ha, rfl⟩)
  obtain ⟨σ', he, hacc⟩ := this
  refine ⟨σ', he, hacc.congr ?_⟩
  intro k
  apply isum_congr
  intro v hv0 hv1
  simp [δ, St.setIV]

/-! ## The `fw` temporaries: `fw = f · weights[iq]` -/

/-- `float_product([f, weight])` has the value `f · weight` -/
theorem eval_floatProduct2 (hlaw : LawfulExtra x) (σ : St R) (f w : Expr) :
    eval x σ (floatProduct [f, w]) = eval x σ f * eval x σ w := by
  unfold floatProduct
  by_cases h1 : isOne f = true <;> by_cases h2 : isOne w = true <;>
    simp [List.filter, h1, h2, eval, evalL, foldOp, hlaw.ofRat_one] <;>
    (try rw [eval_isOne hlaw σ f h1]) <;> (try rw [eval_isOne hlaw σ w h2]) <;> grind

/-- the weight access `weights_<id>[iq]` reads entry `q` of the weights array -/
theorem eval_weightExpr (g : GroupDesc) (hrule : g.rule.factors = none) (σ : St R) (q : Int)
    (hq : σ.iv.get "iq" = some q) :
    eval x σ (weightExpr g) =
      readArr σ (if g.custom then "weights_chunk" else s!"weights_{g.rule.id}") [q] := by
  have := evalI_global_single σ.iv σ.ia "iq" g.rule.nweights q hq
  simp only [weightExpr, quadIndex_noTF _ hrule, eval, evalIs, this]
  simp

/-- **The value of a new `fw` temporary**: the defining expression `float_product([f, weights[iq]])`
    that `generate_block_parts` returns in `intermediates` evaluates to `f · w_q`. -/
theorem fw_value (hlaw : LawfulExtra x) (g : GroupDesc) (hrule : g.rule.factors = none) (b : BlockData)
    (σ : St R) (q : Int) (hq : σ.iv.get "iq" = some q) :
    eval x σ (floatProduct [b.f, weightExpr g]) =
      eval x σ b.f * readArr σ (if g.custom then "weights_chunk" else s!"weights_{g.rule.id}") [q] := by
  rw [eval_floatProduct2 x hlaw, eval_weightExpr x g hrule σ q hq]

theorem fwAssigns_aux (N : List String) : ∀ (fw : List Stmt), fwShape fw = true →
    (declNames fw).Nodup → (∀ m ∈ declNames fw, m ∈ N) →
    (∀ p ∈ fwPairs fw, ∀ m ∈ N, mentionsE m p.2 = false) → ∀ τ : St R,
    (∃ a, τ.sa.get aName = some a) →
    (∀ p ∈ fwPairs fw, (τ.sv.get p.1).isSome = true ∧ safeE τ p.2 = true) →
    ∃ τ', execL x (fwAssigns fw) τ = .ok τ' ∧
      Acc aName (fun _ => False) (fun n => n ∈ declNames fw) (fun _ => 0) τ τ' ∧
      ∀ p ∈ fwPairs fw, τ'.sv.get p.1 = some (eval x τ p.2)
  | [], _, _, _, _, τ, ⟨a, ha⟩, _ => ⟨τ, rfl, Acc.refl ha, by simp [fwPairs]⟩
  | .vdecl n dt v :: ss, hsh, hnd, hN, hnm, τ, ⟨a, ha⟩, hd => by
    simp only [fwShape, Bool.and_eq_true, bne_iff_ne, ne_eq] at hsh
    simp only [declNames, List.nodup_cons] at hnd
    obtain ⟨hsome, hsafe⟩ := hd (n, v) (by simp [fwPairs])
    obtain ⟨old, hold⟩ := Option.isSome_iff_exists.mp hsome
    have hdt : (dt == DType.int) = false := by simpa using hsh.1
    have hnN : n ∈ N := hN n (by simp [declNames])
    have he : exec x (.assign (.sym n dt) v) τ = .ok (τ.setSV n (eval x τ v)) := by
      simp [exec, hsafe, store, hdt, hold]
    have hag : AgreeOn (fun m => m ≠ n) τ (τ.setSV n (eval x τ v)) := by
      refine ⟨fun _ _ => rfl, ?_, fun _ _ => rfl, fun _ _ => rfl⟩
      intro m hm
      simp [St.setSV, AList.get_set_ne _ _ _ _ (fun e => hm e.symm)]
    have hkeep : ∀ p ∈ fwPairs ss, ∀ m, mentionsE m p.2 = true → m ≠ n := by
      intro p hp m hm e
      subst e
      simp [hnm p (by simp [fwPairs, hp]) m hnN] at hm
    have hd₁ : ∀ p ∈ fwPairs ss, ((τ.setSV n (eval x τ v)).sv.get p.1).isSome = true ∧
        safeE (τ.setSV n (eval x τ v)) p.2 = true := by
      intro p hp
      obtain ⟨h1, h2⟩ := hd p (by simp [fwPairs, hp])
      refine ⟨?_, by rw [← safeE_agreeOn hag p.2 (hkeep p hp)]; exact h2⟩
      simp only [St.setSV, AList.get_set]
      split
      · rfl
      · exact h1
    obtain ⟨τ', he', hacc, hval⟩ := fwAssigns_aux N ss hsh.2 hnd.2
      (fun m hm => hN m (by simp [declNames, hm])) (fun p hp => hnm p (by simp [fwPairs, hp]))
      (τ.setSV n (eval x τ v)) ⟨a, ha⟩ hd₁
    refine ⟨τ', by simp only [fwAssigns, execL, he, he'], ?_, ?_⟩
    · have h' : Acc aName (fun _ => False) (fun m => m ∈ declNames (.vdecl n dt v :: ss)) (fun _ => 0)
          (τ.setSV n (eval x τ v)) τ' :=
        hacc.mono (fun _ h => h) (fun m hm => by simp [declNames, hm])
      exact Acc.of_setSV (by simp [declNames]) h'
    · intro p hp
      simp only [fwPairs, List.mem_cons] at hp
      rcases hp with rfl | hp
      · rw [hacc.sv n hnd.1]
        simp [St.setSV]
      · rw [hval p hp, ← eval_agreeOn x hag p.2 (hkeep p hp)]
  | .assign _ _ :: _, h, _, _, _, _, _, _ => by simp [fwShape] at h
  | .addAssign _ _ :: _, h, _, _, _, _, _, _ => by simp [fwShape] at h
  | .adecl .. :: _, h, _, _, _, _, _, _ => by simp [fwShape] at h
  | .forRange .. :: _, h, _, _, _, _, _, _ => by simp [fwShape] at h
  | .comment _ :: _, h, _, _, _, _, _, _ => by simp [fwShape] at h
  | .block _ :: _, h, _, _, _, _, _, _ => by simp [fwShape] at h
  | .sect .. :: _, h, _, _, _, _, _, _ => by simp [fwShape] at h

/-- **The `fw = f·w[iq]` assignments** of the Intermediates section: if the temporaries are declared
    non-integer variables, pairwise distinct, and no defining expression reads one of them
    (`fwDeclsOk`, decidable), then after the assignments every temporary holds the value its defining
    expression had before (`f·w_q` by `fw_value`); `A`, the integer variables and all other scalars
    are unchanged. -/
theorem fwAssigns_spec (fw : List Stmt) (hok : fwDeclsOk fw = true) (τ : St R)
    (hA : ∃ a, τ.sa.get aName = some a)
    (hd : ∀ p ∈ fwPairs fw, (τ.sv.get p.1).isSome = true ∧ safeE τ p.2 = true) :
    ∃ τ', execL x (fwAssigns fw) τ = .ok τ' ∧
      Acc aName (fun _ => False) (fun n => n ∈ declNames fw) (fun _ => 0) τ τ' ∧
      ∀ p ∈ fwPairs fw, τ'.sv.get p.1 = some (eval x τ p.2) := by
  simp only [fwDeclsOk, Bool.and_eq_true, decide_eq_true_eq, List.all_eq_true, Bool.not_eq_true'] at hok
  exact fwAssigns_aux x (declNames fw) fw hok.1.1 hok.1.2 (fun _ h => h) hok.2 τ hA hd

/-- what the partition code must establish about one `fw` expression `fwe` of a block (state `τ`
    after definitions, `fw = 0` declarations and partition intermediates; `φ` the value the block's
    factor `f·w_q` must have): a cached temporary has a declaration in `fw` whose defining expression
    has that value; `weights[iq]` itself (when `f` is one) is readable and has that value. -/
def FwReady (fw : List Stmt) (τ : St R) (φ : R) (e : Expr) : Prop :=
  (∃ n dt v, e = .sym n dt ∧ dt ≠ .int ∧ (n, v) ∈ fwPairs fw ∧ eval x τ v = φ) ∨
  (safeE τ e = true ∧ eval x τ e = φ ∧ ∀ m ∈ declNames fw, mentionsE m e = false)

/-- **kernel_meets_spec_partial.** `quadLoop_spec` with the `fw = f·w[iq]` assignments discharged
    (`fwAssigns_spec`): the only remaining assumption is on the partition code proper
    (`definitions`, the `fw = 0` declarations, the `sv_` intermediates), which in every iteration must
    succeed, add nothing to `A`, stay inside its write sets, and leave the defining expression of every
    `fw` temporary well defined with value `Φ q fw` (`= f_b(q)·w_q`, see `fw_value`).

    Full statement this is a part of (not proved; what is missing is named):
      `kernel_meets_spec`: for an IntegralIR `ir` and inputs `in`, `exec (generate ir) (A₀, in) = A₀ + specA ir in`,
      where `specA` is `Σ_rules Σ_q w_q · integrand(q) · Π_r φ_r(q)`.  Missing: (1) the transcription of
      `generate_partition`/`access.py`/`definitions.py` establishing `hpart` with `f_b(q) = ` the value
      `evalGraph` assigns to node `factor_index` of `F` (table values = basis functions at the points is
      the C02/C03/`Tables` assumption); (2) `Σ_b f_b Π_r T_br = integrand` — that is `factorize_sound`
      (proved, `Lemmas/TablesFactorize`) applied to the blocks of `block_contributions`; (3) `optimize`
      preserving the loop's effect (C17, `optimize_sound` under per-kernel certificates); (4) several
      rules / tensor-factorised rules (`genBlock_nest` covers their nests, not the closed form). -/
theorem kernel_meets_spec_partial (hlaw : LawfulExtra x) (rule : QRule) (hrule : rule.factors = none)
    (aShape : List Nat) (gs : List GroupDesc) (st st' : GenState) (tc fw : List Stmt)
    (hgen : genGroups st gs = .ok (tc, fw, st')) (hok : GroupsOk rule aShape st gs)
    (hfwok : fwDeclsOk fw = true)
    (defs i0 : List Stmt) (Wi Ws : String → Prop) (hiq : Wi "iq") (hdof : ∀ n ∈ dofNames, Wi n)
    (hWs : ∀ n ∈ declNames fw, Ws n)
    (σ : St R) (hA : AOk aName (sizeProd aShape) σ)
    (htab : ∀ q : Nat, q < rule.nweights → ∀ g ∈ gs, ∀ b ∈ g.blocks, ∀ a ∈ b.args,
      ArgOk σ g.entityType q a)
    (Φ : Nat → Expr → R)
    (hpart : ∀ q : Nat, q < rule.nweights → ∀ (τ : St R) (d : Nat → R), Acc aName Wi Ws d σ τ →
      ∃ τ₁, execL x (defs ++ fwDecls fw ++ i0) (τ.setIV "iq" q) = .ok τ₁ ∧
        Acc aName Wi Ws (fun _ => 0) τ τ₁ ∧ τ₁.iv.get "iq" = some (q : Int) ∧
        (∀ p ∈ fwPairs fw, (τ₁.sv.get p.1).isSome = true ∧ safeE τ₁ p.2 = true) ∧
        ∀ fwe ∈ allFw st gs, FwReady x fw τ₁ (Φ q fwe) fwe) :
    ∃ σ', exec x (genQuadLoop rule (quadLoopCode defs i0 tc fw)) σ = .ok σ' ∧
      Acc aName Wi Ws
        (fun k => isum 0 rule.nweights (fun q => groupsSum (Φ q.toNat) σ q k st gs)) σ σ' := by
  refine quadLoop_spec x hlaw rule hrule aShape gs st st' tc fw hgen hok defs i0 Wi Ws hiq hdof σ hA
    htab Φ ?_
  intro q hq τ d hτ
  obtain ⟨τ₁, he1, hacc1, hq1, hdecl, hready⟩ := hpart q hq τ d hτ
  have hA₁ : ∃ a, τ₁.sa.get aName = some a := by
    obtain ⟨_, a', _, h, _⟩ := (hτ.trans hacc1).arr; exact ⟨a', h⟩
  obtain ⟨τ₂, he2, hacc2, hval⟩ := fwAssigns_spec x fw hfwok τ₁ hA₁ hdecl
  have hacc2' : Acc aName Wi Ws (fun _ => 0) τ₁ τ₂ := hacc2.mono (fun _ h => h.elim) hWs
  refine ⟨τ₂, ?_, (hacc1.trans hacc2').congr (fun _ => by grind), ?_, ?_⟩
  · have : preCode defs i0 fw = (defs ++ fwDecls fw ++ i0) ++ fwAssigns fw := by simp [preCode]
    rw [this, execL_append', he1]; exact he2
  · rw [hacc2.iv "iq" (fun h => h)]; exact hq1
  · intro fwe hfwe
    rcases hready fwe hfwe with ⟨n, dt, v, rfl, hdt, hv, hval'⟩ | ⟨h1, h2, h3⟩
    · have h2 := hval (n, v) hv
      have hdt' : (dt == DType.int) = false := by simpa using hdt
      simp only [safeE, eval, hdt', h2]
      simp [hval']
    · have hmA := (allFw_names rule aShape gs st hok fwe hfwe).1
      have hP : ∀ m, mentionsE m fwe = true → m ≠ aName ∧ ¬ False ∧ ¬ m ∈ declNames fw := by
        intro m hm
        refine ⟨?_, fun h => h, ?_⟩
        · intro e; subst e; simp [hmA] at hm
        · intro hmem; simp [h3 m hmem] at hm
      have hag := hacc2.agree.agreeOn
      exact ⟨by rw [← safeE_agreeOn hag fwe hP]; exact h1, by rw [← eval_agreeOn x hag fwe hP]; exact h2⟩

/-! ## One rank-2 block, entry by entry -/

theorem aCoord_inj (a : ArgDesc) (n : Nat) (hbs : 1 ≤ a.table.blockSize) (i i' : Int)
    (h : aCoord a n i = aCoord a n i') : i = i' := by
  unfold aCoord at h
  split at h
  · omega
  · have h' : a.table.blockSize * i = a.table.blockSize * i' := by omega
    exact Int.eq_of_mul_eq_mul_left (by omega) h'

/-- **genBlock_entry_spec.** A group consisting of ONE rank-2 block with arguments `a0`, `a1`
    (`n0 × n1` dofs) whose blockmap is injective (`block_size ≥ 1`) and inside `A_shape`: what
    `genBlock_spec` says the generated nest adds, entry by entry —
    `A[flat(bs0·i+off0, bs1·j+off1)]` gets `fw · T0[…][q][i] · T1[…][q][j]` for `i < n0`, `j < n1`, and
    every other entry of `A` gets `0`. -/
theorem genBlock_entry_spec (g : GroupDesc) (b : BlockData) (a0 a1 : ArgDesc) (n0 n1 : Nat)
    (hb : g.blocks = [b]) (hargs : b.args = [a0, a1]) (hl : g.bmLens = [n0, n1])
    (hcov : coversA g = true) (hinj : injectiveBlocks g = true) (fw : Expr) (σ : St R) (q : Int) :
    (∀ ti tj : Nat, ti < n0 → tj < n1 →
      ∃ k, flatIdx g.aShape [aCoord a0 n0 ti, aCoord a1 n1 tj] = some k ∧ k < sizeProd g.aShape ∧
        blockSum x g [fw] σ q k =
          eval x σ fw * (argVal σ g.entityType q a0 ti * argVal σ g.entityType q a1 tj)) ∧
    (∀ k, (∀ ti tj : Nat, ti < n0 → tj < n1 →
        flatIdx g.aShape [aCoord a0 n0 ti, aCoord a1 n1 tj] ≠ some k) →
      blockSum x g [fw] σ q k = 0) := by
  simp only [coversA, hb, List.all_cons, List.all_nil, Bool.and_true, hargs, hl] at hcov
  simp only [injectiveBlocks, hb, hargs, List.all_cons, List.all_nil, Bool.and_true,
    Bool.and_eq_true, decide_eq_true_eq] at hinj
  have hsum : ∀ k, blockSum x g [fw] σ q k = isum 0 n1 (fun j => isum 0 n0 (fun i =>
      (if flatIdx g.aShape [aCoord a0 n0 i, aCoord a1 n1 j] = some k
        then eval x σ fw * (argVal σ g.entityType q a0 i * argVal σ g.entityType q a1 j) else 0))) := by
    intro k
    simp only [blockSum, hl, dofSum, hb, blockLeafL, hargs, aCoords, argVals, prodR]
    apply isum_congr; intro j _ _
    apply isum_congr; intro i _ _
    split <;> grind
  have hrange : ∀ ti tj : Nat, ti < n0 → tj < n1 →
      ∃ k, flatIdx g.aShape [aCoord a0 n0 ti, aCoord a1 n1 tj] = some k ∧ k < sizeProd g.aShape := by
    intro ti tj hti htj
    have hin : InRange [a0, a1] [(ti : Int), (tj : Int)] := by
      obtain ⟨_, _, hm⟩ := coversB_lens _ _ _ hcov
      simp only [List.map_cons, List.map_nil, List.cons.injEq, and_true] at hm
      simp only [InRange, and_true]
      exact ⟨⟨ti, rfl, by omega⟩, ⟨tj, rfl, by omega⟩⟩
    obtain ⟨c1, c2⟩ := coversB_inrange _ _ _ _ hcov hin rfl
    obtain ⟨k, hk⟩ := flatIdx_some_of_inrange g.aShape _ c1 c2
    exact ⟨k, by simpa [aCoords] using hk, flatIdx_lt _ _ _ (by simpa [aCoords] using hk)⟩
  have huniq : ∀ (k : Nat) (ti tj : Nat) (i j : Int),
      flatIdx g.aShape [aCoord a0 n0 ti, aCoord a1 n1 tj] = some k →
      flatIdx g.aShape [aCoord a0 n0 i, aCoord a1 n1 j] = some k → i = ti ∧ j = tj := by
    intro k ti tj i j h1 h2
    have := flatIdx_inj g.aShape _ _ k h2 h1
    simp only [List.cons.injEq, and_true] at this
    exact ⟨aCoord_inj a0 n0 hinj.1 _ _ this.1, aCoord_inj a1 n1 hinj.2 _ _ this.2⟩
  refine ⟨?_, ?_⟩
  · intro ti tj hti htj
    obtain ⟨k, hk, hkN⟩ := hrange ti tj hti htj
    refine ⟨k, hk, hkN, ?_⟩
    rw [hsum k, isum_single _ (tj : Int)]
    · have : (0 : Int) ≤ tj ∧ (tj : Int) < 0 + n1 := by omega
      simp only [this, and_self, if_true]
      rw [isum_single _ (ti : Int)]
      · have : (0 : Int) ≤ ti ∧ (ti : Int) < 0 + n0 := by omega
        simp only [this, and_self, if_true, hk]
      · intro i _ _ hne
        split
        · rename_i h2; exact absurd (huniq k ti tj i tj hk h2).1 hne
        · rfl
    · intro j _ _ hne
      refine (isum_congr n0 0 ?_).trans (isum_zero n0 0)
      intro i _ _
      split
      · rename_i h2; exact absurd (huniq k ti tj i j hk h2).2 hne
      · rfl
  · intro k hk
    rw [hsum k]
    refine (isum_congr n1 0 ?_).trans (isum_zero n1 0)
    intro j hj0 hj1
    refine (isum_congr n0 0 ?_).trans (isum_zero n0 0)
    intro i hi0 hi1
    split
    · rename_i h2
      have := hk i.toNat j.toNat (by omega) (by omega)
      rw [Int.toNat_of_nonneg hi0, Int.toNat_of_nonneg hj0] at this
      exact absurd h2 this
    · rfl

/-! ## Non-vacuity: a concrete rank-2 block, 2 quadrature points, 2×2 dofs, over ℚ -/

namespace Example

def tab (name : String) (bs off : Int) : TableRef :=
  { name := name, ttype := "varying", ndofs := 2, offset := off, blockSize := bs, isPermuted := false,
    factors := none }

/-- one block `A[2·i + 0][2·j + 1] += fw0 · FE0[0][0][iq][i] · FE1[0][0][iq][j]` of a 4×4 tensor -/
def g₀ : GroupDesc :=
  { rule := { id := "ab12cd34", nweights := 2, factors := none }, custom := false, entityType := "cell",
    diagonal := false, aShape := [4, 4], bmLens := [2, 2],
    blocks := [{ ttypes := ["varying", "varying"],
                 args := [{ table := tab "FE0" 2 0, restriction := .none },
                          { table := tab "FE1" 2 1, restriction := .none }],
                 nFactorComps := 1, factorIndex := 7, allFactorsPiecewise := false, transposed := false,
                 f := .sym "sv_ab12cd34_3" .scalar }] }

def arr (dims : List Nat) (vals : List Rat) : Arr Rat := { dims := dims, data := vals.toArray }

/-- `iq = 1`, `fw0 = 5`, tables `FE0[q][i] = 1+2q+i`, `FE1[q][j] = 10+2q+j`, `A = 0` -/
def σ₀ : St Rat :=
  { iv := [("iq", 1)], sv := [("fw0", 5)],
    sa := [("A", arr [16] (List.replicate 16 0)),
           ("FE0", arr [1, 1, 2, 2] [1, 2, 3, 4]), ("FE1", arr [1, 1, 2, 2] [10, 11, 12, 13])] }

theorem lawful : LawfulExtra (R := Rat) ratExtra := ⟨rfl, rfl, fun _ _ => by simp [ratExtra]⟩

/-- the side conditions hold and the generator succeeds -/
example : regularGroup g₀ = true ∧ coversA g₀ = true ∧ namesOk g₀ {} = true ∧
    injectiveBlocks g₀ = true := by decide

/-- what the generator returns for `g₀` -/
def out₀ : List Stmt × List Stmt × GenState :=
  match genBlockParts g₀ {} with
  | .ok r => r
  | .error _ => ([], [], {})

example : (match genBlockParts g₀ {} with | .ok _ => true | .error _ => false) = true := by decide

example : fwExprs g₀ {} g₀.blocks = [.sym "fw0" .scalar] := by rfl

/-- executing the generated section at `iq = 1` adds `5·FE0[1][i]·FE1[1][j]` to `A[4·(2i) + 2j+1]`
    (`i, j < 2`) and nothing elsewhere — evaluated by the kernel -/
example : (match execL ratExtra out₀.1 σ₀ with
    | .ok σ' => (σ'.sa.get "A").map (·.data.toList)
    | .error _ => none) =
    some [0, 5 * 3 * 12, 0, 5 * 3 * 13, 0, 0, 0, 0, 0, 5 * 4 * 12, 0, 5 * 4 * 13, 0, 0, 0, 0] := by
  decide +kernel

/-- … and `blockSum` (the closed form of `genBlock_spec`) gives the same numbers -/
example : (List.range 16).map (blockSum ratExtra g₀ [.sym "fw0" .scalar] σ₀ 1) =
    [0, 5 * 3 * 12, 0, 5 * 3 * 13, 0, 0, 0, 0, 0, 5 * 4 * 12, 0, 5 * 4 * 13, 0, 0, 0, 0] := by
  decide +kernel

theorem argOk₀ (name : String) (bs off : Int) (vals : List Rat)
    (h : σ₀.sa.get name = some (arr [1, 1, 2, 2] vals)) :
    ArgOk σ₀ "cell" 1 { table := tab name bs off, restriction := .none } := by
  refine Or.inr ⟨.litI 0, 0, 0, arr [1, 1, 2, 2] vals, rfl, rfl, rfl, h, ?_⟩
  intro d hd
  have hp : (tab name bs off).isPiecewise = false := rfl
  simp only [hp, arr]
  match d, hd with
  | 0, _ => rfl
  | 1, _ => rfl
  | n + 2, h => exact absurd h (by simp [tab])

/-- all hypotheses of `genBlock_spec` hold for `g₀`, `σ₀`, `q = 1`: the theorem applies -/
example : ∃ σ', execL ratExtra out₀.1 σ₀ = .ok σ' ∧
    Acc aName (fun n => n ∈ dofNames) (fun _ => False)
      (blockSum ratExtra g₀ (fwExprs g₀ {} g₀.blocks) σ₀ 1) σ₀ σ' := by
  have hgen : genBlockParts g₀ {} = .ok (out₀.1, out₀.2.1, out₀.2.2) := by
    unfold out₀
    cases h : genBlockParts g₀ {} with
    | ok r => rfl
    | error e =>
      have : (match genBlockParts g₀ {} with | .ok _ => true | .error _ => false) = true := by decide
      simp [h] at this
  refine genBlock_spec ratExtra lawful g₀ {} _ _ _ hgen (by decide) (by decide) (by decide) σ₀ 1 rfl
    ⟨arr [16] (List.replicate 16 0), rfl, rfl, rfl, rfl⟩ ?_ ?_
  · intro b hb a ha
    simp only [g₀, List.mem_singleton] at hb
    subst hb
    simp only [List.mem_cons, List.mem_nil_iff, or_false] at ha
    rcases ha with rfl | rfl
    · exact argOk₀ "FE0" 2 0 [1, 2, 3, 4] rfl
    · exact argOk₀ "FE1" 2 1 [10, 11, 12, 13] rfl
  · intro fw hfw
    have : fwExprs g₀ {} g₀.blocks = [.sym "fw0" .scalar] := by rfl
    rw [this] at hfw
    simp only [List.mem_singleton] at hfw
    subst hfw
    decide

end Example

end Ffcx.Codegen
