/-
C18 (descriptor half) — the numba backend's descriptors carry the same metadata as the C backend's.

Model: FfcxModel/Backend/Descriptors.lean (two independent transcriptions per object kind: `C.form` /
`Numba.form`, `C.integral` / `Numba.integral`, `C.expression` / `Numba.expression`, the shared
`integralData`); helper lemmas: FfcxProofs/Lemmas/Descr.lean; tie to the code: harness/descr_checks.py.

FORMS
  form_same_encoding            C.form ir and Numba.form ir fail together or return THE SAME record
                                (NULL exactly where numba has None) — every IR, every `argsort`          [full]
  form_descriptors_agree        … hence `descrEq` (values WRITTEN into the initialisers)                 [full]
  form_table_parallel           form_integrals / form_integral_ids have equal length = last offset;
                                one offset per integral type (+1) — integrals with ANY number of domains [full]
  form_decls_exact              every emitted C array has as many initialisers as its declared size
                                (needs `num_constants = len(constant_ranks)` for the constant tables)    [full]
  formIR_idsFit                 the id / name / domain loop of `_compute_form_ir` (model `formIRIntegrals`, guards of fix 9a772cd
                                included) only lets ids in [−1, 2³¹−1] through and keeps the three lists parallel    [full]
  form_descriptors_agree_compiled   level 2, the struct a consumer READS through cffi (`C.storeForm`: `int`,
                                `uint64_t` members) agrees with the numba class for every FormIR with `idsFit`
                                (guaranteed by construction: `formIR_idsFit`) + `FieldsFit` (rank, counts, positions,
                                constant ranks/extents in int range, hashes < 2⁶⁴: lengths / indices / UFL extents /
                                Basix hashes, not guarded — hypotheses) + fewer than 2³¹ table rows (hypothesis)   [full]
  form_descriptors_partial      the same with the hypotheses stated on the C descriptor (`FitsC`)
  form_descriptors_counterexample   still true of the two GENERATORS on an arbitrary IR: for a subdomain id ≥ 2^31 the
                                C member holds the id modulo 2^32 (negative), the numba attribute the Python integer.
                                Such an IR is no longer produced by FFCx (the finding
                                c18:descriptor:form_integral_ids:int32-overflow, repaired by 9a772cd).
                                The statement WITHOUT `idsFit` (false):
                                ∀ ir, resEq descrEq ((C.form ir).map C.storeForm) (Numba.form ir)
  seeded_m2_detected            the seeded change C18_m2 (ids not repeated per domain) violates
                                `form_descriptors_agree` on a prism-like IR; `seeded_m2_invisible` shows why
                                single-domain forms could not see it
INTEGRALS
  integral_descriptors_agree    every IR, domain, scalar type, platform flag                             [full]
  integral_encoding_differs     empty `enabled_coefficients`: C has NULL, numba `[]` (why `descrEq` compares
                                `Enc.toList`)
  c_integral_slot               the one non-NULL kernel member of `ufcx_integral` is that of the scalar type
EXPRESSIONS
  expression_descriptors_partial   agree whenever the coordinate-element hash is not None
  expression_descriptors_counterexample   with a `None` hash the C text is `UINT64_C(None)` (does not
                                compile) while the numba module carries `None` — unreachable through
                                `_compute_expression_ir` (which stores an int), reported for completeness.
                                FULL STATEMENT (false):  ∀ ir o, resEq descrEq (C.expression ir o) (Numba.expression ir o)
MODULE PRELUDE
  prelude_integral_types_partial / _counterexample   the numba prelude binds cell, exterior_facet,
                                interior_facet like `ufcx_integral_type`, but `vertex` is 60 (not 3) and
                                `ridge` is not bound
  prelude_cell_tags_counterexample   no cell-type name of the prelude has the value of the `domain` attribute

Core Lean only.
-/
import FfcxModel.Backend.Descriptors
import FfcxProofs.Lemmas.Descr

namespace Ffcx.C18Descr
open Ffcx.Backend

instance {δ : Type} (eq : δ → δ → Prop) [∀ a b, Decidable (eq a b)] (r s : Except String δ) :
    Decidable (resEq eq r s) := by
  cases r <;> cases s <;> simp only [resEq] <;> exact inferInstance

theorem formDescrEq_refl (d : FormDescr) : d.descrEq d := by simp [FormDescr.descrEq]

@[simp] theorem toList_ifNonempty {α} (xs : List α) :
    (if xs.length > 0 then Enc.arr xs else Enc.absent).toList = xs := by
  cases xs <;> simp

/-! ## Forms -/

/-- The `constant_shapes` tables: both generators reference an undefined name for the same IRs and
otherwise produce the same rows (NULL where numba has None). -/
theorem constantShapes_agree (ir : FormIR) :
    resEq Eq (C.formConstantShapes ir) (Numba.formConstantShapes ir) := by
  unfold C.formConstantShapes Numba.formConstantShapes
  split
  · refine bind_arr_resEq (mapM_resEq _ _ _ ?_)
    intro p _
    split
    · split
      · split <;> simp [resEq]
      · simp [resEq]
    · simp [resEq]
  · simp [resEq, pure, Except.pure]

/-- **form_same_encoding.** For every FormIR (any number of integral types, ids, domains per integral,
coefficients, constants) and every `argsort`, the two form generators fail together (IndexError in
`integral_data`, reference to an undefined `constant_shapes_…` name) or initialise every descriptor
field with the same value, with `NULL` exactly where the numba class has `None`. -/
theorem form_same_encoding (argsort : List Int → List Nat) (ir : FormIR) :
    resEq Eq (C.form argsort ir) (Numba.form argsort ir) := by
  have hcs := constantShapes_agree ir
  unfold C.form Numba.form
  cases hc : C.formConstantShapes ir <;> cases hn : Numba.formConstantShapes ir <;>
    rw [hc, hn] at hcs <;> simp [resEq] at hcs
  · simp [resEq, bind, Except.bind]
  · subst hcs
    cases hi : integralData argsort ir <;> simp [resEq, bind, Except.bind, pure, Except.pure]

/-- **form_descriptors_agree** (the values written into the initialisers). -/
theorem form_descriptors_agree (argsort : List Int → List Nat) (ir : FormIR) :
    resEq FormDescr.descrEq (C.form argsort ir) (Numba.form argsort ir) :=
  resEq_mono (fun a _ h => h ▸ formDescrEq_refl a) (form_same_encoding argsort ir)

/-- What a successful run of `C.form` used of `integral_data`. -/
theorem cForm_ok (argsort : List Int → List Nat) (ir : FormIR) (c : FormDescr)
    (h : C.form argsort ir = .ok c) :
    ∃ d, integralData argsort ir = .ok d
      ∧ c.formIntegrals = (if d.names.length > 0 then
            .arr ((d.names.zip d.domains).flatMap (fun p => p.2.map (fun domain => p.1 ++ "_" ++ domain.name)))
          else .absent)
      ∧ c.formIntegralIds = (if d.names.length > 0 then
            .arr ((d.ids.zip d.domains).flatMap (fun p => p.2.map (fun _ => p.1))) else .absent)
      ∧ c.formIntegralOffsets = d.offsets.map Int.ofNat := by
  unfold C.form at h
  cases hc : C.formConstantShapes ir with
  | error e => simp [hc, bind, Except.bind] at h
  | ok cs =>
    cases hi : integralData argsort ir with
    | error e => simp [hc, hi, bind, Except.bind] at h
    | ok d =>
      simp [hc, hi, bind, Except.bind, pure, Except.pure] at h
      subst h
      exact ⟨d, rfl, rfl, rfl, rfl⟩

/-- **form_table_parallel.** In the descriptor of every form, `form_integrals` and `form_integral_ids`
are parallel tables whose common length is the last entry of `form_integral_offsets`, and there is one
offset per integral type plus the leading 0 — for integrals with any number of domains.  (By
`form_same_encoding` the same holds for the numba class.) -/
theorem form_table_parallel (argsort : List Int → List Nat) (ir : FormIR) (c : FormDescr)
    (h : C.form argsort ir = .ok c) :
    c.formIntegralIds.toList.length = c.formIntegrals.toList.length
    ∧ c.formIntegralOffsets.getLast? = some (c.formIntegrals.toList.length : Int)
    ∧ c.formIntegralOffsets.length = ir.integrals.length + 1 := by
  obtain ⟨d, hd, h1, h2, h3⟩ := cForm_ok argsort ir c h
  have al := integralData_aligned argsort ir d hd
  have ol := integralData_offsets_length argsort ir d hd
  have e1 := flatMap_zip_length d.names d.domains (fun n domain => n ++ "_" ++ domain.name)
    (by rw [al.names, al.domains])
  have e2 := flatMap_zip_length d.ids d.domains (fun i _ => i) al.domains.symm
  have hlast : d.offsets.getLast? = some ((d.domains.map List.length).sum) := by
    have := al.last
    cases hl : d.offsets.getLast? with
    | none => exact absurd (List.getLast?_eq_none_iff.mp hl) al.len
    | some v => rw [hl] at this; simp at this; rw [this]
  rw [h1, h2, h3]
  by_cases hn : d.names.length > 0
  · simp only [hn, if_true, Enc.toList_arr]
    refine ⟨by rw [e1, e2], ?_, by simp [ol]⟩
    rw [List.getLast?_map, hlast, e1]; rfl
  · have hz : d.names.length = 0 := by omega
    have hdz : d.domains = [] := by
      have : d.domains.length = 0 := by rw [al.domains, ← al.names, hz]
      exact List.eq_nil_of_length_eq_zero this
    simp only [hn, if_false, Enc.toList_absent]
    refine ⟨rfl, ?_, by simp [ol]⟩
    rw [List.getLast?_map, hlast, hdz]; rfl

/-- The consistency of the redundant constant fields of a FormIR that `_compute_form_ir` establishes by
construction (`num_constants = len(constants)`, `constant_ranks = [len(c.ufl_shape) …]`). -/
def _root_.Ffcx.Backend.FormIR.ConstantsConsistent (ir : FormIR) : Prop :=
  ir.numConstants = ir.constantRanks.length

instance (ir : FormIR) : Decidable ir.ConstantsConsistent := by
  unfold FormIR.ConstantsConsistent; exact inferInstance

/-- **form_decls_exact.** Every array definition emitted by `C/form.py` has exactly as many initialisers
as its declared size (so no member is zero-padded and no initialiser is excess) — in particular
`form_integrals[sizes]` / `form_integral_ids[sizes]` with `sizes = Σ len(domains)`. -/
theorem form_decls_exact (argsort : List Int → List Nat) (ir : FormIR) (ds : List ArrayDecl)
    (hc : ir.ConstantsConsistent) (h : C.formDecls argsort ir = .ok ds) :
    ∀ d ∈ ds, d.size = d.count := by
  unfold C.formDecls at h
  cases hi : integralData argsort ir with
  | error e => simp [hi, bind, Except.bind] at h
  | ok idata =>
    have al := integralData_aligned argsort ir idata hi
    have e1 := flatMap_zip_length idata.names idata.domains (fun n _ => n) (by rw [al.names, al.domains])
    have e2 := flatMap_zip_length idata.ids idata.domains (fun i _ => i) al.domains.symm
    simp only [hi, bind, Except.bind, pure, Except.pure, Except.ok.injEq] at h
    subst h
    intro d hd
    simp only [List.mem_append] at hd
    have hc' : ir.numConstants = ir.constantRanks.length := hc
    have hzip : (ir.constantRanks.zip (List.range ir.numConstants.toNat)).length = ir.constantRanks.length := by
      simp [hc']
    rcases hd with ((((((hd | hd) | hd) | hd) | hd) | hd) | hd)
    · split at hd <;> simp at hd; subst hd; rfl
    · split at hd <;> simp at hd; subst hd; rfl
    · simp at hd; subst hd; rfl
    · split at hd
      · simp only [List.mem_cons, List.not_mem_nil, or_false] at hd
        rcases hd with hd | hd <;> subst hd
        · exact congrArg Int.ofNat e1.symm
        · exact congrArg Int.ofNat e2.symm
      · simp at hd
    · split at hd <;> simp at hd; subst hd; rfl
    · split at hd <;> simp at hd; subst hd; rfl
    · split at hd
      · simp only [List.mem_append, List.mem_singleton, List.mem_map, List.mem_filter] at hd
        rcases hd with (hd | ⟨p, _, hd⟩) | hd
        · subst hd; exact hc'
        · subst hd; rfl
        · subst hd; show ir.numConstants = ((_ : Nat) : Int); rw [hzip]; exact hc'
      · simp at hd

/-! ### Level 2: the compiled struct -/

/-- Every value written into an `int` / `uint64_t` member of `ufcx_form` (or into an array it points
to) is representable. -/
structure FitsC (d : FormDescr) : Prop where
  rank : FitsInt32 d.rank
  numCoefficients : FitsInt32 d.numCoefficients
  numConstants : FitsInt32 d.numConstants
  positions : ∀ x ∈ d.originalCoefficientPositions.toList, FitsInt32 x
  ranks : ∀ x ∈ d.constantRanks.toList, FitsInt32 x
  shapes : ∀ s ∈ d.constantShapes.toList, ∀ x ∈ s.toList, FitsInt32 x
  hashes : ∀ x ∈ d.finiteElementHashes.toList, x < 18446744073709551616
  ids : ∀ x ∈ d.formIntegralIds.toList, FitsInt32 x
  offsets : ∀ x ∈ d.formIntegralOffsets, FitsInt32 x

theorem storeForm_id (d : FormDescr) (h : FitsC d) : C.storeForm d = d := by
  have w := fun x (hx : FitsInt32 x) => wrap32_id x hx
  cases d
  simp only [C.storeForm, FormDescr.mk.injEq, true_and]
  refine ⟨w _ h.rank, w _ h.numCoefficients, Enc.map_id_of_forall _ _ (fun x hx => w x (h.positions x hx)),
    w _ h.numConstants, Enc.map_id_of_forall _ _ (fun x hx => w x (h.ranks x hx)),
    Enc.map_id_of_forall _ _ (fun s hs => Enc.map_id_of_forall _ _ (fun x hx => w x (h.shapes s hs x hx))),
    Enc.map_id_of_forall _ _ (fun x hx => wrap64_id x (h.hashes x hx)),
    Enc.map_id_of_forall _ _ (fun x hx => w x (h.ids x hx)),
    List.map_eq_self_of_forall _ _ (fun x hx => w x (h.offsets x hx))⟩

/-- **form_descriptors_partial** (level 2). If the C generator succeeds and every written value fits
its member, the struct a consumer reads agrees with the numba class.
FULL STATEMENT (false, see `form_descriptors_counterexample`):
`∀ argsort ir, resEq FormDescr.descrEq ((C.form argsort ir).map C.storeForm) (Numba.form argsort ir)`. -/
theorem form_descriptors_partial (argsort : List Int → List Nat) (ir : FormIR) (c : FormDescr)
    (h : C.form argsort ir = .ok c) (hfit : FitsC c) :
    ∃ n, Numba.form argsort ir = .ok n ∧ (C.storeForm c).descrEq n := by
  obtain ⟨n, hn, he⟩ := resEq_ok_left (form_descriptors_agree argsort ir) h
  exact ⟨n, hn, by rw [storeForm_id c hfit]; exact he⟩

/-! ### Concrete IRs (non-vacuity, witnesses) -/

def tri : Domain := ⟨"triangle", 2⟩
def quad : Domain := ⟨"quadrilateral", 4⟩

/-- A prism-like form: cell integrals with ids 2 and 1 (to be sorted), an exterior-facet integral with
ids (5, otherwise) whose kernel exists for TWO facet types, no interior-facet/vertex/ridge integrals;
two coefficients, a scalar and a 2×3 constant, one non-Basix element. -/
def exIR : FormIR :=
  { name := "form_a", nameFromUflfile := "form_x_a", signature := "sig", rank := 1, numCoefficients := 2,
    originalCoefficientPositions := [0, 2], coefficientNames := ["f", "g"],
    numConstants := 2, constantRanks := [0, 2], constantShapes := [[], [2, 3]], constantNames := ["c", "K"],
    finiteElementHashes := [some 11, none, some 13],
    integrals := [
      { ids := [2, 1], names := ["itg_c2", "itg_c1"], domains := [[⟨"prism", 6⟩], [⟨"prism", 6⟩]] },
      { ids := [5, -1], names := ["itg_f", "itg_f"], domains := [[tri, quad], [tri, quad]] },
      { ids := [], names := [], domains := [] },
      { ids := [], names := [], domains := [] },
      { ids := [], names := [], domains := [] }] }

/-- the descriptor both generators produce for `exIR` -/
def exDescr : FormDescr :=
  { factoryName := "form_a", nameFromUflfile := "form_x_a", signature := "sig", rank := 1, numCoefficients := 2,
    originalCoefficientPositions := .arr [0, 2], coefficientNameMap := .arr ["f", "g"],
    numConstants := 2, constantRanks := .arr [0, 2], constantShapes := .arr [.absent, .arr [2, 3]],
    constantNameMap := .arr ["c", "K"], finiteElementHashes := .arr [11, 0, 13],
    formIntegrals := .arr ["itg_c1_prism", "itg_c2_prism", "itg_f_triangle", "itg_f_quadrilateral",
                           "itg_f_triangle", "itg_f_quadrilateral"],
    formIntegralIds := .arr [1, 2, -1, -1, 5, 5],
    formIntegralOffsets := [0, 2, 6, 6, 6, 6] }

example : C.form argsortIns exIR = .ok exDescr := by decide
example : Numba.form argsortIns exIR = .ok exDescr := by decide
example : FitsC exDescr := by
  constructor <;> decide
example : exIR.ConstantsConsistent := by decide
example : (C.formDecls argsortIns exIR).map (fun ds => ds.map (fun d => (d.size, d.count)))
    = .ok [(2, 2), (3, 3), (6, 6), (6, 6), (6, 6), (2, 2), (2, 2), (2, 2), (2, 2), (2, 2)] := by decide

/-- a form with an empty table: `NULL`/`None` everywhere, offsets all 0 -/
def emptyIR : FormIR :=
  { name := "form_e", nameFromUflfile := "form_x_e", signature := "", rank := 0, numCoefficients := 0,
    originalCoefficientPositions := [], coefficientNames := [], numConstants := 0, constantRanks := [],
    constantShapes := [], constantNames := [], finiteElementHashes := [],
    integrals := [⟨[], [], []⟩, ⟨[], [], []⟩] }

example : C.form argsortIns emptyIR = .ok
    { factoryName := "form_e", nameFromUflfile := "form_x_e", signature := "", rank := 0, numCoefficients := 0,
      originalCoefficientPositions := .absent, coefficientNameMap := .absent, numConstants := 0,
      constantRanks := .absent, constantShapes := .absent, constantNameMap := .absent,
      finiteElementHashes := .absent, formIntegrals := .absent, formIntegralIds := .absent,
      formIntegralOffsets := [0, 0, 0] } := by decide

/-- both generators fail together: names shorter than ids (IndexError in `integral_data`), and a constant
of rank 1 whose shape is empty (undefined `constant_shapes_…` name) -/
def badNamesIR : FormIR := { emptyIR with integrals := [⟨[1], [], [[tri]]⟩] }
def badShapeIR : FormIR := { emptyIR with numConstants := 1, constantRanks := [1], constantShapes := [[]] }

example : (C.form argsortIns badNamesIR).toBool = false ∧ (Numba.form argsortIns badNamesIR).toBool = false
    ∧ (C.form argsortIns badShapeIR).toBool = false ∧ (Numba.form argsortIns badShapeIR).toBool = false := by
  decide

/-- the witness of `form_descriptors_counterexample`: `v*dx(3) + v*dx(2**31 + 5)` on a triangle -/
def bigIdIR : FormIR :=
  { emptyIR with
    rank := 1
    integrals := [⟨[3, 2147483653], ["itg_a", "itg_b"], [[tri], [tri]]⟩, ⟨[], [], []⟩, ⟨[], [], []⟩,
                  ⟨[], [], []⟩, ⟨[], [], []⟩] }

/-- **form_descriptors_counterexample** (level 2). For the subdomain ids `(3, 2^31 + 5)` the compiled
`ufcx_form` holds `form_integral_ids = {3, -2147483643}` while the numba class holds
`[3, 2147483653]`: the struct read through cffi and the numba attribute differ (and the C ids are
not even ascending any more). -/
theorem form_descriptors_counterexample :
    (C.form argsortIns bigIdIR).map (fun c => (C.storeForm c).formIntegralIds) = .ok (.arr [3, -2147483643])
    ∧ (Numba.form argsortIns bigIdIR).map (·.formIntegralIds) = .ok (.arr [3, 2147483653])
    ∧ ¬ resEq FormDescr.descrEq ((C.form argsortIns bigIdIR).map C.storeForm) (Numba.form argsortIns bigIdIR) := by
  decide

/-- … although the values WRITTEN agree (`form_descriptors_agree`): the divergence is the C conversion. -/
example : resEq FormDescr.descrEq (C.form argsortIns bigIdIR) (Numba.form argsortIns bigIdIR) :=
  form_descriptors_agree _ _

/-! ### The compiled struct under the guards of `_compute_form_ir` -/

/-- rows of the `constant_shapes` table come from `ir.constant_shapes` -/
theorem cConstantShapes_mem (ir : FormIR) (cs : Enc (Enc Int)) (h : C.formConstantShapes ir = .ok cs) :
    ∀ s ∈ cs.toList, ∀ x ∈ s.toList, ∃ sh ∈ ir.constantShapes, x ∈ sh := by
  unfold C.formConstantShapes at h
  split at h
  · obtain ⟨rows, hm, rfl⟩ := bind_arr_ok h
    refine mapM_ok_forall _ (fun (s : Enc Int) => ∀ x ∈ s.toList, ∃ sh ∈ ir.constantShapes, x ∈ sh) _ rows hm ?_
    intro p _ y hy
    split at hy
    · split at hy
      · rename_i shape hsh
        split at hy
        · simp at hy; subst hy
          intro x hx
          exact ⟨shape, List.mem_of_getElem? hsh, hx⟩
        · simp at hy
      · simp at hy
    · simp at hy; subst hy; simp
  · simp [pure, Except.pure] at h; subst h; simp

/-- the fields of a successful `C.form` in terms of the IR and of `integral_data` -/
theorem cForm_fields (argsort : List Int → List Nat) (ir : FormIR) (c : FormDescr)
    (h : C.form argsort ir = .ok c) :
    ∃ cs d, C.formConstantShapes ir = .ok cs ∧ integralData argsort ir = .ok d
      ∧ c.rank = ir.rank ∧ c.numCoefficients = ir.numCoefficients ∧ c.numConstants = ir.numConstants
      ∧ c.originalCoefficientPositions.toList = ir.originalCoefficientPositions
      ∧ (∀ x ∈ c.constantRanks.toList, x ∈ ir.constantRanks)
      ∧ c.constantShapes = cs
      ∧ (∀ x ∈ c.finiteElementHashes.toList, x = 0 ∨ some x ∈ ir.finiteElementHashes)
      ∧ (∀ x ∈ c.formIntegralIds.toList, x ∈ d.ids)
      ∧ c.formIntegralOffsets = d.offsets.map Int.ofNat := by
  unfold C.form at h
  cases hc : C.formConstantShapes ir with
  | error e => simp [hc, bind, Except.bind] at h
  | ok cs =>
    cases hi : integralData argsort ir with
    | error e => simp [hc, hi, bind, Except.bind] at h
    | ok d =>
      simp [hc, hi, bind, Except.bind, pure, Except.pure] at h
      subst h
      refine ⟨cs, d, rfl, rfl, rfl, rfl, rfl, ?pos, ?ranks, rfl, ?hashes, ?ids, rfl⟩
      case pos => rcases ir.originalCoefficientPositions with _ | ⟨a, l⟩ <;> simp
      case hashes =>
        intro x hx
        by_cases hk : 0 < ir.finiteElementHashes.length
        · simp only [hk, if_true, Enc.toList_arr, List.mem_map] at hx
          obtain ⟨el, hel, rfl⟩ := hx
          cases el with
          | none => exact .inl rfl
          | some v => exact .inr hel
        · simp [hk] at hx
      case ranks =>
        intro x hx
        by_cases hk : 0 < ir.numConstants
        · simpa [hk] using hx
        · simp [hk] at hx
      case ids =>
        intro x hx
        by_cases hk : 0 < d.names.length
        · simp only [hk, if_true, Enc.toList_arr, List.mem_flatMap, List.mem_map] at hx
          obtain ⟨p, hp, _, _, rfl⟩ := hx
          exact (List.of_mem_zip hp).1
        · simp [hk] at hx

theorem idFits_int32 {i : Int} (h : idFits i) : FitsInt32 i := by
  unfold idFits at h; unfold FitsInt32; omega

/-- Under the guard on the ids and the representability of the other written fields, every value
`C/form.py` writes fits the member it is written to. -/
theorem cForm_fitsC (argsort : List Int → List Nat) (ir : FormIR) (c : FormDescr)
    (h : C.form argsort ir = .ok c) (hids : idsFit ir) (hf : ir.FieldsFit)
    (hrows : ∀ d, integralData argsort ir = .ok d → (d.domains.map List.length).sum < 2147483648) :
    FitsC c := by
  obtain ⟨cs, d, hcs, hd, e1, e2, e3, e4, e5, e6, e7, e8, e9⟩ := cForm_fields argsort ir c h
  refine ⟨e1 ▸ hf.rank, e2 ▸ hf.numCoefficients, e3 ▸ hf.numConstants, ?_, ?_, ?_, ?_, ?_, ?_⟩
  · rw [e4]; exact hf.positions
  · exact fun x hx => hf.ranks x (e5 x hx)
  · rw [e6]
    intro s hs x hx
    obtain ⟨sh, hsh, hxs⟩ := cConstantShapes_mem ir cs hcs s hs x hx
    exact hf.shapes sh hsh x hxs
  · intro x hx
    rcases e7 x hx with rfl | hel
    · simp
    · exact hf.hashes _ hel x rfl
  · intro x hx
    obtain ⟨t, ht, hxt⟩ := integralData_ids_mem argsort ir d hd x (e8 x hx)
    exact idFits_int32 (hids t ht x hxt)
  · rw [e9]
    intro x hx
    simp only [List.mem_map] at hx
    obtain ⟨n, hn, rfl⟩ := hx
    have hle := integralData_offsets_le_last argsort ir d hd n hn
    have hlast := (integralData_aligned argsort ir d hd).last
    have := hrows d hd
    unfold FitsInt32
    simp only [Int.ofNat_eq_natCast]
    omega

/-- **form_descriptors_agree_compiled.** For every FormIR whose subdomain ids passed the guards of
`_compute_form_ir` (`idsFit`: −1 ≤ id ≤ 2³¹−1, see `formIR_idsFit`), whose other written fields are
representable (`FieldsFit`) and whose kernel table has fewer than 2³¹ rows, the two generators fail
together or the COMPILED `ufcx_form` (members of type `int` / `uint64_t`, `C.storeForm`) carries the
same metadata as the numba class.  Every `argsort`. -/
theorem form_descriptors_agree_compiled (argsort : List Int → List Nat) (ir : FormIR)
    (hids : idsFit ir) (hf : ir.FieldsFit)
    (hrows : ∀ d, integralData argsort ir = .ok d → (d.domains.map List.length).sum < 2147483648) :
    resEq FormDescr.descrEq ((C.form argsort ir).map C.storeForm) (Numba.form argsort ir) := by
  have hw := form_descriptors_agree argsort ir
  cases hC : C.form argsort ir with
  | error e =>
    rw [hC] at hw
    cases hN : Numba.form argsort ir <;> rw [hN] at hw <;> simp_all [resEq, Except.map]
  | ok c =>
    obtain ⟨n, hn, he⟩ := form_descriptors_partial argsort ir c hC (cForm_fitsC argsort ir c hC hids hf hrows)
    rw [hn]
    simpa [resEq, Except.map] using he

/-- **formIR_idsFit.** What makes `idsFit` a guarantee and not an assumption: the id / name / domain lists
that the loop of `_compute_form_ir` builds — when it does not raise — contain only ids in
[−1, 2³¹−1] (−1 only for 'otherwise'), and the three lists of every type have equal length. -/
theorem formIR_idsFit (ntypes : Nat) (itgs : List ItgData) (gs : List TypeIntegrals)
    (h : formIRIntegrals ntypes itgs = .ok gs) (ir : FormIR) (hir : ir.integrals = gs) :
    idsFit ir ∧ ∀ t ∈ ir.integrals, t.names.length = t.ids.length ∧ t.domains.length = t.ids.length := by
  have := formIRIntegrals_ok ntypes itgs gs h
  subst hir
  exact ⟨fun t ht => (this t ht).1, fun t ht => (this t ht).2⟩

/-- the guards: an id above 2³¹−1 or below 0 is rejected, the boundary values pass -/
theorem formIR_guard_examples :
    (formIRIntegrals 5 [⟨0, [.num 3, .num 2147483648], "a", [tri]⟩]).toBool = false
    ∧ (formIRIntegrals 5 [⟨0, [.num (-1)], "a", [tri]⟩]).toBool = false
    ∧ formIRIntegrals 5 [⟨1, [.num 2147483647, .otherwise], "a", [tri, quad]⟩, ⟨0, [.num 0], "b", [tri]⟩]
        = .ok [⟨[0], ["b"], [[tri]]⟩, ⟨[2147483647, -1], ["a", "a"], [[tri, quad], [tri, quad]]⟩,
               ⟨[], [], []⟩, ⟨[], [], []⟩, ⟨[], [], []⟩] := by decide

/-- non-vacuity of `form_descriptors_agree_compiled`: the prism-like IR satisfies every hypothesis -/
example : idsFit exIR ∧ exIR.fieldsFitB = true := by decide
example : exIR.FieldsFit := by constructor <;> decide
/-- … and the former counterexample IR is exactly what `idsFit` excludes -/
example : ¬ idsFit bigIdIR := by decide

/-- **seeded_m2_detected.** The seeded change C18_m2 (numba `form_integral_ids` not repeated per domain)
violates the agreement statement on the prism-like IR … -/
theorem seeded_m2_detected :
    ¬ resEq FormDescr.descrEq (C.form argsortIns exIR) (Numba.formSeededM2 argsortIns exIR) := by decide

/-- … and is invisible on an IR whose integrals all have one domain (what the corpus had). -/
theorem seeded_m2_invisible :
    resEq FormDescr.descrEq (C.form argsortIns bigIdIR) (Numba.formSeededM2 argsortIns bigIdIR) := by decide

/-! ## Integrals -/

/-- **integral_descriptors_agree.** For every IntegralIR, domain, scalar type and platform flag the two
integral generators fail together (`assert … is not None`) or describe the same integral: same name,
same enabled-coefficient flags, same permutation flag, hash and domain tag, and the same single callable
kernel. -/
theorem integral_descriptors_agree (ir : IntegralIR) (domain : Domain) (o : Options) :
    resEq IntegralDescr.descrEq (C.integral ir domain o) (Numba.integral ir domain o) := by
  unfold C.integral Numba.integral
  rcases o with ⟨st, w⟩
  cases ir.coordinateElementHash with
  | none => simp [resEq]
  | some h =>
    cases st <;> cases w <;>
      simp [resEq, IntegralDescr.descrEq, IntegralDescr.fnNames, C.integralSlot, ScalarType.npName,
        pure, Except.pure]

/-- **c_integral_slot.** In `ufcx_integral` exactly the member of the scalar type points to the kernel;
the others are NULL (or not emitted on win32). -/
theorem c_integral_slot (ir : IntegralIR) (domain : Domain) (o : Options) (c : IntegralDescr)
    (h : C.integral ir domain o = .ok c) :
    c.kernels.lookup ("tabulate_tensor_" ++ o.scalarType.npName)
        = some (.fn ("tabulate_tensor_" ++ ir.name ++ "_" ++ domain.name))
    ∧ ∀ p ∈ c.kernels, p.1 ≠ "tabulate_tensor_" ++ o.scalarType.npName → p.2 = .null ∨ p.2 = .omitted := by
  unfold C.integral at h
  rcases o with ⟨st, w⟩
  cases hh : ir.coordinateElementHash with
  | none => simp [hh] at h
  | some v =>
    simp [hh, pure, Except.pure] at h
    subst h
    cases st <;> cases w <;>
      simp [C.integralSlot, ScalarType.npName, List.lookup, String.append_assoc]

/-- **integral_encoding_differs.** The encodings are NOT identical: without coefficients the C member
is `NULL`, the numba attribute `[]` — `descrEq` (through `Enc.toList`) identifies them. -/
theorem integral_encoding_differs :
    (C.integral ⟨"itg", [], false, some 7⟩ tri ⟨.float64, false⟩).map (·.enabledCoefficients) = .ok .absent
    ∧ (Numba.integral ⟨"itg", [], false, some 7⟩ tri ⟨.float64, false⟩).map (·.enabledCoefficients) = .ok (.arr []) := by
  decide

example : C.integral ⟨"itg", [true, false, true], true, some 7⟩ quad ⟨.complex64, false⟩ = .ok
    { factoryName := "itg_quadrilateral", enabledCoefficients := .arr [true, false, true],
      needsFacetPermutations := true, coordinateElementHash := 7, domain := 4,
      kernels := [("tabulate_tensor_float32", .null), ("tabulate_tensor_float64", .null),
                  ("tabulate_tensor_complex64", .fn "tabulate_tensor_itg_quadrilateral"),
                  ("tabulate_tensor_complex128", .null)] } := by decide

example : Numba.integral ⟨"itg", [true, false, true], true, some 7⟩ quad ⟨.complex64, false⟩ = .ok
    { factoryName := "itg_quadrilateral", enabledCoefficients := .arr [true, false, true],
      needsFacetPermutations := true, coordinateElementHash := 7, domain := 4,
      kernels := [("tabulate_tensor", .fn "tabulate_tensor_itg_quadrilateral")] } := by decide

/-! ## Expressions -/

/-- **expression_descriptors_partial.** For every ExpressionIR whose coordinate-element hash is an
integer, and every scalar type, the two expression generators fail together (not exactly one
quadrature rule) or describe the same expression.
FULL STATEMENT (false, see `expression_descriptors_counterexample`):
`∀ ir o, resEq ExprDescr.descrEq (C.expression ir o) (Numba.expression ir o)`. -/
theorem expression_descriptors_partial (ir : ExpressionIR) (o : Options)
    (hh : ir.coordinateElementHash ≠ none) :
    resEq ExprDescr.descrEq (C.expression ir o) (Numba.expression ir o) := by
  unfold C.expression Numba.expression
  rcases o with ⟨st, w⟩
  cases hhash : ir.coordinateElementHash with
  | none => exact absurd hhash hh
  | some h =>
    match hp : ir.integrandPoints with
    | [] => simp [resEq, bind, Except.bind]
    | [p] =>
      cases st <;>
        simp [resEq, ExprDescr.descrEq, ExprDescr.fnNames, ScalarType.npName, bind, Except.bind,
          pure, Except.pure]
    | _ :: _ :: _ => simp [resEq, bind, Except.bind]

def exExprIR : ExpressionIR :=
  { name := "expression_1", nameFromUflfile := "expression_x_e", integrandPoints := [⟨2, 2, ["0.0", "0.5", "1.0", "0.25"]⟩],
    originalCoefficientPositions := [1, 0], shape := [2, 2], numCoefficientNumbering := 2,
    coefficientNames := ["g", "f"], constantNames := [], tensorShape := [6], coordinateElementHash := some 99 }

example : C.expression exExprIR ⟨.float32, false⟩ = .ok
    { factoryName := "expression_1", nameFromUflfile := "expression_x_e",
      kernels := [("tabulate_tensor_float32", .fn "tabulate_tensor_expression_1"), ("tabulate_tensor_float64", .null),
                  ("tabulate_tensor_complex64", .null), ("tabulate_tensor_complex128", .null)],
      numCoefficients := 2, numConstants := 0, originalCoefficientPositions := .arr [1, 0],
      coefficientNames := .arr ["g", "f"], constantNames := .absent, numPoints := 2, entityDimension := 2,
      points := .arr ["0.0", "0.5", "1.0", "0.25"], valueShape := .arr [2, 2], numComponents := 2, rank := 1,
      coordinateElementHash := some 99 } := by decide

example : Numba.expression exExprIR ⟨.float32, false⟩ = .ok
    { factoryName := "expression_1", nameFromUflfile := "expression_x_e",
      kernels := [("tabulate_tensor", .fn "tabulate_tensor_expression_1")],
      numCoefficients := 2, numConstants := 0, originalCoefficientPositions := .arr [1, 0],
      coefficientNames := .arr ["g", "f"], constantNames := .arr [], numPoints := 2, entityDimension := 2,
      points := .arr ["0.0", "0.5", "1.0", "0.25"], valueShape := .arr [2, 2], numComponents := 2, rank := 1,
      coordinateElementHash := some 99 } := by decide

/-- **expression_descriptors_counterexample.** With a `None` hash the numba generator emits a module
whose class carries `None`, while the C generator emits `UINT64_C(None)` (no descriptor: the text does
not compile).  `_compute_expression_ir` never stores `None` here, so this is an asymmetry of the two
generators on IRs the pipeline does not produce (the integral generators both `assert`). -/
theorem expression_descriptors_counterexample :
    ¬ resEq ExprDescr.descrEq (C.expression { exExprIR with coordinateElementHash := none } ⟨.float64, false⟩)
        (Numba.expression { exExprIR with coordinateElementHash := none } ⟨.float64, false⟩) := by decide

/-! ## Module prelude of the numba file -/

/-- **prelude_integral_types_partial.** `cell`, `exterior_facet`, `interior_facet` are bound to the values
of `enum ufcx_integral_type` … -/
theorem prelude_integral_types_partial :
    ∀ n ∈ ["cell", "exterior_facet", "interior_facet"],
      Numba.preludeConstants.lookup n = C.integralTypeEnum.lookup n := by decide

/-- **prelude_integral_types_counterexample.** … but the name `vertex` is bound to 60 (a value of the
retired `ufcx_shape` enum) where `ufcx_integral_type` has 3, and `ridge` is not bound at all, although
`form_integral_offsets` has an entry for each of the five types.
FULL STATEMENT (false): `∀ n ∈ C.integralTypeEnum.map (·.1), Numba.preludeConstants.lookup n = C.integralTypeEnum.lookup n`. -/
theorem prelude_integral_types_counterexample :
    Numba.preludeConstants.lookup "vertex" = some 60 ∧ C.integralTypeEnum.lookup "vertex" = some 3
    ∧ Numba.preludeConstants.lookup "ridge" = none ∧ C.integralTypeEnum.lookup "ridge" = some 4 := by decide

/-- **prelude_cell_tags_counterexample.** None of the cell-type names bound by the prelude has the value
the `domain` attribute of the module's own integral classes carries (`int(basix.CellType)`). -/
theorem prelude_cell_tags_counterexample :
    ∀ p ∈ C.cellTypeTags, ∀ v, Numba.preludeConstants.lookup p.1 = some v → v ≠ p.2 := by decide

end Ffcx.C18Descr
