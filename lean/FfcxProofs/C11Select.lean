/-
C11 — which quadrature rule does every integral get (selection), and how are the integrals of one
subdomain grouped by rule.  Theorems about the transcription `FfcxModel/Quadrature/Select.lean` of
`_analyze_form` + `_group_integrands_by_quadrature_rule` (as repaired by c4a6950 and 605b08f), over ALL inputs
(any number of integrals, any metadata, any elements, any options).  `Rel2 P g.integrals outs` reads "for every
integral `it` of the group and its output `out`: `P it out`".

Honoured:      explicit_degree_honoured, default_degree_is_estimate, scheme_honoured,
               custom_only_from_own_elements, custom_overrides (always under the integration cell),
               vertex_scheme_entity (every position of every group), vertex_integral_point_rule,
               rule_lives_on_entity(_prism)
Grouping:      grouping_partition, grouping_same_iff, grouping_perm, summed_sum, summed_tags,
               summed_rule_tensor_iff_all (a merged rule is sum factorised iff ALL its members are)
Order:         selection_independent_of_order, selection_perm (ALL integral types),
               tensor_flag_order_independent
Regressions:   regression_shared_cell_type (c4a6950), regression_vertex_scheme_on_vertex_integral (605b08f),
               regression_merged_tensor_flag (556c39a): the inputs on which the code used to depend on the order
               / use the wrong entity
Rejections:    rejections (every error branch is reachable), rejects_vertex_discontinuous
-/
import FfcxProofs.Lemmas.QuadSelBase
import FfcxProofs.C11

namespace Ffcx.QuadSel

deriving instance DecidableEq for Except

/-- the degree a rule was built with, where the rule has one -/
def Rule.degree? : Rule → Option Nat
  | .basix _ _ d _ => some d
  | .tensor _ _ d _ => some d
  | _ => none

/-- the Basix quadrature type a rule was built with, where it has one -/
def Rule.qtype? : Rule → Option QType
  | .basix _ qt _ _ => some qt
  | .tensor _ qt _ _ => some qt
  | _ => none

def Rule.isCustom : Rule → Bool
  | .custom _ _ => true
  | _ => false

/-- the reference cell a rule's points live in (`none`: arrays of a quadrature element) -/
def Rule.cell? : Rule → Option Cell
  | .basix c _ _ _ => some c
  | .tensor n _ _ _ => if n = 2 then some .quadrilateral else if n = 3 then some .hexahedron else none
  | .vertexScheme c => some c
  | .point => some .point
  | .custom _ _ => none

/-! ## one step, by kind of request -/

theorem createRules_spec (it : IType) (c : Cell) (fs rs : List Cell) (d : Int) (s : String) (ps : List Polyset)
    (tp : Bool) (sels : List Sel) (h : createRules it c fs rs d s ps tp = .ok sels) :
    ∀ x ∈ sels, x.rule = .point ∨
      (∃ qt, stringToType s = some qt ∧ 0 ≤ d ∧ x.rule.qtype? = some qt ∧ x.rule.degree? = some d.toNat) := by
  have hq : ∀ (c' : Cell) (r : Rule), createQuadrature c' d s ps = .ok r → r = .point ∨
      (∃ qt, stringToType s = some qt ∧ 0 ≤ d ∧ r.qtype? = some qt ∧ r.degree? = some d.toNat) := by
    intro c' r hr
    rcases createQuadrature_spec c' d s ps r hr with ⟨_, h2⟩ | ⟨_, qt, h1, h2, _, h4⟩
    · exact .inl h2
    · subst h4; exact .inr ⟨qt, h1, h2, rfl, rfl⟩
  unfold createRules at h
  split at h
  · split at h
    · split at h
      · cases h
      · rename_i qt d' ps' hr
        cases h
        intro x hx
        simp only [List.mem_singleton] at hx
        subst hx
        rcases hq _ _ hr with h' | ⟨qt', h1, h2, h3, h4⟩
        · cases h'
        · right
          simp only [Rule.qtype?, Rule.degree?] at h3 h4 ⊢
          exact ⟨qt', h1, h2, h3, h4⟩
      · rename_i r hr' hr
        cases h
        intro x hx
        simp only [List.mem_singleton] at hx
        subst hx
        exact hq _ _ hr
    · split at h
      · cases h
      · rename_i r hr
        cases h
        intro x hx
        simp only [List.mem_singleton] at hx
        subst hx
        exact hq _ _ hr
  · intro x hx
    exact hq _ _ ((createEach_cells d s ps fs sels h).2 x hx)
  · intro x hx
    exact hq _ _ ((createEach_cells d s ps fs sels h).2 x hx)
  · intro x hx
    exact hq _ _ ((createEach_cells d s ps rs sels h).2 x hx)
  · cases h
    intro x hx
    simp only [List.mem_singleton] at hx
    subst hx
    exact .inl rfl

/-- the `vertex` branch is taken: scheme "vertex" on anything but a vertex integral -/
def VertexBranch (g : GroupIn) (s : String) : Prop := s = "vertex" ∧ g.itype ≠ .vertex

/-- one step for a standard (non-custom) request -/
theorem selectStep_std (o : Options) (g : GroupIn) (it : IntegralIn) (d : Int) (s : String)
    (sels : List Sel) (h : selectStep o g it (.std d s) = .ok sels) :
    s ≠ "custom" ∧
    (VertexBranch g s → ∃ c, sels = [⟨c, .vertexScheme c⟩]) ∧
    (¬ VertexBranch g s → ∀ x ∈ sels, x.rule = .point ∨
      (∃ qt, stringToType s = some qt ∧ 0 ≤ d ∧ x.rule.qtype? = some qt ∧ x.rule.degree? = some d.toNat)) := by
  unfold selectStep at h
  simp only at h
  split at h
  · cases h
  · rename_i hc
    have hc' : s ≠ "custom" := by simpa using hc
    refine ⟨hc', ?_⟩
    split at h
    · rename_i hv
      have hv' : VertexBranch g s := by simpa [VertexBranch] using hv
      refine ⟨fun _ => ?_, fun hn => absurd hv' hn⟩
      unfold selectVertex at h
      simp only at h
      split at h
      · cases h
      · split at h
        · cases h
        · cases h; exact ⟨_, rfl⟩
    · rename_i hv
      have hv' : ¬ VertexBranch g s := by simpa [VertexBranch] using hv
      exact ⟨fun e => absurd e hv', fun _ => createRules_spec _ _ _ _ _ _ _ _ _ h⟩

theorem selectStep_custom (o : Options) (g : GroupIn) (it : IntegralIn) (p w : Nat)
    (sels : List Sel) (h : selectStep o g it (.custom p w) = .ok sels) :
    sels = [⟨g.cell, .custom p w⟩] := by
  simp only [selectStep] at h
  cases h
  rfl

/-! ## degree and scheme -/

/-- **explicit_degree_honoured**: in every accepted group, an integral without quadrature element whose
metadata carries `quadrature_degree = k ≥ 0` is integrated with rules built for degree `k` — every Basix /
tensor rule attached to it has degree exactly `k` (the one-point rule of a vertex and the `vertex` scheme have
no degree) — whatever the other integrals of the group, their order and the options. -/
theorem explicit_degree_honoured (o : Options) (g : GroupIn) (outs : List IntegralOut)
    (h : selectGroup o g = .ok outs) :
    Rel2 (fun it out => ∀ k : Int, it.mdDegree = some k → 0 ≤ k → NoCustom it →
      ∀ x ∈ out.sels, ∀ d, x.rule.degree? = some d → (d : Int) = k) g.integrals outs := by
  refine (selectGroup_rel o g outs h).imp ?_
  rintro it out ⟨_, a, ha, hs⟩ k hk h0 hc x hx d hd
  obtain ⟨d', rfl, hge, _⟩ := analyze_noCustom _ it hc a ha
  have hd' : d' = k := by simpa [hk] using hge (by simpa [hk] using h0)
  subst hd'
  obtain ⟨_, hv, hnv⟩ := selectStep_std o g it d' _ out.sels hs
  by_cases hsv : VertexBranch g (it.mdScheme.getD "default")
  · obtain ⟨c, hc'⟩ := hv hsv
    rw [hc'] at hx
    simp only [List.mem_singleton] at hx
    subst hx
    simp [Rule.degree?] at hd
  · rcases hnv hsv x hx with hp | ⟨_, _, _, _, h4⟩
    · rw [hp] at hd; simp [Rule.degree?] at hd
    · rw [h4] at hd
      cases hd
      omega

theorem maxList_spec (l : List Int) (m : Int) (hm : maxList l = some m) : (∀ e ∈ l, e ≤ m) ∧ m ∈ l := by
  cases l with
  | nil => simp [maxList] at hm
  | cons x xs =>
    simp only [maxList, Option.some.injEq] at hm
    subst hm
    have key : ∀ (l : List Int) (a : Int), a ≤ l.foldl max a ∧ (∀ e ∈ l, e ≤ l.foldl max a) ∧
        (l.foldl max a = a ∨ l.foldl max a ∈ l) := by
      intro l
      induction l with
      | nil => intro a; simp
      | cons y ys ih =>
        intro a
        simp only [List.foldl_cons, List.mem_cons]
        obtain ⟨h1, h2, h3⟩ := ih (max a y)
        refine ⟨by omega, ?_, ?_⟩
        · rintro e (rfl | he)
          · omega
          · exact h2 e he
        · rcases h3 with h3 | h3
          · rw [h3]
            by_cases hay : a ≤ y
            · right; left; omega
            · left; omega
          · right; right; exact h3
    obtain ⟨h1, h2, h3⟩ := key xs x
    refine ⟨?_, ?_⟩
    · intro e he
      simp only [List.mem_cons] at he
      rcases he with rfl | he
      · exact h1
      · exact h2 e he
    · rcases h3 with h3 | h3
      · rw [h3]; simp
      · simp [h3]

/-- **default_degree_is_estimate**: without `quadrature_degree`, or with a negative one, the degree is the
maximum of the estimated polynomial degree(s) UFL attached to THIS integral. -/
theorem default_degree_is_estimate (o : Options) (g : GroupIn) (outs : List IntegralOut)
    (h : selectGroup o g = .ok outs) :
    Rel2 (fun it out => (it.mdDegree = none ∨ ∃ k : Int, it.mdDegree = some k ∧ k < 0) → NoCustom it →
      ∃ m : Int, maxList it.estDegrees = some m ∧ (∀ e ∈ it.estDegrees, e ≤ m) ∧ m ∈ it.estDegrees ∧
        ∀ x ∈ out.sels, ∀ d, x.rule.degree? = some d → (d : Int) = m) g.integrals outs := by
  refine (selectGroup_rel o g outs h).imp ?_
  rintro it out ⟨_, a, ha, hs⟩ hneg hc
  obtain ⟨m, rfl, _, hlt⟩ := analyze_noCustom _ it hc a ha
  have hlt' : it.mdDegree.getD (-1) < 0 := by
    rcases hneg with hn | ⟨k, hk, hk0⟩
    · simp [hn]
    · simp [hk, hk0]
  have hm := hlt hlt'
  obtain ⟨hb, hmem⟩ := maxList_spec _ _ hm
  refine ⟨m, hm, hb, hmem, ?_⟩
  intro x hx d hd
  obtain ⟨_, hv, hnv⟩ := selectStep_std o g it m _ out.sels hs
  by_cases hsv : VertexBranch g (it.mdScheme.getD "default")
  · obtain ⟨c, hc'⟩ := hv hsv
    rw [hc'] at hx
    simp only [List.mem_singleton] at hx
    subst hx
    simp [Rule.degree?] at hd
  · rcases hnv hsv x hx with hp | ⟨_, _, h0, _, h4⟩
    · rw [hp] at hd; simp [Rule.degree?] at hd
    · rw [h4] at hd
      cases hd
      omega

/-- **scheme_honoured**: an integral without quadrature element is integrated with the scheme named in its
metadata (`default` if none): `"vertex"` (on anything but a vertex integral) gives exactly one `vertex`-scheme
rule, `"custom"` is rejected, and every other string gives Basix rules of the type
`basix.quadrature.string_to_type` maps the string to (an unknown string is rejected) — except on vertices,
whose one-point rule ignores the scheme. -/
theorem scheme_honoured (o : Options) (g : GroupIn) (outs : List IntegralOut)
    (h : selectGroup o g = .ok outs) :
    Rel2 (fun it out => NoCustom it →
      let s := it.mdScheme.getD "default"
      s ≠ "custom" ∧
      (VertexBranch g s → ∃ c, out.sels = [⟨c, .vertexScheme c⟩]) ∧
      (¬ VertexBranch g s → ∀ x ∈ out.sels, x.rule = .point ∨
        ∃ qt, stringToType s = some qt ∧ x.rule.qtype? = some qt)) g.integrals outs := by
  refine (selectGroup_rel o g outs h).imp ?_
  rintro it out ⟨_, a, ha, hs⟩ hc
  obtain ⟨d, rfl, _, _⟩ := analyze_noCustom _ it hc a ha
  obtain ⟨h1, h2, h3⟩ := selectStep_std o g it d _ out.sels hs
  refine ⟨h1, h2, fun hn x hx => ?_⟩
  rcases h3 hn x hx with hp | ⟨qt, hq, _, hq', _⟩
  · exact .inl hp
  · exact .inr ⟨qt, hq, hq'⟩

/-! ## quadrature elements -/

/-- **custom_only_from_own_elements**: an integral none of whose OWN elements is a quadrature element never
gets a custom rule — whatever precedes or follows it in its group (the state `custom_q` is per integral). -/
theorem custom_only_from_own_elements (o : Options) (g : GroupIn) (outs : List IntegralOut)
    (h : selectGroup o g = .ok outs) :
    Rel2 (fun it out => NoCustom it → ∀ x ∈ out.sels, x.rule.isCustom = false) g.integrals outs := by
  refine (selectGroup_rel o g outs h).imp ?_
  rintro it out ⟨_, a, ha, hs⟩ hc x hx
  obtain ⟨d, rfl, _, _⟩ := analyze_noCustom _ it hc a ha
  obtain ⟨_, h2, h3⟩ := selectStep_std o g it d _ out.sels hs
  by_cases hsv : VertexBranch g (it.mdScheme.getD "default")
  · obtain ⟨c, hc'⟩ := h2 hsv
    rw [hc'] at hx
    simp only [List.mem_singleton] at hx
    subst hx
    rfl
  · rcases h3 hsv x hx with hp | ⟨qt, _, _, hq, _⟩
    · rw [hp]; rfl
    · cases hr : x.rule <;> simp [hr, Rule.qtype?, Rule.isCustom] at hq ⊢

/-- the same at the level of the metadata `_analyze_form` attaches -/
theorem custom_only_from_own_elements_analysis (itype : IType) (l : List IntegralIn) (as : List Analysed)
    (h : analyzeAll itype l = .ok as) :
    Rel2 (fun it a => NoCustom it → ∃ d s, a = .std d s) l as :=
  (analyzeAll_rel itype l as h).imp (fun it a ha hc => by
    obtain ⟨d, hd, _⟩ := analyze_noCustom itype it hc a ha
    exact ⟨d, _, hd⟩)

/-- **custom_overrides**: an integral with a quadrature element gets exactly one rule, the arrays of its
FIRST quadrature element, filed under the cell type of the integration DOMAIN, whatever
`quadrature_degree` / `quadrature_rule` its metadata carry and wherever it stands in its group. -/
theorem custom_overrides (o : Options) (g : GroupIn) (outs : List IntegralOut)
    (h : selectGroup o g = .ok outs) :
    Rel2 (fun it out => ∀ e, FirstCustom it e →
      out.sels = [⟨g.cell, .custom e.customPts e.customWts⟩]) g.integrals outs := by
  refine (selectGroup_rel o g outs h).imp ?_
  rintro it out ⟨_, a, ha, hs⟩ e he
  have := analyze_firstCustom _ it e he a ha
  subst this
  exact selectStep_custom o g it _ _ out.sels hs

/-! ## concrete groups used by the regression and non-vacuity examples -/

/-- `f*v*ds(degree=2)` and `g*v*ds(scheme="vertex")` of one subdomain, in the two orders UFL can produce -/
def exFacetDefaultVertex (c : Cell) : GroupIn :=
  { itype := .exteriorFacet, cell := c, integrals := [{ tag := 0, mdDegree := some 2 }, { tag := 1, mdScheme := some "vertex" }] }
def exFacetVertexDefault (c : Cell) : GroupIn :=
  { itype := .exteriorFacet, cell := c, integrals := [{ tag := 1, mdScheme := some "vertex" }, { tag := 0, mdDegree := some 2 }] }
/-- one `dP` integral with the given scheme on a tetrahedron -/
def exPoint (s : String) : GroupIn :=
  { itype := .vertex, cell := .tetrahedron, integrals := [{ tag := 0, mdScheme := some s }] }
def exQe : IntegralIn := { tag := 1, elements := [{ hasCustom := true, customPts := 1, customWts := 2, customN := 3 }] }
def exFacetDefaultCustom : GroupIn :=
  { itype := .exteriorFacet, cell := .triangle, integrals := [{ tag := 0, mdDegree := some 2 }, exQe] }
def exFacetCustomDefault : GroupIn :=
  { itype := .exteriorFacet, cell := .triangle, integrals := [exQe, { tag := 0, mdDegree := some 2 }] }
def exElem (p w n : Nat) : ElemIn := { hasCustom := true, customPts := p, customWts := w, customN := n }
def exOne (t : IType) (c : Cell) (it : IntegralIn) : GroupIn := { itype := t, cell := c, integrals := [it] }

/-! ## the reference cell a rule lives on -/

theorem uniqueSubentity_spec (st : Cell) (k : Nat) (c : Cell) (h : uniqueSubentity st k = .ok c) :
    ∃ ts, negIdx (subentityTypes st) k = some ts ∧ ts ≠ [] ∧ ∀ t ∈ ts, t = c := by
  unfold uniqueSubentity at h
  split at h
  · cases h
  · cases h
  · rename_i _ t ts hts
    split at h
    · rename_i hall
      have ht : t = c := Except.ok.inj h
      rw [← ht]
      refine ⟨t :: ts, hts, by simp, ?_⟩
      intro u hu
      simp only [List.mem_cons] at hu
      rcases hu with hu | hu
      · exact hu
      · have := List.all_eq_true.mp hall u hu
        simpa using this
    · cases h

/-- what the `vertex` scheme of an integral type on a cell must be: ONE rule, filed under and made of the
reference cell `c` of the integration ENTITY — the cell itself for `dx`, the (unique) facet type for
`ds`/`dS`, the unique ridge type for `dr`; points = the vertices of `c`, every weight =
`volume(c) / #vertices(c)`: the volume of the ENTITY, not of the cell. -/
def IsEntityVertexRule (g : GroupIn) (sels : List Sel) : Prop :=
  ∃ c, sels = [⟨c, .vertexScheme c⟩] ∧
    (g.itype = .cell → c = g.cell) ∧
    (g.itype.isFacet = true → ∃ ts, negIdx (subentityTypes g.cell) 2 = some ts ∧ ts ≠ [] ∧ ∀ t ∈ ts, t = c) ∧
    (g.itype = .ridge → ∃ ts, negIdx (subentityTypes g.cell) 3 = some ts ∧ ts ≠ [] ∧ ∀ t ∈ ts, t = c) ∧
    (geometry c).length ≠ 0 ∧
    ruleData (.vertexScheme c) = some ((geometry c).map (fun v => (v, volume c / ((geometry c).length : Rat))))

theorem vertex_scheme_entity_step (o : Options) (g : GroupIn) (hv : g.itype ≠ .vertex) (it : IntegralIn) (d : Int)
    (sels : List Sel) (h : selectStep o g it (.std d "vertex") = .ok sels) : IsEntityVertexRule g sels := by
  have e1 : ("vertex" == "custom") = false := by decide
  have e2 : ("vertex" == "vertex") = true := by decide
  have e3 : (g.itype != .vertex) = true := by simpa using hv
  simp only [selectStep, e1, e2, e3, selectVertex, Bool.false_eq_true, if_false, Bool.and_self, if_true] at h
  split at h
  · cases h
  · rename_i c hc
    split at h
    · cases h
    · rename_i hgeo
      cases h
      refine ⟨c, rfl, ?_, ?_, ?_, by simpa using hgeo, rfl⟩
      · intro hi
        simp [hi, IType.isFacet] at hc
        exact hc.symm
      · intro hi
        simp only [hi, if_true] at hc
        exact uniqueSubentity_spec _ _ _ hc
      · intro hi
        simp [hi, IType.isFacet] at hc
        exact uniqueSubentity_spec _ _ _ hc

/-- **vertex_scheme_entity** (seeded defect 1; defect c4a6950): at EVERY position of EVERY accepted group of
cell, facet or ridge integrals, an integral without quadrature element that asks for the `vertex` scheme gets
the vertex rule of its own integration entity (`IsEntityVertexRule`), whatever the other integrals are. -/
theorem vertex_scheme_entity (o : Options) (g : GroupIn) (hv : g.itype ≠ .vertex) (outs : List IntegralOut)
    (h : selectGroup o g = .ok outs) :
    Rel2 (fun it out => NoCustom it → it.mdScheme = some "vertex" → IsEntityVertexRule g out.sels)
      g.integrals outs := by
  refine (selectGroup_rel o g outs h).imp ?_
  rintro it out ⟨_, a, ha, hs⟩ hnc hsch
  obtain ⟨d, rfl, _, _⟩ := analyze_noCustom _ it hnc a ha
  simp only [hsch, Option.getD_some] at hs
  exact vertex_scheme_entity_step o g hv it d out.sels hs

/-- **vertex_integral_point_rule** (defect 605b08f): every integral of a vertex (`dP`) group without quadrature
element is integrated with the one-point rule of weight 1, filed under `point`, whatever its scheme (also
`"vertex"`) and degree. -/
theorem vertex_integral_point_rule (o : Options) (g : GroupIn) (hv : g.itype = .vertex) (outs : List IntegralOut)
    (h : selectGroup o g = .ok outs) :
    Rel2 (fun it out => NoCustom it → out.sels = [⟨.point, .point⟩] ∧ ruleData .point = some [([], 1)])
      g.integrals outs := by
  refine (selectGroup_rel o g outs h).imp ?_
  rintro it out ⟨_, a, ha, hs⟩ hnc
  obtain ⟨d, rfl, _, _⟩ := analyze_noCustom _ it hnc a ha
  refine ⟨?_, rfl⟩
  unfold selectStep at hs
  simp only [hv] at hs
  split at hs
  · cases hs
  · simp only [bne_self_eq_false, Bool.and_false, Bool.false_eq_true, if_false, createRules] at hs
    exact (Except.ok.inj hs).symm

/-- the entity the `vertex` scheme is built on, for every cell and integral type, through the whole pipeline
(`none`: the request is rejected) -/
def vertexSchemeCell (t : IType) (c : Cell) : Option Cell :=
  match selectGroup {} (exOne t c { tag := 0, mdScheme := some "vertex" }) with
  | .ok [⟨_, [x]⟩] => some x.cell
  | _ => none

theorem vertex_scheme_entity_table :
    (Cell.all.map (fun c => (IType.all.map (fun t => vertexSchemeCell t c)))) =
    [ -- cell, exterior_facet, interior_facet, vertex, ridge
      [none, none, none, some .point, none],                                                  -- point
      [some .interval, none, none, some .point, none],                                        -- interval
      [some .triangle, some .interval, some .interval, some .point, none],                    -- triangle
      [some .tetrahedron, some .triangle, some .triangle, some .point, some .interval],
      [some .quadrilateral, some .interval, some .interval, some .point, none],
      [some .hexahedron, some .quadrilateral, some .quadrilateral, some .point, some .interval],
      [some .prism, none, none, some .point, some .interval],
      [some .pyramid, none, none, some .point, some .interval]] := by decide

/-- **regression_shared_cell_type** (c4a6950): the inputs on which the code used to depend on the order of the
integrals.  `f*v*ds(degree=2) + g*v*ds(scheme="vertex")`: in BOTH orders each integral gets its own rule
(tetrahedron: the triangle's vertex rule, it was the interval's; triangle: it raised ZeroDivisionError), and a
quadrature-element integral after a default-scheme facet integral is filed under the triangle, not the
interval. -/
theorem regression_shared_cell_type :
    selectGroup {} (exFacetDefaultVertex .tetrahedron) =
      .ok [⟨0, [⟨.triangle, .basix .triangle .default 2 .standard⟩]⟩, ⟨1, [⟨.triangle, .vertexScheme .triangle⟩]⟩] ∧
    selectGroup {} (exFacetVertexDefault .tetrahedron) =
      .ok [⟨1, [⟨.triangle, .vertexScheme .triangle⟩]⟩, ⟨0, [⟨.triangle, .basix .triangle .default 2 .standard⟩]⟩] ∧
    selectGroup {} (exFacetDefaultVertex .triangle) =
      .ok [⟨0, [⟨.interval, .basix .interval .default 2 .standard⟩]⟩, ⟨1, [⟨.interval, .vertexScheme .interval⟩]⟩] ∧
    selectGroup {} (exFacetVertexDefault .triangle) =
      .ok [⟨1, [⟨.interval, .vertexScheme .interval⟩]⟩, ⟨0, [⟨.interval, .basix .interval .default 2 .standard⟩]⟩] ∧
    selectGroup {} exFacetDefaultCustom =
      .ok [⟨0, [⟨.interval, .basix .interval .default 2 .standard⟩]⟩, ⟨1, [⟨.triangle, .custom 1 2⟩]⟩] ∧
    selectGroup {} exFacetCustomDefault =
      .ok [⟨1, [⟨.triangle, .custom 1 2⟩]⟩, ⟨0, [⟨.interval, .basix .interval .default 2 .standard⟩]⟩] ∧
    selectGroup {} { itype := .ridge, cell := .tetrahedron, integrals := [{ tag := 0, mdDegree := some 1 }, { tag := 1, mdScheme := some "vertex" }] } =
      .ok [⟨0, [⟨.interval, .basix .interval .default 1 .standard⟩]⟩, ⟨1, [⟨.interval, .vertexScheme .interval⟩]⟩] := by
  decide

/-- **regression_vertex_scheme_on_vertex_integral** (605b08f): `dP(scheme="vertex")` on a tetrahedron gets the
one-point rule (it was the 4-point vertex rule of the tetrahedron, weights 1/24, filed under the tetrahedron),
like every other scheme string. -/
theorem regression_vertex_scheme_on_vertex_integral :
    selectGroup {} (exPoint "vertex") = .ok [⟨0, [⟨.point, .point⟩]⟩] ∧
    selectGroup {} (exPoint "foo") = .ok [⟨0, [⟨.point, .point⟩]⟩] ∧
    entityCells (exPoint "vertex") = [.point] := by decide

/-- one step for a default-kind request: the cells of the rules are the entity types -/
theorem selectStep_default_cells (o : Options) (g : GroupIn) (it : IntegralIn) (d : Int) (s : String)
    (hs1 : s ≠ "custom") (hs2 : ¬ VertexBranch g s) (sels : List Sel)
    (h : selectStep o g it (.std d s) = .ok sels) :
    sels.map (·.cell) = entityCells g ∧ (∀ x ∈ sels, x.rule.cell? = some x.cell) ∧
    createRules g.itype g.cell g.facetTypes g.ridgeTypes d s g.argPolysets (useTP o g it) = .ok sels := by
  have e1 : (s == "custom") = false := by simpa using hs1
  have e2 : (s == "vertex" && g.itype != .vertex) = false := by
    simp only [VertexBranch] at hs2
    by_cases hv : s = "vertex"
    · have : g.itype = .vertex := by
        by_cases hi : g.itype = .vertex
        · exact hi
        · exact absurd ⟨hv, hi⟩ hs2
      simp [this]
    · simp [hv]
  simp only [selectStep, e1, e2, Bool.false_eq_true, if_false] at h
  have hrs := h
  refine ⟨?_, ?_, h⟩
  · unfold createRules at hrs
    unfold entityCells
    split at hrs
    · split at hrs
      · split at hrs
        · cases hrs
        · cases hrs; simp [*]
        · cases hrs; simp [*]
      · split at hrs
        · cases hrs
        · cases hrs; simp [*]
    · exact (createEach_cells _ _ _ _ _ hrs).1
    · exact (createEach_cells _ _ _ _ _ hrs).1
    · exact (createEach_cells _ _ _ _ _ hrs).1
    · cases hrs; rfl
  · have hq : ∀ (c' : Cell) (r : Rule), createQuadrature c' d s g.argPolysets = .ok r → r.cell? = some c' := by
      intro c' r hr
      rcases createQuadrature_spec c' d s _ r hr with ⟨h1, h2⟩ | ⟨_, qt, _, _, _, h4⟩
      · subst h1; subst h2; rfl
      · subst h4; rfl
    unfold createRules at hrs
    split at hrs
    · split at hrs
      · rename_i hcond
        split at hrs
        · cases hrs
        · cases hrs
          intro x hx
          simp only [List.mem_singleton] at hx
          subst hx
          simp only [Rule.cell?]
          simp only [Bool.and_eq_true, Bool.or_eq_true, beq_iff_eq] at hcond
          rcases hcond.1 with hq' | hq'
          · simp [hq']
          · simp [hq']
        · rename_i r hne hr
          exfalso
          rcases createQuadrature_spec _ d s _ r hr with ⟨h1, _⟩ | ⟨_, qt, _, _, _, h4⟩
          · cases h1
          · exact hne _ _ _ _ h4
      · split at hrs
        · cases hrs
        · rename_i r hr
          cases hrs
          intro x hx
          simp only [List.mem_singleton] at hx
          subst hx
          exact hq _ _ hr
    · intro x hx; exact hq _ _ ((createEach_cells _ _ _ _ _ hrs).2 x hx)
    · intro x hx; exact hq _ _ ((createEach_cells _ _ _ _ _ hrs).2 x hx)
    · intro x hx; exact hq _ _ ((createEach_cells _ _ _ _ _ hrs).2 x hx)
    · cases hrs
      intro x hx
      simp only [List.mem_singleton] at hx
      subst hx
      rfl

/-- **rule_lives_on_entity**: every integral without quadrature element that does not take the `vertex`
branch gets one rule per reference cell type of its integration ENTITY — the cell for `dx`, the facet type(s)
for `ds`/`dS`, the ridge type(s) for `dr`, a point for `dP` — each rule made for exactly the cell type it is
filed under; wherever the integral stands in its group.  (With `vertex_scheme_entity` and `custom_overrides`
this covers every integral.) -/
theorem rule_lives_on_entity (o : Options) (g : GroupIn) (outs : List IntegralOut)
    (h : selectGroup o g = .ok outs) :
    Rel2 (fun it out => NoCustom it → ¬ VertexBranch g (it.mdScheme.getD "default") →
      out.sels.map (·.cell) = entityCells g ∧ ∀ x ∈ out.sels, x.rule.cell? = some x.cell) g.integrals outs := by
  refine (selectGroup_rel o g outs h).imp ?_
  rintro it out ⟨_, a, ha, hs⟩ hnc hv
  obtain ⟨d, rfl, _, _⟩ := analyze_noCustom _ it hnc a ha
  have hc := (selectStep_std o g it d _ out.sels hs).1
  obtain ⟨h1, h2, _⟩ := selectStep_default_cells o g it d _ hc hv out.sels hs
  exact ⟨h1, h2⟩

/-- **rule_lives_on_entity_prism**: the facets of a prism have two types; every such integral of a facet
subdomain gets exactly two rules, a Basix rule made for quadrilaterals and one made for triangles (in UFL's
order), both with the integral's own scheme, degree and polyset. -/
theorem rule_lives_on_entity_prism (o : Options) (g : GroupIn) (hw : g.wf) (hp : g.cell = .prism)
    (hf : g.itype.isFacet = true) (outs : List IntegralOut) (h : selectGroup o g = .ok outs) :
    Rel2 (fun it out => NoCustom it → it.mdScheme.getD "default" ≠ "vertex" →
      (out.sels.map (·.cell)).Perm [.quadrilateral, .triangle] ∧
      ∀ x ∈ out.sels, ∃ qt d ps, x.rule = .basix x.cell qt d ps) g.integrals outs := by
  refine (selectGroup_rel o g outs h).imp ?_
  rintro it out ⟨_, a, ha, hs⟩ hnc hv
  obtain ⟨d, rfl, _, _⟩ := analyze_noCustom _ it hnc a ha
  have hc := (selectStep_std o g it d _ out.sels hs).1
  have hv' : ¬ VertexBranch g (it.mdScheme.getD "default") := fun hvb => hv hvb.1
  obtain ⟨h1, _, hcr⟩ := selectStep_default_cells o g it d _ hc hv' out.sels hs
  have hent : (entityCells g).Perm [.quadrilateral, .triangle] := by
    unfold entityCells
    cases hi : g.itype <;> simp [hi, IType.isFacet] at hf ⊢
    · simpa [hp, uflFacetTypes] using hw.1
    · simpa [hp, uflFacetTypes] using hw.1
  refine ⟨h1 ▸ hent, ?_⟩
  intro x hx
  have hxc : x.cell ∈ [Cell.quadrilateral, Cell.triangle] :=
    (h1 ▸ hent).mem_iff.mp (List.mem_map.mpr ⟨x, hx, rfl⟩)
  have hq : createQuadrature x.cell d (it.mdScheme.getD "default") g.argPolysets = .ok x.rule := by
    cases hi : g.itype <;> simp [hi, IType.isFacet] at hf
    · simp only [hi, createRules] at hcr
      exact (createEach_cells _ _ _ _ _ hcr).2 x hx
    · simp only [hi, createRules] at hcr
      exact (createEach_cells _ _ _ _ _ hcr).2 x hx
  rcases createQuadrature_spec _ _ _ _ _ hq with ⟨h1', _⟩ | ⟨_, qt, _, _, _, h4⟩
  · rw [h1'] at hxc; simp at hxc
  · exact ⟨qt, _, _, h4⟩

/-! ## grouping -/

theorem mem_entries (key : Rule → Nat) (outs : List IntegralOut) (c : Cell) (k : Nat) (r : Rule) (t : Nat) :
    (c, (k, (r, t))) ∈ entries key outs ↔ ∃ o ∈ outs, o.tag = t ∧ (⟨c, r⟩ : Sel) ∈ o.sels ∧ k = key r := by
  induction outs with
  | nil => simp [entries]
  | cons o os ih =>
    simp only [entries, List.mem_append, List.mem_map, ih, List.mem_cons]
    constructor
    · rintro (⟨x, hx, he⟩ | ⟨o', ho', h⟩)
      · simp only [Prod.mk.injEq] at he
        obtain ⟨h1, h2, h3, h4⟩ := he
        refine ⟨o, .inl rfl, h4, ?_, h2.symm ▸ h3 ▸ rfl⟩
        cases x
        simp only at h1 h3
        subst h1; subst h3
        exact hx
      · exact ⟨o', .inr ho', h⟩
    · rintro ⟨o', (rfl | ho'), h1, h2, h3⟩
      · exact .inl ⟨⟨c, r⟩, h2, by simp [h1, h3]⟩
      · exact .inr ⟨o', ho', h1, h2, h3⟩

theorem mem_groupRules (key : Rule → Nat) (outs : List IntegralOut) (cg : Cell × List (Nat × List Member)) :
    cg ∈ groupRules key outs ↔ ∃ vs, (cg.1, vs) ∈ Quad.groupBy (entries key outs) ∧ cg.2 = Quad.groupBy vs := by
  simp only [groupRules, List.mem_map]
  constructor
  · rintro ⟨⟨c, vs⟩, h, rfl⟩; exact ⟨vs, h, rfl⟩
  · rintro ⟨vs, h, h2⟩; exact ⟨(cg.1, vs), h, by cases cg; simp_all⟩

/-- **grouping_partition** (lifting `Quad.group_partition` to the real grouping key = reference cell type, then
identity of the rule's arrays): (a) every rule attached to every integral sits, with that integral's integrand,
in the group of its cell type and its array identity; (b) every member of every group was attached to an
integral with exactly that cell type and array identity; (c) there is ONE group per cell type and, inside it,
one per array identity — so equal rules share a group and different rules are in different groups;
(d) no group is empty. -/
theorem grouping_partition (key : Rule → Nat) (outs : List IntegralOut) :
    (∀ o ∈ outs, ∀ x ∈ o.sels, ∃ cg ∈ groupRules key outs, cg.1 = x.cell ∧
        ∃ kg ∈ cg.2, kg.1 = key x.rule ∧ (x.rule, o.tag) ∈ kg.2) ∧
    (∀ cg ∈ groupRules key outs, ∀ kg ∈ cg.2, ∀ m ∈ kg.2, key m.1 = kg.1 ∧
        ∃ o ∈ outs, o.tag = m.2 ∧ (⟨cg.1, m.1⟩ : Sel) ∈ o.sels) ∧
    (((groupRules key outs).map (·.1)).Nodup ∧ ∀ cg ∈ groupRules key outs, (cg.2.map (·.1)).Nodup) ∧
    (∀ cg ∈ groupRules key outs, cg.2 ≠ [] ∧ ∀ kg ∈ cg.2, kg.2 ≠ []) := by
  refine ⟨?_, ?_, ⟨?_, ?_⟩, ?_⟩
  · intro o ho x hx
    have hmem : (x.cell, (key x.rule, (x.rule, o.tag))) ∈ entries key outs :=
      (mem_entries key outs _ _ _ _).mpr ⟨o, ho, rfl, by cases x; exact hx, rfl⟩
    obtain ⟨vs, hvs, hv⟩ := Quad.group_partition (entries key outs) _ hmem
    obtain ⟨ws, hws, hw⟩ := Quad.group_partition vs _ hv
    exact ⟨(x.cell, Quad.groupBy vs), (mem_groupRules key outs _).mpr ⟨vs, hvs, rfl⟩, rfl, (key x.rule, ws), hws, rfl, hw⟩
  · intro cg hcg kg hkg m hm
    obtain ⟨vs, hvs, h2⟩ := (mem_groupRules key outs cg).mp hcg
    rw [h2] at hkg
    have h3 : (kg.1, m) ∈ vs := Quad.groupBy_sound vs kg.1 kg.2 m (by cases kg; exact hkg) hm
    have h4 := Quad.groupBy_sound (entries key outs) cg.1 vs _ hvs h3
    obtain ⟨o, ho, h5, h6, h7⟩ := (mem_entries key outs cg.1 kg.1 m.1 m.2).mp (by cases m; exact h4)
    exact ⟨h7.symm, o, ho, h5, h6⟩
  · have : (groupRules key outs).map (·.1) = (Quad.groupBy (entries key outs)).map (·.1) := by
      simp [groupRules, List.map_map, Function.comp_def]
    rw [this]
    exact Quad.groupBy_keys_nodup _
  · intro cg hcg
    obtain ⟨vs, _, h2⟩ := (mem_groupRules key outs cg).mp hcg
    rw [h2]
    exact Quad.groupBy_keys_nodup _
  · intro cg hcg
    obtain ⟨vs, hvs, h2⟩ := (mem_groupRules key outs cg).mp hcg
    have hne : vs ≠ [] := Quad.groupBy_nonempty (entries key outs) (cg.1, vs) hvs
    rw [h2]
    refine ⟨?_, fun kg hkg => Quad.groupBy_nonempty vs kg hkg⟩
    intro hnil
    have hp := Quad.groupBy_perm vs
    rw [hnil] at hp
    simp at hp
    exact hne hp

/-- equal rules (same cell type, same arrays) of two integrals end up in the SAME group, and two members of
one group always have the same cell type and the same arrays -/
theorem grouping_same_iff (key : Rule → Nat) (outs : List IntegralOut)
    (cg cg' : Cell × List (Nat × List Member)) (hcg : cg ∈ groupRules key outs) (hcg' : cg' ∈ groupRules key outs)
    (kg kg' : Nat × List Member) (hkg : kg ∈ cg.2) (hkg' : kg' ∈ cg'.2) (hc : cg.1 = cg'.1) (hk : kg.1 = kg'.1) :
    cg = cg' ∧ kg = kg' := by
  obtain ⟨vs, hvs, h2⟩ := (mem_groupRules key outs cg).mp hcg
  obtain ⟨vs', hvs', h2'⟩ := (mem_groupRules key outs cg').mp hcg'
  rw [← hc] at hvs'
  have hv := Quad.groupBy_key_unique _ _ _ _ hvs hvs'
  subst hv
  have e : cg = cg' := by
    cases cg; cases cg'
    simp only at hc h2 h2'
    subst hc
    rw [h2, h2']
  subst e
  refine ⟨rfl, ?_⟩
  rw [h2] at hkg hkg'
  cases kg; cases kg'
  simp only at hk
  subst hk
  rw [Quad.groupBy_key_unique _ _ _ _ hkg hkg']

theorem perm_flatMap_congr {α β : Type} (l : List α) (f g : α → List β) (h : ∀ a ∈ l, (f a).Perm (g a)) :
    (l.flatMap f).Perm (l.flatMap g) := by
  induction l with
  | nil => simp
  | cons a l ih =>
    simp only [List.flatMap_cons]
    exact (h a (by simp)).append (ih (fun b hb => h b (by simp [hb])))

/-- the (cell, (key, member)) triples the groups stand for -/
def flatten (G : List (Cell × List (Nat × List Member))) : List (Cell × (Nat × Member)) :=
  G.flatMap (fun cg => (Quad.ungroup cg.2).map (fun km => (cg.1, km)))

/-- **grouping_perm**: flattening the groups gives back exactly the attached (cell type, rule, integrand)
triples, up to order: nothing is lost, nothing is duplicated. -/
theorem grouping_perm (key : Rule → Nat) (outs : List IntegralOut) :
    (flatten (groupRules key outs)).Perm (entries key outs) := by
  have h1 : flatten (groupRules key outs) =
      (Quad.groupBy (entries key outs)).flatMap
        (fun p => (Quad.ungroup (Quad.groupBy p.2)).map (fun km => (p.1, km))) := by
    simp [flatten, groupRules, List.flatMap_map]
  rw [h1]
  refine (perm_flatMap_congr _ _ (fun p => p.2.map (fun km => (p.1, km))) ?_).trans ?_
  · intro p _
    exact (Quad.groupBy_perm p.2).map _
  · exact Quad.groupBy_perm (entries key outs)

/-- Σ f over a list -/
def sumBy {α : Type} (f : α → Int) : List α → Int
  | [] => 0
  | a :: l => f a + sumBy f l

theorem sumBy_append {α : Type} (f : α → Int) (l m : List α) : sumBy f (l ++ m) = sumBy f l + sumBy f m := by
  induction l with
  | nil => simp [sumBy]
  | cons a l ih => simp only [List.cons_append, sumBy, ih]; omega

theorem sumBy_perm {α : Type} (f : α → Int) {l m : List α} (h : l.Perm m) : sumBy f l = sumBy f m := by
  induction h with
  | nil => rfl
  | cons a _ ih => simp only [sumBy, ih]
  | swap a b l => simp only [sumBy]; omega
  | trans _ _ ih1 ih2 => rw [ih1, ih2]

theorem sumBy_map {α β : Type} (f : β → Int) (g : α → β) (l : List α) : sumBy f (l.map g) = sumBy (fun a => f (g a)) l := by
  induction l with
  | nil => rfl
  | cons a l ih => simp only [List.map_cons, sumBy, ih]

theorem sumBy_flatMap {α β : Type} (f : β → Int) (g : α → List β) (l : List α) :
    sumBy f (l.flatMap g) = sumBy (fun a => sumBy f (g a)) l := by
  induction l with
  | nil => rfl
  | cons a l ih => simp only [List.flatMap_cons, sumBy_append, sumBy, ih]

/-- **summed_sum**: the summed integrands are the sum of their members.  For ANY valuation `val` of
(reference cell type, integrand), adding `val` over the members of all summed integrals gives the same total as
adding it over every rule attached to every integral: each integrand contributes once per attached rule, under
that rule's cell type.  (`val c t := if c = c₀ then v t else 0` gives the statement per cell type.) -/
theorem summed_sum (key : Rule → Nat) (outs : List IntegralOut) (val : Cell → Nat → Int) :
    sumBy (fun s => sumBy (val s.cell) s.tags) (summed key outs) =
      sumBy (fun o => sumBy (fun x => val x.cell o.tag) o.sels) outs := by
  have h2 : sumBy (fun e => val e.1 e.2.2.2) (entries key outs) =
      sumBy (fun o => sumBy (fun x => val x.cell o.tag) o.sels) outs := by
    induction outs with
    | nil => rfl
    | cons o os ih => simp only [entries, sumBy_append, sumBy_map, sumBy, ih]
  have h1 : sumBy (fun s => sumBy (val s.cell) s.tags) (summed key outs) =
      sumBy (fun e => val e.1 e.2.2.2) (flatten (groupRules key outs)) := by
    simp only [summed, flatten, sumBy_flatMap, sumBy_map, Quad.ungroup]
  rw [h1, sumBy_perm _ (grouping_perm key outs), h2]

/-! ### which rule object survives a merge (556c39a) -/

theorem mergedRule_foldl (ms : List Member) (cur : Rule) :
    ∃ r, ms.foldl (fun cur m => some (mergeStep cur m.1)) (some cur) = some r ∧
      (r = cur ∨ ∃ m ∈ ms, m.1 = r) ∧
      (r.hasTensor = true ↔ cur.hasTensor = true ∧ ∀ m ∈ ms, m.1.hasTensor = true) := by
  induction ms generalizing cur with
  | nil => exact ⟨cur, rfl, .inl rfl, by simp⟩
  | cons m ms ih =>
    obtain ⟨r, h1, h2, h3⟩ := ih (mergeStep (some cur) m.1)
    refine ⟨r, by simpa using h1, ?_, ?_⟩
    · rcases h2 with h2 | ⟨m', hm', h2⟩
      · simp only [mergeStep] at h2
        split at h2
        · exact .inr ⟨m, by simp, h2.symm⟩
        · exact .inl h2
      · exact .inr ⟨m', by simp [hm'], h2⟩
    · rw [h3]
      simp only [mergeStep, List.mem_cons, forall_eq_or_imp]
      cases hm : m.1.hasTensor <;> cases hc : cur.hasTensor <;> simp [hm, hc]

/-- the surviving rule object of a non-empty entry is the rule of one of its members and has tensor factors
exactly when ALL members have -/
theorem mergedRule_spec (ms : List Member) (hne : ms ≠ []) :
    ∃ r, mergedRule ms = some r ∧ (∃ m ∈ ms, m.1 = r) ∧
      (r.hasTensor = true ↔ ∀ m ∈ ms, m.1.hasTensor = true) := by
  cases ms with
  | nil => exact absurd rfl hne
  | cons m ms =>
    obtain ⟨r, h1, h2, h3⟩ := mergedRule_foldl ms m.1
    refine ⟨r, by simpa [mergedRule, mergeStep] using h1, ?_, ?_⟩
    · rcases h2 with h2 | ⟨m', hm', h2⟩
      · exact ⟨m, by simp, h2.symm⟩
      · exact ⟨m', by simp [hm'], h2⟩
    · rw [h3]; simp

/-- the tensor flag of the survivor does not depend on the order in which the members joined -/
theorem mergedRule_perm (ms ms' : List Member) (hp : ms'.Perm ms) :
    (mergedRule ms').map (·.hasTensor) = (mergedRule ms).map (·.hasTensor) := by
  cases hms : ms with
  | nil => subst hms; have := hp.eq_nil; subst this; rfl
  | cons m rest =>
    have hne : ms ≠ [] := by simp [hms]
    have hne' : ms' ≠ [] := fun h => hne (by subst h; exact hp.symm.eq_nil)
    obtain ⟨r, h1, _, h3⟩ := mergedRule_spec ms hne
    obtain ⟨r', h1', _, h3'⟩ := mergedRule_spec ms' hne'
    rw [← hms, h1, h1']
    simp only [Option.map_some, Option.some.injEq]
    have : (r'.hasTensor = true ↔ r.hasTensor = true) := by
      rw [h3, h3']
      exact ⟨fun h x hx => h x (hp.mem_iff.mpr hx), fun h x hx => h x (hp.mem_iff.mp hx)⟩
    cases hr : r.hasTensor <;> cases hr' : r'.hasTensor <;> simp_all

theorem mem_summed (key : Rule → Nat) (outs : List IntegralOut) (s : Summed) :
    s ∈ summed key outs ↔ ∃ cg ∈ groupRules key outs, ∃ kg ∈ cg.2,
      s = ⟨cg.1, kg.1, mergedRule kg.2, kg.2.map (·.2)⟩ := by
  simp only [summed, List.mem_flatMap, List.mem_map]
  constructor
  · rintro ⟨cg, hcg, kg, hkg, rfl⟩; exact ⟨cg, hcg, kg, hkg, rfl⟩
  · rintro ⟨cg, hcg, kg, hkg, rfl⟩; exact ⟨cg, hcg, kg, hkg, rfl⟩

/-- **summed_rule_tensor_iff_all** (556c39a): the rule OBJECT a summed integral is generated with is the rule of
one of its members, and it has tensor factors (the kernel is sum factorised) exactly when EVERY rule that was
attached, to any integral of the group, under this cell type with these arrays has tensor factors.  The right
hand side only speaks about membership: it does not depend on the order of the integrals. -/
theorem summed_rule_tensor_iff_all (key : Rule → Nat) (outs : List IntegralOut) :
    ∀ s ∈ summed key outs, ∃ r, s.rule = some r ∧
      (∃ o ∈ outs, (⟨s.cell, r⟩ : Sel) ∈ o.sels ∧ key r = s.key) ∧
      (r.hasTensor = true ↔
        ∀ o ∈ outs, ∀ x ∈ o.sels, x.cell = s.cell → key x.rule = s.key → x.rule.hasTensor = true) := by
  intro s hs
  obtain ⟨cg, hcg, kg, hkg, rfl⟩ := (mem_summed key outs s).mp hs
  obtain ⟨ha, hb, _, hd⟩ := grouping_partition key outs
  have hne : kg.2 ≠ [] := (hd cg hcg).2 kg hkg
  obtain ⟨r, h1, ⟨m, hm, hmr⟩, h3⟩ := mergedRule_spec kg.2 hne
  refine ⟨r, h1, ?_, ?_⟩
  · obtain ⟨hk, o, ho, _, hsel⟩ := hb cg hcg kg hkg m hm
    exact ⟨o, ho, hmr ▸ hsel, hmr ▸ hk⟩
  · rw [h3]
    constructor
    · intro hall o ho x hx hxc hxk
      obtain ⟨cg', hcg', hc', kg', hkg', hk', hmem⟩ := ha o ho x hx
      obtain ⟨e1, e2⟩ := grouping_same_iff key outs cg' cg hcg' hcg kg' kg hkg' hkg
        (by simpa using hc'.trans hxc) (by simpa using hk'.trans hxk)
      subst e1; subst e2
      exact hall _ hmem
    · intro hall m' hm'
      obtain ⟨hk, o, ho, _, hsel⟩ := hb cg hcg kg hkg m' hm'
      exact hall o ho ⟨cg.1, m'.1⟩ hsel rfl hk

/-- **tensor_flag_order_independent**: reordering the integrals (any permutation of the outputs) does not change
whether the summed integral of a given cell type and arrays is sum factorised. -/
theorem tensor_flag_order_independent (key : Rule → Nat) (outs outs' : List IntegralOut) (hp : outs'.Perm outs)
    (s s' : Summed) (hs : s ∈ summed key outs) (hs' : s' ∈ summed key outs')
    (hc : s'.cell = s.cell) (hk : s'.key = s.key) :
    s'.rule.map (·.hasTensor) = s.rule.map (·.hasTensor) := by
  obtain ⟨r, h1, _, h3⟩ := summed_rule_tensor_iff_all key outs s hs
  obtain ⟨r', h1', _, h3'⟩ := summed_rule_tensor_iff_all key outs' s' hs'
  rw [h1, h1']
  simp only [Option.map_some, Option.some.injEq]
  have : (r'.hasTensor = true ↔ r.hasTensor = true) := by
    rw [h3, h3', hc, hk]
    exact ⟨fun h o ho => h o (hp.mem_iff.mpr ho), fun h o ho => h o (hp.mem_iff.mp ho)⟩
  cases hr : r.hasTensor <;> cases hr' : r'.hasTensor <;> simp_all

/-- the tags of a summed integral are its members' integrands in insertion order -/
theorem summed_tags (key : Rule → Nat) (outs : List IntegralOut) :
    ∀ s ∈ summed key outs, ∃ cg ∈ groupRules key outs, ∃ kg ∈ cg.2, s.cell = cg.1 ∧ s.key = kg.1 ∧
      s.tags = kg.2.map (·.2) := by
  intro s hs
  obtain ⟨cg, hcg, kg, hkg, rfl⟩ := (mem_summed key outs s).mp hs
  exact ⟨cg, hcg, kg, hkg, rfl, rfl, rfl⟩

/-! ## order of the integrals -/

/-- the selection of ONE integral compiled alone in a group with the same integral type, cell, argument
elements -/
def selectAlone (o : Options) (g : GroupIn) (it : IntegralIn) : Except SelError (List IntegralOut) :=
  selectGroup o { g with integrals := [it] }

theorem selectStep_integrals_irrelevant (o : Options) (g : GroupIn) (l : List IntegralIn)
    (it : IntegralIn) (a : Analysed) :
    selectStep o { g with integrals := l } it a = selectStep o g it a := by
  cases a <;> rfl

theorem selectAlone_iff (o : Options) (g : GroupIn) (it : IntegralIn) (out : IntegralOut) :
    selectAlone o g it = .ok [out] ↔
      ∃ a, analyze g.itype it = .ok a ∧ out.tag = it.tag ∧ selectStep o g it a = .ok out.sels := by
  unfold selectAlone
  rw [selectGroup_iff]
  constructor
  · intro h
    cases h with
    | cons h1 _ =>
      obtain ⟨a, ha, ht, hs⟩ := h1
      rw [selectStep_integrals_irrelevant] at hs
      exact ⟨a, ha, ht, hs⟩
  · rintro ⟨a, ha, ht, hs⟩
    refine .cons ⟨a, ha, ht, ?_⟩ .nil
    rw [selectStep_integrals_irrelevant]
    exact hs

/-- **selection_independent_of_order** (ALL integral types): a group is accepted exactly when each of its
integrals is accepted ALONE, and then every integral gets precisely the rules it gets alone — whatever the
other integrals of the subdomain are and in whatever order UFL lists them. -/
theorem selection_independent_of_order (o : Options) (g : GroupIn) (outs : List IntegralOut) :
    selectGroup o g = .ok outs ↔ Rel2 (fun it out => selectAlone o g it = .ok [out]) g.integrals outs := by
  rw [selectGroup_iff]
  constructor
  · intro h; exact h.imp (fun it out hr => (selectAlone_iff o g it out).mpr hr)
  · intro h; exact h.imp (fun it out hr => (selectAlone_iff o g it out).mp hr)

/-- the same as a statement about permutations: reordering the integrals of a subdomain permutes the outputs
and changes nothing else (in particular not whether the group is accepted) -/
theorem selection_perm (o : Options) (g : GroupIn) (l' : List IntegralIn)
    (hp : l'.Perm g.integrals) (outs : List IntegralOut) (h : selectGroup o g = .ok outs) :
    ∃ outs', outs'.Perm outs ∧ selectGroup o { g with integrals := l' } = .ok outs' := by
  have h1 := (selection_independent_of_order o g outs).mp h
  obtain ⟨outs', hperm, hr⟩ := h1.perm hp
  exact ⟨outs', hperm, (selection_independent_of_order o { g with integrals := l' } outs').mpr hr⟩

/-- …and a group that is rejected stays rejected under every reordering -/
theorem selection_perm_error (o : Options) (g : GroupIn) (l' : List IntegralIn) (hp : l'.Perm g.integrals)
    (e : SelError) (h : selectGroup o g = .error e) : ∃ e', selectGroup o { g with integrals := l' } = .error e' := by
  cases h' : selectGroup o { g with integrals := l' } with
  | error e' => exact ⟨e', rfl⟩
  | ok outs' =>
    exfalso
    obtain ⟨outs, _, h2⟩ := selection_perm o { g with integrals := l' } g.integrals hp.symm outs' h'
    have : ({ g with integrals := g.integrals } : GroupIn) = g := rfl
    simp only at h2
    rw [h] at h2
    cases h2

def exTP : IntegralIn := { tag := 0, mdDegree := some 4, elements := [{ tpFactor := true }], coordTP := true }
def exNonTP : IntegralIn := { tag := 1, mdDegree := some 4, elements := [{ tpFactor := true }, { tpFactor := false }], coordTP := true }
def exQuad (l : List IntegralIn) : GroupIn := { itype := .cell, cell := .quadrilateral, integrals := l }
/-- the tensor product of the interval rule and Basix' own quadrilateral rule of one degree are the same arrays -/
def exKey : Rule → Nat
  | .tensor _ _ d _ => d + 1
  | .basix .quadrilateral _ d _ => d + 1
  | _ => 0

def summedOf (key : Rule → Nat) (r : Except SelError (List IntegralOut)) : List Summed :=
  match r with
  | .ok outs => summed key outs
  | .error _ => []

/-- **regression_merged_tensor_flag** (556c39a): with `sum_factorization`, an integral whose elements all
factorise and one with an element that does not get the same points and share ONE summed integral; in BOTH
orders its rule object is the one WITHOUT tensor factors (it used to be the first one's), in the position of
the first; two factorising integrals keep the tensor factors. -/
theorem regression_merged_tensor_flag :
    summedOf exKey (selectGroup { sumFactorization := true } (exQuad [exTP, exNonTP])) =
      [⟨.quadrilateral, 5, some (.basix .quadrilateral .default 4 .standard), [0, 1]⟩] ∧
    summedOf exKey (selectGroup { sumFactorization := true } (exQuad [exNonTP, exTP])) =
      [⟨.quadrilateral, 5, some (.basix .quadrilateral .default 4 .standard), [1, 0]⟩] ∧
    summedOf exKey (selectGroup { sumFactorization := true } (exQuad [exTP, { exTP with tag := 2 }])) =
      [⟨.quadrilateral, 5, some (.tensor 2 .default 4 .standard), [0, 2]⟩] ∧
    summedOf exKey (selectGroup { sumFactorization := true }
        (exQuad [{ exTP with tag := 3, mdDegree := some 2 }, exTP, exNonTP, { exTP with tag := 2 }])) =
      [⟨.quadrilateral, 3, some (.tensor 2 .default 2 .standard), [3]⟩,
       ⟨.quadrilateral, 5, some (.basix .quadrilateral .default 4 .standard), [0, 1, 2]⟩] := by decide

/-! ## rejections -/

/-- a vertex integral with a discontinuous element is always rejected (TypeError), first of all checks -/
theorem rejects_vertex_discontinuous (o : Options) (g : GroupIn) (hv : g.itype = .vertex) (it : IntegralIn)
    (hit : it ∈ g.integrals) (e : ElemIn) (he : e ∈ it.elements) (hd : e.discontinuous = true) :
    ∃ err, selectGroup o g = .error err := by
  cases h : selectGroup o g with
  | error err => exact ⟨err, rfl⟩
  | ok outs =>
    exfalso
    obtain ⟨out, _, _, a, ha, _⟩ := (selectGroup_rel o g outs h).of_mem_left hit
    rw [hv, analyze_vertex_discontinuous it e he hd] at ha
    cases ha

/-- **rejections**: every error branch of the selection is reachable, with the exception class of the code -/
theorem rejections :
    selectGroup {} (exOne .vertex .triangle { tag := 0, elements := [{ discontinuous := true }] }) = .error .vertexDiscontinuous ∧
    selectGroup {} (exOne .cell .triangle { tag := 0, elements := [exElem 1 2 3, exElem 3 4 1] }) = .error .customMismatch ∧
    selectGroup {} (exOne .cell .triangle { tag := 0, elements := [exElem 1 2 3, exElem 1 4 3] }) = .error .customMismatch ∧
    selectGroup {} (exOne .cell .triangle { tag := 0, elements := [exElem 1 2 3, exElem 3 4 6] }) = .error .customShape ∧
    selectGroup {} (exOne .cell .triangle { tag := 0, estDegrees := [], elements := [] }) = .error .noEstimate ∧
    selectGroup {} (exOne .cell .triangle { tag := 0, mdScheme := some "custom" }) = .error .customNoPoints ∧
    selectGroup {} (exOne .cell .triangle { tag := 0, mdScheme := some "foo" }) = .error .unknownScheme ∧
    selectGroup {} (exOne .cell .triangle { tag := 0, mdScheme := some "GLL" }) = .error .basixRejects ∧
    selectGroup {} (exOne .cell .tetrahedron { tag := 0, mdScheme := some "Xiao-Gimbutas", mdDegree := some 16 }) = .error .basixRejects ∧
    selectGroup {} (exOne .cell .triangle { tag := 0, estDegrees := [-1] }) = .error .negativeDegree ∧
    selectGroup {} (exOne .exteriorFacet .prism { tag := 0, mdScheme := some "vertex" }) = .error .subentityNotUnique ∧
    selectGroup {} (exOne .exteriorFacet .interval { tag := 0, mdScheme := some "vertex" }) = .error .zeroVertices ∧
    -- (IndexError: only for a ridge integral on an interval, which UFL itself refuses)
    selectGroup {} (exOne .ridge .interval { tag := 0, mdScheme := some "vertex" }) = .error .noSubentity := by
  decide

/-! ## non-vacuity: accepted groups with several kinds of integrals -/

/-- three integrals of one `dx` subdomain of a triangle: default (estimated degree 3), explicit degree 5, a
quadrature element (its metadata degree 1 is overridden) — each gets its own rule; the first two have
different arrays, so three summed integrals. -/
example :
    selectGroup {} (exOne .cell .triangle { tag := 0 } |> fun g => { g with integrals :=
      [{ tag := 0, estDegrees := [3] }, { tag := 1, mdDegree := some 5, estDegrees := [2] },
       { tag := 2, mdDegree := some 1, elements := [{}, exElem 7 8 6] }] }) =
    .ok [⟨0, [⟨.triangle, .basix .triangle .default 3 .standard⟩]⟩,
         ⟨1, [⟨.triangle, .basix .triangle .default 5 .standard⟩]⟩,
         ⟨2, [⟨.triangle, .custom 7 8⟩]⟩] := by decide

/-- prism facets with a GLL request: GLL exists on quadrilaterals but not on triangles -> rejected; a
Gauss-Jacobi request of degree 2 gives one rule per facet type; the negative degree means "estimated" -/
example :
    selectGroup {} (exOne .exteriorFacet .prism { tag := 0, mdScheme := some "GLL", mdDegree := some 2 }) = .error .basixRejects ∧
    selectGroup {} (exOne .exteriorFacet .prism { tag := 0, mdScheme := some "Gauss-Jacobi", mdDegree := some (-3), estDegrees := [2, 1] }) =
      .ok [⟨0, [⟨.quadrilateral, .basix .quadrilateral .gaussJacobi 2 .standard⟩, ⟨.triangle, .basix .triangle .gaussJacobi 2 .standard⟩]⟩] := by
  decide

/-- degrees 2 and 3 give the same Gauss-Jacobi arrays on an interval: the two integrals are summed -/
example :
    summedOf (fun r => match r with | .basix .interval _ d _ => d / 2 | _ => 99)
      (selectGroup {} { itype := .exteriorFacet, cell := .triangle, integrals :=
        [{ tag := 0, mdDegree := some 2 }, { tag := 1, mdDegree := some 5 }, { tag := 2, mdDegree := some 3 }] }) =
    [⟨.interval, 1, some (.basix .interval .default 2 .standard), [0, 2]⟩,
     ⟨.interval, 2, some (.basix .interval .default 5 .standard), [1]⟩] := by decide

end Ffcx.QuadSel
