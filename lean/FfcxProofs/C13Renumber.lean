/-
C13, stability half — the renumbering of `ffcx.naming.compute_signature` (naming.py:41-67) makes the signature
of an expression independent of the process history.

Model: FfcxModel/Jit/Renumber.lean (tied to the real `compute_signature` by harness/props/c13.py
`corr_renumbering`: the captured dict `rn`, the captured iteration orders of the `extract_type` sets and the
`_ufl_signature_data_` of every terminal are compared with `renumber` / `termData`).

  renumbering_invariant         FULL. For every relabelling of the counters (coefficient counts, constant counts,
      mesh ids) that is order-compatible on the coefficient counts and on the constant counts OCCURRING IN THE
      EXPRESSION and injective on its mesh ids — nothing is assumed about counters of other objects, so shifts,
      stretches and any change of creation order of unrelated objects are covered, and mesh ids may even be
      permuted — the leaf data handed to UFL's tree hash, hence the signature, is identical, when the other
      process iterates its three `extract_type` sets in the corresponding order.
  set_order_irrelevant          FULL. The iteration orders of the sets (the only way PYTHONHASHSEED enters) do not
      matter PROVIDED sort keys of distinct members are distinct (two different coefficients with the same
      `count()` need an explicit `count=` argument).
  signature_stable_across_processes   FULL: both together — any valid set orders in both processes.
  geo_set_order_regression      the code BEFORE /repo 61cd434 iterated a SET of geometric quantities
      (`renumberGeoSet`): with two meshes reached only that way the two iteration orders give different signatures
      (finding `sig:unstable:geometric-quantity-domain-order`, found with this model, fixed; the search key stays
      armed in the check). The current `renumber` takes them in traversal order: one answer.
  renumbering_order_counterexample       NOT covered, and not meant to be: a relabelling that swaps the relative
      creation order of two coefficients of the expression changes the signature. That is separation, not
      instability: FFCx passes coefficients to the kernel in `count()` order, so `w0*grad(w1)` and
      `w1*grad(w0)` are different kernels. "The same program text in another process" creates the objects of
      the expression in the same relative order; this is exactly `Relabel.Compatible`.
What is outside: UFL's own canonicalisation (operand sorting of sums/products, index renumbering) is upstream
of the model — the theorem takes the terminal list of the other process (`traverse_unique_terminals`) to be the
relabelled list (`terms.map ρ.term`), which for relabellings that are order-compatible on all three counters
is UFL's business (trusted; searched by the stability runs).
-/
import FfcxProofs.Lemmas.Renumber

namespace Ffcx.Naming
open Rn

/-- The renumbered leaf data — hence `compute_expression_signature(expr, rn)`, whatever UFL's tree hash `H`
is — is invariant under every relabelling of the counters that is compatible with the expression. -/
theorem renumbering_invariant {σ : Type} (H : List TermData → σ) {terms : List Term} {o : SetOrders}
    (hv : o.Valid terms) {ρ : Relabel} (hρ : ρ.Compatible terms) :
    exprSignature H (terms.map ρ.term) (ρ.orders o) = exprSignature H terms o := by
  unfold exprSignature leafData
  rw [renumber_relabel hv hρ, List.map_map]
  congr 1
  exact List.map_congr_left (fun t ht => termData_relabel hρ (renumber_within hv) ht)

/-- The dict `rn` does not depend on how the process happens to iterate its sets, if distinct members of the
sorted sets have distinct keys. -/
theorem set_order_irrelevant {terms : List Term} {o₁ o₂ : SetOrders} (h₁ : o₁.Valid terms)
    (h₂ : o₂.Valid terms) (hk : DistinctKeys terms) : renumber terms o₁ = renumber terms o₂ := by
  obtain ⟨a1, a2, a3⟩ := h₁
  obtain ⟨b1, b2, b3⟩ := h₂
  have hc : sortBy Term.countKey o₁.coeffs = sortBy Term.countKey o₂.coeffs :=
    sortBy_of_perm (a1.trans b1.symm) ((a1.map _).nodup_iff.mpr hk.1)
  have hc' : sortBy Term.countKey o₁.consts = sortBy Term.countKey o₂.consts :=
    sortBy_of_perm (a2.trans b2.symm) ((a2.map _).nodup_iff.mpr hk.2.1)
  have ha : sortBy Term.argKey o₁.args = sortBy Term.argKey o₂.args :=
    sortBy_of_perm (a3.trans b3.symm) ((a3.map _).nodup_iff.mpr hk.2.2)
  simp only [renumber, hc, hc', ha]

/-! ### The proviso of `set_order_irrelevant` is a property of the program text -/

theorem nodup_keys_relabel {terms : List Term} {ρ : Relabel} (key : Term → Nat × Nat) {l : List Term}
    (_hl : ∀ t ∈ l, t ∈ terms)
    (hkey : ∀ a ∈ l, ∀ b ∈ l, key (ρ.term a) = key (ρ.term b) → key a = key b)
    (hn : (l.map key).Nodup) : ((l.map ρ.term).map key).Nodup := by
  rw [List.map_map]
  unfold List.Nodup at hn ⊢
  rw [List.pairwise_map] at hn ⊢
  exact hn.imp_of_mem (fun ha hb h e => h (hkey _ ha _ hb e))

theorem distinctKeys_relabel {terms : List Term} {ρ : Relabel} (hρ : ρ.Compatible terms)
    (hk : DistinctKeys terms) : DistinctKeys (terms.map ρ.term) := by
  obtain ⟨k1, k2, k3⟩ := hk
  have memf : ∀ {p : Term → Bool} {t}, t ∈ uniqueTuple (terms.filter p) → t ∈ terms ∧ p t = true :=
    fun h => List.mem_filter.mp (mem_uniqueTuple.mp h)
  refine ⟨?_, ?_, ?_⟩
  · simp only [canonicalOrders, canonical_relabel hρ _ (isCoeff_relabel ρ)]
    refine nodup_keys_relabel (terms := terms) _ (fun t ht => (memf ht).1) ?_ k1
    intro a ha b hb e
    have h1 := countKey_relabel_coeff hρ (memf ha).1 (memf hb).1 (memf ha).2 (memf hb).2
    have h2 := countKey_relabel_coeff hρ (memf hb).1 (memf ha).1 (memf hb).2 (memf ha).2
    refine keyLe_antisymm ?_ ?_
    · rw [← h1, e]
      exact (keyLe_total _ _).elim id id
    · rw [← h2, e]
      exact (keyLe_total _ _).elim id id
  · simp only [canonicalOrders, canonical_relabel hρ _ (isConst_relabel ρ)]
    refine nodup_keys_relabel (terms := terms) _ (fun t ht => (memf ht).1) ?_ k2
    intro a ha b hb e
    have h1 := countKey_relabel_const hρ (memf ha).1 (memf hb).1 (memf ha).2 (memf hb).2
    have h2 := countKey_relabel_const hρ (memf hb).1 (memf ha).1 (memf hb).2 (memf ha).2
    refine keyLe_antisymm ?_ ?_
    · rw [← h1, e]
      exact (keyLe_total _ _).elim id id
    · rw [← h2, e]
      exact (keyLe_total _ _).elim id id
  · simp only [canonicalOrders, canonical_relabel hρ _ (isArg_relabel ρ)]
    refine nodup_keys_relabel (terms := terms) _ (fun t ht => (memf ht).1) ?_ k3
    intro a _ b _ e
    rwa [argKey_relabel, argKey_relabel] at e

/-- STABILITY of the expression signature across processes: the same program text (relabelled counters,
`Compatible`), ANY iteration order of the sets in either process (hash seed), distinct sort keys ⇒ the same
signature. -/
theorem signature_stable_across_processes {σ : Type} (H : List TermData → σ) {terms : List Term}
    {ρ : Relabel} (hρ : ρ.Compatible terms) {o₁ o₂ : SetOrders} (h₁ : o₁.Valid terms)
    (h₂ : o₂.Valid (terms.map ρ.term)) (hk : DistinctKeys terms) :
    exprSignature H (terms.map ρ.term) o₂ = exprSignature H terms o₁ := by
  rw [← renumbering_invariant H h₁ hρ]
  unfold exprSignature leafData
  rw [set_order_irrelevant h₂ (valid_relabel h₁ hρ) (distinctKeys_relabel hρ hk)]

/-! ### Non-vacuity: `f*c*grad(g) + x[0]` with a test function, two meshes, counters shifted and stretched,
mesh ids swapped -/

def sampleTerms : List Term :=
  [.coeff 3 10 ⟨5, 1⟩, .const 2 0 ⟨5, 1⟩, .coeff 7 11 ⟨6, 1⟩, .geo 0 ⟨6, 1⟩, .arg 0 0 10 ⟨5, 1⟩,
   .other 42, .coeff 3 10 ⟨5, 1⟩]

/-- counts 3,7 ↦ 40,90 (an unrelated coefficient was created in between), constant 2 ↦ 0, meshes 5,6 ↦ 9,8. -/
def sampleRelabel : Relabel := ⟨fun c => if c = 3 then 40 else 90, fun _ => 0, fun i => 14 - i⟩

example : sampleRelabel.Compatible sampleTerms := by
  refine ⟨?_, ?_, ?_⟩ <;> decide

example : DistinctKeys sampleTerms := by decide

example : leafData sampleTerms (canonicalOrders sampleTerms) =
    [.coeff 0 10 0 1, .const 0 1 0 0, .coeff 1 11 1 1, .geo 0 1 1, .arg 0 0 10 0 1, .other 42,
     .coeff 0 10 0 1] := by decide

example : leafData (sampleTerms.map sampleRelabel.term)
      (sampleRelabel.orders (canonicalOrders sampleTerms)) =
    leafData sampleTerms (canonicalOrders sampleTerms) := by decide

/-! ### Regression: the set iteration of geometric quantities (before /repo 61cd434) -/

/-- naming.py BEFORE 61cd434: `for gc in extract_type(expr, GeometricQuantity)` — a Python set, iterated in
the order `geos`. -/
def renumberGeoSet (o : SetOrders) (geos : List Term) : Renumbering :=
  let coeffs := sortBy Term.countKey o.coeffs
  let consts := sortBy Term.countKey o.consts
  let args := sortBy Term.argKey o.args
  { coeffs := coeffs, consts := consts, args := args,
    domains := uniqueTuple (meshes coeffs ++ meshes args ++ meshes geos ++ meshes consts) }

/-- `x₁[0] + 2·x₂[1]` over two meshes that no coefficient or argument lives on. Old code: both iteration orders
of the set of geometric quantities are enumerations of it and they give different leaf data — for every
injective tree hash, different signatures in two processes. Current code: the traversal order decides, and the
numbering is that of the first iteration order whatever the sets do. -/
theorem geo_set_order_regression :
    let terms : List Term := [.geo 3 ⟨0, 0⟩, .other 0, .geo 3 ⟨1, 0⟩, .other 1]
    let g₁ : List Term := [.geo 3 ⟨0, 0⟩, .geo 3 ⟨1, 0⟩]
    let g₂ : List Term := [.geo 3 ⟨1, 0⟩, .geo 3 ⟨0, 0⟩]
    let o : SetOrders := ⟨[], [], []⟩
    g₁.Perm (uniqueTuple (terms.filter Term.isGeo)) ∧ g₂.Perm (uniqueTuple (terms.filter Term.isGeo)) ∧
    terms.map (termData (renumberGeoSet o g₁)) ≠ terms.map (termData (renumberGeoSet o g₂)) ∧
    (∀ {σ : Type} (H : List TermData → σ), (∀ a b, H a = H b → a = b) →
      H (terms.map (termData (renumberGeoSet o g₁))) ≠ H (terms.map (termData (renumberGeoSet o g₂)))) ∧
    (∀ o' : SetOrders, o'.Valid terms → leafData terms o' = terms.map (termData (renumberGeoSet o g₁))) := by
  intro terms g₁ g₂ o
  have hne : terms.map (termData (renumberGeoSet o g₁)) ≠ terms.map (termData (renumberGeoSet o g₂)) := by
    decide
  refine ⟨List.isPerm_iff.mp (by decide), List.isPerm_iff.mp (by decide), hne,
    fun H hH e => hne (hH _ _ e), ?_⟩
  intro o' h'
  unfold leafData
  rw [set_order_irrelevant h' (canonical_valid terms) (by decide)]
  decide

/-! ### What is NOT covered -/

/-- A relabelling that is injective but swaps the creation order of the two coefficients of `f*grad(g)`
changes the leaf data (`w₀·∇w₁` becomes `w₁·∇w₀`), whatever the set orders: the hypothesis `Compatible` of
`renumbering_invariant` cannot be weakened to injectivity. (Intended: these are different kernels.) -/
theorem renumbering_order_counterexample :
    let terms : List Term := [.coeff 0 7 ⟨0, 0⟩, .coeff 1 7 ⟨0, 0⟩]
    let ρ : Relabel := ⟨fun c => 1 - c, id, id⟩
    (∀ a ∈ coeffCounts terms, ∀ b ∈ coeffCounts terms, ρ.fc a = ρ.fc b → a = b) ∧
    ¬ ρ.Compatible terms ∧
    (∀ o₁ o₂ : SetOrders, o₁.Valid terms → o₂.Valid (terms.map ρ.term) →
      leafData (terms.map ρ.term) o₂ ≠ leafData terms o₁ ∧
      ∀ {σ : Type} (H : List TermData → σ), (∀ a b, H a = H b → a = b) →
        exprSignature H (terms.map ρ.term) o₂ ≠ exprSignature H terms o₁) := by
  intro terms ρ
  refine ⟨by decide, ?_, ?_⟩
  · intro h
    have := (h.coeff 0 (by decide) 1 (by decide)).mpr (by decide)
    revert this
    decide
  · intro o₁ o₂ h₁ h₂
    have e1 := set_order_irrelevant h₁ (canonical_valid terms) (by decide)
    have e2 := set_order_irrelevant h₂ (canonical_valid (terms.map ρ.term)) (by decide)
    have hne : leafData (terms.map ρ.term) o₂ ≠ leafData terms o₁ := by
      unfold leafData
      rw [e1, e2]
      decide
    exact ⟨hne, fun H hH e => hne (hH _ _ e)⟩

end Ffcx.Naming
