/-
C07 — kernels accumulate into A and are pure functions of their inputs.

`pureKernel k` is a decidable certificate evaluated on every generated kernel
(driver command `pure`).  The theorems below hold for EVERY kernel satisfying it, every
input state, every initial content of A, and every sequence of calls.

Not covered by a theorem (stated as partial in the evidence): interleavings below statement
granularity / the C memory model / `restrict`; these are exercised by the threaded runs.
-/
import FfcxProofs.Lemmas.Shift
import FfcxProofs.Lemmas.Unwritten
import FfcxProofs.Lemmas.ShapeA
import FfcxProofs.Lemmas.Threads
import FfcxModel.LNodes.Scalars

namespace Ffcx.LNodes
open Lean.Grind
attribute [local instance] Lean.Grind.Ring.intCast
variable {R : Type} [Field R] (x : Extra R)

/-- **All initial A.** Two runs of an accumulate-only kernel from states that differ only in the
    contents of `A` (by `d k` in entry `k`) fail identically or end in states that differ only in
    `A`, by exactly the same `d`: the increment `T = A_final − A_initial` does not depend on the
    initial contents of `A`. -/
theorem pure_accumulates (A : String) (d : Nat → R) (k : Stmt) (hk : onlyAccum A k = true)
    (σ τ : St R) (h : ShiftA A d σ τ) :
    RelRes (ShiftA A d) (exec x k σ) (exec x k τ) :=
  exec_shift x k σ τ hk h

/-- **Inputs are never written** (and integer arrays such as `entity_local_index`,
    `quadrature_permutation` are never written by any kernel). -/
theorem inputs_unchanged (k : Stmt) (hk : pureKernel k = true) (σ σ' : St R)
    (h : exec x k σ = .ok σ') :
    ∀ n ∈ kernelInputs, σ'.sa.get n = σ.sa.get n ∧ σ'.ia = σ.ia := by
  intro n hn
  simp [pureKernel] at hk
  have := exec_sameAt x n k σ σ' (hk.2 n hn) h
  exact ⟨this.sa, this.ia⟩

/-- One call of the kernel: inputs `inp` (w, c, coordinate_dofs, entity/permutation arrays — no
    locals: a C call starts with fresh automatic variables) and the tensor `A`; returns new `A`. -/
def call (k : Stmt) (inp : St R) (a : Arr R) : Except Err (Arr R) :=
  match exec x k (inp.setSA "A" a) with
  | .error e => .error e
  | .ok σ' => match σ'.sa.get "A" with
    | some a' => .ok a'
    | none => .error (.undeclared "A")

def zerosLike (a : Arr R) : Arr R := { a with data := Array.replicate a.data.size 0 }

theorem shift_of_zeros (inp : St R) (a : Arr R) :
    ShiftA "A" (fun k => a.data.getD k 0) (inp.setSA "A" (zerosLike a)) (inp.setSA "A" a) := by
  refine ⟨rfl, rfl, rfl, ?_, ?_⟩
  · intro n hn
    have : "A" ≠ n := fun e => hn e.symm
    simp [St.setSA, AList.get_set_ne _ _ _ _ this]
  · refine ⟨zerosLike a, a, by simp [St.setSA], by simp [St.setSA], rfl, rfl, by simp [zerosLike], ?_⟩
    intro k hk
    simp [zerosLike] at hk
    simp [zerosLike, Array.getD, hk]
    grind

theorem call_shape (k : Stmt) (hk : onlyAccum "A" k = true) (inp : St R) (a a' : Arr R)
    (h : call x k inp a = .ok a') :
    a'.dims = a.dims ∧ a'.const = a.const ∧ a'.data.size = a.data.size := by
  simp only [call] at h
  cases h1 : exec x k (inp.setSA "A" a) with
  | error e => simp [h1] at h
  | ok σ' =>
    have hp : ShapeAt "A" a.dims a.const a.data.size (inp.setSA "A" a) :=
      ⟨a, by simp [St.setSA], rfl, rfl, rfl⟩
    obtain ⟨b, hb, r⟩ := exec_shapeA x k _ σ' hk hp h1
    simp [h1, hb] at h; subst h; exact r

/-- **A ← A + T(inputs).** If the call on a zeroed tensor yields `T`, then the call on any initial
    tensor `a` yields `a + T` entrywise, and if one fails so does the other (same error). -/
theorem call_adds (k : Stmt) (hk : onlyAccum "A" k = true) (inp : St R) (a : Arr R) :
    match call x k inp (zerosLike a), call x k inp a with
    | .ok t, .ok a' =>
        ∀ j, j < a.data.size → a'.data.getD j 0 = a.data.getD j 0 + t.data.getD j 0
    | .error e, .error e' => e = e'
    | _, _ => False := by
  have h := exec_shift x k _ _ hk (shift_of_zeros inp a)
  simp only [call]
  cases h1 : exec x k (inp.setSA "A" (zerosLike a)) with
  | error e =>
    cases h2 : exec x k (inp.setSA "A" a) with
    | error e' => simp [h1, h2, RelRes] at h ⊢; exact h
    | ok b => simp [h1, h2, RelRes] at h
  | ok s1 =>
    cases h2 : exec x k (inp.setSA "A" a) with
    | error e' => simp [h1, h2, RelRes] at h
    | ok s2 =>
      simp [h1, h2, RelRes] at h
      obtain ⟨t, a', ht, ha', hd, _, hs, hdata⟩ := h.arrA
      have hp : ShapeAt "A" a.dims a.const a.data.size (inp.setSA "A" (zerosLike a)) :=
        ⟨zerosLike a, by simp [St.setSA], rfl, rfl, by simp [zerosLike]⟩
      obtain ⟨t', ht', _, _, hts⟩ := exec_shapeA x k _ s1 hk hp h1
      rw [ht] at ht'; simp at ht'; subst ht'
      simp only [ht, ha']
      intro j hj
      have := hdata j (by omega)
      simp only [Array.getD_eq_getD_getElem?] at this ⊢
      rw [this, Lean.Grind.Semiring.add_comm]

/-- A history of calls with inputs `ins`, threading the tensor through. -/
def callSeq (k : Stmt) : List (St R) → Arr R → Except Err (Arr R)
  | [], a => .ok a
  | inp :: rest, a => match call x k inp a with
    | .error e => .error e
    | .ok a' => callSeq k rest a'

/-- Σ over the history of the per-call increments `T(inp)`, each computed on a zeroed tensor of
    shape `sh` — a function of that call's inputs only. -/
def incrSum (k : Stmt) (sh : Arr R) : List (St R) → Nat → R
  | [], _ => 0
  | inp :: rest, j =>
    (match call x k inp (zerosLike sh) with | .ok t => t.data.getD j 0 | .error _ => 0)
      + incrSum k sh rest j

theorem zerosLike_congr (a b : Arr R) (hd : b.dims = a.dims) (hc : b.const = a.const)
    (hs : b.data.size = a.data.size) : zerosLike b = zerosLike a := by
  cases a; cases b; simp_all [zerosLike]

theorem incrSum_congr (k : Stmt) (a b : Arr R) (hz : zerosLike b = zerosLike a) :
    ∀ (l : List (St R)) (j : Nat), incrSum x k b l j = incrSum x k a l j
  | [], _ => rfl
  | i :: r, j => by simp only [incrSum, hz, incrSum_congr k a b hz r j]

/-- **All histories.** After any sequence of successful calls the tensor is the initial tensor
    plus the sum of the per-call increments, each of which depends only on that call's inputs
    (not on earlier calls, not on what `A` held before). -/
theorem pure_history (k : Stmt) (hk : onlyAccum "A" k = true) :
    ∀ (ins : List (St R)) (a a' : Arr R), callSeq x k ins a = .ok a' →
      ∀ j, j < a.data.size → a'.data.getD j 0 = a.data.getD j 0 + incrSum x k a ins j
  | [], a, a', h => by
    simp [callSeq] at h; subst h
    intro j _; simp [incrSum]; grind
  | inp :: rest, a, a', h => by
    simp only [callSeq] at h
    have hc := call_adds x k hk inp a
    cases h1 : call x k inp a with
    | error e => simp [h1] at h
    | ok a1 =>
      simp [h1] at h
      obtain ⟨hd, hcst, hs⟩ := call_shape x k hk inp a a1 h1
      cases h0 : call x k inp (zerosLike a) with
      | error e => simp [h0, h1] at hc
      | ok t =>
        simp only [h0, h1] at hc
        have ih := pure_history k hk rest a1 a' h
        have hz : zerosLike a1 = zerosLike a := zerosLike_congr a a1 hd hcst hs
        have hsame : ∀ j, incrSum x k a1 rest j = incrSum x k a rest j :=
          fun j => incrSum_congr x k a a1 hz rest j
        intro j hj
        rw [ih j (by omega), hc j hj, hsame j]
        simp only [incrSum, h0]
        grind

/-- Order of the calls does not matter for the final tensor entries (the increments commute). -/
theorem incrSum_perm (k : Stmt) (sh : Arr R) (l₁ l₂ : List (St R)) (hp : l₁.Perm l₂) (j : Nat) :
    incrSum x k sh l₁ j = incrSum x k sh l₂ j := by
  induction hp with
  | nil => rfl
  | cons a _ ih => simp [incrSum, ih]
  | swap a b l => simp only [incrSum]; grind
  | trans _ _ ih1 ih2 => rw [ih1, ih2]

/-- Non-vacuity: a two-statement kernel `A[i] += w[i]*2` in a loop satisfies the certificate. -/
example : pureKernel (.forRange "i" (.litI 0) (.litI 3)
    [.addAssign (.idx "A" .scalar [.sym "i" .int])
      (.bin .mul (.idx "w" .scalar [.sym "i" .int]) (.litF 2 0 false))]) = true := by decide

end Ffcx.LNodes

/-! ## Schedules: every statement-level interleaving of two calls on disjoint tensors -/

namespace Ffcx.LNodes
variable {R : Type} [Add R] [Sub R] [Mul R] [Div R] [Neg R] [IntCast R] (x : Extra R)

/-- **pure_interleave.** Let `p` and `q` be the statement sequences of two calls (the second one
    with its own automatic variables and its own tensor — `thread2`). If the decidable certificate
    `disjointB p q` holds (no statement of one call writes a name the other call mentions: inputs are
    only read, locals and tensors are private), then EVERY order-preserving interleaving `r` of the
    two sequences fails iff the sequential execution `p; q` fails, and otherwise ends in an
    extensionally equal state. Granularity: LNodes statements (top level of the kernel body); what
    this cannot exhibit: the C memory model below statement granularity, compiler reordering,
    `restrict` — these are only sampled by the threaded runs. -/
theorem pure_interleave (p q r : List Stmt) (hi : Interleave p q r) (hd : disjointB p q = true)
    (σ : St R) : ResEq (execL x r σ) (execL x (p ++ q) σ) :=
  interleave_seq x hi (disjoint_of_disjointB p q hd) σ

/-- non-vacuity: two copies of `A[0] += w[0]` with private tensors interleave freely -/
example : threadsDisjoint (.block [.vdecl "t" .scalar (.idx "w" .scalar [.litI 0]),
    .addAssign (.idx "A" .scalar [.litI 0]) (.sym "t" .scalar)]) = true := by decide

end Ffcx.LNodes
