/-
C20 — the command-line compiler: option precedence, CLI option collection, header/source
consistency of the generated blocks, file assembly, namespace sanitising.

Models: FfcxModel/Cli/Options.lean and FfcxModel/Cli/Templates.lean (hand-written, tied to
ffcx/options.py, ffcx/main.py, ffcx/formatting.py and the C generators by the correspondence run of
harness/props/c20.py) and the tables FfcxModel/Generated/{Options,Templates,TemplatePieces}.lean
regenerated from /repo on every run.

Status: all full.
  merge_precedence, cli_only_given (over the regenerated parser table: an FFCx option is in
  `priority_options` iff the command line supplied it — this includes the `store_true` options since
  their argparse default became None; a parser change that reintroduces a non-None default breaks
  `cli_only_given_generated`), cli_not_given_falls_through,
  decl_defined_templates (for EVERY filling of the holes of the regenerated C template pairs that is
  lexically self-contained: a name the declaration instance declares `extern` is defined by the
  implementation instance), source_defines_declared / cli_header_source_consistent (the same through
  `format_code`: header = declarations, source = implementations, block by block in the same order,
  and the definition is found in the text of the whole source file),
  decl_defined_probes (regression table: the lexed output of four probe runs × two languages),
  format_code_concat (+ format_code_ragged, format_code_no_default: IndexError modelled),
  sanitise_ident, cli_alias_valid.
-/
import FfcxProofs.Lemmas.Names
import FfcxProofs.Lemmas.CliTemplates
import FfcxModel.Generated.Options
import FfcxModel.Generated.Templates
import FfcxModel.Generated.TemplatePieces

namespace Ffcx.Cli
open Ffcx.Naming

/-! ## get_options -/

section Merge
variable {κ ν : Type} [DecidableEq κ]

/-- Priority options take precedence over `$PWD/ffcx_options.json`, which takes precedence over
the user file, which takes precedence over the defaults (for every key, whatever the dicts hold).
`rlookup` is the binding a Python dict keeps for a key (the last one written). -/
theorem merge_precedence (defaults user pwd prio : Dict κ ν) (k : κ) :
    Dict.get (getOptions defaults user pwd (some prio)) k =
      (Dict.rlookup prio k).or ((Dict.rlookup pwd k).or ((Dict.rlookup user k).or
        (Dict.rlookup defaults k))) := by
  simp [getOptions, Dict.get_update, Dict.get]

/-- `priority_options=None`: the same without the first layer. -/
theorem merge_precedence_none (defaults user pwd : Dict κ ν) (k : κ) :
    Dict.get (getOptions defaults user pwd none) k =
      (Dict.rlookup pwd k).or ((Dict.rlookup user k).or (Dict.rlookup defaults k)) := by
  simp [getOptions, Dict.get_update, Dict.get]

end Merge

example :
    Dict.get (getOptions [("scalar_type", "float64"), ("part", "full")] [("scalar_type", "float32")]
      [("scalar_type", "complex64")] (some [("part", "diagonal")])) "scalar_type" = some "complex64" := by
  decide

/-! ## The priority dict built by `main` -/

/-- The defaults `parse_args` puts into the namespace. -/
def defaultsNs (acts : List Action) : Dict String Scalar :=
  acts.foldl (fun ns a =>
    if a.suppressed then ns
    else match Dict.get ns a.dest with
      | some _ => ns
      | none => Dict.set ns a.dest a.default) ([] : Dict String Scalar)

theorem parseNamespace_eq (acts : List Action) (given : Given) :
    parseNamespace acts given = Dict.update (defaultsNs acts) given := rfl

/-- One step of the defaults loop of `parse_args`. -/
def defaultStep (ns : Dict String Scalar) (a : Action) : Dict String Scalar :=
  if a.suppressed then ns
  else match Dict.get ns a.dest with
    | some _ => ns
    | none => Dict.set ns a.dest a.default

theorem defaultsNs_eq (acts : List Action) : defaultsNs acts = acts.foldl defaultStep [] := rfl

theorem foldDefaults_get {k : String} {v : Scalar} : ∀ (acts : List Action) (ns : Dict String Scalar),
    Dict.get (acts.foldl defaultStep ns) k = some v →
    Dict.get ns k = some v ∨ ∃ a ∈ acts, a.dest = k ∧ a.suppressed = false ∧ a.default = v
  | [], _, h => Or.inl h
  | a :: as, ns, h => by
    simp only [List.foldl_cons] at h
    rcases foldDefaults_get as _ h with h' | ⟨b, hb, hh⟩
    · unfold defaultStep at h'
      by_cases hs : a.suppressed = true
      · simp only [hs, ↓reduceIte] at h'
        exact Or.inl h'
      · simp only [hs, Bool.false_eq_true, ↓reduceIte] at h'
        cases hg : Dict.get ns a.dest with
        | some w => simp only [hg] at h'; exact Or.inl h'
        | none =>
          simp only [hg, Dict.get_set] at h'
          by_cases hk : a.dest = k
          · simp only [hk, ↓reduceIte, Option.some.injEq] at h'
            exact Or.inr ⟨a, List.mem_cons_self, hk, by simpa using hs, h'⟩
          · simp only [hk, ↓reduceIte] at h'
            exact Or.inl h'
    · exact Or.inr ⟨b, List.mem_cons_of_mem _ hb, hh⟩

/-- Every default in the namespace is some non-suppressed action's default. -/
theorem defaultsNs_get {acts : List Action} {k : String} {v : Scalar}
    (h : Dict.get (defaultsNs acts) k = some v) :
    ∃ a ∈ acts, a.dest = k ∧ a.suppressed = false ∧ a.default = v := by
  rw [defaultsNs_eq] at h
  rcases foldDefaults_get acts [] h with h' | h'
  · simp [Dict.get] at h'
  · exact h'

theorem foldDefaults_nodup : ∀ (acts : List Action) (ns : Dict String Scalar), (Dict.keys ns).Nodup →
    (Dict.keys (acts.foldl defaultStep ns)).Nodup
  | [], _, h => h
  | a :: as, ns, h => by
    simp only [List.foldl_cons]
    apply foldDefaults_nodup as
    unfold defaultStep
    split
    · exact h
    · split
      · exact h
      · exact Dict.nodup_set _ _ _ h

theorem defaultsNs_nodup (acts : List Action) : (Dict.keys (defaultsNs acts)).Nodup := by
  rw [defaultsNs_eq]
  exact foldDefaults_nodup acts [] (by simp [Dict.keys])

/-- Core lemma: a key all of whose (non-suppressed) actions have default `None` is in
`priority_options` iff the command line supplied it. -/
theorem priority_iff_given (acts : List Action) (given : Given) (k : String)
    (hdef : ∀ a ∈ acts, a.dest = k → a.suppressed = false → a.default = Scalar.none)
    (hgiven : ∀ kv ∈ given, kv.2 ≠ Scalar.none) :
    k ∈ Dict.keys (priorityOptions acts given) ↔ k ∈ Dict.keys given := by
  have hnd : (Dict.keys (parseNamespace acts given)).Nodup := by
    rw [parseNamespace_eq]; exact Dict.nodup_update _ _ (defaultsNs_nodup acts)
  unfold priorityOptions Dict.keys
  simp only [List.mem_map, List.mem_filter, decide_eq_true_eq, Prod.exists, exists_and_right,
    exists_eq_right]
  constructor
  · rintro ⟨v, hm, hv⟩
    have hg := (Dict.mem_iff_get _ hnd k v).mp hm
    rw [parseNamespace_eq, Dict.get_update] at hg
    cases hr : Dict.rlookup given k with
    | some w => exact ⟨w, Dict.rlookup_some_mem hr⟩
    | none =>
      rw [hr] at hg
      simp only [Option.none_or] at hg
      obtain ⟨a, ha, hd, hs, hdv⟩ := defaultsNs_get hg
      exact absurd (hdv ▸ hdef a ha hd hs) hv
  · rintro ⟨w, hw⟩
    have hk : k ∈ Dict.keys given := List.mem_map.mpr ⟨(k, w), hw, rfl⟩
    cases hr : Dict.rlookup given k with
    | none => exact absurd hk (Dict.rlookup_none_iff.mp hr)
    | some u =>
      refine ⟨u, ?_, hgiven _ (Dict.rlookup_some_mem hr)⟩
      refine (Dict.mem_iff_get _ hnd k u).mpr ?_
      rw [parseNamespace_eq, Dict.get_update, hr]
      rfl

open Ffcx.Generated.Options in
/-- On the parser of this tree: EVERY action that writes an FFCx option — the `store_true` ones
included — has argparse default `None`. -/
theorem cli_only_given_generated :
    ∀ a ∈ actions, a.ffcxOption = true → ∀ b ∈ actions, b.dest = a.dest → b.default = Scalar.none := by
  decide

open Ffcx.Generated.Options in
/-- FULL: the priority dict built by `main` contains an FFCx option iff it was given on the command
line (`given` holds converted values, never `None`). -/
theorem cli_only_given (given : Given) (hgiven : ∀ kv ∈ given, kv.2 ≠ Scalar.none) :
    ∀ a ∈ actions, a.ffcxOption = true →
      (a.dest ∈ Dict.keys (priorityOptions actions given) ↔ a.dest ∈ Dict.keys given) :=
  fun a ha hf => priority_iff_given actions given a.dest
    (fun b hb hd _ => cli_only_given_generated a ha hf b hb hd) hgiven

open Ffcx.Generated.Options in
/-- FULL: an FFCx option that is not on the command line gets its value from
`$PWD/ffcx_options.json`, else the user file, else the defaults — the command line never shadows it. -/
theorem cli_not_given_falls_through (user pwd : Dict String Scalar) (given : Given)
    (hgiven : ∀ kv ∈ given, kv.2 ≠ Scalar.none) :
    ∀ a ∈ actions, a.ffcxOption = true → a.dest ∉ Dict.keys given →
      Dict.get (mainOptions actions defaultDict user pwd given) a.dest =
        (Dict.rlookup pwd a.dest).or ((Dict.rlookup user a.dest).or (Dict.rlookup defaultDict a.dest)) := by
  intro a ha hf hng
  unfold mainOptions
  rw [merge_precedence]
  have : a.dest ∉ Dict.keys (priorityOptions actions given) :=
    fun h => hng ((cli_only_given given hgiven a ha hf).mp h)
  rw [Dict.rlookup_none_iff.mpr this]
  rfl

open Ffcx.Generated.Options in
example : "sum_factorization" ∉ Dict.keys (priorityOptions actions []) ∧
    (∃ a ∈ actions, a.dest = "sum_factorization" ∧ a.ffcxOption = true ∧ a.kind = ActionKind.storeTrue) := by
  decide

open Ffcx.Generated.Options in
/-- `"sum_factorization": true` in `$PWD/ffcx_options.json` now takes effect without the flag … -/
example : Dict.get (mainOptions actions defaultDict [] [("sum_factorization", Scalar.bool true)] [])
    "sum_factorization" = some (Scalar.bool true) := by decide

open Ffcx.Generated.Options in
/-- … and the flag still wins when given. -/
example : Dict.get (mainOptions actions defaultDict [("sum_factorization", Scalar.bool false)] []
    [("sum_factorization", Scalar.bool true)]) "sum_factorization" = some (Scalar.bool true) := by decide

open Ffcx.Generated.Options in
example : Dict.get (mainOptions actions defaultDict [] [("scalar_type", Scalar.str (cs! "float32"))] [])
    "scalar_type" = some (Scalar.str (cs! "float32")) := by decide

open Ffcx.Generated.Options in
/-- Whatever other flags the parser has: the only FFCx option in the priority dict is the given one. -/
example : (Dict.keys (priorityOptions actions [("scalar_type", Scalar.str (cs! "float32"))])).filter
      (fun k => actions.any fun a => a.dest == k && a.ffcxOption) = ["scalar_type"] := by decide

open Ffcx.Generated.Options in
/-- … and none at all when nothing is given. -/
example : (Dict.keys (priorityOptions actions [])).filter
      (fun k => actions.any fun a => a.dest == k && a.ffcxOption) = [] := by decide

/-! ## Header / source consistency, over the TEMPLATES (every filling) -/

section Templates
open Ffcx.Cli.Tpl

/-- The filling satisfies every obligation the symbolic run of the template collects: identifier
holes hold identifiers, holes inside `//` comments hold no newline, every other hole holds
lexically self-contained C text (`Ob` in FfcxModel/Cli/Templates.lean). Evaluated on the real
fillings of every real run by harness/props/c20.py. -/
def Respects (σ : Filling) (t : Template) : Prop := ∀ ob ∈ obligations t, ob.check σ = true

instance (σ : Filling) (t : Template) : Decidable (Respects σ t) := by
  unfold Respects; infer_instance

theorem init_map (σ : Filling) : (Ctl.init : Ctl Sym).map (expand σ) = (Ctl.init : Ctl Char) := rfl

/-- The items of an instance, from the symbolic run of the template. -/
theorem items_of_symRun {σ : Filling} {t : Template} {r : SymRes} (h : symRun t Ctl.init = some r)
    (hσ : Respects σ t) :
    (run (inst σ t) Ctl.init).1 = r.ctl.map (expand σ) ∧
    (∀ it ∈ r.items, expandItem σ it ∈ items (inst σ t)) ∧
    (r.exact = true → items (inst σ t) = r.items.map (expandItem σ)) := by
  have hob : ∀ ob ∈ r.obs, ob.check σ = true := by
    intro ob hm; apply hσ; simp [obligations, h, hm]
  obtain ⟨cits, h1, h2, h3⟩ := symRun_sound σ t Ctl.init r h hob
  rw [init_map] at h1
  simp only [items, h1]
  exact ⟨trivial, h2, h3⟩

/-- One template pair that passes the symbolic check, ANY filling that respects the obligations:
a name declared `extern` by the declaration instance is defined (same type text, same name) by
the implementation instance, and the implementation instance ends where it started (code mode,
brace depth 0, a new item may start). -/
theorem decl_defined_pair {decl impl : Template} (hok : pairOk decl impl = true) (σ : Filling)
    (hd : Respects σ decl) (hi : Respects σ impl) :
    (∀ ty name : Str, DeclaredIn (inst σ decl) ty name → DefinedIn (inst σ impl) ty name) ∧
    (run (inst σ impl) Ctl.init).1 = Ctl.init := by
  unfold pairOk at hok
  split at hok
  · rename_i d i hds his
    simp only [Bool.and_eq_true, List.all_eq_true, Bool.or_eq_true, bne_iff_ne, ne_eq,
      beq_iff_eq, List.contains_iff_mem] at hok
    obtain ⟨⟨hex, hall⟩, hend⟩ := hok
    obtain ⟨_, _, hdit⟩ := items_of_symRun hds hd
    obtain ⟨hiend, himem, _⟩ := items_of_symRun his hi
    refine ⟨?_, ?_⟩
    · intro ty name hdecl
      unfold DeclaredIn at hdecl
      rw [hdit hex] at hdecl
      obtain ⟨it, hit, heq⟩ := List.mem_map.mp hdecl
      simp only [expandItem, Prod.mk.injEq] at heq
      rcases hall it hit with hne | ⟨hpre, hmem⟩
      · exact absurd heq.2 (by simpa using hne)
      · have hsplit : it.1 = lits (cs! "extern ") ++ it.1.drop 7 := by
          conv => lhs; rw [← List.take_append_drop 7 it.1]
          rw [hpre]
        have hexp : expand σ (it.1.drop 7) = ty ++ ' ' :: name := by
          have := heq.1
          rw [hsplit] at this
          simp only [expand, inst_append] at this
          rw [inst_lits] at this
          exact List.append_cancel_left this
        have := himem _ hmem
        simp only [expandItem, expand, inst_append] at this
        unfold DefinedIn
        simp only [expand] at hexp
        rw [hexp] at this
        simpa [inst] using this
    · rw [hiend, hend]; rfl
  · exact absurd hok (by simp)

open Ffcx.Generated.TemplatePieces in
/-- Every (declaration, implementation) pair of template strings of the C backend (regenerated from
/repo: form, integral, expression, file pre, file post) passes the symbolic check. -/
theorem templates_pairOk : ∀ p ∈ cPairs, pairOk p.2.2.2.1 p.2.2.2.2 = true := by decide +kernel

open Ffcx.Generated.TemplatePieces in
/-- FULL (unbounded in the fillings; the table of templates is finite and complete by
regeneration): for every template pair of the C backend and EVERY filling of the holes — factory
names, alias names, counts, initialisers, kernel bodies — that respects the lexical obligations,
every name the declaration instance declares `extern` is defined by the implementation instance. -/
theorem decl_defined_templates : ∀ p ∈ cPairs, ∀ σ : Filling,
    Respects σ p.2.2.2.1 → Respects σ p.2.2.2.2 →
    ∀ ty name : Str, DeclaredIn (inst σ p.2.2.2.1) ty name → DefinedIn (inst σ p.2.2.2.2) ty name :=
  fun p hp σ hd hi => (decl_defined_pair (templates_pairOk p hp) σ hd hi).1

/-- Non-vacuous: a concrete filling of the form templates (every hole that is not mentioned is
left empty) respects the obligations, and the two names it declares are the factory name and the
alias. -/
def demoFilling : Filling := fun h =>
  if h = "factory_name" then cs! "form_0123abcd"
  else if h = "name_from_uflfile" then cs! "form_my_prefix_a"
  else if h = "signature" then cs! "\"0123abcd\""
  else if h = "form_integral_offsets_init" then cs! "int form_integral_offsets_form_0123abcd[6] = {0, 1, 1, 1, 1, 1};"
  else if h = "form_integrals_init" then cs! "static ufcx_integral* form_integrals_form_0123abcd[1] = {&integral_77_triangle};"
  else []

open Ffcx.Generated.TemplatePieces in
example : Respects demoFilling c_form_declaration ∧ Respects demoFilling c_form_factory ∧
    DeclaredIn (inst demoFilling c_form_declaration) (cs! "ufcx_form") (cs! "form_0123abcd") ∧
    DeclaredIn (inst demoFilling c_form_declaration) (cs! "ufcx_form*") (cs! "form_my_prefix_a") ∧
    DefinedIn (inst demoFilling c_form_factory) (cs! "ufcx_form*") (cs! "form_my_prefix_a") := by
  decide +kernel

/-- The obligations are needed (hand-written pair, so that the example does not depend on the
wording of the real templates): the pair passes the symbolic check, but a filling that opens a
comment hides the definition — and violates `Respects`. -/
def toyDecl : Template := lits (cs! "extern T ") ++ [Sym.hole "factory_name"] ++ lits (cs! ";\n")
def toyImpl : Template :=
  [Sym.hole "body"] ++ lits (cs! "\nT ") ++ [Sym.hole "factory_name"] ++ lits (cs! " = 1;\n")
def toyFilling (body : Str) : Filling := fun h => if h = "factory_name" then cs! "obj" else if h = "body" then body else []

example : pairOk toyDecl toyImpl = true ∧
    (Respects (toyFilling (cs! "int x;")) toyImpl ∧ DefinedIn (inst (toyFilling (cs! "int x;")) toyImpl) (cs! "T") (cs! "obj")) ∧
    (¬ Respects (toyFilling (cs! "/*")) toyImpl ∧ DeclaredIn (inst (toyFilling (cs! "/*")) toyDecl) (cs! "T") (cs! "obj") ∧
      ¬ DefinedIn (inst (toyFilling (cs! "/*")) toyImpl) (cs! "T") (cs! "obj")) ∧
    (¬ Respects (toyFilling (cs! "void f() {")) toyImpl ∧
      ¬ DefinedIn (inst (toyFilling (cs! "void f() {")) toyImpl) (cs! "T") (cs! "obj")) := by
  decide +kernel

open Ffcx.Generated.TemplatePieces in
/-- Every object template declares something, forms and expressions declare two names. -/
example : (cPairs.filter fun p => (externHoles p.2.2.2.1).length ≥ 1).length ≥ 3 ∧
    (cPairs.filter fun p => (externHoles p.2.2.2.1).length ≥ 2).length ≥ 2 := by decide +kernel

/-! ### Through `format_code`: whole files -/

theorem items_append_closed {a b : Str} (h : (run a Ctl.init).1 = Ctl.init) :
    items (a ++ b) = items a ++ items b ∧ (run (a ++ b) Ctl.init).1 = (run b Ctl.init).1 := by
  simp [items, run_append, h]

/-- Texts that each end in the initial state can be concatenated: the items of the whole are the
items of the parts. -/
theorem items_flatten_closed : ∀ l : List Str, (∀ s ∈ l, (run s Ctl.init).1 = Ctl.init) →
    items l.flatten = (l.map items).flatten ∧ (run l.flatten Ctl.init).1 = Ctl.init
  | [], _ => by simp [items, run, grun]
  | s :: l, h => by
    have hs := h s (by simp)
    have ih := items_flatten_closed l (fun x hx => h x (by simp [hx]))
    have := items_append_closed (a := s) (b := l.flatten) hs
    simp [this.1, this.2, ih.1, ih.2]

/-- A generated block: its template pair and the filling the generator used. -/
structure TBlock where
  decl : Template
  impl : Template
  σ : Filling

/-- `(declaration, implementation)` as `<kind>.generator` returns it. -/
def TBlock.tuple (b : TBlock) : List Str := [inst b.σ b.decl, inst b.σ b.impl]

def TBlock.Ok (b : TBlock) : Prop :=
  pairOk b.decl b.impl = true ∧ Respects b.σ b.decl ∧ Respects b.σ b.impl

/-- Every name declared by the declaration text of any block is defined in the text of the whole
source file (the concatenation of all implementation texts). -/
theorem source_defines_declared (bs : List TBlock) (hok : ∀ b ∈ bs, b.Ok) :
    ∀ b ∈ bs, ∀ ty name : Str, DeclaredIn (inst b.σ b.decl) ty name →
      DefinedIn (bs.map fun b => inst b.σ b.impl).flatten ty name := by
  intro b hb ty name hd
  have hclosed : ∀ s ∈ bs.map (fun b => inst b.σ b.impl), (run s Ctl.init).1 = Ctl.init := by
    intro s hs
    obtain ⟨b', hb', rfl⟩ := List.mem_map.mp hs
    exact (decl_defined_pair (hok b' hb').1 b'.σ (hok b' hb').2.1 (hok b' hb').2.2).2
  have hdef := (decl_defined_pair (hok b hb).1 b.σ (hok b hb).2.1 (hok b hb).2.2).1 ty name hd
  unfold DefinedIn at hdef ⊢
  rw [(items_flatten_closed _ hclosed).1]
  simp only [List.map_map, List.mem_flatten, List.mem_map, Function.comp]
  exact ⟨_, ⟨b, hb, rfl⟩, hdef⟩

/-- `format_code` on blocks that are template instances: no IndexError, the header is the
concatenation of the declaration instances and the source the concatenation of the
implementation instances, block by block in the same order
(file_pre, integrals, forms, expressions, file_post). -/
theorem format_code_templates (p0 : TBlock) (pre ints forms exprs post : List TBlock) :
    formatCodeE (CodeBlocks.toList ⟨(p0 :: pre).map TBlock.tuple, ints.map TBlock.tuple,
        forms.map TBlock.tuple, exprs.map TBlock.tuple, post.map TBlock.tuple⟩) =
      some [((p0 :: pre ++ ints ++ forms ++ exprs ++ post).map fun b => inst b.σ b.decl).flatten,
            ((p0 :: pre ++ ints ++ forms ++ exprs ++ post).map fun b => inst b.σ b.impl).flatten] := by
  simp [formatCodeE, formatCode, CodeBlocks.toList, TBlock.tuple, List.range, List.range.loop,
    Function.comp_def]

/-- FULL: the pair of files `format_code` returns for blocks instantiated from checked template
pairs: every name a block declares in the header is defined in the source file. -/
theorem cli_header_source_consistent (p0 : TBlock) (pre ints forms exprs post : List TBlock)
    (hok : ∀ b ∈ p0 :: pre ++ ints ++ forms ++ exprs ++ post, b.Ok) :
    ∃ header source : Str,
      formatCodeE (CodeBlocks.toList ⟨(p0 :: pre).map TBlock.tuple, ints.map TBlock.tuple,
        forms.map TBlock.tuple, exprs.map TBlock.tuple, post.map TBlock.tuple⟩) = some [header, source] ∧
      header = ((p0 :: pre ++ ints ++ forms ++ exprs ++ post).map fun b => inst b.σ b.decl).flatten ∧
      ∀ b ∈ p0 :: pre ++ ints ++ forms ++ exprs ++ post, ∀ ty name : Str,
        DeclaredIn (inst b.σ b.decl) ty name → DefinedIn source ty name :=
  ⟨_, _, format_code_templates p0 pre ints forms exprs post, rfl,
    source_defines_declared _ hok⟩

end Templates

/-! ## Header / source consistency of the probe runs (regression table) -/

open Ffcx.Generated.Templates in
/-- What `decl_defined_probes` checks for one block. -/
def blockOk (b : Block) : Bool :=
  -- every name declared in the header text is defined (with external linkage) in the source text
  b.declared.all (fun n => b.defined.contains n) &&
  -- the generated object itself is defined
  (b.factory == "" || b.defined.contains b.factory) &&
  -- forms and expressions have an alias, it points at the generated object, and (C) is declared;
  -- `expectedAlias` is computed by the extractor from the UFL objects, their names and the prefix
  -- of the probe (not read back from the IR)
  ((b.kind != "form" && b.kind != "expression") ||
    (b.expectedAlias != "" && b.aliases.contains (b.expectedAlias, b.factory) &&
      (b.lang != "C" || b.declared.contains b.expectedAlias))) &&
  -- alias shape: <kind>_<prefix>_<name> with the prefix of the probe
  (b.expectedAlias == "" || (b.kind ++ "_" ++ b.pfx ++ "_").toList.isPrefixOf b.expectedAlias.toList) &&
  -- nothing is defined twice
  decide ((b.defined ++ b.statics).Nodup)

open Ffcx.Generated.Templates in
/-- REGRESSION TABLE (not a statement about all UFL files — that is `decl_defined_templates`):
over the blocks obtained by running the real generators on four probe inputs × two languages and
lexing the output, every object declared in the header is defined in the source, aliases point at
the generated object, nothing is defined twice. -/
theorem decl_defined_probes : ∀ b ∈ blocks, blockOk b = true := by
  decide

open Ffcx.Generated.Templates in
example : (blocks.filter (fun b => b.declared.length ≥ 2)).length ≥ 4 := by decide
open Ffcx.Generated.Templates in
example : ∃ b ∈ blocks, b.lang = "numba" ∧ b.aliases ≠ [] := by decide

/-! ## format_code -/

/-- Column `i` of a block: the `i`-th string of every tuple, concatenated. -/
def col (b : List (List Str)) (i : Nat) : Str := (b.map fun t => t.getD i []).flatten

/-- Every tuple of every block has at least `n` strings. -/
def wideEnough (n : Nat) (blocks : List (List (List Str))) : Bool :=
  blocks.all fun b => b.all fun t => decide (n ≤ t.length)

/-- Every output file is file_pre ++ integrals ++ forms ++ expressions ++ file_post of its own
column, in this order — the same order in the header and in the source — provided no tuple is
shorter than the first one of file_pre; otherwise Python raises IndexError. -/
theorem format_code_concat (c : CodeBlocks) (t0 : List Str) (rest : List (List Str))
    (hpre : c.filePre = t0 :: rest) :
    formatCodeE c.toList =
      if wideEnough t0.length c.toList = true then
        some ((List.range t0.length).map fun i =>
          col c.filePre i ++ col c.integrals i ++ col c.forms i ++ col c.expressions i ++ col c.filePost i)
      else none := by
  simp [formatCodeE, formatCode, CodeBlocks.toList, hpre, col, wideEnough]

/-- A ragged input — some tuple shorter than the first one — is an IndexError, whatever the rest. -/
theorem format_code_ragged (blocks : List (List (List Str))) (t0 : List Str)
    (r0 : List (List Str)) (rb : List (List (List Str))) (hb : blocks = (t0 :: r0) :: rb)
    (b : List (List Str)) (t : List Str) (hbm : b ∈ blocks) (htm : t ∈ b) (hshort : t.length < t0.length) :
    formatCodeE blocks = none := by
  subst hb
  have : ¬ (((t0 :: r0) :: rb).all fun b => b.all fun t => decide (t0.length ≤ t.length)) = true := by
    simp only [List.all_eq_true, decide_eq_true_eq]
    intro hall
    have := hall b hbm t htm
    omega
  simp only [formatCodeE]
  rw [if_neg this]

/-- In the successful case the `getD` default of the model is never used: every string that is
concatenated is a real element of its tuple. -/
theorem format_code_no_default (n : Nat) (blocks : List (List (List Str)))
    (h : wideEnough n blocks = true) :
    ∀ b ∈ blocks, ∀ t ∈ b, ∀ i, i < n → ∃ hi : i < t.length, t.getD i [] = t[i] := by
  intro b hb t ht i hi
  simp only [wideEnough, List.all_eq_true, decide_eq_true_eq] at h
  have := h b hb t ht
  exact ⟨by omega, by simp [List.getD_eq_getElem?_getD, List.getElem?_eq_getElem (show i < t.length by omega)]⟩

example : formatCodeE (CodeBlocks.toList ⟨[[cs! "h0", cs! "c0"]], [[cs! "h1", cs! "c1"], [cs! "h2", cs! "c2"]],
    [[cs! "h3", cs! "c3"]], [], [[cs! "h4", cs! "c4"]]⟩) = some [cs! "h0h1h2h3h4", cs! "c0c1c2c3c4"] := by
  decide

/-- ragged: the form block has a 1-tuple -/
example : formatCodeE (CodeBlocks.toList ⟨[[cs! "h0", cs! "c0"]], [], [[cs! "h3"]], [], [[cs! "h4", cs! "c4"]]⟩) = none := by
  decide

/-- longer tuples are truncated silently (no error) -/
example : formatCodeE (CodeBlocks.toList ⟨[[cs! "h0"]], [], [[cs! "h3", cs! "c3"]], [], [[cs! "h4"]]⟩) =
    some [cs! "h0h3h4"] := by decide

/-! ## sanitise_filename -/

theorem collapseAux_ident : ∀ (b : Bool) (l : Str), (∀ c ∈ l, isIdentChar c = true ∨ c = '!') →
    ∀ c ∈ collapseAux b l, isIdentChar c = true
  | _, [], _, c, hc => by simp [collapseAux] at hc
  | b, x :: xs, h, c, hc => by
    have hxs : ∀ c ∈ xs, isIdentChar c = true ∨ c = '!' := fun c hc => h c (List.mem_cons_of_mem _ hc)
    simp only [collapseAux] at hc
    split at hc
    · split at hc
      · exact collapseAux_ident true xs hxs c hc
      · rcases List.mem_cons.mp hc with rfl | hc
        · decide
        · exact collapseAux_ident true xs hxs c hc
    · rename_i hx
      rcases List.mem_cons.mp hc with rfl | hc
      · rcases h c List.mem_cons_self with h' | h'
        · exact h'
        · exact absurd h' hx
      · exact collapseAux_ident false xs hxs c hc

/-- `sanitise_filename` always yields identifier characters only (a valid C identifier fragment
after `form_` / `expression_`). -/
theorem sanitise_ident (name : Str) : (sanitiseFilename name).all isIdentChar = true := by
  simp only [List.all_eq_true]
  intro c hc
  unfold sanitiseFilename collapseBang at hc
  refine collapseAux_ident false _ ?_ c hc
  intro d hd
  obtain ⟨e, _, rfl⟩ := List.mem_map.mp hd
  by_cases he : isIdentChar e = true
  · simp [he]
  · simp [he]

example : sanitiseFilename (cs! "dir/my-form.v2.ufl") = cs! "my_form_v2" := by decide
example : sanitiseFilename (cs! "a!!b--c.ufl") = cs! "a_b_c" := by decide

/-- Together with C13 `alias_valid`: the alias of a named form is a valid C identifier. -/
theorem cli_alias_valid (file name : Str) (hn : name.all isIdentChar = true) :
    validIdent (aliasName (cs! "form") (sanitiseFilename file) name) = true := by
  unfold aliasName
  refine validIdent_append (by decide) ?_
  simp only [List.all_cons, List.all_append, Bool.and_eq_true]
  exact ⟨by decide, sanitise_ident file, by decide, hn⟩

end Ffcx.Cli
