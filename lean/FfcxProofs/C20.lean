/-
C20 — the command-line compiler: option precedence, CLI option collection, header/source
consistency of the generated blocks, file assembly, namespace sanitising.

Models: FfcxModel/Cli/Options.lean (hand-written, tied to ffcx/options.py, ffcx/main.py,
ffcx/formatting.py by the correspondence run of harness/props/c20.py) and the tables
FfcxModel/Generated/{Options,Templates}.lean regenerated from /repo on every run.

Status: all full.
  merge_precedence, cli_only_given (over the regenerated parser table: an FFCx option is in
  `priority_options` iff the command line supplied it — this includes the `store_true` options since
  their argparse default became None; a parser change that reintroduces a non-None default breaks
  `cli_only_given_generated`), cli_not_given_falls_through, decl_defined, format_code_concat,
  sanitise_ident, cli_alias_valid.
-/
import FfcxProofs.Lemmas.Names
import FfcxModel.Generated.Options
import FfcxModel.Generated.Templates

namespace Ffcx.Cli
open Ffcx.Naming

/-! ## get_options -/

section Merge
variable {κ ν : Type} [DecidableEq κ]

/-- Priority options take precedence over `$PWD/ffcx_options.json`, which takes precedence over
the user file, which takes precedence over the defaults (for every key, whatever the dicts hold).
`rlookup` is the binding a Python dict keeps for a key (the last one written). -/
theorem merge_precedence (defaults user pwd prio : Dict κ ν) (k : κ) :
    Dict.get (getOptions defaults user pwd (some prio)) k =
      (Dict.rlookup prio k).or ((Dict.rlookup pwd k).or ((Dict.rlookup user k).or
        (Dict.rlookup defaults k))) := by
  simp [getOptions, Dict.get_update, Dict.get]

/-- `priority_options=None`: the same without the first layer. -/
theorem merge_precedence_none (defaults user pwd : Dict κ ν) (k : κ) :
    Dict.get (getOptions defaults user pwd none) k =
      (Dict.rlookup pwd k).or ((Dict.rlookup user k).or (Dict.rlookup defaults k)) := by
  simp [getOptions, Dict.get_update, Dict.get]

end Merge

example :
    Dict.get (getOptions [("scalar_type", "float64"), ("part", "full")] [("scalar_type", "float32")]
      [("scalar_type", "complex64")] (some [("part", "diagonal")])) "scalar_type" = some "complex64" := by
  decide

/-! ## The priority dict built by `main` -/

/-- The defaults `parse_args` puts into the namespace. -/
def defaultsNs (acts : List Action) : Dict String Scalar :=
  acts.foldl (fun ns a =>
    if a.suppressed then ns
    else match Dict.get ns a.dest with
      | some _ => ns
      | none => Dict.set ns a.dest a.default) ([] : Dict String Scalar)

theorem parseNamespace_eq (acts : List Action) (given : Given) :
    parseNamespace acts given = Dict.update (defaultsNs acts) given := rfl

/-- One step of the defaults loop of `parse_args`. -/
def defaultStep (ns : Dict String Scalar) (a : Action) : Dict String Scalar :=
  if a.suppressed then ns
  else match Dict.get ns a.dest with
    | some _ => ns
    | none => Dict.set ns a.dest a.default

theorem defaultsNs_eq (acts : List Action) : defaultsNs acts = acts.foldl defaultStep [] := rfl

theorem foldDefaults_get {k : String} {v : Scalar} : ∀ (acts : List Action) (ns : Dict String Scalar),
    Dict.get (acts.foldl defaultStep ns) k = some v →
    Dict.get ns k = some v ∨ ∃ a ∈ acts, a.dest = k ∧ a.suppressed = false ∧ a.default = v
  | [], _, h => Or.inl h
  | a :: as, ns, h => by
    simp only [List.foldl_cons] at h
    rcases foldDefaults_get as _ h with h' | ⟨b, hb, hh⟩
    · unfold defaultStep at h'
      by_cases hs : a.suppressed = true
      · simp only [hs, ↓reduceIte] at h'
        exact Or.inl h'
      · simp only [hs, Bool.false_eq_true, ↓reduceIte] at h'
        cases hg : Dict.get ns a.dest with
        | some w => simp only [hg] at h'; exact Or.inl h'
        | none =>
          simp only [hg, Dict.get_set] at h'
          by_cases hk : a.dest = k
          · simp only [hk, ↓reduceIte, Option.some.injEq] at h'
            exact Or.inr ⟨a, List.mem_cons_self, hk, by simpa using hs, h'⟩
          · simp only [hk, ↓reduceIte] at h'
            exact Or.inl h'
    · exact Or.inr ⟨b, List.mem_cons_of_mem _ hb, hh⟩

/-- Every default in the namespace is some non-suppressed action's default. -/
theorem defaultsNs_get {acts : List Action} {k : String} {v : Scalar}
    (h : Dict.get (defaultsNs acts) k = some v) :
    ∃ a ∈ acts, a.dest = k ∧ a.suppressed = false ∧ a.default = v := by
  rw [defaultsNs_eq] at h
  rcases foldDefaults_get acts [] h with h' | h'
  · simp [Dict.get] at h'
  · exact h'

theorem foldDefaults_nodup : ∀ (acts : List Action) (ns : Dict String Scalar), (Dict.keys ns).Nodup →
    (Dict.keys (acts.foldl defaultStep ns)).Nodup
  | [], _, h => h
  | a :: as, ns, h => by
    simp only [List.foldl_cons]
    apply foldDefaults_nodup as
    unfold defaultStep
    split
    · exact h
    · split
      · exact h
      · exact Dict.nodup_set _ _ _ h

theorem defaultsNs_nodup (acts : List Action) : (Dict.keys (defaultsNs acts)).Nodup := by
  rw [defaultsNs_eq]
  exact foldDefaults_nodup acts [] (by simp [Dict.keys])

/-- Core lemma: a key all of whose (non-suppressed) actions have default `None` is in
`priority_options` iff the command line supplied it. -/
theorem priority_iff_given (acts : List Action) (given : Given) (k : String)
    (hdef : ∀ a ∈ acts, a.dest = k → a.suppressed = false → a.default = Scalar.none)
    (hgiven : ∀ kv ∈ given, kv.2 ≠ Scalar.none) :
    k ∈ Dict.keys (priorityOptions acts given) ↔ k ∈ Dict.keys given := by
  have hnd : (Dict.keys (parseNamespace acts given)).Nodup := by
    rw [parseNamespace_eq]; exact Dict.nodup_update _ _ (defaultsNs_nodup acts)
  unfold priorityOptions Dict.keys
  simp only [List.mem_map, List.mem_filter, decide_eq_true_eq, Prod.exists, exists_and_right,
    exists_eq_right]
  constructor
  · rintro ⟨v, hm, hv⟩
    have hg := (Dict.mem_iff_get _ hnd k v).mp hm
    rw [parseNamespace_eq, Dict.get_update] at hg
    cases hr : Dict.rlookup given k with
    | some w => exact ⟨w, Dict.rlookup_some_mem hr⟩
    | none =>
      rw [hr] at hg
      simp only [Option.none_or] at hg
      obtain ⟨a, ha, hd, hs, hdv⟩ := defaultsNs_get hg
      exact absurd (hdv ▸ hdef a ha hd hs) hv
  · rintro ⟨w, hw⟩
    have hk : k ∈ Dict.keys given := List.mem_map.mpr ⟨(k, w), hw, rfl⟩
    cases hr : Dict.rlookup given k with
    | none => exact absurd hk (Dict.rlookup_none_iff.mp hr)
    | some u =>
      refine ⟨u, ?_, hgiven _ (Dict.rlookup_some_mem hr)⟩
      refine (Dict.mem_iff_get _ hnd k u).mpr ?_
      rw [parseNamespace_eq, Dict.get_update, hr]
      rfl

open Ffcx.Generated.Options in
/-- On the parser of this tree: EVERY action that writes an FFCx option — the `store_true` ones
included — has argparse default `None`. -/
theorem cli_only_given_generated :
    ∀ a ∈ actions, a.ffcxOption = true → ∀ b ∈ actions, b.dest = a.dest → b.default = Scalar.none := by
  decide

open Ffcx.Generated.Options in
/-- FULL: the priority dict built by `main` contains an FFCx option iff it was given on the command
line (`given` holds converted values, never `None`). -/
theorem cli_only_given (given : Given) (hgiven : ∀ kv ∈ given, kv.2 ≠ Scalar.none) :
    ∀ a ∈ actions, a.ffcxOption = true →
      (a.dest ∈ Dict.keys (priorityOptions actions given) ↔ a.dest ∈ Dict.keys given) :=
  fun a ha hf => priority_iff_given actions given a.dest
    (fun b hb hd _ => cli_only_given_generated a ha hf b hb hd) hgiven

open Ffcx.Generated.Options in
/-- FULL: an FFCx option that is not on the command line gets its value from
`$PWD/ffcx_options.json`, else the user file, else the defaults — the command line never shadows it. -/
theorem cli_not_given_falls_through (user pwd : Dict String Scalar) (given : Given)
    (hgiven : ∀ kv ∈ given, kv.2 ≠ Scalar.none) :
    ∀ a ∈ actions, a.ffcxOption = true → a.dest ∉ Dict.keys given →
      Dict.get (mainOptions actions defaultDict user pwd given) a.dest =
        (Dict.rlookup pwd a.dest).or ((Dict.rlookup user a.dest).or (Dict.rlookup defaultDict a.dest)) := by
  intro a ha hf hng
  unfold mainOptions
  rw [merge_precedence]
  have : a.dest ∉ Dict.keys (priorityOptions actions given) :=
    fun h => hng ((cli_only_given given hgiven a ha hf).mp h)
  rw [Dict.rlookup_none_iff.mpr this]
  rfl

open Ffcx.Generated.Options in
example : "sum_factorization" ∉ Dict.keys (priorityOptions actions []) ∧
    (∃ a ∈ actions, a.dest = "sum_factorization" ∧ a.ffcxOption = true ∧ a.kind = ActionKind.storeTrue) := by
  decide

open Ffcx.Generated.Options in
/-- `"sum_factorization": true` in `$PWD/ffcx_options.json` now takes effect without the flag … -/
example : Dict.get (mainOptions actions defaultDict [] [("sum_factorization", Scalar.bool true)] [])
    "sum_factorization" = some (Scalar.bool true) := by decide

open Ffcx.Generated.Options in
/-- … and the flag still wins when given. -/
example : Dict.get (mainOptions actions defaultDict [("sum_factorization", Scalar.bool false)] []
    [("sum_factorization", Scalar.bool true)]) "sum_factorization" = some (Scalar.bool true) := by decide

open Ffcx.Generated.Options in
example : Dict.get (mainOptions actions defaultDict [] [("scalar_type", Scalar.str (cs! "float32"))] [])
    "scalar_type" = some (Scalar.str (cs! "float32")) := by decide

open Ffcx.Generated.Options in
example : Dict.keys (priorityOptions actions [("scalar_type", Scalar.str (cs! "float32"))]) =
    ["dir", "visualise", "profile", "scalar_type"] := by decide

/-! ## Header / source consistency of every generated block -/

open Ffcx.Generated.Templates in
/-- What `decl_defined` checks for one block. -/
def blockOk (b : Block) : Bool :=
  -- every name declared in the header text is defined (with external linkage) in the source text
  b.declared.all (fun n => b.defined.contains n) &&
  -- the generated object itself is defined
  (b.factory == "" || b.defined.contains b.factory) &&
  -- forms and expressions have an alias, it points at the generated object, and (C) is declared
  ((b.kind != "form" && b.kind != "expression") ||
    (b.expectedAlias != "" && b.aliases.contains (b.expectedAlias, b.factory) &&
      (b.lang != "C" || b.declared.contains b.expectedAlias))) &&
  -- alias shape: <kind>_<prefix>_<name> with the probe prefix "pfx"
  (b.expectedAlias == "" || (b.kind ++ "_pfx_").toList.isPrefixOf b.expectedAlias.toList) &&
  -- nothing is defined twice
  decide ((b.defined ++ b.statics).Nodup)

open Ffcx.Generated.Templates in
/-- Over the table regenerated from the real generators: every object declared in the header is
defined in the source, aliases point at the generated object. -/
theorem decl_defined : ∀ b ∈ blocks, blockOk b = true := by
  decide

open Ffcx.Generated.Templates in
example : (blocks.filter (fun b => b.declared.length ≥ 2)).length ≥ 4 := by decide
open Ffcx.Generated.Templates in
example : ∃ b ∈ blocks, b.lang = "numba" ∧ b.aliases ≠ [] := by decide

/-! ## format_code -/

/-- Column `i` of a block: the `i`-th string of every tuple, concatenated. -/
def col (b : List (List Str)) (i : Nat) : Str := (b.map fun t => t.getD i []).flatten

/-- Every output file is file_pre ++ integrals ++ forms ++ expressions ++ file_post of its own
column, in this order — the same order in the header and in the source. -/
theorem format_code_concat (c : CodeBlocks) (t0 : List Str) (rest : List (List Str))
    (hpre : c.filePre = t0 :: rest) :
    formatCode c.toList = (List.range t0.length).map fun i =>
      col c.filePre i ++ col c.integrals i ++ col c.forms i ++ col c.expressions i ++ col c.filePost i := by
  simp [formatCode, CodeBlocks.toList, hpre, col]

example : formatCode (CodeBlocks.toList ⟨[[cs! "h0", cs! "c0"]], [[cs! "h1", cs! "c1"], [cs! "h2", cs! "c2"]],
    [[cs! "h3", cs! "c3"]], [], [[cs! "h4", cs! "c4"]]⟩) = [cs! "h0h1h2h3h4", cs! "c0c1c2c3c4"] := by
  decide

/-! ## sanitise_filename -/

theorem collapseAux_ident : ∀ (b : Bool) (l : Str), (∀ c ∈ l, isIdentChar c = true ∨ c = '!') →
    ∀ c ∈ collapseAux b l, isIdentChar c = true
  | _, [], _, c, hc => by simp [collapseAux] at hc
  | b, x :: xs, h, c, hc => by
    have hxs : ∀ c ∈ xs, isIdentChar c = true ∨ c = '!' := fun c hc => h c (List.mem_cons_of_mem _ hc)
    simp only [collapseAux] at hc
    split at hc
    · split at hc
      · exact collapseAux_ident true xs hxs c hc
      · rcases List.mem_cons.mp hc with rfl | hc
        · decide
        · exact collapseAux_ident true xs hxs c hc
    · rename_i hx
      rcases List.mem_cons.mp hc with rfl | hc
      · rcases h c List.mem_cons_self with h' | h'
        · exact h'
        · exact absurd h' hx
      · exact collapseAux_ident false xs hxs c hc

/-- `sanitise_filename` always yields identifier characters only (a valid C identifier fragment
after `form_` / `expression_`). -/
theorem sanitise_ident (name : Str) : (sanitiseFilename name).all isIdentChar = true := by
  simp only [List.all_eq_true]
  intro c hc
  unfold sanitiseFilename collapseBang at hc
  refine collapseAux_ident false _ ?_ c hc
  intro d hd
  obtain ⟨e, _, rfl⟩ := List.mem_map.mp hd
  by_cases he : isIdentChar e = true
  · simp [he]
  · simp [he]

example : sanitiseFilename (cs! "dir/my-form.v2.ufl") = cs! "my_form_v2" := by decide
example : sanitiseFilename (cs! "a!!b--c.ufl") = cs! "a_b_c" := by decide

/-- Together with C13 `alias_valid`: the alias of a named form is a valid C identifier. -/
theorem cli_alias_valid (file name : Str) (hn : name.all isIdentChar = true) :
    validIdent (aliasName (cs! "form") (sanitiseFilename file) name) = true := by
  unfold aliasName
  refine validIdent_append (by decide) ?_
  simp only [List.all_cons, List.all_append, Bool.and_eq_true]
  exact ⟨by decide, sanitise_ident file, by decide, hn⟩

end Ffcx.Cli
