/-
C03 — interior-facet results do not depend on local vertex numbering.
Property theorems (DESIGN.md §6 C03).  Models: `FfcxModel/IR/Perm.lean` (permutations, table rows,
`table_access`), `FfcxModel/LNodes/Sem.lean` (kernel semantics, for the flag theorem).
Helper lemmas: `FfcxProofs/Lemmas/Geom.lean`, `FfcxProofs/Lemmas/GeomIndep.lean`.

Theorems: `perm_group_interval/triangle/quad`, `perm_compose` (+ `perm_compose_order_matters`),
`aligning_code_exists`, `aligned_invariance`, `table_access_spec`, `drop_perm_axis`,
`flag_false_independent`.  All are proved at full strength over exact arithmetic
(floating-point rounding is outside every theorem, DESIGN §5).
-/
import FfcxProofs.Lemmas.Geom
import FfcxProofs.Lemmas.GeomIndep

namespace Ffcx.C03
open Ffcx.Perm Ffcx.Lemmas.Geom
set_option linter.unusedSimpArgs false

/-! ## The permutation codes are exactly the symmetry group of the reference facet -/

/-- **Interval facets (triangle/quadrilateral cells), group S₂.**
For every vertex permutation σ of the reference interval there is exactly one code `N < 2` whose
point map `permute_quadrature_interval(·, reflections = N % 2)` is the affine map `T_σ` sending
vertex `i` to vertex `σ i` — for all points of any commutative ring; conversely every code is
such a map; and `N = 2·(N/2) + N%2` with no rotation. -/
theorem perm_group_interval :
    (∀ σ, σ ∈ S2 → ∃ N, N < 2 ∧
        (∀ {R : Type} [Lean.Grind.CommRing R] (x : R), permuteInterval (codeRef N) x = affI σ x) ∧
        (∀ N', N' < 2 → (∀ x : Rat, permuteInterval (codeRef N') x = affI σ x) → N' = N)) ∧
    (∀ N, N < 2 → ∃ σ, σ ∈ S2 ∧
        ∀ {R : Type} [Lean.Grind.CommRing R] (x : R), permuteInterval (codeRef N) x = affI σ x) ∧
    (∀ N, N < 2 → codeRot N = 0 ∧ codeRef N < 2 ∧ N = 2 * codeRot N + codeRef N) := by
  obtain ⟨_, hmem, hsur, huniq⟩ := codesBijective_spec bij_interval
  refine ⟨?_, ?_, ?_⟩
  · intro σ hσ
    obtain ⟨N, hN, hs⟩ := hsur σ hσ
    refine ⟨N, hN, ?_, ?_⟩
    · intro R _ x; rw [← hs]; exact interval_code_affine N hN x
    · intro N' hN' h
      apply huniq σ hσ N' N hN' hN
      · simp only [agreesI, List.all_eq_true, decide_eq_true_eq]; intro i _; exact h _
      · simp only [agreesI, List.all_eq_true, decide_eq_true_eq]; intro i _
        rw [← hs]; exact interval_code_affine N hN _
  · intro N hN
    exact ⟨_, hmem N hN, fun x => interval_code_affine N hN x⟩
  · intro N hN; simp only [codeRot, codeRef]; omega

/-- **Triangle facets (tetrahedron), group S₃** — as `perm_group_interval`, with
`permute_quadrature_triangle(·, reflections = N % 2, rotations = N / 2)` and 6 codes. -/
theorem perm_group_triangle :
    (∀ σ, σ ∈ S3 → ∃ N, N < 6 ∧
        (∀ {R : Type} [Lean.Grind.CommRing R] (p : R × R),
          permuteTriangle (codeRef N) (codeRot N) p = affT σ p) ∧
        (∀ N', N' < 6 →
          (∀ p : Rat × Rat, permuteTriangle (codeRef N') (codeRot N') p = affT σ p) → N' = N)) ∧
    (∀ N, N < 6 → ∃ σ, σ ∈ S3 ∧
        ∀ {R : Type} [Lean.Grind.CommRing R] (p : R × R),
          permuteTriangle (codeRef N) (codeRot N) p = affT σ p) ∧
    (∀ N, N < 6 → codeRot N < 3 ∧ codeRef N < 2 ∧ N = 2 * codeRot N + codeRef N) := by
  obtain ⟨_, hmem, hsur, huniq⟩ := codesBijective_spec bij_triangle
  refine ⟨?_, ?_, ?_⟩
  · intro σ hσ
    obtain ⟨N, hN, hs⟩ := hsur σ hσ
    refine ⟨N, hN, ?_, ?_⟩
    · intro R _ p; rw [← hs]; exact triangle_code_affine N hN p
    · intro N' hN' h
      apply huniq σ hσ N' N hN' hN
      · simp only [agreesT, List.all_eq_true, decide_eq_true_eq]; intro i _; exact h _
      · simp only [agreesT, List.all_eq_true, decide_eq_true_eq]; intro i _
        rw [← hs]; exact triangle_code_affine N hN _
  · intro N hN
    exact ⟨_, hmem N hN, fun p => triangle_code_affine N hN p⟩
  · intro N hN; simp only [codeRot, codeRef]; omega

/-- **Quadrilateral facets (hexahedron), group D₄** (the 8 vertex permutations of the square
induced by affine maps, `D4`) — with `permute_quadrature_quadrilateral` and 8 codes. -/
theorem perm_group_quad :
    (∀ σ, σ ∈ D4 → ∃ N, N < 8 ∧
        (∀ {R : Type} [Lean.Grind.CommRing R] (p : R × R),
          permuteQuad (codeRef N) (codeRot N) p = affQ σ p) ∧
        (∀ N', N' < 8 →
          (∀ p : Rat × Rat, permuteQuad (codeRef N') (codeRot N') p = affQ σ p) → N' = N)) ∧
    (∀ N, N < 8 → ∃ σ, σ ∈ D4 ∧
        ∀ {R : Type} [Lean.Grind.CommRing R] (p : R × R),
          permuteQuad (codeRef N) (codeRot N) p = affQ σ p) ∧
    (∀ N, N < 8 → codeRot N < 4 ∧ codeRef N < 2 ∧ N = 2 * codeRot N + codeRef N) := by
  obtain ⟨_, hmem, hsur, huniq⟩ := codesBijective_spec bij_quad
  refine ⟨?_, ?_, ?_⟩
  · intro σ hσ
    obtain ⟨N, hN, hs⟩ := hsur σ hσ
    refine ⟨N, hN, ?_, ?_⟩
    · intro R _ p; rw [← hs]; exact quad_code_affine N hN p
    · intro N' hN' h
      apply huniq σ hσ N' N hN' hN
      · simp only [agreesQ, List.all_eq_true, decide_eq_true_eq]; intro i _; exact h _
      · simp only [agreesQ, List.all_eq_true, decide_eq_true_eq]; intro i _
        rw [← hs]; exact quad_code_affine N hN _
  · intro N hN
    exact ⟨_, hmem N hN, fun p => quad_code_affine N hN p⟩
  · intro N hN; simp only [codeRot, codeRef]; omega

/-- The groups have the expected sizes and `D4` is a proper subgroup of S₄ (non-vacuity of the
quantifiers above). -/
example : S2.length = 2 ∧ S3.length = 6 ∧ D4.length = 8 ∧ [1, 0, 2, 3] ∉ D4 := by decide +kernel

/-- Concrete instance: code 3 of a triangle facet (1 rotation, 1 reflection) swaps vertices 0 and 1,
`(x, y) ↦ (1 - x - y, y)`. -/
example (x y : Rat) : permuteTriangle (codeRef 3) (codeRot 3) (x, y) = (1 - x - y, y) := by
  simp [permuteTriangle, codeRef, codeRot, iter, rotateTriangle, reflect2]

/-! ## Order of rotation and reflection -/

/-- composition of vertex permutations given as image lists: `(σ ∘ τ) i = σ (τ i)` -/
def composePerm (σ τ : List Nat) : List Nat := τ.map (fun i => σ.getD i 0)

def iterPerm (σ : List Nat) (n k : Nat) : List Nat := iter (composePerm σ) k (List.range n)

/-- `permute(ref, rot) = reflectʳᵉᶠ ∘ rotateʳᵒᵗ`: the rotations are applied to the point first,
the reflections second (all three functions; the interval has no rotation).  In group terms: the
vertex permutation of code `2·rot+ref` is `s_ref^ref ∘ s_rot^rot` where `s_rot`, `s_ref` are the
permutations of codes 2 and 1.  `perm_compose_order_matters` shows the other order is a different
function, so swapping the two loops in the source breaks this theorem. -/
theorem perm_compose :
    (∀ {R : Type} [Lean.Grind.CommRing R] (ref rot : Nat) (p : R × R),
        permuteTriangle ref rot p = iter reflect2 ref (iter rotateTriangle rot p) ∧
        permuteQuad ref rot p = iter reflect2 ref (iter rotateQuad rot p)) ∧
    (∀ rot ref, rot < 3 → ref < 2 → sigmaOfCode .triangle (2 * rot + ref) =
        composePerm (iterPerm (sigmaOfCode .triangle 1) 3 ref) (iterPerm (sigmaOfCode .triangle 2) 3 rot)) ∧
    (∀ rot ref, rot < 4 → ref < 2 → sigmaOfCode .quadrilateral (2 * rot + ref) =
        composePerm (iterPerm (sigmaOfCode .quadrilateral 1) 4 ref)
          (iterPerm (sigmaOfCode .quadrilateral 2) 4 rot)) := by
  refine ⟨fun ref rot p => ⟨rfl, rfl⟩, ?_, ?_⟩
  · have h : ((List.range 3).all fun rot => (List.range 2).all fun ref =>
        sigmaOfCode .triangle (2 * rot + ref) ==
          composePerm (iterPerm (sigmaOfCode .triangle 1) 3 ref)
            (iterPerm (sigmaOfCode .triangle 2) 3 rot)) = true := by decide +kernel
    simp only [List.all_eq_true, List.mem_range, beq_iff_eq] at h
    exact fun rot ref hr hf => h rot hr ref hf
  · have h : ((List.range 4).all fun rot => (List.range 2).all fun ref =>
        sigmaOfCode .quadrilateral (2 * rot + ref) ==
          composePerm (iterPerm (sigmaOfCode .quadrilateral 1) 4 ref)
            (iterPerm (sigmaOfCode .quadrilateral 2) 4 rot)) = true := by decide +kernel
    simp only [List.all_eq_true, List.mem_range, beq_iff_eq] at h
    exact fun rot ref hr hf => h rot hr ref hf

/-- Reflect-then-rotate is a different map (witness point `(1/4, 1/2)`, one rotation and one
reflection), for the triangle and for the quadrilateral; and the swapped group product differs. -/
theorem perm_compose_order_matters :
    iter reflect2 1 (iter rotateTriangle 1 ((1/4, 1/2) : Rat × Rat)) ≠
      iter rotateTriangle 1 (iter reflect2 1 ((1/4, 1/2) : Rat × Rat)) ∧
    iter reflect2 1 (iter rotateQuad 1 ((1/4, 1/2) : Rat × Rat)) ≠
      iter rotateQuad 1 (iter reflect2 1 ((1/4, 1/2) : Rat × Rat)) ∧
    sigmaOfCode .triangle 3 ≠
      composePerm (iterPerm (sigmaOfCode .triangle 2) 3 1) (iterPerm (sigmaOfCode .triangle 1) 3 1) := by
  decide +kernel

/-! ## Aligning codes exist and are unique -/

/-- If one side sees the facet through the vertex relabelling `τ` (its parametrisation is
`Ψ ∘ T_τ` for the common parametrisation `Ψ`), then exactly one code undoes it:
`T_τ (permute_N X) = X` for all points `X` (S₂, S₃, D₄). -/
theorem aligning_code_exists :
    (∀ τ, τ ∈ S2 → ∃ N, N < 2 ∧
      (∀ {R : Type} [Lean.Grind.CommRing R] (x : R), affI τ (permuteInterval (codeRef N) x) = x) ∧
      ∀ N', N' < 2 → (∀ x : Rat, affI τ (permuteInterval (codeRef N') x) = x) → N' = N) ∧
    (∀ τ, τ ∈ S3 → ∃ N, N < 6 ∧
      (∀ {R : Type} [Lean.Grind.CommRing R] (p : R × R),
        affT τ (permuteTriangle (codeRef N) (codeRot N) p) = p) ∧
      ∀ N', N' < 6 →
        (∀ p : Rat × Rat, affT τ (permuteTriangle (codeRef N') (codeRot N') p) = p) → N' = N) ∧
    (∀ τ, τ ∈ D4 → ∃ N, N < 8 ∧
      (∀ {R : Type} [Lean.Grind.CommRing R] (p : R × R),
        affQ τ (permuteQuad (codeRef N) (codeRot N) p) = p) ∧
      ∀ N', N' < 8 →
        (∀ p : Rat × Rat, affQ τ (permuteQuad (codeRef N') (codeRot N') p) = p) → N' = N) := by
  refine ⟨?_, ?_, ?_⟩
  · obtain ⟨_, _, hsur, huniq⟩ := codesBijective_spec align_bij_interval
    intro τ hτ
    obtain ⟨N, hN, hs⟩ := hsur τ hτ
    refine ⟨N, hN, fun x => by rw [← hs]; exact interval_code_align N hN x, ?_⟩
    intro N' hN' h
    apply huniq τ hτ N' N hN' hN
    · simp only [alignsI, List.all_eq_true, decide_eq_true_eq]; intro i _; exact h _
    · simp only [alignsI, List.all_eq_true, decide_eq_true_eq]; intro i _
      rw [← hs]; exact interval_code_align N hN _
  · obtain ⟨_, _, hsur, huniq⟩ := codesBijective_spec align_bij_triangle
    intro τ hτ
    obtain ⟨N, hN, hs⟩ := hsur τ hτ
    refine ⟨N, hN, fun p => by rw [← hs]; exact triangle_code_align N hN p, ?_⟩
    intro N' hN' h
    apply huniq τ hτ N' N hN' hN
    · simp only [alignsT, List.all_eq_true, decide_eq_true_eq]; intro i _; exact h _
    · simp only [alignsT, List.all_eq_true, decide_eq_true_eq]; intro i _
      rw [← hs]; exact triangle_code_align N hN _
  · obtain ⟨_, _, hsur, huniq⟩ := codesBijective_spec align_bij_quad
    intro τ hτ
    obtain ⟨N, hN, hs⟩ := hsur τ hτ
    refine ⟨N, hN, fun p => by rw [← hs]; exact quad_code_align N hN p, ?_⟩
    intro N' hN' h
    apply huniq τ hτ N' N hN' hN
    · simp only [alignsQ, List.all_eq_true, decide_eq_true_eq]; intro i _; exact h _
    · simp only [alignsQ, List.all_eq_true, decide_eq_true_eq]; intro i _
      rw [← hs]; exact quad_code_align N hN _

/-! ## Invariance of the facet sum under aligned codes -/

/-- `Σ_q w_q · g(x_q⁺, x_q⁻)` over paired lists (weights, '+' points, '-' points). -/
def facetSum {R P : Type} [Add R] [Mul R] [OfNat R 0] (g : P → P → R) :
    List R → List P → List P → R
  | w :: ws, a :: as, b :: bs => w * g a b + facetSum g ws as bs
  | _, _, _ => 0

/-- **Aligned invariance.** `X` are the reference-facet quadrature points, `Ψ` the common
(numbering independent) physical parametrisation of the shared facet.  A numbering of the two
cells gives each side `r` a facet-to-physical map `Φ_r` and a code whose point map is `π_r`;
the codes are *aligned* when `Φ_r (π_r X_q) = Ψ X_q` for every quadrature point on both sides.
Then the facet sum of any integrand `g` of the two sides' physical points, with the weights paired
to the points by index `q`, is the same for any two numberings with their aligned codes. -/
theorem aligned_invariance {R P Q : Type} [Add R] [Mul R] [OfNat R 0]
    (g : P → P → R) (ws : List R) (X : List Q) (Ψ : Q → P)
    (Φp Φm Φp' Φm' : Q → P) (πp πm πp' πm' : Q → Q)
    (hp : ∀ x, x ∈ X → Φp (πp x) = Ψ x) (hm : ∀ x, x ∈ X → Φm (πm x) = Ψ x)
    (hp' : ∀ x, x ∈ X → Φp' (πp' x) = Ψ x) (hm' : ∀ x, x ∈ X → Φm' (πm' x) = Ψ x) :
    facetSum g ws (X.map (fun x => Φp (πp x))) (X.map (fun x => Φm (πm x))) =
    facetSum g ws (X.map (fun x => Φp' (πp' x))) (X.map (fun x => Φm' (πm' x))) := by
  have e1 : X.map (fun x => Φp (πp x)) = X.map Ψ := List.map_congr_left hp
  have e2 : X.map (fun x => Φm (πm x)) = X.map Ψ := List.map_congr_left hm
  have e3 : X.map (fun x => Φp' (πp' x)) = X.map Ψ := List.map_congr_left hp'
  have e4 : X.map (fun x => Φm' (πm' x)) = X.map Ψ := List.map_congr_left hm'
  rw [e1, e2, e3, e4]

/-- Non-vacuity of `aligned_invariance`: a triangle facet seen by the '-' side with vertices 0,1
swapped (`τ = [1,0,2]`), aligned by code 3; `Ψ` the identity, three points, `g` a non-symmetric
integrand. -/
example :
    let X : List (Rat × Rat) := [(1/6, 1/6), (2/3, 1/6), (1/6, 2/3)]
    facetSum (fun a b : Rat × Rat => a.1 * b.2 + 2 * b.1) [1/6, 1/6, 1/6]
        (X.map (fun x => x)) (X.map (fun x => affT [1, 0, 2] (permuteTriangle (codeRef 3) (codeRot 3) x)))
      = facetSum (fun a b : Rat × Rat => a.1 * b.2 + 2 * b.1) [1/6, 1/6, 1/6] X X := by
  decide +kernel

/-! ## What a kernel reads from a permuted table -/

/-- **Row order and consumption.** For a facet type with reflections (`numRef = 2`), the table
built by the nested `for rot: for ref:` loops, read through `table_access` with flags
permuted/non-uniform/non-piecewise on side `minus` whose code is `N = quadrature_permutation[r]`
(`N < numCodes`), yields the basis function `d` at the entity map of the point permuted with
`rotations = N / 2`, `reflections = N % 2`. -/
theorem table_access_spec {P V : Type} [Inhabited V] (t : FacetType) (ht : t.numRef = 2)
    (perm : Nat → Nat → P → P) (F : Nat → P → P) (phi : Nat → P → V) (nent ndof : Nat)
    (X : List P) (dP : P) (minus : Bool) (qperm : List Nat) (e q d : Nat)
    (hN : qperm.getD (if minus then 1 else 0) 0 < t.numCodes)
    (he : e < nent) (hq : q < X.length) (hd : d < ndof) :
    let N := qperm.getD (if minus then 1 else 0) 0
    tableAccess (buildTable t perm F phi nent ndof X) ⟨true, false, false⟩ minus qperm e q d
      = phi d (F e (perm (codeRef N) (codeRot N) (X.getD q dP))) := by
  intro N
  have hN' : N < t.numRot * 2 := by
    have := hN; simp only [FacetType.numCodes, ht] at this; exact this
  have hrow : (buildTable t perm F phi nent ndof X)[N]? = some
      ((List.range nent).map (fun e =>
        X.map (fun x => (List.range ndof).map (fun d => phi d (F e (perm (codeRef N) (codeRot N) x)))))) := by
    have := permRows_get t.numRot t.numRef (fun ref rot =>
      (List.range nent).map (fun e =>
        X.map (fun x => (List.range ndof).map (fun d => phi d (F e (perm ref rot x))))))
      (codeRot N) (codeRef N) (by simp only [codeRot]; omega) (by simp only [codeRef, ht]; omega)
    have hidx : t.numRef * codeRot N + codeRef N = N := by simp only [codeRot, codeRef, ht]; omega
    rw [hidx] at this
    exact this
  have hqp : (tableSubscripts ⟨true, false, false⟩ minus qperm e q) = (N, e, q) := by
    cases minus <;> simp [tableSubscripts, N]
  simp only [tableAccess, hqp, Table.get, List.getD_eq_getElem?_getD, hrow, Option.getD_some]
  simp [he, hq, hd, List.getD_eq_getElem?_getD]

/-- Non-vacuity: a 2-entity, 2-point, 2-dof table on a triangle facet; code 3 on the '-' side. -/
example :
    tableAccess (buildTable .triangle (fun ref rot => permuteTriangle (R := Rat) ref rot)
        (fun e p => (p.1 + e, p.2)) (fun d p => if d = 0 then p.1 else p.2) 2 2
        [(1/4, 1/2), (1/8, 1/8)]) ⟨true, false, false⟩ true [0, 3] 1 0 0 = 5/4 := by
  decide +kernel

/-! ## Dropping the permutation axis -/

/-- If `is_permuted_table` is false, `build_optimized_tables` keeps only row 0 and `table_access`
reads row 0 for every code; every entry of every dropped row `p` is within the `allclose`
tolerance of the entry used instead: `|t[0][e][q][d] − t[p][e][q][d]| ≤ atol + rtol·|t[p][e][q][d]|`. -/
theorem drop_perm_axis (rtol atol : Rat) (t : Table Rat)
    (h : isPermutedTable rtol atol t = false) :
    dropPermAxis rtol atol t = t.take 1 ∧
    (∀ (minus : Bool) (qperm : List Nat) (e q : Nat) (u pw : Bool),
        (tableSubscripts ⟨false, u, pw⟩ minus qperm e q).1 = 0) ∧
    (∀ p e q d, 0 < p → p < t.length → e < (t.getD p []).length →
        q < ((t.getD p []).getD e []).length → d < (((t.getD p []).getD e []).getD q []).length →
        absR (t.get 0 e q d - t.get p e q d) ≤ atol + rtol * absR (t.get p e q d)) := by
  refine ⟨by simp [dropPermAxis, h], by intros; simp [tableSubscripts], ?_⟩
  intro p e q d hp0 hp he hq hd
  match t, h with
  | [], _ => simp at hp
  | t0 :: rest, h =>
    simp only [isPermutedTable, Bool.not_eq_false', List.all_eq_true] at h
    obtain ⟨p', rfl⟩ : ∃ p', p = p' + 1 := ⟨p - 1, by omega⟩
    have hp' : p' < rest.length := by simpa using hp
    have hmem : rest[p'] ∈ rest := List.getElem_mem hp'
    have hc := h _ hmem
    have hrow : (t0 :: rest).getD (p' + 1) [] = rest[p'] := by
      simp [List.getD_eq_getElem?_getD, hp']
    rw [hrow] at he hq hd
    have := allClose3_get rtol atol t0 rest[p'] hc e q d he hq hd
    rw [isClose_iff] at this
    have hd0 : (default : Rat) = 0 := rfl
    simp only [Table.get, List.getD_eq_getElem?_getD, List.getElem?_cons_succ, List.getElem?_cons_zero,
      List.getElem?_eq_getElem hp', Option.getD_some, hd0] at this ⊢
    exact this

/-- Non-vacuity: a two-row table whose rows differ by 1e-10 is classified not permuted
(rtol 1e-6, atol 1e-9), and a clearly different one is permuted. -/
example :
    isPermutedTable (1/1000000) (1/1000000000) [[[[1, 2]]], [[[1 + 1/10000000000, 2]]]] = false ∧
    isPermutedTable (1/1000000) (1/1000000000) [[[[1, 2]]], [[[2, 1]]]] = true := by
  decide +kernel

/-! ## Kernels flagged `needs_facet_permutations = false` -/

open Ffcx.LNodes Ffcx.Lemmas.GeomIndep Ffcx.Perm in
/-- `readsPerm`: the kernel AST subscripts the array `quadrature_permutation` somewhere
(the static predicate evaluated by the harness on every real interior-facet AST). -/
def readsPerm (k : Ffcx.LNodes.Stmt) : Bool := readsS "quadrature_permutation" k

open Ffcx.LNodes Ffcx.Lemmas.GeomIndep Ffcx.Perm in
/-- **Frame theorem (over the real LNodes semantics `Sem.exec`, any scalar carrier).**
A kernel whose AST never reads `quadrature_permutation` returns a result that does not depend on
that argument: replacing its contents by any `qp` gives the same error, or the same final state
(all scalar variables and arrays, in particular `A`) up to the replaced argument itself.

The generator-side obligation `needs_facet_permutations = false → readsPerm ast = false` is
checked by `harness/props/c03.py` on every interior-facet kernel (DESIGN §7 F13 — one-sided
integrands flagged false while reading `quadrature_permutation[0]` — was a violation of that
obligation, fixed in /repo f56077e; the check stays armed under `flag:one-sided-dS:reads-perm`). -/
theorem flag_false_independent {R : Type} [Add R] [Sub R] [Mul R] [Div R] [Neg R] [IntCast R]
    (x : Extra R) (k : Stmt) (h : readsPerm k = false) (σ : St R) (qp : Array Int) :
    let σ' : St R := setIA σ (σ.ia.set "quadrature_permutation" qp)
    match exec x k σ with
    | .error e => exec x k σ' = .error e
    | .ok τ => exec x k σ' = .ok (setIA τ (σ.ia.set "quadrature_permutation" qp)) ∧
        ∀ τ', exec x k σ' = .ok τ' → τ'.sa = τ.sa ∧ τ'.sv = τ.sv := by
  intro σ'
  have h0 : ∀ n, n ≠ "quadrature_permutation" →
      σ.ia.get n = (σ.ia.set "quadrature_permutation" qp).get n := by
    intro n hn; rw [AList.get_set_ne _ _ _ _ (Ne.symm hn)]
  have := exec_agree (x := x) h0 k σ rfl h
  cases hk : exec x k σ with
  | error e => rw [hk] at this; simpa [Rel] using this
  | ok τ =>
    rw [hk] at this
    simp only [Rel] at this
    refine ⟨this.2, ?_⟩
    intro τ' hτ'
    have e : τ' = setIA τ (σ.ia.set "quadrature_permutation" qp) := by
      have := this.2; simp only [σ'] at hτ'; rw [hτ'] at this; injection this
    subst e; exact ⟨rfl, rfl⟩

open Ffcx.LNodes Ffcx.Lemmas.GeomIndep Ffcx.Perm in
/-- Non-vacuity: a two-statement kernel reading `entity_local_index` but not
`quadrature_permutation`; and the static predicate does fire on a kernel that reads it. -/
example :
    readsPerm (.block [.addAssign (.idx "A" .scalar [.litI 0])
        (.idx "T" .real [.idx "entity_local_index" .int [.litI 0], .litI 0])]) = false ∧
    readsPerm (.block [.addAssign (.idx "A" .scalar [.litI 0])
        (.idx "T" .real [.idx "quadrature_permutation" .int [.litI 0], .litI 0])]) = true := by
  decide

end Ffcx.C03
